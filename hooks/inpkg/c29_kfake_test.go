package kfake

// C29 part (b): kfake's idempotent-producer sequence window
// (pidwindow.pushAndValidate, pkg/kfake/txns.go) against a reference model of
// what Kafka specifies (ProducerStateEntry/ProducerAppendInfo):
//
//   - sequences advance modulo 2^31: after (s,n) the next batch starts at
//     (s+n) mod 2^31;
//   - a batch equal (first sequence and record count) to one of the last five
//     appended batches is a duplicate and is answered with that batch's
//     original base offset, nothing is appended;
//   - otherwise a batch is accepted iff its first sequence is the expected
//     next one (or it is the first batch of a producer / of a new epoch, the
//     latter only with first sequence 0);
//   - anything else is out of order.
//
// The harness walks chains of accepted batches that start near the wrap
// boundary (depth-first, every chain of batch sizes over a small alphabet up
// to a depth), and at EVERY reached window state runs the whole probe set on
// copies of the real window: all retried duplicates, same first sequence with
// a different count, every first sequence within +-3 of the expected one, the
// correct next batch with every boundary batch size, and an epoch bump.
//
// It writes a JSON summary to $C29_OUT; checks/c29/main.go aggregates it.

import (
	"encoding/json"
	"fmt"
	"hash/fnv"
	"os"
	"sort"
	"strconv"
	"sync"
	"sync/atomic"
	"testing"
)

const (
	c29Mod    = int64(1) << 31
	c29BadMod = c29Mod - 1 // the modulus a "% math.MaxInt32" implementation uses
)

// ---------------------------------------------------------------- reference

type c29Entry struct {
	first, n int32
	off      int64
}

// c29Model is the reference window. mod is 2^31 for the specification; the
// same model with mod 2^31-1 is only used to CLASSIFY a failure (is the
// observed wrong answer exactly what a mod-(2^31-1) broker would say?).
type c29Model struct {
	mod   int64
	seen  bool
	epoch int16
	next  int32
	win   [5]c29Entry // oldest first
	cnt   int
}

type c29Res struct {
	Ok  bool  `json:"ok"`
	Dup bool  `json:"dup"`
	Off int64 `json:"dup_offset"` // meaningful only if Dup
}

func (r c29Res) String() string {
	switch {
	case r.Ok && r.Dup:
		return fmt.Sprintf("duplicate(original offset %d)", r.Off)
	case r.Ok:
		return "accepted"
	default:
		return "out-of-order"
	}
}

func (m *c29Model) add(first, n int32, off int64) {
	if m.cnt == 5 {
		copy(m.win[:], m.win[1:])
		m.cnt = 4
	}
	m.win[m.cnt] = c29Entry{first, n, off}
	m.cnt++
}

// eval says what the specification answers to a batch; it changes nothing.
func (m *c29Model) eval(epoch int16, first, n int32) c29Res {
	if !m.seen || epoch != m.epoch {
		if m.seen && first != 0 {
			return c29Res{}
		}
		return c29Res{Ok: true}
	}
	for i := 0; i < m.cnt; i++ {
		if e := m.win[i]; e.first == first && e.n == n {
			return c29Res{Ok: true, Dup: true, Off: e.off}
		}
	}
	if first != m.next {
		return c29Res{}
	}
	return c29Res{Ok: true}
}

// push is eval plus the state change of an appended batch.
func (m *c29Model) push(epoch int16, first, n int32, off int64) c29Res {
	r := m.eval(epoch, first, n)
	if r.Ok && !r.Dup {
		if !m.seen || epoch != m.epoch {
			m.seen, m.epoch, m.cnt = true, epoch, 0
		}
		m.next = int32((int64(first) + int64(n)) % m.mod)
		m.add(first, n, off)
	}
	return r
}

// ---------------------------------------------------------------- reporting

type c29Step struct {
	Epoch int16 `json:"epoch"`
	First int32 `json:"first_sequence"`
	N     int32 `json:"num_records"`
	Off   int64 `json:"base_offset"`
}

type c29Case struct {
	Part     string    `json:"part"`
	Chain    []c29Step `json:"accepted_chain"` // batches accepted so far, in order, on a fresh window
	Probe    c29Step   `json:"probe"`          // the batch whose answer is wrong
	Kind     string    `json:"probe_kind"`
	Expected c29Res    `json:"expected"`
	Got      c29Res    `json:"got"`
	Mutated  bool      `json:"window_state_changed_by_rejected_or_duplicate_probe,omitempty"`
}

type c29Viol struct {
	Key      string  `json:"key"`
	What     string  `json:"what"`
	Count    int64   `json:"count"`
	Artefact c29Case `json:"artefact"`
}

type c29Summary struct {
	Part        string         `json:"part"`
	Evaluations int64          `json:"evaluations"`
	Nontrivial  int64          `json:"nontrivial"`
	Distinct    []uint64       `json:"distinct"`
	Samples     []any          `json:"samples"`
	Sets        map[string]any `json:"sets"`
	Violations  []c29Viol      `json:"violations"`
}

func c29Hash(s string) uint64 { h := fnv.New64a(); h.Write([]byte(s)); return h.Sum64() }

// caseLess orders failing cases so that the reported one is minimal: shortest
// chain, smallest first batch, then closest to / lowest at the boundary.
func c29CaseLess(a, b *c29Case) bool {
	if len(a.Chain) != len(b.Chain) {
		return len(a.Chain) < len(b.Chain)
	}
	for i := range a.Chain {
		if a.Chain[i].N != b.Chain[i].N {
			return a.Chain[i].N < b.Chain[i].N
		}
	}
	if len(a.Chain) > 0 && a.Chain[0].First != b.Chain[0].First {
		return a.Chain[0].First < b.Chain[0].First
	}
	if a.Kind != b.Kind {
		return a.Kind < b.Kind
	}
	if a.Probe.N != b.Probe.N {
		return a.Probe.N < b.Probe.N
	}
	return a.Probe.First < b.Probe.First
}

type c29Stats struct {
	evals      int64 // pushAndValidate calls compared with the reference
	nodes      int64 // window states reached
	nodesWrap  int64 // ... whose history contains a batch with s+n >= 2^31-1
	chains     int64 // maximal chains
	byKind     [c29NKinds]int64
	viol       map[string]*c29Viol
	distinct   map[uint64]struct{}
	maxDepth   int
	evictProbe int64
}

func newC29Stats() *c29Stats {
	return &c29Stats{viol: map[string]*c29Viol{}, distinct: map[uint64]struct{}{}}
}

func (st *c29Stats) merge(o *c29Stats) {
	st.evals += o.evals
	st.nodes += o.nodes
	st.nodesWrap += o.nodesWrap
	st.chains += o.chains
	st.evictProbe += o.evictProbe
	if o.maxDepth > st.maxDepth {
		st.maxDepth = o.maxDepth
	}
	for k, v := range o.byKind {
		st.byKind[k] += v
	}
	for h := range o.distinct {
		st.distinct[h] = struct{}{}
	}
	for k, v := range o.viol {
		if cur := st.viol[k]; cur == nil {
			st.viol[k] = v
		} else {
			cur.Count += v.Count
			if c29CaseLess(&v.Artefact, &cur.Artefact) {
				cur.Artefact, cur.What = v.Artefact, v.What
			}
		}
	}
}

// ---------------------------------------------------------------- explorer

const (
	c29KFirstBatch = iota
	c29KChainExtension
	c29KCorrectNext
	c29KRetriedDuplicate
	c29KSameFirstSeqOtherCount
	c29KRetryOfEvictedBatch
	c29KNeighbourOfExpected
	c29KNewEpochNonzeroFirstSeq
	c29KNewEpochFirstBatch
	c29KOldEpochBatchUnderNewEpoch
	c29NKinds
)

var c29KindNames = [c29NKinds]string{"first-batch", "chain-extension", "correct-next", "retried-duplicate", "same-first-seq-other-count", "retry-of-evicted-batch", "neighbour-of-expected", "new-epoch-nonzero-first-seq", "new-epoch-first-batch", "old-epoch-batch-under-new-epoch"}

type c29Explorer struct {
	st      *c29Stats
	nextNs  []int32 // batch sizes used to extend a chain
	probeNs []int32 // batch sizes of the +-3 neighbour probes
	allNs   []int32 // batch sizes of the "correct next" probe
	bumpNs  []int32 // batch sizes of the first batch of a bumped epoch
	depth   int
	wide    bool
	hist    []c29Step
	ws      [10]pidwindow // per chain depth: the real window ...
	refs    [10]c29Model  // ... the reference model ...
	alts    [10]c29Model  // ... and the mod-(2^31-1) classifier model
}

// behavesLikeBadModulus: in state w (reached by the history both models
// followed), does the real window answer the two decisive questions -- a batch
// at the sequence a mod-(2^31-1) window expects next, and a batch at the
// sequence Kafka expects next -- the way the mod-(2^31-1) model does?
func c29BehavesLikeBadModulus(w *pidwindow, ref, alt *c29Model) bool {
	if !ref.seen || ref.next == alt.next {
		return false // the two moduli do not differ here
	}
	for _, f := range [2]int32{alt.next, ref.next} {
		// a batch size that cannot be mistaken for a retried duplicate
		n := int32(1)
		for i := 0; i < ref.cnt; i++ {
			if ref.win[i].first == f && ref.win[i].n == n {
				n, i = n+1, -1
			}
		}
		wc := *w
		ok, dup, off := wc.pushAndValidate(ref.epoch, f, n, 0)
		got := c29Res{Ok: ok, Dup: dup}
		if dup {
			got.Off = off
		}
		a := alt.eval(ref.epoch, f, n)
		if a.Ok && !a.Dup {
			a.Off = 0
		}
		if got != a {
			return false
		}
	}
	return true
}

// fail records one wrong answer. The class is "wrap-modulus" iff the wrong
// answer is exactly what the same window computing (s+n) mod (2^31-1) says
// AND the window in this state is consistently a mod-(2^31-1) window (so that
// e.g. a window that accepts gaps is not filed under the modulus class just
// because one of its wrong answers coincides at the boundary).
func (x *c29Explorer) fail(kindIdx int, probe c29Step, want, got c29Res, w *pidwindow, ref, altm *c29Model, mutated bool) {
	kind := c29KindNames[kindIdx]
	alt := altm.eval(probe.Epoch, probe.First, probe.N)
	var key string
	switch {
	case !mutated && got == alt && got != want && c29BehavesLikeBadModulus(w, ref, altm):
		key = "C29:kfake:pidwindow:wrap-modulus"
	case mutated:
		key = "C29:kfake:state-mutated"
	case want.Ok && want.Dup:
		key = "C29:kfake:duplicate"
	case want.Ok && !want.Dup:
		key = "C29:kfake:next-rejected"
	case got.Ok && got.Dup:
		key = "C29:kfake:duplicate"
	default:
		key = "C29:kfake:out-of-order-accepted"
	}
	// Cheap path first: most wrong answers of a class are not the minimal one.
	c := c29Case{Part: "kfake-window", Chain: x.hist, Probe: probe, Kind: kind, Expected: want, Got: got, Mutated: mutated}
	v := x.st.viol[key]
	if v != nil {
		v.Count++
		if !c29CaseLess(&c, &v.Artefact) {
			return
		}
	}
	c.Chain = append([]c29Step(nil), x.hist...)
	what := fmt.Sprintf("fresh pidwindow, accepted chain %s; then %s batch (epoch %d, firstSeq %d, %d records): Kafka says %s, pushAndValidate says %s",
		c29ChainString(c.Chain), kind, probe.Epoch, probe.First, probe.N, want, got)
	if mutated {
		what += " and the probe changed the window state although it was not appended"
	}
	if v == nil {
		x.st.viol[key] = &c29Viol{Key: key, What: what, Count: 1, Artefact: c}
		return
	}
	v.Artefact, v.What = c, what
}

func c29ChainString(ch []c29Step) string {
	s := "["
	for i, b := range ch {
		if i > 0 {
			s += " "
		}
		s += fmt.Sprintf("(e%d s=%d n=%d @%d)", b.Epoch, b.First, b.N, b.Off)
	}
	return s + "]"
}

// probe runs one batch on COPIES of the real window and of both models and
// compares. It reports whether the real answer was the specified one.
func (x *c29Explorer) probe(kind int, w *pidwindow, ref, alt *c29Model, epoch int16, first, n int32, hwm int64) bool {
	wc := *w
	ok, dup, off := wc.pushAndValidate(epoch, first, n, hwm)
	got := c29Res{Ok: ok, Dup: dup}
	if dup {
		got.Off = off
	}
	want := ref.eval(epoch, first, n)
	x.st.evals++
	x.st.byKind[kind]++
	p := c29Step{epoch, first, n, hwm}
	if kind == c29KRetryOfEvictedBatch {
		// Outside the five-batch window Kafka answers out-of-order; an
		// implementation remembering more may still say duplicate with the
		// original offset. It must never append it again.
		x.st.evictProbe++
		if got.Ok && !got.Dup && !want.Ok {
			x.fail(kind, p, want, got, w, ref, alt, false)
			return false
		}
		if got.Ok && got.Dup && !want.Ok {
			for _, h := range x.hist {
				if h.Epoch == epoch && h.First == first && h.N == n && h.Off == got.Off {
					return true
				}
			}
			x.fail(kind, p, want, got, w, ref, alt, false)
			return false
		}
	}
	if got != want {
		x.fail(kind, p, want, got, w, ref, alt, false)
		return false
	}
	// A batch that was not appended (duplicate or rejected) must leave the
	// window exactly as it was.
	if (!got.Ok || got.Dup) && wc != *w {
		x.fail(kind, p, want, got, w, ref, alt, true)
		return false
	}
	return true
}

// visit is called on every reached state (>= 1 accepted batch).
func (x *c29Explorer) visit(w *pidwindow, ref, alt *c29Model, hwm int64, wrapped bool) {
	st := x.st
	st.nodes++
	if wrapped {
		st.nodesWrap++
	}
	if len(x.hist) > st.maxDepth {
		st.maxDepth = len(x.hist)
	}
	epoch := ref.epoch
	e := ref.next

	// (ii) retried duplicates of every batch of this epoch's history.
	inWin := func(h c29Step) bool {
		for i := 0; i < ref.cnt; i++ {
			if ref.win[i].first == h.First && ref.win[i].n == h.N && ref.win[i].off == h.Off {
				return true
			}
		}
		return false
	}
	for _, h := range x.hist {
		if h.Epoch != epoch {
			continue
		}
		if inWin(h) {
			x.probe(c29KRetriedDuplicate, w, ref, alt, epoch, h.First, h.N, hwm)
			// same first sequence, different record count: not a duplicate
			for _, dn := range []int64{-1, +1} {
				n2 := int64(h.N) + dn
				if n2 < 1 || n2 >= c29Mod {
					continue
				}
				x.probe(c29KSameFirstSeqOtherCount, w, ref, alt, epoch, h.First, int32(n2), hwm)
			}
		} else {
			x.probe(c29KRetryOfEvictedBatch, w, ref, alt, epoch, h.First, h.N, hwm)
		}
	}
	// (iii) every other first sequence within +-3 of the expected one.
	for d := int64(-3); d <= 3; d++ {
		if d == 0 {
			continue
		}
		f := int32(((int64(e)+d)%c29Mod + c29Mod) % c29Mod)
		for _, n := range x.probeNs {
			x.probe(c29KNeighbourOfExpected, w, ref, alt, epoch, f, n, hwm)
		}
	}
	// (i) the correctly wrapped next batch, every boundary batch size.
	for _, n := range x.allNs {
		x.probe(c29KCorrectNext, w, ref, alt, epoch, e, n, hwm)
	}
	// epoch bump: only first sequence 0 is accepted, and the sequence after
	// it is again (0+n) mod 2^31.
	if epoch < 3 {
		for _, f := range []int32{1, e, int32(c29Mod - 1)} {
			if f != 0 {
				x.probe(c29KNewEpochNonzeroFirstSeq, w, ref, alt, epoch+1, f, 1, hwm)
			}
		}
		for _, n := range x.bumpNs {
			if !x.probe(c29KNewEpochFirstBatch, w, ref, alt, epoch+1, 0, n, hwm) {
				continue
			}
			// scratch slot 9 (chains are at most 8 long)
			wc, rc, ac := &x.ws[9], &x.refs[9], &x.alts[9]
			*wc, *rc, *ac = *w, *ref, *alt
			wc.pushAndValidate(epoch+1, 0, n, hwm)
			rc.push(epoch+1, 0, n, hwm)
			ac.push(epoch+1, 0, n, hwm)
			x.hist = append(x.hist, c29Step{epoch + 1, 0, n, hwm})
			h2 := hwm + int64(n)
			x.probe(c29KCorrectNext, wc, rc, ac, epoch+1, rc.next, 1, h2)
			x.probe(c29KRetriedDuplicate, wc, rc, ac, epoch+1, 0, n, h2)
			for _, d := range []int64{-1, +1} {
				f := int32(((int64(rc.next)+d)%c29Mod + c29Mod) % c29Mod)
				x.probe(c29KNeighbourOfExpected, wc, rc, ac, epoch+1, f, 1, h2)
			}
			// batches of the previous epoch are forgotten
			for _, h := range x.hist[:len(x.hist)-1] {
				if h.Epoch == epoch {
					x.probe(c29KOldEpochBatchUnderNewEpoch, wc, rc, ac, epoch+1, h.First, h.N, h2)
				}
			}
			x.hist = x.hist[:len(x.hist)-1]
		}
	}
}

func (x *c29Explorer) dfs(w *pidwindow, ref, alt *c29Model, hwm int64, wrapped bool) {
	x.visit(w, ref, alt, hwm, wrapped)
	if len(x.hist) >= x.depth {
		x.st.chains++
		return
	}
	epoch, e := ref.epoch, ref.next
	for _, n := range x.nextNs {
		if !x.probe(c29KChainExtension, w, ref, alt, epoch, e, n, hwm) {
			continue // diverged from the specification: reported, not followed
		}
		d := len(x.hist) + 1 // slot of the state after d accepted batches
		wc, rc, ac := &x.ws[d], &x.refs[d], &x.alts[d]
		*wc, *rc, *ac = *w, *ref, *alt
		wc.pushAndValidate(epoch, e, n, hwm)
		rc.push(epoch, e, n, hwm)
		ac.push(epoch, e, n, hwm)
		x.hist = append(x.hist, c29Step{epoch, e, n, hwm})
		x.dfs(wc, rc, ac, hwm+int64(n), wrapped || int64(e)+int64(n) >= c29BadMod)
		x.hist = x.hist[:len(x.hist)-1]
	}
}

// start explores every chain whose first batch is (s, n1) on a fresh window.
func (x *c29Explorer) start(s, n1 int32) {
	w, ref, alt := &x.ws[1], &x.refs[1], &x.alts[1]
	*w, *ref, *alt = pidwindow{}, c29Model{mod: c29Mod}, c29Model{mod: c29BadMod}
	const base = int64(1000) // arbitrary non-zero first base offset
	x.hist = x.hist[:0]
	if !x.probe(c29KFirstBatch, w, ref, alt, 0, s, n1, base) {
		return
	}
	w.pushAndValidate(0, s, n1, base)
	ref.push(0, s, n1, base)
	alt.push(0, s, n1, base)
	x.hist = append(x.hist, c29Step{0, s, n1, base})
	wrapped := int64(s)+int64(n1) >= c29BadMod
	if wrapped {
		if x.wide {
			x.st.distinct[c29Hash(fmt.Sprintf("kfake:wide:s>>10=%d:n=%d", s>>10, n1))] = struct{}{}
		} else {
			x.st.distinct[c29Hash(fmt.Sprintf("kfake:s=%d:n=%d", s, n1))] = struct{}{}
		}
	}
	x.dfs(w, ref, alt, base+int64(n1), wrapped)
}

// ---------------------------------------------------------------- driver

type c29Sweep struct {
	name    string
	half    int64 // s in [0,half] and [2^31-half, 2^31)
	firstNs []int32
	nextNs  []int32
	depth   int
	wide    bool
}

func TestVerifC29(t *testing.T) {
	if rp := os.Getenv("C29_REPLAY"); rp != "" {
		c29Replay(rp)
		return
	}
	out := os.Getenv("C29_OUT")
	if out == "" {
		t.Skip("C29_OUT not set")
	}
	thorough := os.Getenv("VERIF_TIER") == "thorough"
	workers, _ := strconv.Atoi(os.Getenv("VERIF_WORKERS"))
	if workers <= 0 {
		workers = 16
	}
	M := int32(c29Mod - 1) // 2^31-1, the largest sequence / batch size
	boundaryNs := []int32{1, 2, 3, 5, 16, 4095, 4096, 4097, 1 << 30, M - 4095, M - 2, M - 1, M}
	probeNs := []int32{1, 2, M}
	bumpNs := []int32{1, M}

	abc3 := []int32{1, 3, M}
	sweeps := []c29Sweep{
		{name: "window-4096-depth4", half: 4096, firstNs: boundaryNs, nextNs: abc3, depth: 4},
		{name: "near-512-depth6", half: 512, firstNs: boundaryNs, nextNs: abc3, depth: 6},
	}
	if thorough {
		sweeps = []c29Sweep{
			{name: "window-4096-depth6", half: 4096, firstNs: boundaryNs, nextNs: abc3, depth: 6},
			{name: "near-512-depth6-alphabet5", half: 512, firstNs: boundaryNs, nextNs: []int32{1, 2, 5, 1 << 30, M}, depth: 6},
			{name: "wide-2^16-depth3", half: 1 << 16, firstNs: boundaryNs, nextNs: abc3, depth: 3, wide: true},
			{name: "wide-2^20-depth2", half: 1 << 20, firstNs: boundaryNs, nextNs: abc3, depth: 2, wide: true},
		}
	}

	total := newC29Stats()
	sets := map[string]any{}
	for _, sw := range sweeps {
		var ss []int32
		for s := int64(0); s <= sw.half; s++ {
			ss = append(ss, int32(s))
		}
		for s := c29Mod - sw.half; s < c29Mod; s++ {
			ss = append(ss, int32(s))
		}
		var next atomic.Int64
		var mu sync.Mutex
		var wg sync.WaitGroup
		const chunk = 16
		for wk := 0; wk < workers; wk++ {
			wg.Add(1)
			go func() {
				defer wg.Done()
				x := &c29Explorer{st: newC29Stats(), nextNs: sw.nextNs, probeNs: probeNs, allNs: boundaryNs, bumpNs: bumpNs, depth: sw.depth, wide: sw.wide}
				for {
					lo := int(next.Add(chunk) - chunk)
					if lo >= len(ss) {
						break
					}
					for i := lo; i < lo+chunk && i < len(ss); i++ {
						for _, n1 := range sw.firstNs {
							x.start(ss[i], n1)
						}
					}
				}
				mu.Lock()
				total.merge(x.st)
				mu.Unlock()
			}()
		}
		wg.Wait()
		sets["kfake_sweep_"+sw.name] = map[string]any{
			"start_sequences": len(ss), "s_within_of_0_and_2^31": sw.half, "first_batch_sizes": sw.firstNs,
			"chain_batch_sizes": sw.nextNs, "chain_depth_completed": sw.depth,
		}
	}

	sum := c29Summary{Part: "kfake-window", Evaluations: total.evals, Nontrivial: total.nodesWrap, Sets: sets}
	sets["kfake_window_states_reached"] = total.nodes
	sets["kfake_window_states_past_wrap"] = total.nodesWrap
	sets["kfake_maximal_chains"] = total.chains
	sets["kfake_max_chain_length"] = total.maxDepth
	byKind := map[string]int64{}
	for i, c := range total.byKind {
		byKind[c29KindNames[i]] = c
	}
	sets["kfake_probes_by_kind"] = byKind
	sets["kfake_probe_sizes_neighbours"] = probeNs
	for h := range total.distinct {
		sum.Distinct = append(sum.Distinct, h)
	}
	sort.Slice(sum.Distinct, func(i, j int) bool { return sum.Distinct[i] < sum.Distinct[j] })
	// two written-out cases (computed, not asserted here)
	for _, c := range [][2]int32{{M, 1}, {M - 1, 1}, {M - 4, 16}} {
		var w pidwindow
		w.pushAndValidate(0, c[0], c[1], 0)
		ref := c29Model{mod: c29Mod}
		ref.push(0, c[0], c[1], 0)
		sum.Samples = append(sum.Samples, map[string]any{"part": "kfake-window", "first_batch": map[string]int32{"s": c[0], "n": c[1]},
			"kfake_nextSeq": w.nextSeq, "reference_next": ref.next})
	}
	keys := make([]string, 0, len(total.viol))
	for k := range total.viol {
		keys = append(keys, k)
	}
	sort.Strings(keys)
	for _, k := range keys {
		v := total.viol[k]
		v.What = fmt.Sprintf("%s (%d wrong answers of this class in the swept space)", v.What, v.Count)
		sum.Violations = append(sum.Violations, *v)
	}
	b, _ := json.MarshalIndent(sum, "", " ")
	if err := os.WriteFile(out, b, 0o644); err != nil {
		fmt.Fprintf(os.Stderr, "INFRA-ERROR: %v\n", err)
		os.Exit(2)
	}
	fmt.Printf("C29 kfake window: calls=%d states=%d past-wrap=%d chains=%d violation-classes=%d\n",
		total.evals, total.nodes, total.nodesWrap, total.chains, len(total.viol))
	os.Exit(0)
}

func c29Replay(path string) {
	b, err := os.ReadFile(path)
	if err != nil {
		fmt.Fprintf(os.Stderr, "INFRA-ERROR: %v\n", err)
		os.Exit(2)
	}
	var v struct {
		Artefact c29Case `json:"artefact"`
	}
	if err := json.Unmarshal(b, &v); err != nil || v.Artefact.Part != "kfake-window" {
		fmt.Fprintf(os.Stderr, "INFRA-ERROR: not a kfake-window artefact: %v\n", err)
		os.Exit(2)
	}
	var w pidwindow
	ref := c29Model{mod: c29Mod}
	bad := false
	for i, s := range v.Artefact.Chain {
		ok, dup, off := w.pushAndValidate(s.Epoch, s.First, s.N, s.Off)
		want := ref.push(s.Epoch, s.First, s.N, s.Off)
		got := c29Res{Ok: ok, Dup: dup}
		if dup {
			got.Off = off
		}
		fmt.Printf("replay chain[%d] epoch=%d firstSeq=%d n=%d: kfake=%s reference=%s (kfake nextSeq=%d reference next=%d)\n",
			i, s.Epoch, s.First, s.N, got, want, w.nextSeq, ref.next)
		bad = bad || got != want
	}
	p := v.Artefact.Probe
	before := w
	ok, dup, off := w.pushAndValidate(p.Epoch, p.First, p.N, p.Off)
	want := ref.push(p.Epoch, p.First, p.N, p.Off)
	got := c29Res{Ok: ok, Dup: dup}
	if dup {
		got.Off = off
	}
	fmt.Printf("replay probe (%s) epoch=%d firstSeq=%d n=%d: kfake=%s reference=%s\n", v.Artefact.Kind, p.Epoch, p.First, p.N, got, want)
	if v.Artefact.Kind == "retry-of-evicted-batch" && !(got.Ok && !got.Dup) {
		got = want
	}
	if got != want || ((!got.Ok || got.Dup) && before != w) {
		bad = true
	}
	if bad {
		fmt.Println("VIOLATION reproduced")
		os.Exit(1)
	}
	fmt.Println("held")
	os.Exit(0)
}
