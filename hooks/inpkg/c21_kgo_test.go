package kgo

// C21: request versions are negotiated within all bounds.
//
// In-package harness (needs the unexported pin context ctxPinReq/pinReq).
// Built by /verif/checks/c21/run.sh through inpkg_test with
// `-tags synctests,verif`; /repo is untouched.
//
// One enumerated case = one configuration (request key K, what the scripted
// broker advertises for K, user MinVersions/MaxVersions, internal pin). Each
// case runs in its own testing/synctest bubble: a real client is created with
// a Dialer that returns one end of a net.Pipe whose other end is served by a
// scripted broker goroutine (no kfake); the harness issues the raw kmsg
// request of key K through the seed broker handle and the scripted broker
// records the header version of every frame it reads. The oracle is the
// statement of the property transcribed (c21Expect).
//
// Everything here is prefixed c21 to stay clear of the package's identifiers.

import (
	"bytes"
	"context"
	"encoding/binary"
	"encoding/json"
	"errors"
	"fmt"
	"io"
	"net"
	"os"
	"os/exec"
	"runtime/debug"
	"sort"
	"strconv"
	"strings"
	"sync"
	"testing"
	"testing/synctest"
	"time"

	"github.com/twmb/franz-go/pkg/kmsg"
	"github.com/twmb/franz-go/pkg/kversion"
	"verif.local/ev"
)

const (
	c21None      = int16(-1)    // bound not configured / not advertised
	c21Missing   = int16(-2)    // user Versions given, but key K is not in it
	c21Unbounded = int16(32767) // advertised broker max that does not constrain

	c21ModeRange      = "range"           // broker advertises [BMin,BMax] for K, honest ranges for every other key
	c21ModeOmitted    = "omitted"         // broker advertises every key but K
	c21ModeController = "controller-like" // broker advertises every key but K and Produce (key 0), like a KRaft controller listener
	c21ModePre        = "pre-apiversions" // client configured from kversion.V0_9_0(): no ApiVersions key, no handshake
	// K = ApiVersions only: like "range", and a handshake whose version is
	// outside [BMin,BMax] is answered the way Kafka >= 2.4 does (KIP-511): a v0
	// response with UNSUPPORTED_VERSION whose only ApiKeys entry is ApiVersions'
	// own range; the client has to retry within it.
	c21ModeKIP511 = "range+kip511"
)

func (c c21Case) ranged() bool { return c.Broker == c21ModeRange || c.Broker == c21ModeKIP511 }

// c21Case is one enumerated configuration.
type c21Case struct {
	Key    int16  `json:"key"`
	Name   string `json:"name,omitempty"`
	Broker string `json:"broker"`
	BMin   int16  `json:"broker_min"` // c21None: advertised as -1 (no constraint)
	BMax   int16  `json:"broker_max"` // c21Unbounded: advertised as 32767 (no constraint)
	UMin   int16  `json:"user_min"`   // c21None: no MinVersions option; c21Missing: MinVersions without K
	UMax   int16  `json:"user_max"`   // c21None: no MaxVersions option (pre mode: plain V0_9_0); c21Missing: MaxVersions without K
	PinMin int16  `json:"pin_min"`    // c21None: no min pin
	PinMax int16  `json:"pin_max"`    // c21None: no max pin

	// Sequence cases (time dimension): one request of key K is issued per
	// entry; while request k is being handled (and until the next one is
	// issued) every connection the client opens is advertised Seq[k-1] for K,
	// and the client is made to reconnect between requests (Cause).
	// Broker/BMin/BMax then mirror Seq[0].
	Seq   []c21Adv `json:"sequence,omitempty"`
	Cause string   `json:"reconnect,omitempty"` // "idle": ConnIdleTimeout(1s) reaps the connection between requests; "close": the broker closes the connection right after answering a request of key K
}

// c21Adv is what one connection advertises for K.
type c21Adv struct {
	Broker string `json:"broker"` // range | omitted | controller-like
	BMin   int16  `json:"broker_min"`
	BMax   int16  `json:"broker_max"`
}

// on returns the case as seen on a connection that was given the adv-th
// (1-based) advertisement of the sequence.
func (c c21Case) on(adv int) c21Case {
	if len(c.Seq) == 0 {
		return c
	}
	a := c.Seq[min(max(adv, 1), len(c.Seq))-1]
	c.Broker, c.BMin, c.BMax = a.Broker, a.BMin, a.BMax
	return c
}

func (c c21Case) String() string {
	if len(c.Seq) > 0 {
		s := fmt.Sprintf("key=%d(%s) connections advertise", c.Key, kmsg.NameForKey(c.Key))
		for i := range c.Seq {
			one := c.on(i + 1)
			one.Seq = nil
			str := one.String()
			str = str[strings.Index(str, "broker=")+len("broker="):]
			s += fmt.Sprintf(" #%d:%s", i+1, str[:strings.Index(str, " user=")])
		}
		one := c
		one.Seq = nil
		str := one.String()
		return s + " reconnect-by=" + c.Cause + str[strings.Index(str, " user="):]
	}
	f := func(v int16) string {
		switch v {
		case c21None:
			return "-"
		case c21Missing:
			return "missing"
		case c21Unbounded:
			return "inf"
		}
		return strconv.Itoa(int(v))
	}
	return fmt.Sprintf("key=%d(%s) broker=%s[%s,%s] user=[%s,%s] pin=[%s,%s]", c.Key, kmsg.NameForKey(c.Key), c.Broker,
		f(c.BMin), f(c.BMax), f(c.UMin), f(c.UMax), f(c.PinMin), f(c.PinMax))
}

// ---------------------------------------------------------------- frames

type c21Frame struct {
	Key       int16 `json:"key"`
	Ver       int16 `json:"ver"`
	Handshake bool  `json:"handshake,omitempty"`
	Conn      int   `json:"conn"`
	Adv       int   `json:"advertised,omitempty"` // sequence cases, handshake frames: which element (1-based) this connection was advertised
}

// c21Broker is the scripted broker of one case.
type c21Broker struct {
	c      c21Case
	mu     sync.Mutex
	frames []c21Frame
	bad    []string // byte sequences read where a request frame was expected
	conns  []net.Conn
	dials  int
	epoch  int // sequence cases: 1-based index of the advertisement new connections get now
}

func (s *c21Broker) dial(_ context.Context, _, _ string) (net.Conn, error) {
	cli, srv := net.Pipe()
	s.mu.Lock()
	s.dials++
	id := s.dials
	s.conns = append(s.conns, cli, srv)
	s.mu.Unlock()
	go s.serve(srv, id)
	return cli, nil
}

func (s *c21Broker) closeAll() {
	s.mu.Lock()
	conns := s.conns
	s.conns = nil
	s.mu.Unlock()
	for _, c := range conns {
		c.Close()
	}
}

// serve reads request frames (4-byte size; header: key int16, version int16,
// correlation id int32, ...) and answers per script: the first ApiVersions
// request of a connection is the client's handshake and is answered with the
// case's advertisement; everything else is recorded and answered with a
// default (empty) response of the same key and version.
func (s *c21Broker) serve(conn net.Conn, id int) {
	defer conn.Close()
	handshook := false
	var sz [4]byte
	for {
		if _, err := io.ReadFull(conn, sz[:]); err != nil {
			return
		}
		n := int32(binary.BigEndian.Uint32(sz[:]))
		if n < 8 || n > 1<<20 {
			// not a request frame: remember what followed, then drop the
			// connection like a broker would
			var next [8]byte
			conn.SetReadDeadline(time.Now().Add(time.Second))
			k, _ := io.ReadFull(conn, next[:])
			s.mu.Lock()
			s.bad = append(s.bad, fmt.Sprintf("size field %d followed by % x", n, next[:k]))
			s.mu.Unlock()
			return
		}
		buf := make([]byte, n)
		if _, err := io.ReadFull(conn, buf); err != nil {
			return
		}
		key := int16(binary.BigEndian.Uint16(buf))
		ver := int16(binary.BigEndian.Uint16(buf[2:]))
		corr := int32(binary.BigEndian.Uint32(buf[4:]))
		hs := key == 18 && !handshook && s.c.Broker != c21ModePre
		s.mu.Lock()
		adv := 0
		if hs && len(s.c.Seq) > 0 {
			adv = max(s.epoch, 1)
		}
		s.frames = append(s.frames, c21Frame{Key: key, Ver: ver, Handshake: hs, Conn: id, Adv: adv})
		s.mu.Unlock()
		var out []byte
		switch {
		case hs && s.c.Broker == c21ModeKIP511 && (ver > s.c.BMax || ver < s.c.BMin):
			out = s.unsupportedApiVersions(corr) // still in the handshake phase
		case hs:
			handshook = true
			out = s.apiVersions(ver, corr, adv)
		case key == 18 && s.c.Broker == c21ModePre:
			return // a pre-0.10 broker does not know ApiVersions: it drops the connection
		default:
			out = c21DefaultResponse(key, ver, corr)
		}
		if out == nil {
			return
		}
		if _, err := conn.Write(out); err != nil {
			return
		}
		if !hs && key == s.c.Key && s.c.Cause == "close" {
			return // sequence case: the broker goes away after answering
		}
	}
}

// c21ClientMax is the client's supported maximum for a key: the maximum
// version of the kmsg request type.
func c21ClientMax(key int16) (int16, bool) {
	r := kmsg.RequestForKey(key)
	if r == nil {
		return -1, false
	}
	return r.MaxVersion(), true
}

var c21AllKeys = func() []int16 {
	var ks []int16
	for k := int16(0); k <= kmsg.MaxKey; k++ {
		if _, ok := c21ClientMax(k); ok {
			ks = append(ks, k)
		}
	}
	return ks
}()

func (s *c21Broker) apiVersions(ver int16, corr int32, adv int) []byte {
	s = &c21Broker{c: s.c.on(adv)} // what this connection is advertised (sequence cases)
	resp := kmsg.NewPtrApiVersionsResponse()
	if ver > resp.MaxVersion() {
		ver = resp.MaxVersion()
	}
	resp.Version = ver
	for _, k := range c21AllKeys {
		max, _ := c21ClientMax(k)
		ak := kmsg.NewApiVersionsResponseApiKey()
		ak.ApiKey, ak.MinVersion, ak.MaxVersion = k, 0, max
		if k == s.c.Key {
			switch s.c.Broker {
			case c21ModeOmitted, c21ModeController:
				continue
			case c21ModeRange, c21ModeKIP511:
				ak.MinVersion, ak.MaxVersion = s.c.BMin, s.c.BMax
			}
		} else if k == 0 && s.c.Broker == c21ModeController {
			continue
		}
		resp.ApiKeys = append(resp.ApiKeys, ak)
	}
	// ApiVersions responses always use the v0 response header (no tags).
	out := make([]byte, 8, 1024)
	binary.BigEndian.PutUint32(out[4:], uint32(corr))
	out = resp.AppendTo(out)
	binary.BigEndian.PutUint32(out, uint32(len(out)-4))
	return out
}

// unsupportedApiVersions is Kafka's (>= 2.4, KIP-511) answer to an ApiVersions
// request of a version it does not support: a v0 response, UNSUPPORTED_VERSION,
// and one ApiKeys entry with the supported ApiVersions range.
func (s *c21Broker) unsupportedApiVersions(corr int32) []byte {
	resp := kmsg.NewPtrApiVersionsResponse()
	resp.Version = 0
	resp.ErrorCode = 35
	ak := kmsg.NewApiVersionsResponseApiKey()
	ak.ApiKey, ak.MinVersion, ak.MaxVersion = 18, s.c.BMin, s.c.BMax
	resp.ApiKeys = append(resp.ApiKeys, ak)
	out := make([]byte, 8, 64)
	binary.BigEndian.PutUint32(out[4:], uint32(corr))
	out = resp.AppendTo(out)
	binary.BigEndian.PutUint32(out, uint32(len(out)-4))
	return out
}

func c21DefaultResponse(key, ver int16, corr int32) []byte {
	resp := kmsg.ResponseForKey(key)
	if resp == nil {
		return nil
	}
	resp.SetVersion(ver)
	out := make([]byte, 8, 128)
	binary.BigEndian.PutUint32(out[4:], uint32(corr))
	if resp.IsFlexible() && key != 18 {
		out = append(out, 0) // empty response header tag buffer
	}
	out = resp.AppendTo(out)
	binary.BigEndian.PutUint32(out, uint32(len(out)-4))
	return out
}

// ---------------------------------------------------------------- one execution

type c21Obs struct {
	Frames   []c21Frame `json:"frames"`
	Bad      []string   `json:"unframed,omitempty"` // bytes the broker read where a request frame was expected
	Ver      int16      `json:"ver"`                // header version of the first non-handshake frame of key K; -1 if none
	NK       int        `json:"n_k"`      // number of non-handshake frames of key K
	Err      string     `json:"err"`      // error text of the call ("" = nil)
	Class    string     `json:"class"`    // outcome class of the call
	Hang     bool       `json:"hang"`     // the call did not return within one virtual minute
	Dials    int        `json:"dials"`    // connections opened
	NewErr   string     `json:"new_err"`  // NewClient error (infrastructure)
	RespKind string     `json:"resp"`     // type of the response value
	RespVer  int16      `json:"resp_ver"` // version of the response value

	KConn    int      `json:"k_conn,omitempty"`    // connection the first frame of key K was read on
	KAdv     int      `json:"k_adv,omitempty"`     // ... and which element of the sequence that connection had been advertised
	LastConn int      `json:"last_conn,omitempty"` // newest connection that had been sent an advertisement when the step ended
	LastAdv  int      `json:"last_adv,omitempty"`  // ... and which element it was advertised
	Steps    []c21Obs `json:"steps,omitempty"`     // sequence cases: one observation per request
}

// kversion.Stable() rebuilds every release table on each call (~0.3 ms); the
// harness reads both tables once and rebuilds Versions values from them.
var (
	c21StableTab = c21Table(kversion.Stable())
	c21V090Tab   = c21Table(kversion.V0_9_0())
)

func c21Table(vs *kversion.Versions) map[int16]int16 {
	m := map[int16]int16{}
	vs.EachMaxKeyVersion(func(k, v int16) { m[k] = v })
	return m
}

func c21DefaultMax(c c21Case) (map[int16]int16, string) {
	if c.Broker == c21ModePre {
		return c21V090Tab, "kversion.V0_9_0"
	}
	return c21StableTab, "the default (latest stable) max versions"
}

func c21UserMaxVersions(c c21Case) *kversion.Versions {
	if c.Broker != c21ModePre && c.UMax == c21None {
		return nil // default configuration
	}
	tab, _ := c21DefaultMax(c)
	vs := new(kversion.Versions)
	for k, v := range tab {
		vs.SetMaxKeyVersion(k, v)
	}
	switch c.UMax {
	case c21None:
	case c21Missing:
		vs.SetMaxKeyVersion(c.Key, -1) // removes the key
	default:
		vs.SetMaxKeyVersion(c.Key, c.UMax)
	}
	return vs
}

func c21UserMinVersions(c c21Case) *kversion.Versions {
	switch c.UMin {
	case c21None:
		return nil
	case c21Missing:
		vs := new(kversion.Versions)
		other := int16(0)
		if c.Key == 0 {
			other = 1
		}
		vs.SetMaxKeyVersion(other, 0)
		return vs
	}
	vs := new(kversion.Versions)
	vs.SetMaxKeyVersion(c.Key, c.UMin)
	return vs
}

func c21ErrClass(err error) string {
	switch {
	case err == nil:
		return "ok"
	case errors.Is(err, errBrokerTooOld):
		return "err-broker-too-old"
	case errors.Is(err, errUnknownRequestKey):
		return "err-unknown-request-key"
	case strings.Contains(err.Error(), "below the user defined min"):
		return "err-below-user-min"
	}
	return "err-other"
}

// c21Run executes one case in its own bubble.
func c21Run(t *testing.T, c c21Case) (o c21Obs) {
	o.Ver = -1
	synctest.Test(t, func(t *testing.T) {
		srv := &c21Broker{c: c}
		defer srv.closeAll()
		opts := []Opt{
			SeedBrokers("localhost:9092"),
			Dialer(srv.dial),
			RequestTimeoutOverhead(time.Second),
			RequestRetries(0),
		}
		if c.Cause == "idle" {
			opts = append(opts, ConnIdleTimeout(time.Second))
		}
		if len(c.Seq) > 0 {
			// no KIP-714 telemetry requests: they would open connections of
			// their own in between
			opts = append(opts, DisableClientMetrics())
		}
		if vs := c21UserMaxVersions(c); vs != nil {
			opts = append(opts, MaxVersions(vs))
		}
		if vs := c21UserMinVersions(c); vs != nil {
			opts = append(opts, MinVersions(vs))
		}
		cl, err := NewClient(opts...)
		if err != nil {
			o.NewErr = err.Error()
			return
		}
		defer cl.Close()

		ctx, cancel := context.WithCancel(context.Background())
		defer cancel()
		if c.PinMin != c21None || c.PinMax != c21None {
			pin := &pinReq{}
			if c.PinMin != c21None {
				pin.pinMin, pin.min = true, c.PinMin
			}
			if c.PinMax != c21None {
				pin.pinMax, pin.max = true, c.PinMax
			}
			ctx = context.WithValue(ctx, ctxPinReq, pin)
		}

		// one request (static cases) or one request per advertised
		// connection (sequence cases)
		steps := max(1, len(c.Seq))
		for j := 0; j < steps; j++ {
			so := c21Obs{Ver: -1}
			srv.mu.Lock()
			from, fromBad := len(srv.frames), len(srv.bad)
			srv.epoch = j + 1 // the broker changes what it advertises exactly here
			srv.mu.Unlock()
			req := kmsg.RequestForKey(c.Key)
			type result struct {
				resp kmsg.Response
				err  error
			}
			done := make(chan result, 1)
			go func() {
				resp, err := cl.SeedBrokers()[0].Request(ctx, req)
				done <- result{resp, err}
			}()
			select {
			case r := <-done:
				if r.err != nil {
					so.Err = r.err.Error()
				}
				so.Class = c21ErrClass(r.err)
				if r.resp != nil {
					so.RespKind = fmt.Sprintf("%T", r.resp)
					so.RespVer = r.resp.GetVersion()
				}
			case <-time.After(time.Minute):
				so.Hang = true
				so.Class = "hang"
				cancel()
			}
			// Let virtual time pass so that a request written late (or by a
			// retry) would still be observed. In sequence cases this is
			// also when the connection goes away: reaped as idle
			// (ConnIdleTimeout 1s) or already closed by the broker.
			time.Sleep(3 * time.Second)
			synctest.Wait()

			srv.mu.Lock()
			so.Frames = append([]c21Frame(nil), srv.frames[from:]...)
			so.Bad = append([]string(nil), srv.bad[fromBad:]...)
			so.Dials = srv.dials
			advOf := map[int]int{}
			for _, f := range srv.frames {
				if f.Handshake {
					so.LastConn, so.LastAdv = f.Conn, f.Adv // newest connection that got an advertisement
					advOf[f.Conn] = f.Adv
				}
			}
			srv.mu.Unlock()
			for _, f := range so.Frames {
				if f.Key == c.Key && !f.Handshake {
					if so.NK == 0 {
						so.Ver, so.KConn, so.KAdv = f.Ver, f.Conn, advOf[f.Conn]
					}
					so.NK++
				}
			}
			if len(c.Seq) == 0 {
				o = so
				break
			}
			o.Steps = append(o.Steps, so)
			o.Frames = append(o.Frames, so.Frames...)
			o.Dials = so.Dials
			if so.Hang {
				o.Hang = true
				break
			}
		}
	})
	return o
}

// ---------------------------------------------------------------- oracle

// c21Expect transcribes the statement: the highest version v with
//
//	v <= min(client max(K), broker max, user max, pin max)   and
//	v >= max(broker min, user min, pin min)
//
// where absent bounds do not constrain. No version exists when the broker's
// advertisement omits K, when K is unknown to the user's (or the default,
// latest stable) max Versions (documented on MinVersions: "Unlike MaxVersions,
// if a request is issued that is unknown to the min versions, the request is
// allowed"), or when the bounds cross.
func c21Expect(c c21Case) (ver int16, exists bool, why string) {
	hi, ok := c21ClientMax(c.Key)
	if !ok {
		return -1, false, "no request type"
	}
	lo := int16(0)
	switch c.Broker {
	case c21ModeOmitted, c21ModeController:
		return -1, false, "the broker's ApiVersions response omits the key"
	case c21ModeRange, c21ModeKIP511:
		if c.BMax < hi {
			hi = c.BMax
		}
		if c.BMin > lo {
			lo = c.BMin
		}
	}
	switch c.UMax {
	case c21Missing:
		return -1, false, "the key is not in the user's MaxVersions"
	case c21None:
		def, what := c21DefaultMax(c)
		u, has := def[c.Key]
		if !has {
			return -1, false, "the key is not in " + what
		}
		if u < hi {
			hi = u
		}
	default:
		if c.UMax < hi {
			hi = c.UMax
		}
	}
	if c.UMin >= 0 && c.UMin > lo {
		lo = c.UMin
	}
	if c.PinMax != c21None && c.PinMax < hi {
		hi = c.PinMax
	}
	if c.PinMin != c21None && c.PinMin > lo {
		lo = c.PinMin
	}
	if hi < lo {
		return -1, false, fmt.Sprintf("bounds cross: upper %d < lower %d", hi, lo)
	}
	return hi, true, ""
}

// c21HandshakeMax is the highest ApiVersions handshake version the bounds known
// before the handshake allow: the kmsg maximum and the user's max for key 18.
// ok=false: the user's max Versions do not contain ApiVersions, no handshake
// may be written.
func c21HandshakeMax(c c21Case) (int16, bool) {
	hi, _ := c21ClientMax(18)
	if c.Broker == c21ModePre {
		if c.Key == 18 && c.UMax >= 0 {
			return min(hi, c.UMax), true
		}
		return -1, false
	}
	if c.Key == 18 {
		switch {
		case c.UMax == c21Missing:
			return -1, false
		case c.UMax >= 0:
			return min(hi, c.UMax), true
		}
	}
	if u, has := c21StableTab[18]; has {
		return min(hi, u), true
	}
	return -1, false
}

type c21Verdict struct{ cls, what string }

// c21Judge returns the violations of one execution (none = held): at most one
// about the ApiVersions handshake and one about the request of key K.
func c21Judge(c c21Case, o c21Obs) (vs []c21Verdict) {
	if len(c.Seq) > 0 {
		// Sequence case: every request is judged with the same oracle
		// against what the CURRENT connection advertises: the connection
		// its frame was read on or, if nothing was written, the newest
		// connection the client had been given an advertisement on.
		for j, so := range o.Steps {
			conn, adv := so.KConn, so.KAdv
			if so.NK == 0 {
				conn, adv = so.LastConn, so.LastAdv
			}
			cj := c.on(adv)
			cj.Seq, cj.Cause = nil, ""
			for _, v := range c21Judge(cj, so) {
				if j > 0 {
					v.cls = "after-reconnect/" + v.cls
				}
				v.what = fmt.Sprintf("request %d of the sequence, judged against connection %d (advertised element #%d: %s[%d,%d]): %s", j+1, conn, max(adv, 1), cj.Broker, cj.BMin, cj.BMax, v.what)
				vs = append(vs, v)
			}
		}
		return vs
	}
	if o.Hang {
		return []c21Verdict{{"hang", "the request did not return within one virtual minute"}}
	}
	want, exists, why := c21Expect(c)
	// handshake frames: bounded by what is known before the handshake
	hsMax, hsOK := c21HandshakeMax(c)
	for _, f := range o.Frames {
		if f.Key != 18 || (!f.Handshake && c.Key == 18) {
			continue
		}
		if !hsOK {
			vs = append(vs, c21Verdict{"apiversions-written-though-unknown-to-user-max", fmt.Sprintf("an ApiVersions v%d request was written although the user's max versions do not contain ApiVersions", f.Ver)})
			break
		}
		if f.Ver > hsMax {
			vs = append(vs, c21Verdict{"apiversions-handshake-above-max", fmt.Sprintf("ApiVersions handshake written at v%d, above min(client max, user max)=%d", f.Ver, hsMax)})
			break
		}
	}
	if c.Broker == c21ModeKIP511 && hsOK {
		// Once the broker has answered a handshake with its ApiVersions
		// range, a retry on that connection must be the highest version
		// within min(client max, user max, broker max) and >= broker min.
		seen := map[int]bool{}
		for _, f := range o.Frames {
			if !f.Handshake {
				continue
			}
			if !seen[f.Conn] {
				seen[f.Conn] = true
				continue
			}
			allowed := min(hsMax, c.BMax)
			if allowed < c.BMin {
				vs = append(vs, c21Verdict{"apiversions-retry-though-no-version-exists", fmt.Sprintf("the broker answered UNSUPPORTED_VERSION advertising ApiVersions [%d,%d]; no version <= %d is in that range but a v%d retry was written", c.BMin, c.BMax, hsMax, f.Ver)})
				break
			}
			if f.Ver != allowed {
				vs = append(vs, c21Verdict{"apiversions-retry-wrong-version", fmt.Sprintf("the broker answered UNSUPPORTED_VERSION advertising ApiVersions [%d,%d]; expected the retry at v%d, saw v%d", c.BMin, c.BMax, allowed, f.Ver)})
				break
			}
		}
	}
	switch {
	case !exists && (o.NK > 0 || len(o.Bad) > 0):
		wrote := fmt.Sprintf("a v%d request was written", o.Ver)
		unframed := o.NK == 0
		if unframed {
			wrote = "the client wrote bytes that are not a request frame (" + strings.Join(o.Bad, "; ") + ")"
		}
		cls := "written-though-no-version-exists"
		switch {
		case c.Broker == c21ModeController || c.Broker == c21ModeOmitted && c.Key == 0:
			// the advertisement lacks Produce (key 0) as well
			cls = "written-though-broker-omits-key/produce-not-advertised"
		case c.Broker == c21ModeOmitted:
			cls = "written-though-broker-omits-key"
		case c.UMax == c21Missing || strings.HasPrefix(why, "the key is not in"):
			cls = "written-though-unknown-to-user-max"
		case unframed:
			cls += "/unframed"
		default:
			cls += "/" + c21Which(c, o.Ver)
		}
		vs = append(vs, c21Verdict{cls, fmt.Sprintf("no version satisfies all bounds (%s) but %s (call returned: %s %q)", why, wrote, o.Class, o.Err)})
	case !exists && o.Class == "ok":
		vs = append(vs, c21Verdict{"no-error-though-no-version-exists", fmt.Sprintf("no version satisfies all bounds (%s), nothing was written, but the call returned no error", why)})
	case !exists:
	case o.NK == 0 && len(o.Bad) > 0:
		vs = append(vs, c21Verdict{"unframed-request-written", fmt.Sprintf("v%d satisfies all bounds, but what the client wrote is not a request frame: the broker read %s (call returned: %s %q)", want, strings.Join(o.Bad, "; "), o.Class, o.Err)})
	case o.NK == 0:
		vs = append(vs, c21Verdict{"not-written", fmt.Sprintf("v%d satisfies all bounds but no request was written (call returned: %s %q)", want, o.Class, o.Err)})
	case o.Ver != want:
		vs = append(vs, c21Verdict{"wrong-version/" + c21Which(c, o.Ver), fmt.Sprintf("expected the request at v%d, the broker saw v%d", want, o.Ver)})
	}
	return vs
}

// c21Which names the bound an observed version breaks (for stable keys).
func c21Which(c c21Case, v int16) string {
	cm, _ := c21ClientMax(c.Key)
	switch {
	case v > cm:
		return "above-client-max"
	case c.ranged() && v > c.BMax:
		return "above-broker-max"
	case c.ranged() && v < c.BMin:
		return "below-broker-min"
	case c.UMax >= 0 && v > c.UMax:
		return "above-user-max"
	case c.UMin >= 0 && v < c.UMin:
		return "below-user-min"
	case c.PinMax != c21None && v > c.PinMax:
		return "above-pin-max"
	case c.PinMin != c21None && v < c.PinMin:
		return "below-pin-min"
	case c.UMax == c21None:
		def, _ := c21DefaultMax(c)
		if u, has := def[c.Key]; has && v > u {
			return "above-default-max"
		}
	}
	return "not-highest"
}

// ---------------------------------------------------------------- enumeration

// A job fixes key and broker advertisement; its cases are the user bounds x pins.
type c21Job struct {
	Key    int16
	Full   bool // full grid 0..max+1 instead of the boundary grid
	Broker string
	BMin   int16
	BMax   int16

	// sequence jobs: (Broker,BMin,BMax) is the first connection's
	// advertisement; the cases are the later advertisements x user bounds x pins
	SeqLen int
	Cause  string
}

// c21Advs is the advertisement alphabet of the sequence cases: the boundary
// range grid plus "key absent" (alone, and together with Produce).
func c21Advs(key int16) []c21Adv {
	as := []c21Adv{{c21ModeOmitted, c21None, c21Unbounded}, {c21ModeController, c21None, c21Unbounded}}
	vals := c21Vals(key, false)
	for _, bmin := range append([]int16{c21None}, vals...) {
		for _, bmax := range append([]int16{c21Unbounded}, vals...) {
			as = append(as, c21Adv{c21ModeRange, bmin, bmax})
		}
	}
	return as
}

// c21SeqKeys: one key per connection kind of a broker (each kind handshakes on
// its own): Metadata and OffsetCommit (general), Produce, Fetch, JoinGroup
// (group), CreateTopics (a TimeoutRequest: "slow" connection).
var c21SeqKeys = []int16{3, 0, 1, 11, 8, 19}

func (j c21Job) eachSeq(fn func(idx int, c c21Case) bool) {
	max, _ := c21ClientMax(j.Key)
	mid := max / 2
	umins, umaxs := []int16{c21None, 0, mid, max}, []int16{c21None, 0, mid, max}
	if j.SeqLen > 2 {
		umins, umaxs = []int16{c21None, mid}, []int16{c21None, mid}
	}
	pins := []c21Pin{{c21None, c21None}, {c21None, mid}, {mid, c21None}}
	advs := c21Advs(j.Key)
	first := c21Adv{j.Broker, j.BMin, j.BMax}
	idx := 0
	seq := make([]c21Adv, j.SeqLen)
	seq[0] = first
	var rec func(pos int) bool
	rec = func(pos int) bool {
		if pos < j.SeqLen {
			for _, a := range advs {
				seq[pos] = a
				if !rec(pos + 1) {
					return false
				}
			}
			return true
		}
		for _, umin := range umins {
			for _, umax := range umaxs {
				for _, p := range pins {
					c := c21Case{Key: j.Key, Broker: first.Broker, BMin: first.BMin, BMax: first.BMax, UMin: umin, UMax: umax, PinMin: p.min, PinMax: p.max,
						Seq: append([]c21Adv(nil), seq...), Cause: j.Cause}
					if !fn(idx, c) {
						return false
					}
					idx++
				}
			}
		}
		return true
	}
	rec(1)
}

func c21Vals(key int16, full bool) []int16 {
	max, _ := c21ClientMax(key)
	var vs []int16
	if full {
		for v := int16(0); v <= max+1; v++ {
			vs = append(vs, v)
		}
		return vs
	}
	for _, v := range []int16{0, max / 2, max, max + 1} {
		if len(vs) == 0 || vs[len(vs)-1] != v {
			vs = append(vs, v)
		}
	}
	return vs
}

type c21Pin struct{ min, max int16 }

func c21Pins(key int16, full bool) []c21Pin {
	max, _ := c21ClientMax(key)
	ps := []c21Pin{{c21None, c21None}}
	if full {
		for p := int16(0); p <= max; p++ {
			ps = append(ps, c21Pin{c21None, p})
		}
		for p := int16(0); p <= max; p++ {
			ps = append(ps, c21Pin{p, c21None})
		}
		return ps
	}
	var b []int16
	for _, v := range []int16{0, max / 2, max} {
		if len(b) == 0 || b[len(b)-1] != v {
			b = append(b, v)
		}
	}
	for _, p := range b {
		ps = append(ps, c21Pin{c21None, p})
	}
	for _, p := range b {
		ps = append(ps, c21Pin{p, c21None})
	}
	// both pins at once (pinReq carries both fields; the client itself only
	// ever sets one, so this is extra)
	for _, lo := range b {
		for _, hi := range b {
			ps = append(ps, c21Pin{lo, hi})
		}
	}
	return ps
}

func (j c21Job) each(fn func(idx int, c c21Case) bool) {
	if j.SeqLen > 0 {
		j.eachSeq(fn)
		return
	}
	vals := c21Vals(j.Key, j.Full)
	umins := append([]int16{c21None, c21Missing}, vals...)
	umaxs := append([]int16{c21None, c21Missing}, vals...)
	if j.Broker == c21ModePre && j.Key == 18 {
		// setting a user max for ApiVersions re-enables the handshake: that is
		// the "range" mode, not a pre-ApiVersions configuration
		umaxs = []int16{c21None, c21Missing}
	}
	pins := c21Pins(j.Key, j.Full)
	idx := 0
	for _, umin := range umins {
		for _, umax := range umaxs {
			for _, p := range pins {
				c := c21Case{Key: j.Key, Broker: j.Broker, BMin: j.BMin, BMax: j.BMax, UMin: umin, UMax: umax, PinMin: p.min, PinMax: p.max}
				if !fn(idx, c) {
					return
				}
				idx++
			}
		}
	}
}

var c21FullKeys = []int16{3, 0, 8} // Metadata, Produce, OffsetCommit

// c21QuickKeys are the representative other keys of the quick tier.
var c21QuickKeys = []int16{1, 2, 10, 11, 18, 19, 22, 24, 32, 36, 60, 68, 78}

func c21Keys(thorough bool) (full, boundary []int16) {
	if s := os.Getenv("C21_KEYS"); s != "" { // development override: "full:3,8;boundary:1,2"
		for _, part := range strings.Split(s, ";") {
			kind, list, _ := strings.Cut(part, ":")
			for _, f := range strings.Split(list, ",") {
				if k, err := strconv.Atoi(f); err == nil {
					if kind == "full" {
						full = append(full, int16(k))
					} else {
						boundary = append(boundary, int16(k))
					}
				}
			}
		}
		return
	}
	if !thorough {
		// quick: full grid for OffsetCommit only (the smallest of the three),
		// boundary grid for Metadata, Produce and the representative keys
		full = []int16{8}
		boundary = []int16{3, 0}
		for _, k := range c21QuickKeys {
			if _, ok := c21ClientMax(k); ok {
				boundary = append(boundary, k)
			}
		}
		return full, boundary
	}
	isFull := map[int16]bool{}
	for _, k := range c21FullKeys {
		isFull[k] = true
	}
	for _, k := range c21AllKeys {
		if !isFull[k] {
			boundary = append(boundary, k)
		}
	}
	return c21FullKeys, boundary
}

func c21Jobs(thorough bool) []c21Job {
	full, boundary := c21Keys(thorough)
	var jobs []c21Job
	add := func(k int16, isFull bool) {
		for _, m := range []string{c21ModeOmitted, c21ModeController, c21ModePre} {
			jobs = append(jobs, c21Job{Key: k, Full: isFull, Broker: m, BMin: c21None, BMax: c21Unbounded})
		}
		vals := c21Vals(k, isFull)
		for _, bmin := range append([]int16{c21None}, vals...) {
			for _, bmax := range append([]int16{c21Unbounded}, vals...) {
				jobs = append(jobs, c21Job{Key: k, Full: isFull, Broker: c21ModeRange, BMin: bmin, BMax: bmax})
				// (only well-formed ranges: with a crossing range in the
				// UNSUPPORTED_VERSION answer the client retries at bmax < bmin;
				// no broker advertises that)
				if k == 18 && bmin != c21None && bmax != c21Unbounded && bmin <= bmax {
					jobs = append(jobs, c21Job{Key: k, Full: isFull, Broker: c21ModeKIP511, BMin: bmin, BMax: bmax})
				}
			}
		}
	}
	for _, k := range full {
		add(k, true)
	}
	for _, k := range boundary {
		add(k, false)
	}
	// time dimension: sequences of 2 (thorough: also 3) connections of the
	// one broker, each advertising any element of the alphabet
	if os.Getenv("C21_KEYS") == "" || os.Getenv("C21_SEQ") != "" {
		lens := []int{2}
		if thorough {
			lens = []int{2, 3}
		}
		for _, n := range lens {
			for _, k := range c21SeqKeys {
				for _, a := range c21Advs(k) {
					for _, cause := range []string{"idle", "close"} {
						jobs = append(jobs, c21Job{Key: k, Broker: a.Broker, BMin: a.BMin, BMax: a.BMax, SeqLen: n, Cause: cause})
					}
				}
			}
		}
	}
	// Longest jobs first would not matter: jobs are dealt round-robin and
	// there are thousands of them.
	return jobs
}

// ---------------------------------------------------------------- workers

type c21Found struct {
	Case  c21Case `json:"case"`
	Obs   c21Obs  `json:"observed"`
	What  string  `json:"what"`
	Want  string  `json:"expected"`
	Count int64   `json:"count"`
}

type c21Result struct {
	Cases    int64
	Frames   int64
	Dials    int64
	Exists   int64 // cases in which a version exists
	SeqCases, SeqSteps, Reconnects int64 // sequence cases, their requests, requests that found a new connection
	Outcomes map[string]int64
	Other    map[string]int64 // texts of the errors classed err-other
	ByKey    map[string]*c21Found
	Samples  []c21Found
	Infra    string
	Done     bool
}

func c21WantString(c c21Case) string {
	if len(c.Seq) > 0 {
		var parts []string
		for j := range c.Seq {
			cj := c.on(j + 1)
			cj.Seq = nil
			parts = append(parts, fmt.Sprintf("request %d (if on connection %d): %s", j+1, j+1, c21WantString(cj)))
		}
		return strings.Join(parts, "; ")
	}
	v, ok, why := c21Expect(c)
	if ok {
		return fmt.Sprintf("written at v%d", v)
	}
	return "error, nothing written (" + why + ")"
}

func c21Less(a, b c21Case) bool { // "smaller" artefact preferred
	ja, _ := json.Marshal(a)
	jb, _ := json.Marshal(b)
	na, nb := 0, 0
	for _, v := range []int16{a.UMin, a.UMax, a.PinMin, a.PinMax, a.BMin, a.BMax - c21Unbounded - 1} {
		if v != c21None {
			na++
		}
	}
	for _, v := range []int16{b.UMin, b.UMax, b.PinMin, b.PinMax, b.BMin, b.BMax - c21Unbounded - 1} {
		if v != c21None {
			nb++
		}
	}
	if a.Broker != c21ModeRange {
		na++
	}
	if b.Broker != c21ModeRange {
		nb++
	}
	if na != nb {
		return na < nb
	}
	return string(ja) < string(jb)
}

type c21Skip struct{ job, idx int }

func c21ChildMain(t *testing.T, spec string) int {
	var w, n int
	if _, err := fmt.Sscanf(spec, "%d/%d", &w, &n); err != nil || n <= 0 {
		fmt.Fprintln(os.Stderr, "bad C21_CHILD", spec)
		return 2
	}
	out := os.Getenv("C21_OUT")
	skips := map[c21Skip]bool{}
	for _, s := range strings.Split(os.Getenv("C21_SKIP"), ",") {
		var sk c21Skip
		if _, err := fmt.Sscanf(s, "%d:%d", &sk.job, &sk.idx); err == nil {
			skips[sk] = true
		}
	}
	prog, err := os.OpenFile(out+".progress", os.O_CREATE|os.O_WRONLY|os.O_TRUNC, 0o644)
	if err != nil {
		fmt.Fprintln(os.Stderr, err)
		return 2
	}
	defer prog.Close()
	res := &c21Result{Outcomes: map[string]int64{}, ByKey: map[string]*c21Found{}, Other: map[string]int64{}}
	jobs := c21Jobs(ev.Thorough())
	var pb [16]byte
	for ji := w; ji < len(jobs) && res.Infra == ""; ji += n {
		jobs[ji].each(func(idx int, c c21Case) bool {
			if skips[c21Skip{ji, idx}] {
				return true
			}
			binary.LittleEndian.PutUint64(pb[:], uint64(ji))
			binary.LittleEndian.PutUint64(pb[8:], uint64(idx))
			prog.WriteAt(pb[:], 0)
			o := c21Run(t, c)
			if o.NewErr != "" {
				res.Infra = fmt.Sprintf("%v: NewClient: %s", c, o.NewErr)
				return false
			}
			res.Cases++
			res.Frames += int64(len(o.Frames)) * 2 // every frame read was answered (or the connection closed)
			res.Dials += int64(o.Dials)
			if _, ok, _ := c21Expect(c); ok {
				res.Exists++
			}
			if len(c.Seq) > 0 {
				res.SeqCases++
				for j, so := range o.Steps {
					res.SeqSteps++
					tag := "first-connection"
					if j > 0 {
						tag = "same-connection"
						if so.LastConn > o.Steps[j-1].LastConn {
							tag = "after-reconnect"
							res.Reconnects++
						}
					}
					res.Outcomes[fmt.Sprintf("%d|%s|%s|v%d", c.Key, tag, so.Class, so.Ver)]++
				}
			} else {
				res.Outcomes[fmt.Sprintf("%d|%s|v%d", c.Key, o.Class, o.Ver)]++
			}
			if o.Class == "err-other" && (len(res.Other) < 20 || res.Other[o.Err] > 0) {
				res.Other[o.Err]++
			}
			verdicts := c21Judge(c, o)
			for _, v := range verdicts {
				c.Name = kmsg.NameForKey(c.Key)
				f := res.ByKey[v.cls]
				if f == nil {
					f = &c21Found{Case: c, Obs: o, What: v.what, Want: c21WantString(c)}
					res.ByKey[v.cls] = f
				} else if c21Less(c, f.Case) {
					f.Case, f.Obs, f.What, f.Want = c, o, v.what, c21WantString(c)
				}
				f.Count++
			}
			if len(verdicts) == 0 && len(res.Samples) < 2 && idx%97 == 13 {
				c.Name = kmsg.NameForKey(c.Key)
				res.Samples = append(res.Samples, c21Found{Case: c, Obs: o, Want: c21WantString(c)})
			}
			return true
		})
	}
	res.Done = true
	b, _ := json.Marshal(res)
	if err := os.WriteFile(out+".json", b, 0o644); err != nil {
		fmt.Fprintln(os.Stderr, err)
		return 2
	}
	return 0
}

func c21Replay(t *testing.T, arg string) int {
	var c c21Case
	raw := []byte(arg)
	if !strings.HasPrefix(strings.TrimSpace(arg), "{") {
		b, err := os.ReadFile(arg)
		if err != nil {
			fmt.Println("replay:", err)
			return 2
		}
		raw = b
	}
	var art struct {
		Artefact *c21Found `json:"artefact"`
	}
	if err := json.Unmarshal(raw, &art); err == nil && art.Artefact != nil {
		c = art.Artefact.Case
	} else if err := json.Unmarshal(raw, &c); err != nil {
		fmt.Println("replay:", err)
		return 2
	}
	c.Name = ""
	fmt.Println("replaying", c)
	fmt.Println("expected:", c21WantString(c))
	o := c21Run(t, c)
	b, _ := json.MarshalIndent(o, "", " ")
	fmt.Println("observed:", string(b))
	if vs := c21Judge(c, o); len(vs) > 0 {
		for _, v := range vs {
			fmt.Printf("VIOLATION key=%s: %s\n", v.cls, v.what)
		}
		return 1
	}
	fmt.Println("held")
	return 0
}

func TestVerifC21(t *testing.T) {
	if os.Getenv("GOGC") == "" {
		debug.SetGCPercent(400)
	}
	if p := os.Getenv("C21_REPLAY"); p != "" {
		os.Exit(c21Replay(t, p))
	}
	if spec := os.Getenv("C21_CHILD"); spec != "" {
		code := c21ChildMain(t, spec)
		if os.Getenv("C21_NOEXIT") != "" { // lets -test.cpuprofile flush; development aid only
			return
		}
		os.Exit(code)
	}
	thorough := ev.Thorough()
	jobs := c21Jobs(thorough)
	if os.Getenv("C21_COUNT") != "" { // development aid: size of the enumeration
		var n int64
		for _, j := range jobs {
			j.each(func(int, c21Case) bool { n++; return true })
		}
		fmt.Printf("tier=%s jobs=%d cases=%d\n", ev.Tier(), len(jobs), n)
		os.Exit(0)
	}
	r := ev.New("C21", "model_checking")
	fullKeys, boundaryKeys := c21Keys(thorough)

	r.Rule("one case = (request key K, broker advertisement for K, user MinVersions, user MaxVersions, internal pin); the real client talks to a scripted broker over net.Pipe " +
		"inside its own synctest bubble and the raw kmsg request of key K is issued through the seed broker handle. Broker advertisement: [bmin,bmax] with bmin in {-1 (advertised -1: " +
		"no constraint)} + V and bmax in {32767 (no constraint)} + V, or K omitted from the ApiVersions response, or K and Produce omitted (controller-like listener), or a pre-ApiVersions " +
		"client configuration (MaxVersions built from kversion.V0_9_0: no handshake). User min in {no option, option without K} + V; user max in {no option (default latest stable), option " +
		"without K} + V (built from kversion.Stable()/V0_9_0() with SetMaxKeyVersion). Pins: none, max p, min p. Full grid: V = 0..max(K)+1, p = 0..max(K); boundary grid: V = " +
		"{0, max/2, max, max+1}, p in {0, max/2, max} plus every (min p, max p') pair. Oracle: the statement transcribed (highest v <= all upper bounds and >= all lower bounds; absent " +
		"bounds do not constrain; key omitted by the broker or unknown to the user's/default max versions => no version). Time dimension (sequence cases): from the moment the k-th request is issued every " +
		"connection the client opens is advertised the k-th element of a sequence of 2 (thorough: also 3) advertisements, every sequence over the alphabet {K omitted, K and Produce omitted} + boundary ranges (27 " +
		"elements), one request of key K per element, the client forced to reconnect in between either by ConnIdleTimeout(1s) in virtual time or by the broker closing the connection " +
		"right after its answer; keys Metadata, OffsetCommit (general connection), Produce, Fetch, JoinGroup, CreateTopics (the produce/fetch/group/slow connections, each with its own " +
		"handshake); user min/max in {none,0,max/2,max}^2 (length 3: {none,max/2}^2), pins {none, max max/2, min max/2}; same oracle, evaluated against what the CURRENT connection " +
		"advertises (the connection the frame was read on; if nothing was written, the newest connection that had been given an advertisement). distinct_nontrivial = distinct (key, " +
		"[sequence position kind,] outcome class of the call, header version seen by the broker) tuples")
	r.Assume("kmsg's Request.MaxVersion() is the client's supported maximum for a key",
		"the ApiVersions handshake itself (first ApiVersions request of a connection) cannot know the broker's range: it is judged only against the client's and the user's maximum for key 18",
		"the scripted broker answers every request with the default (empty) kmsg response of the same key and version; SASL is not configured",
		"testing/synctest virtual time: after the call returns the harness waits 3 virtual seconds before reading the frames the broker saw")

	workers := ev.Workers()
	dir := os.Getenv("BUILD")
	if dir == "" {
		dir = ev.Root() + "/build"
	}
	type child struct {
		w       int
		cmd     *exec.Cmd
		out     string
		stderr  bytes.Buffer
		skips   []string
		crashes int
	}
	start := func(c *child) {
		c.stderr.Reset()
		os.Remove(c.out + ".json")
		c.cmd = exec.Command(os.Args[0], "-test.run", "^TestVerifC21$", "-test.timeout", "0")
		c.cmd.Env = append(os.Environ(), "GOMAXPROCS=1", fmt.Sprintf("C21_CHILD=%d/%d", c.w, workers), "C21_OUT="+c.out,
			"C21_SKIP="+strings.Join(c.skips, ","))
		c.cmd.Stderr = &c.stderr
		c.cmd.Stdout = &c.stderr
		if err := c.cmd.Start(); err != nil {
			ev.InfraError("start worker: %v", err)
		}
	}
	var children []*child
	for w := 0; w < workers; w++ {
		c := &child{w: w, out: fmt.Sprintf("%s/c21-worker-%d-%d", dir, os.Getpid(), w)}
		start(c)
		children = append(children, c)
	}
	total := &c21Result{Outcomes: map[string]int64{}, ByKey: map[string]*c21Found{}, Other: map[string]int64{}}
	var infra string
	type crash struct {
		c    c21Case
		tail string
	}
	var crashes []crash
	for _, c := range children {
	again:
		err := c.cmd.Wait()
		b, rerr := os.ReadFile(c.out + ".json")
		if err != nil || rerr != nil {
			// The worker died: a panic in a client goroutine kills the
			// process. Attribute it to the case that was running.
			pb, perr := os.ReadFile(c.out + ".progress")
			tail := c.stderr.String()
			if len(tail) > 4000 {
				tail = tail[:1500] + "\n...\n" + tail[len(tail)-2500:]
			}
			if perr != nil || len(pb) < 16 || c.crashes >= 25 {
				if infra == "" {
					infra = fmt.Sprintf("worker %d failed: %v %v\n%s", c.w, err, rerr, tail)
				}
				continue
			}
			ji, idx := int(binary.LittleEndian.Uint64(pb)), int(binary.LittleEndian.Uint64(pb[8:]))
			if ji < len(jobs) {
				jobs[ji].each(func(i int, cs c21Case) bool {
					if i == idx {
						cs.Name = kmsg.NameForKey(cs.Key)
						crashes = append(crashes, crash{cs, tail})
						return false
					}
					return true
				})
			}
			c.crashes++
			c.skips = append(c.skips, fmt.Sprintf("%d:%d", ji, idx))
			start(c)
			goto again
		}
		os.Remove(c.out + ".json")
		os.Remove(c.out + ".progress")
		var res c21Result
		if err := json.Unmarshal(b, &res); err != nil {
			infra = "worker result: " + err.Error()
			continue
		}
		if res.Infra != "" && infra == "" {
			infra = res.Infra
		}
		total.Cases += res.Cases
		total.Frames += res.Frames
		total.Dials += res.Dials
		total.Exists += res.Exists
		total.SeqCases += res.SeqCases
		total.SeqSteps += res.SeqSteps
		total.Reconnects += res.Reconnects
		for k, n := range res.Outcomes {
			total.Outcomes[k] += n
		}
		for k, n := range res.Other {
			total.Other[k] += n
		}
		for k, f := range res.ByKey {
			old := total.ByKey[k]
			if old == nil {
				total.ByKey[k] = f
			} else {
				n := old.Count + f.Count
				if c21Less(f.Case, old.Case) {
					total.ByKey[k] = f
				}
				total.ByKey[k].Count = n
			}
		}
		total.Samples = append(total.Samples, res.Samples...)
	}
	if infra != "" {
		ev.InfraError("%s", infra)
	}

	r.Evals(total.Cases + int64(len(crashes)))
	r.States(total.Cases + int64(len(crashes)))
	r.Transitions(total.Frames)
	r.Traces(total.Cases + int64(len(crashes)))
	tuples := map[string]bool{}
	for k := range total.Outcomes {
		r.Distinct(k)
		_, cv, _ := strings.Cut(k, "|")
		tuples[cv] = true
	}
	var tl []string
	for k := range tuples {
		tl = append(tl, k)
	}
	sort.Strings(tl)
	r.Set("distinct_class_version_tuples", len(tl))
	r.Set("class_version_tuples", tl)
	r.Set("cases_where_a_version_exists", total.Exists)
	r.Set("cases_where_no_version_exists", total.Cases-total.Exists)
	r.Set("sequence_cases", total.SeqCases)
	r.Set("sequence_requests", total.SeqSteps)
	r.Set("sequence_requests_that_found_a_new_connection", total.Reconnects)
	r.Set("sequence_keys", c21SeqKeys)
	r.Set("connections_opened", total.Dials)
	r.Set("error_texts_classed_err-other", total.Other)
	r.Set("jobs", len(jobs))
	r.Set("keys_full_grid", fullKeys)
	r.Set("keys_boundary_grid", boundaryKeys)
	r.Set("worker_processes", workers)
	r.Set("bound_completed", fmt.Sprintf("full grid for keys %v, boundary grid for %d keys %v", fullKeys, len(boundaryKeys), boundaryKeys))
	for i, s := range total.Samples {
		if i%max(1, len(total.Samples)/8) == 0 {
			r.Sample(s)
		}
	}
	keys := make([]string, 0, len(total.ByKey))
	for k := range total.ByKey {
		keys = append(keys, k)
	}
	sort.Strings(keys)
	for _, k := range keys {
		f := total.ByKey[k]
		r.Violation(k, fmt.Sprintf("%v\nexpected: %s\n%s\n(%d cases with this key)", f.Case, f.Want, f.What, f.Count), f)
	}
	if len(crashes) > 0 {
		sort.Slice(crashes, func(i, j int) bool { return c21Less(crashes[i].c, crashes[j].c) })
		cr := crashes[0]
		r.Violation("panic", fmt.Sprintf("%v\nthe worker process died while this case was running:\n%s\n(%d cases killed their worker)", cr.c, cr.tail, len(crashes)),
			map[string]any{"case": cr.c, "stderr": cr.tail, "crashing_cases": len(crashes)})
	}
	os.Exit(r.Write())
}
