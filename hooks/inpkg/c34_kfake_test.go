package kfake

// C34 — kfake authorization matches Kafka's authorizer.
//
// In-package harness (overlaid as zz_verif_test.go, /repo untouched). It drives
// the real decision procedure of pkg/kfake/acl.go — clusterACLs.add / allowed /
// anyAllowed directly, and Cluster.allowedACL / anyAllowedACL (superuser,
// principal(), clientHost()) through a bare Cluster value with a fake
// connection — on EVERY ACL set up to a size bound over small alphabets, and
// compares every query with an oracle that is an independent transcription of
// Apache Kafka's authorizer rules. Nothing in the oracle calls kfake's
// matching code (matchesResource/Principal/Host/Op, allowed, anyAllowed).
//
// Oracle (AclAuthorizer.authorize / StandardAuthorizerData.authorize):
//   superuser                                        => ALLOW
//   a binding that covers (principal, host, resource)
//     with permission DENY and op == q or op == ALL  => DENY   (no implication for DENY)
//   a binding that covers it with permission ALLOW and
//     op == q, op == ALL, or op implies q
//     (Describe <= Read|Write|Delete|Alter,
//      DescribeConfigs <= AlterConfigs)              => ALLOW
//   otherwise                                        => DENY   (allow.everyone.if.no.acl.found=false)
//   "covers": binding principal == request principal or "User:*"; binding host
//   == request host or "*"; same resource type; LITERAL name equal or "*";
//   PREFIXED: request name starts with the binding name.
//
// Any-resource oracle (authorizeByResourceType) is SEMANTIC, as the property
// states it: allowed iff some resource name of that type is allowed by the
// single-resource oracle for the requesting principal and host. The existential
// over the infinite name space is decided on a finite witness set
//   W = { n, n+"!" : n a name occurring in the ACL set } ∪ { "!" }
// ("!" occurs in no ACL name). Completeness: the verdict for a name x depends
// only on which patterns cover x. If x equals an ACL name, x ∈ W. Otherwise let
// n be the longest ACL name that is a proper prefix of x (w = n+"!"), or w = "!"
// if there is none. No literal pattern other than "*" covers x or w (neither is
// an ACL name); "*" covers both; a prefixed pattern m covers x iff m is a proper
// prefix of x iff m is a prefix of n (n is the longest such) iff m is a prefix of
// n+"!" (m does not contain "!"); with no such n, no prefixed pattern covers x
// or "!". So x and w are covered by exactly the same bindings and get the same
// verdict. (ACL names are non-empty.)
// The harness additionally transcribes Kafka's literal dominance algorithm
// (Authorizer.authorizeByResourceType default method) and cross-checks it
// against the semantic oracle: they must coincide for every operation that is
// not the target of an implication (in particular Write, the only operation
// kfake and Kafka ever ask about), and coincide for all operations when the
// ALLOW side is expanded by implication. Kafka's literal method does not expand
// implied operations; those differences are counted, not asserted.

import (
	"encoding/json"
	"fmt"
	"net"
	"os"
	"sort"
	"strings"
	"sync"
	"sync/atomic"
	"testing"

	"github.com/twmb/franz-go/pkg/kmsg"
	"verif.local/ev"
)

// ---------------------------------------------------------------- model types

type c34Entry struct {
	principal string
	host      string
	typ       kmsg.ACLResourceType
	name      string
	prefixed  bool
	op        kmsg.ACLOperation
	allow     bool
}

type c34EntryJSON struct {
	Principal string `json:"principal"`
	Host      string `json:"host"`
	Type      string `json:"type"`
	Name      string `json:"name"`
	Pattern   string `json:"pattern"`
	Op        string `json:"op"`
	Perm      string `json:"perm"`
}

var c34OpNames = map[kmsg.ACLOperation]string{
	kmsg.ACLOperationAll: "All", kmsg.ACLOperationRead: "Read", kmsg.ACLOperationWrite: "Write",
	kmsg.ACLOperationCreate: "Create", kmsg.ACLOperationDelete: "Delete", kmsg.ACLOperationAlter: "Alter",
	kmsg.ACLOperationDescribe: "Describe", kmsg.ACLOperationDescribeConfigs: "DescribeConfigs",
	kmsg.ACLOperationAlterConfigs: "AlterConfigs",
}

var c34TypeNames = map[kmsg.ACLResourceType]string{
	kmsg.ACLResourceTypeTopic: "topic", kmsg.ACLResourceTypeGroup: "group",
}

func (e c34Entry) json() c34EntryJSON {
	j := c34EntryJSON{Principal: e.principal, Host: e.host, Type: c34TypeNames[e.typ], Name: e.name,
		Pattern: "literal", Op: c34OpNames[e.op], Perm: "deny"}
	if e.prefixed {
		j.Pattern = "prefixed"
	}
	if e.allow {
		j.Perm = "allow"
	}
	return j
}

func c34FromJSON(j c34EntryJSON) (c34Entry, error) {
	e := c34Entry{principal: j.Principal, host: j.Host, name: j.Name, prefixed: j.Pattern == "prefixed", allow: j.Perm == "allow"}
	ok := false
	for t, n := range c34TypeNames {
		if n == j.Type {
			e.typ, ok = t, true
		}
	}
	if !ok {
		return e, fmt.Errorf("unknown type %q", j.Type)
	}
	ok = false
	for o, n := range c34OpNames {
		if n == j.Op {
			e.op, ok = o, true
		}
	}
	if !ok {
		return e, fmt.Errorf("unknown op %q", j.Op)
	}
	return e, nil
}

// the entry as kfake stores it
func (e c34Entry) kfake() acl {
	a := acl{principal: e.principal, host: e.host, resourceType: e.typ, resourceName: e.name,
		pattern: kmsg.ACLResourcePatternTypeLiteral, operation: e.op, permission: kmsg.ACLPermissionTypeDeny}
	if e.prefixed {
		a.pattern = kmsg.ACLResourcePatternTypePrefixed
	}
	if e.allow {
		a.permission = kmsg.ACLPermissionTypeAllow
	}
	return a
}

// ---------------------------------------------------------------- the oracle (plain form)

// covers: the binding's principal, host and resource pattern cover the request.
func c34Covers(e *c34Entry, principal, host string, typ kmsg.ACLResourceType, name string) bool {
	if e.typ != typ {
		return false
	}
	if e.principal != principal && e.principal != "User:*" {
		return false
	}
	if e.host != host && e.host != "*" {
		return false
	}
	if e.prefixed {
		return strings.HasPrefix(name, e.name)
	}
	return e.name == name || e.name == "*"
}

// allowOps: the operations whose ALLOW grants q (AclAuthorizer.aclsAllowAccess).
func c34AllowGrants(aclOp, q kmsg.ACLOperation) bool {
	if aclOp == q || aclOp == kmsg.ACLOperationAll {
		return true
	}
	switch q {
	case kmsg.ACLOperationDescribe:
		return aclOp == kmsg.ACLOperationRead || aclOp == kmsg.ACLOperationWrite ||
			aclOp == kmsg.ACLOperationDelete || aclOp == kmsg.ACLOperationAlter
	case kmsg.ACLOperationDescribeConfigs:
		return aclOp == kmsg.ACLOperationAlterConfigs
	}
	return false
}

func c34DenyHits(aclOp, q kmsg.ACLOperation) bool {
	return aclOp == q || aclOp == kmsg.ACLOperationAll
}

func c34OracleAllowed(set []c34Entry, super bool, principal, host string, typ kmsg.ACLResourceType, name string, q kmsg.ACLOperation) bool {
	if super {
		return true
	}
	for i := range set {
		e := &set[i]
		if !e.allow && c34DenyHits(e.op, q) && c34Covers(e, principal, host, typ, name) {
			return false
		}
	}
	for i := range set {
		e := &set[i]
		if e.allow && c34AllowGrants(e.op, q) && c34Covers(e, principal, host, typ, name) {
			return true
		}
	}
	return false
}

func c34Witnesses(set []c34Entry) []string {
	w := []string{"!"}
	for i := range set {
		w = append(w, set[i].name, set[i].name+"!")
	}
	return w
}

func c34OracleAny(set []c34Entry, super bool, principal, host string, typ kmsg.ACLResourceType, q kmsg.ACLOperation) bool {
	if super {
		return true
	}
	for _, w := range c34Witnesses(set) {
		if c34OracleAllowed(set, false, principal, host, typ, w, q) {
			return true
		}
	}
	return false
}

// Transcription of org.apache.kafka.server.authorizer.Authorizer's default
// authorizeByResourceType (the dominance algorithm). expand=false is Kafka
// verbatim (op == q or ALL on both sides); expand=true additionally lets the
// ALLOW side use implied operations.
func c34KafkaByResourceType(set []c34Entry, principal, host string, typ kmsg.ACLResourceType, q kmsg.ACLOperation, expand bool) bool {
	var denyLit, denyPre, allowLit, allowPre []string
	wildAllow := false
	for i := range set {
		e := &set[i]
		if e.typ != typ {
			continue
		}
		if e.host != host && e.host != "*" {
			continue
		}
		if e.principal != principal && e.principal != "User:*" {
			continue
		}
		if !e.allow {
			if e.op != q && e.op != kmsg.ACLOperationAll {
				continue
			}
			if !e.prefixed {
				if e.name == "*" {
					return false
				}
				denyLit = append(denyLit, e.name)
			} else {
				denyPre = append(denyPre, e.name)
			}
			continue
		}
		if e.op != q && e.op != kmsg.ACLOperationAll && !(expand && c34AllowGrants(e.op, q)) {
			continue
		}
		if !e.prefixed {
			if e.name == "*" {
				wildAllow = true
				continue
			}
			allowLit = append(allowLit, e.name)
		} else {
			allowPre = append(allowPre, e.name)
		}
	}
	if wildAllow {
		return true
	}
	has := func(l []string, s string) bool {
		for _, x := range l {
			if x == s {
				return true
			}
		}
		return false
	}
	dominated := func(a string) bool {
		for k := 1; k <= len(a); k++ {
			if has(denyPre, a[:k]) {
				return true
			}
		}
		return false
	}
	for _, a := range allowLit {
		if has(denyLit, a) {
			continue
		}
		if !dominated(a) {
			return true
		}
	}
	for _, a := range allowPre {
		if !dominated(a) {
			return true
		}
	}
	return false
}

// ---------------------------------------------------------------- query universe

var (
	c34Types  = []kmsg.ACLResourceType{kmsg.ACLResourceTypeTopic, kmsg.ACLResourceTypeGroup}
	c34QUsers = []string{"a", "b", "c"} // principal(user) == "User:"+user
	c34QPrinc = []string{"User:a", "User:b", "User:c"}
	c34QHosts = []string{"h1", "h2"}
	// first c34NQ names are queried; the witnesses cover every ACL name of every
	// alphabet used below ({"*","a","ab","b"}), each +"!", and "!".
	c34Names = []string{"a", "ab", "abc", "b", "c", "*", "*!", "a!", "ab!", "b!", "!"}
	c34Wit   = []int{0, 1, 3, 5, 6, 7, 8, 9, 10}
	c34QOps  = []kmsg.ACLOperation{kmsg.ACLOperationRead, kmsg.ACLOperationWrite, kmsg.ACLOperationDescribe,
		kmsg.ACLOperationAlter, kmsg.ACLOperationAlterConfigs, kmsg.ACLOperationDescribeConfigs,
		kmsg.ACLOperationDelete, kmsg.ACLOperationCreate}
)

const (
	c34NQ    = 5
	c34NT    = 2
	c34NP    = 3
	c34NH    = 2
	c34NO    = 8
	c34NN    = 11
	c34Bits  = c34NT * c34NP * c34NH * c34NO * c34NN
	c34Words = (c34Bits + 63) / 64
	c34Super = "s"
)

type c34Mask [c34Words]uint64

func c34Bit(t, p, h, o, n int) int { return (((t*c34NP+p)*c34NH+h)*c34NO+o)*c34NN + n }

func (m *c34Mask) set(b int)      { m[b>>6] |= 1 << (uint(b) & 63) }
func (m *c34Mask) get(b int) bool { return m[b>>6]>>(uint(b)&63)&1 != 0 }

// anyOf: OR of the witness-name bits of the (t,p,h,o) block starting at base.
func (m *c34Mask) anyOf(base int) bool {
	for _, n := range c34Wit {
		if m.get(base + n) {
			return true
		}
	}
	return false
}

// ---------------------------------------------------------------- alphabets

type c34Alphabet struct {
	name    string
	entries []c34Entry
	kf      []acl
	allowM  []c34Mask // bit set: entry is an ALLOW that covers the query and grants its op
	denyM   []c34Mask // bit set: entry is a DENY that covers the query and hits its op
	desc    map[string]any
}

type c34Dims struct {
	types      []kmsg.ACLResourceType
	principals []string
	hosts      []string
	patterns   [][2]string // name, "L"/"P"
	ops        []kmsg.ACLOperation
}

var c34AllOps = []kmsg.ACLOperation{kmsg.ACLOperationAll, kmsg.ACLOperationRead, kmsg.ACLOperationWrite,
	kmsg.ACLOperationDescribe, kmsg.ACLOperationAlter, kmsg.ACLOperationAlterConfigs,
	kmsg.ACLOperationDescribeConfigs, kmsg.ACLOperationDelete}

var c34AllPatterns = [][2]string{{"*", "L"}, {"a", "L"}, {"a", "P"}, {"ab", "L"}, {"ab", "P"}, {"b", "L"}, {"b", "P"}}

func c34Build(name string, parts ...c34Dims) *c34Alphabet {
	a := &c34Alphabet{name: name, desc: map[string]any{}}
	var descParts []any
	for _, d := range parts {
		for _, t := range d.types {
			for _, p := range d.principals {
				for _, h := range d.hosts {
					for _, pat := range d.patterns {
						for _, op := range d.ops {
							// permission varies fastest so that ALLOW/DENY twins are adjacent
							for _, allow := range []bool{true, false} {
								a.entries = append(a.entries, c34Entry{principal: p, host: h, typ: t,
									name: pat[0], prefixed: pat[1] == "P", op: op, allow: allow})
							}
						}
					}
				}
			}
		}
		var ts, os_, ps []string
		for _, t := range d.types {
			ts = append(ts, c34TypeNames[t])
		}
		for _, o := range d.ops {
			os_ = append(os_, c34OpNames[o])
		}
		for _, p := range d.patterns {
			ps = append(ps, p[0]+"/"+p[1])
		}
		descParts = append(descParts, map[string]any{"types": ts, "principals": d.principals, "hosts": d.hosts,
			"patterns": ps, "ops": os_, "permissions": []string{"allow", "deny"}})
	}
	a.desc["parts"] = descParts
	a.desc["entries"] = len(a.entries)
	a.kf = make([]acl, len(a.entries))
	a.allowM = make([]c34Mask, len(a.entries))
	a.denyM = make([]c34Mask, len(a.entries))
	for i := range a.entries {
		e := &a.entries[i]
		a.kf[i] = e.kfake()
		for t := 0; t < c34NT; t++ {
			for p := 0; p < c34NP; p++ {
				for h := 0; h < c34NH; h++ {
					for n := 0; n < c34NN; n++ {
						if !c34Covers(e, c34QPrinc[p], c34QHosts[h], c34Types[t], c34Names[n]) {
							continue
						}
						for o := 0; o < c34NO; o++ {
							if e.allow && c34AllowGrants(e.op, c34QOps[o]) {
								a.allowM[i].set(c34Bit(t, p, h, o, n))
							}
							if !e.allow && c34DenyHits(e.op, c34QOps[o]) {
								a.denyM[i].set(c34Bit(t, p, h, o, n))
							}
						}
					}
				}
			}
		}
	}
	return a
}

// ---------------------------------------------------------------- fake connection for the Cluster-level wrappers

type c34Addr string

func (a c34Addr) Network() string { return "c34" }
func (a c34Addr) String() string  { return string(a) }

type c34Conn struct {
	net.Conn
	ra net.Addr
}

func (c c34Conn) RemoteAddr() net.Addr { return c.ra }

// ---------------------------------------------------------------- violations

const (
	c34ClsAnyIgnoresDeny = iota
	c34ClsAnyFalseAllow
	c34ClsAnyFalseDeny
	c34ClsAllowedFalseAllow
	c34ClsAllowedFalseDeny
	c34ClsSuperDenied
	c34ClsSuperAnyDenied
	c34ClsAdd
	c34NumCls
)

var c34ClsKey = [c34NumCls]string{
	"C34:anyAllowed:ignores-deny",
	"C34:anyAllowed:false-allow",
	"C34:anyAllowed:false-deny",
	"C34:allowed:false-allow",
	"C34:allowed:false-deny",
	"C34:allowed:superuser-denied",
	"C34:anyAllowed:superuser-denied",
	"C34:add:set-not-stored",
}

type c34Query struct {
	Kind      string `json:"kind"` // "allowed" | "anyAllowed"
	Via       string `json:"via"`  // "clusterACLs" | "Cluster" (wrapper incl. superuser / principal() / clientHost())
	Principal string `json:"principal"`
	Host      string `json:"host"`
	Type      string `json:"type"`
	Name      string `json:"name,omitempty"`
	Op        string `json:"op"`
}

type c34Artefact struct {
	Entries  []c34EntryJSON `json:"entries"` // in the order they were added
	Query    c34Query       `json:"query"`
	Code     bool           `json:"code"`
	Oracle   bool           `json:"oracle"`
	Alphabet string         `json:"alphabet"`
	Pairs    int64          `json:"disagreeing_set_query_pairs_in_class,omitempty"`
}

type c34Best struct {
	count int64
	size  int
	reach bool // the query is one kfake's handlers actually ask ("Write on some/this topic")
	phase int
	idx   [4]int
	rev   bool
	art   *c34Artefact
}

// better: smaller set first, then queries reachable from kfake's handlers,
// then earlier phase / enumeration order (deterministic across worker counts).
func (b *c34Best) better(size int, reach bool, phase int, idx []int, rev bool) bool {
	if b.art == nil {
		return true
	}
	if size != b.size {
		return size < b.size
	}
	if reach != b.reach {
		return reach
	}
	if phase != b.phase {
		return phase < b.phase
	}
	for k := 0; k < size; k++ {
		if idx[k] != b.idx[k] {
			return idx[k] < b.idx[k]
		}
	}
	return !rev && b.rev
}

// ---------------------------------------------------------------- worker

type c34Phase struct {
	no       int
	alpha    *c34Alphabet
	maxSize  int
	evalFrom int  // sets smaller than this were covered by an earlier phase over a superset alphabet
	cross    bool // also run: plain oracle == table oracle, Kafka-literal cross-check, full grid through the Cluster wrappers
}

type c34Worker struct {
	ph    c34Phase
	c     *Cluster
	creq  [4][c34NH]*clientReq // users a,b,c,s × hosts
	idx   [4]int
	set   []c34Entry // current set, order of addition
	order [4]int

	sets, evals                    int64
	dominanceMatters, denyOverride int64
	impliedOnly                    int64
	kafkaLiteralDiffers            int64
	best                           [c34NumCls]c34Best
	distinct                       map[uint64]struct{}
	distinctCapped                 bool
	infra                          string
	queryMask                      *c34Mask
}

const c34DistinctCapPerWorker = 1 << 18

func c34NewWorker(ph c34Phase, qm *c34Mask) *c34Worker {
	w := &c34Worker{ph: ph, distinct: map[uint64]struct{}{}, queryMask: qm}
	w.c = &Cluster{}
	w.c.cfg.enableACLs = true
	w.c.cfg.superusers = map[string]struct{}{c34Super: {}}
	users := append(append([]string{}, c34QUsers...), c34Super)
	for u, user := range users {
		for h, host := range c34QHosts {
			w.creq[u][h] = &clientReq{cc: &clientConn{conn: c34Conn{ra: c34Addr(host + ":9092")}, user: user}}
		}
	}
	return w
}

func (w *c34Worker) record(cls int, size int, rev bool, q c34Query, got, want bool) {
	b := &w.best[cls]
	b.count++
	reach := q.Type == "topic" && q.Op == "Write"
	if !b.better(size, reach, w.ph.no, w.idx[:size], rev) {
		return
	}
	b.size, b.reach, b.phase, b.rev = size, reach, w.ph.no, rev
	copy(b.idx[:], w.idx[:size])
	art := &c34Artefact{Query: q, Code: got, Oracle: want, Alphabet: w.ph.alpha.name}
	for k := 0; k < size; k++ {
		art.Entries = append(art.Entries, w.ph.alpha.entries[w.order[k]].json())
	}
	b.art = art
}

func (w *c34Worker) rec(depth, start int, am, dm c34Mask) {
	a := w.ph.alpha
	for i := start; i < len(a.entries); i++ {
		w.idx[depth] = i
		am2, dm2 := am, dm
		for k := range am2 {
			am2[k] |= a.allowM[i][k]
			dm2[k] |= a.denyM[i][k]
		}
		if depth+1 >= w.ph.evalFrom {
			w.eval(depth+1, &am2, &dm2)
		}
		if depth+1 < w.ph.maxSize {
			w.rec(depth+1, i+1, am2, dm2)
		}
	}
}

func (w *c34Worker) eval(size int, am, dm *c34Mask) {
	a := w.ph.alpha
	w.sets++
	var ok c34Mask
	for k := range ok {
		ok[k] = am[k] &^ dm[k]
	}
	// expected any-resource verdicts
	var wantAny [c34NT * c34NP * c34NH * c34NO]bool
	var anyBits, h1 uint64
	for b := 0; b < len(wantAny); b++ {
		base := b * c34NN
		v := ok.anyOf(base)
		wantAny[b] = v
		anyBits = anyBits<<1 | anyBits>>63
		if v {
			anyBits ^= 0x9E3779B97F4A7C15 + uint64(b)
		} else if am.anyOf(base) {
			w.dominanceMatters++ // some ALLOW matches but every name it covers is denied
		}
	}
	// outcome vector hash (queried bits + any verdicts)
	h1 = 1469598103934665603
	var deniedOverride bool
	for k := range ok {
		v := ok[k] & w.queryMask[k]
		h1 = (h1 ^ v) * 1099511628211
		h1 ^= h1 >> 29
		if am[k]&dm[k]&w.queryMask[k] != 0 {
			deniedOverride = true
		}
	}
	if deniedOverride {
		w.denyOverride++
	}
	h1 = (h1 ^ anyBits) * 1099511628211
	if !w.distinctCapped {
		w.distinct[h1] = struct{}{}
		if len(w.distinct) >= c34DistinctCapPerWorker {
			w.distinctCapped = true
		}
	}

	hasDeny := false
	for k := 0; k < size; k++ {
		if !a.entries[w.idx[k]].allow {
			hasDeny = true
		}
	}

	ca := &w.c.acls
	for pass := 0; pass < 2; pass++ {
		rev := pass == 1
		if rev && size == 1 {
			break
		}
		for k := 0; k < size; k++ {
			if rev {
				w.order[k] = w.idx[size-1-k]
			} else {
				w.order[k] = w.idx[k]
			}
		}
		ca.acls = ca.acls[:0]
		for k := 0; k < size; k++ {
			ca.add(a.kf[w.order[k]])
		}
		if len(ca.acls) != size {
			w.record(c34ClsAdd, size, rev, c34Query{Kind: "add"}, false, true)
			continue
		}
		for t := 0; t < c34NT; t++ {
			typ := c34Types[t]
			for p := 0; p < c34NP; p++ {
				pr := c34QPrinc[p]
				for h := 0; h < c34NH; h++ {
					host := c34QHosts[h]
					for o := 0; o < c34NO; o++ {
						op := c34QOps[o]
						base := c34Bit(t, p, h, o, 0)
						for n := 0; n < c34NQ; n++ {
							want := ok.get(base + n)
							got := ca.allowed(pr, host, c34Names[n], typ, op)
							if got != want {
								w.mismatchAllowed("clusterACLs", size, rev, pr, host, typ, c34Names[n], op, got, want)
							}
						}
						want := wantAny[base/c34NN]
						got := ca.anyAllowed(pr, host, typ, op)
						if got != want {
							w.mismatchAny("clusterACLs", size, rev, hasDeny, am.anyOf(base), pr, host, typ, op, got, want)
						}
					}
				}
			}
		}
		w.evals += c34NT * c34NP * c34NH * c34NO * (c34NQ + 1)

		// superuser through the Cluster wrappers: always allowed, whatever the set says
		for t := 0; t < c34NT; t++ {
			for o := 0; o < c34NO; o++ {
				creq := w.creq[3][1]
				if !w.c.allowedACL(creq, "abc", c34Types[t], c34QOps[o]) {
					w.record(c34ClsSuperDenied, size, rev, c34Query{Kind: "allowed", Via: "Cluster", Principal: "User:" + c34Super, Host: "h2",
						Type: c34TypeNames[c34Types[t]], Name: "abc", Op: c34OpNames[c34QOps[o]]}, false, true)
				}
				if !w.c.anyAllowedACL(creq, c34Types[t], c34QOps[o]) {
					w.record(c34ClsSuperAnyDenied, size, rev, c34Query{Kind: "anyAllowed", Via: "Cluster", Principal: "User:" + c34Super, Host: "h2",
						Type: c34TypeNames[c34Types[t]], Op: c34OpNames[c34QOps[o]]}, false, true)
				}
			}
		}
		w.evals += 2 * c34NT * c34NO

		if w.ph.cross {
			w.crossChecks(size, rev, &ok, am, wantAny[:], hasDeny)
		}
	}
}

func (w *c34Worker) mismatchAllowed(via string, size int, rev bool, pr, host string, typ kmsg.ACLResourceType, name string, op kmsg.ACLOperation, got, want bool) {
	cls := c34ClsAllowedFalseDeny
	if got {
		cls = c34ClsAllowedFalseAllow
	}
	w.record(cls, size, rev, c34Query{Kind: "allowed", Via: via, Principal: pr, Host: host, Type: c34TypeNames[typ], Name: name, Op: c34OpNames[op]}, got, want)
}

// allowWithoutDeny: the oracle's verdict for the same set with its DENY entries removed.
func (w *c34Worker) mismatchAny(via string, size int, rev, hasDeny, allowWithoutDeny bool, pr, host string, typ kmsg.ACLResourceType, op kmsg.ACLOperation, got, want bool) {
	cls := c34ClsAnyFalseDeny
	if got {
		cls = c34ClsAnyFalseAllow
		// The set contains a DENY entry and the DENY entries are what makes the
		// oracle refuse (without them it would allow): the code ignored DENY.
		if hasDeny && allowWithoutDeny {
			cls = c34ClsAnyIgnoresDeny
		}
	}
	w.record(cls, size, rev, c34Query{Kind: "anyAllowed", Via: via, Principal: pr, Host: host, Type: c34TypeNames[typ], Op: c34OpNames[op]}, got, want)
}

// crossChecks (small sets only): (1) the table oracle equals the plain
// transcription with per-set witnesses, (2) Kafka's dominance algorithm agrees
// with the semantic any-oracle, (3) the whole grid through Cluster.allowedACL /
// anyAllowedACL (principal(), clientHost(), superuser) for users a, b, c and s.
func (w *c34Worker) crossChecks(size int, rev bool, ok, am *c34Mask, wantAny []bool, hasDeny bool) {
	a := w.ph.alpha
	w.set = w.set[:0]
	for k := 0; k < size; k++ {
		w.set = append(w.set, a.entries[w.order[k]])
	}
	for t := 0; t < c34NT; t++ {
		typ := c34Types[t]
		for p := 0; p < c34NP; p++ {
			pr := c34QPrinc[p]
			for h := 0; h < c34NH; h++ {
				host := c34QHosts[h]
				creq := w.creq[p][h]
				for o := 0; o < c34NO; o++ {
					op := c34QOps[o]
					base := c34Bit(t, p, h, o, 0)
					for n := 0; n < c34NQ; n++ {
						want := ok.get(base + n)
						if !rev {
							if plain := c34OracleAllowed(w.set, false, pr, host, typ, c34Names[n], op); plain != want && w.infra == "" {
								w.infra = fmt.Sprintf("oracle self-check: table oracle %v != plain oracle %v for allowed %s %s %s %q %s on %+v", want, plain, pr, host, c34TypeNames[typ], c34Names[n], c34OpNames[op], w.set)
							}
							if want && !w.grantedDirectly(pr, host, typ, c34Names[n], op) {
								w.impliedOnly++
							}
						}
						if got := w.c.allowedACL(creq, c34Names[n], typ, op); got != want {
							w.mismatchAllowed("Cluster", size, rev, pr, host, typ, c34Names[n], op, got, want)
						}
					}
					want := wantAny[base/c34NN]
					if !rev {
						if plain := c34OracleAny(w.set, false, pr, host, typ, op); plain != want && w.infra == "" {
							w.infra = fmt.Sprintf("oracle self-check: table any-oracle %v != plain any-oracle %v for %s %s %s %s on %+v", want, plain, pr, host, c34TypeNames[typ], c34OpNames[op], w.set)
						}
						if k := c34KafkaByResourceType(w.set, pr, host, typ, op, true); k != want && w.infra == "" {
							w.infra = fmt.Sprintf("oracle cross-check: Kafka dominance algorithm (implied ops expanded) %v != semantic any-oracle %v for %s %s %s %s on %+v", k, want, pr, host, c34TypeNames[typ], c34OpNames[op], w.set)
						}
						k := c34KafkaByResourceType(w.set, pr, host, typ, op, false)
						if k != want {
							if op != kmsg.ACLOperationDescribe && op != kmsg.ACLOperationDescribeConfigs {
								if w.infra == "" {
									w.infra = fmt.Sprintf("oracle cross-check: Kafka authorizeByResourceType %v != semantic any-oracle %v for %s %s %s %s on %+v", k, want, pr, host, c34TypeNames[typ], c34OpNames[op], w.set)
								}
							} else {
								w.kafkaLiteralDiffers++
							}
						}
					}
					if got := w.c.anyAllowedACL(creq, typ, op); got != want {
						w.mismatchAny("Cluster", size, rev, hasDeny, am.anyOf(base), pr, host, typ, op, got, want)
					}
				}
			}
		}
	}
	w.evals += c34NT * c34NP * c34NH * c34NO * (c34NQ + 1)
}

// grantedDirectly: some covering ALLOW has op == q or ALL (i.e. no implication needed).
func (w *c34Worker) grantedDirectly(pr, host string, typ kmsg.ACLResourceType, name string, q kmsg.ACLOperation) bool {
	for i := range w.set {
		e := &w.set[i]
		if e.allow && c34DenyHits(e.op, q) && c34Covers(e, pr, host, typ, name) {
			return true
		}
	}
	return false
}

// ---------------------------------------------------------------- driver

func c34RunPhase(r *ev.Run, ph c34Phase, total *[c34NumCls]c34Best) (sets int64) {
	var qm c34Mask
	for t := 0; t < c34NT; t++ {
		for p := 0; p < c34NP; p++ {
			for h := 0; h < c34NH; h++ {
				for o := 0; o < c34NO; o++ {
					for n := 0; n < c34NQ; n++ {
						qm.set(c34Bit(t, p, h, o, n))
					}
				}
			}
		}
	}
	nw := ev.Workers()
	var next atomic.Int64
	var wg sync.WaitGroup
	ws := make([]*c34Worker, nw)
	for k := range ws {
		ws[k] = c34NewWorker(ph, &qm)
		wg.Add(1)
		go func(w *c34Worker) {
			defer wg.Done()
			a := w.ph.alpha
			for {
				i := int(next.Add(1) - 1)
				if i >= len(a.entries) {
					return
				}
				// subtree of all sets whose smallest index is i
				w.idx[0] = i
				am, dm := a.allowM[i], a.denyM[i]
				if 1 >= w.ph.evalFrom {
					w.eval(1, &am, &dm)
				}
				if w.ph.maxSize > 1 {
					w.rec(1, i+1, am, dm)
				}
			}
		}(ws[k])
	}
	wg.Wait()
	var evals, dom, over, impl, klit int64
	capped := false
	for _, w := range ws {
		if w.infra != "" {
			ev.InfraError("%s", w.infra)
		}
		sets += w.sets
		evals += w.evals
		dom += w.dominanceMatters
		over += w.denyOverride
		impl += w.impliedOnly
		klit += w.kafkaLiteralDiffers
		capped = capped || w.distinctCapped
		for h := range w.distinct {
			r.DistinctHash(h)
		}
		for c := range w.best {
			b := &w.best[c]
			if b.art == nil {
				continue
			}
			t := &total[c]
			if t.better(b.size, b.reach, b.phase, b.idx[:b.size], b.rev) {
				cnt := t.count
				*t = *b
				t.count = cnt
			}
			t.count += b.count
		}
	}
	r.Evals(evals)
	r.Add("acl_sets", sets)
	r.Add("sets_where_a_deny_overrides_a_matching_allow", over)
	r.Add("any_queries_where_allow_matches_but_is_dominated_by_deny", dom)
	r.Add("allowed_verdicts_granted_only_by_implication(sets<=2)", impl)
	r.Add("any_queries_where_kafka_literal_byResourceType_differs_from_semantic(Describe/DescribeConfigs only, sets<=2)", klit)
	if capped {
		r.Set("distinct_outcome_vectors_capped", true)
	}
	r.Set(fmt.Sprintf("phase_%d", ph.no), map[string]any{"alphabet": ph.alpha.name, "alphabet_detail": ph.alpha.desc,
		"set_sizes": fmt.Sprintf("%d..%d", ph.evalFrom, ph.maxSize), "sets": sets, "orders": "as enumerated and reversed",
		"cross_checks": ph.cross})
	return sets
}

func c34Replay(path string) {
	b, err := os.ReadFile(path)
	if err != nil {
		ev.InfraError("replay: %v", err)
	}
	var f struct {
		Key      string      `json:"key"`
		Artefact c34Artefact `json:"artefact"`
	}
	if err := json.Unmarshal(b, &f); err != nil {
		ev.InfraError("replay: %v", err)
	}
	art := f.Artefact
	var set []c34Entry
	var ca clusterACLs
	for _, j := range art.Entries {
		e, err := c34FromJSON(j)
		if err != nil {
			ev.InfraError("replay: %v", err)
		}
		set = append(set, e)
		ca.add(e.kfake())
	}
	q := art.Query
	var typ kmsg.ACLResourceType
	for t, n := range c34TypeNames {
		if n == q.Type {
			typ = t
		}
	}
	var op kmsg.ACLOperation
	for o, n := range c34OpNames {
		if n == q.Op {
			op = o
		}
	}
	super := q.Principal == "User:"+c34Super
	var got, want bool
	switch q.Kind {
	case "allowed":
		got = super || ca.allowed(q.Principal, q.Host, q.Name, typ, op)
		want = c34OracleAllowed(set, super, q.Principal, q.Host, typ, q.Name, op)
	case "anyAllowed":
		got = super || ca.anyAllowed(q.Principal, q.Host, typ, op)
		want = c34OracleAny(set, super, q.Principal, q.Host, typ, op)
	default:
		ev.InfraError("replay: unsupported query kind %q", q.Kind)
	}
	fmt.Printf("replay %s: entries=%d query=%+v code=%v oracle=%v\n", f.Key, len(set), q, got, want)
	if got != want {
		fmt.Println("REPLAY: VIOLATION reproduced")
		os.Exit(1)
	}
	fmt.Println("REPLAY: held")
	os.Exit(0)
}

func TestVerifC34(t *testing.T) {
	if p := os.Getenv("VERIF_C34_REPLAY"); p != "" {
		c34Replay(p)
	}
	r := ev.New("C34", "exploration")
	r.Rule("every ACL set (unordered, each stored in enumeration order and in reverse order through clusterACLs.add) up to the stated size over the stated alphabet; " +
		"each set is queried through the real clusterACLs.allowed for principals User:{a,b,c} x hosts {h1,h2} x types {topic,group} x names {a,ab,abc,b,c} x ops {Read,Write,Describe,Alter,AlterConfigs,DescribeConfigs,Delete,Create}, " +
		"through clusterACLs.anyAllowed for the same principals x hosts x types x ops, and as superuser through Cluster.allowedACL/anyAllowedACL; sets of size <=2 additionally run the whole grid through the Cluster wrappers. " +
		"distinct_nontrivial = number of distinct oracle outcome vectors (one bit per query) observed")
	r.Assume(
		"oracle = transcription of Kafka's AclAuthorizer/StandardAuthorizer rules as given in the property statement; any-resource oracle is semantic (exists an allowed name) over a witness set proved complete in the harness header; it is cross-checked on all sets of size <=2 against a transcription of Kafka's Authorizer.authorizeByResourceType dominance algorithm",
		"Kafka's literal authorizeByResourceType does not expand implied operations (ALLOW Read does not make 'Describe some topic' true); kfake does, which equals the semantic reading of the property; the two only differ for Describe/DescribeConfigs, which neither kfake nor Kafka ever asks as an any-resource question (only Write on Topic is)",
		"no symmetry reduction is used; where a tier uses a smaller alphabet than the full one this is stated in phase_N.alphabet_detail (the dropped values User:b and name b are renamings of User:a and a that the code can only distinguish by string equality)",
		"the second resource type (group) shows non-interference: full alphabet for sets <=2, a reduced group alphabet inside larger sets; all queries are asked for both types",
		"host strings stand for IP addresses; the Cluster wrapper is driven with a fake net.Conn whose RemoteAddr is host:9092",
	)

	full := c34Dims{types: c34Types, principals: []string{"User:a", "User:b", "User:*"}, hosts: []string{"h1", "*"}, patterns: c34AllPatterns, ops: c34AllOps}
	topicFull := full
	topicFull.types = c34Types[:1]
	groupSmall := c34Dims{types: c34Types[1:], principals: []string{"User:a", "User:*"}, hosts: []string{"*"},
		patterns: [][2]string{{"*", "L"}, {"a", "L"}, {"a", "P"}},
		ops:      []kmsg.ACLOperation{kmsg.ACLOperationAll, kmsg.ACLOperationRead, kmsg.ACLOperationDescribe}}
	topicQuick := c34Dims{types: c34Types[:1], principals: []string{"User:a", "User:*"}, hosts: []string{"h1", "*"},
		patterns: c34AllPatterns[:5], ops: c34AllOps}
	groupTiny := c34Dims{types: c34Types[1:], principals: []string{"User:*"}, hosts: []string{"*"},
		patterns: [][2]string{{"*", "L"}, {"a", "P"}},
		ops:      []kmsg.ACLOperation{kmsg.ACLOperationAll, kmsg.ACLOperationWrite}}
	topic4 := c34Dims{types: c34Types[:1], principals: []string{"User:a", "User:*"}, hosts: []string{"h1", "*"},
		patterns: [][2]string{{"*", "L"}, {"a", "L"}, {"a", "P"}, {"ab", "L"}, {"ab", "P"}},
		ops:      []kmsg.ACLOperation{kmsg.ACLOperationAll, kmsg.ACLOperationWrite, kmsg.ACLOperationDescribe}}

	phases := []c34Phase{
		{no: 1, alpha: c34Build("full: topic+group, 3 principals, 2 hosts, 7 patterns, 8 ops, 2 permissions", full), maxSize: 2, evalFrom: 1, cross: true},
	}
	if ev.Thorough() {
		phases = append(phases,
			c34Phase{no: 2, alpha: c34Build("topic full + reduced group", topicFull, groupSmall), maxSize: 3, evalFrom: 3},
			c34Phase{no: 3, alpha: c34Build("size-4 alphabet: topic, principals {a,*}, hosts {h1,*}, patterns {*,a,a+,ab,ab+}, ops {All,Write,Describe}", topic4), maxSize: 4, evalFrom: 4},
		)
	} else {
		phases = append(phases,
			c34Phase{no: 2, alpha: c34Build("quick size-3 alphabet: topic principals {a,*}, hosts {h1,*}, patterns {*,a,a+,ab,ab+}, all ops; tiny group part", topicQuick, groupTiny), maxSize: 3, evalFrom: 3},
		)
	}

	var total [c34NumCls]c34Best
	bounds := []string{}
	for _, ph := range phases {
		n := c34RunPhase(r, ph, &total)
		bounds = append(bounds, fmt.Sprintf("phase %d: all sets of size %d..%d over %d entries (%d sets)", ph.no, ph.evalFrom, ph.maxSize, len(ph.alpha.entries), n))
		fmt.Printf("C34 phase %d done: %s\n", ph.no, bounds[len(bounds)-1])
	}
	r.Set("bound_completed", bounds)

	// samples: a few explored sets written out with their oracle verdict for one query
	a := phases[0].alpha
	for _, pair := range [][2]int{{0, 1}, {0, 3}, {2, 31}, {17, 400}} {
		if pair[1] < len(a.entries) {
			set := []c34Entry{a.entries[pair[0]], a.entries[pair[1]]}
			r.Sample(map[string]any{"entries": []c34EntryJSON{set[0].json(), set[1].json()},
				"oracle_allowed(User:a,h1,topic,ab,Write)":    c34OracleAllowed(set, false, "User:a", "h1", kmsg.ACLResourceTypeTopic, "ab", kmsg.ACLOperationWrite),
				"oracle_anyAllowed(User:a,h1,topic,Describe)": c34OracleAny(set, false, "User:a", "h1", kmsg.ACLResourceTypeTopic, kmsg.ACLOperationDescribe)})
		}
	}

	counts := map[string]int64{}
	classes := make([]int, 0, c34NumCls)
	for c := range total {
		if total[c].art != nil {
			classes = append(classes, c)
		}
	}
	sort.Ints(classes)
	for _, c := range classes {
		b := &total[c]
		counts[c34ClsKey[c]] = b.count
		b.art.Pairs = b.count
		ej, _ := json.Marshal(b.art.Entries)
		what := fmt.Sprintf("ACL set %s; query %s %s(principal=%s host=%s type=%s name=%q op=%s): kfake says %v, Kafka's rules say %v (%d disagreeing set/query/order triples in this class; minimal one shown)",
			ej, b.art.Query.Via, b.art.Query.Kind, b.art.Query.Principal, b.art.Query.Host, b.art.Query.Type, b.art.Query.Name, b.art.Query.Op,
			b.art.Code, b.art.Oracle, b.count)
		r.Violation(c34ClsKey[c], what, b.art)
	}
	if len(counts) > 0 {
		r.Set("disagreements_by_class", counts)
	}
	os.Exit(r.Write())
}
