package kgo

// C29 part (a): the client's sequence arithmetic.
//
// incrementSequence is the only place in pkg/kgo that does arithmetic on
// producer sequence numbers (recBuf.seq on drain, recBuf.batch0Seq on finish;
// every other write to those fields is a plain reset to 0 or a rewind to
// batch0Seq -- the main binary checks that claim against the source). This
// harness runs the real function against (s+n) mod 2^31 computed in int64.
//
// It writes a JSON summary to $C29_OUT; checks/c29/main.go aggregates it.

import (
	"encoding/json"
	"fmt"
	"hash/fnv"
	"os"
	"sort"
	"strconv"
	"sync"
	"sync/atomic"
	"testing"
)

const c29Mod = int64(1) << 31

type c29ClientViol struct {
	Key      string `json:"key"`
	What     string `json:"what"`
	Count    int64  `json:"count"`
	Artefact any    `json:"artefact"`
}

type c29ClientSummary struct {
	Part        string          `json:"part"`
	Evaluations int64           `json:"evaluations"`
	Nontrivial  int64           `json:"nontrivial"`
	Distinct    []uint64        `json:"distinct"`
	Samples     []any           `json:"samples"`
	Sets        map[string]any  `json:"sets"`
	Violations  []c29ClientViol `json:"violations"`
}

func c29Ref(s, n int32) int32 { return int32((int64(s) + int64(n)) % c29Mod) }

type c29Bad struct {
	S, N      int32
	Got, Want int32
}

func c29Hash(s string) uint64 { h := fnv.New64a(); h.Write([]byte(s)); return h.Sum64() }

func TestVerifC29(t *testing.T) {
	if rp := os.Getenv("C29_REPLAY"); rp != "" {
		c29ClientReplay(rp)
		return
	}
	out := os.Getenv("C29_OUT")
	if out == "" {
		t.Skip("C29_OUT not set")
	}
	thorough := os.Getenv("VERIF_TIER") == "thorough"
	workers, _ := strconv.Atoi(os.Getenv("VERIF_WORKERS"))
	if workers <= 0 {
		workers = 16
	}

	var (
		mu       sync.Mutex
		evals    int64
		wraps    int64
		badCount int64
		best     *c29Bad
		distinct = map[uint64]struct{}{}
	)
	less := func(a, b *c29Bad) bool { // minimal failing input: smallest n, then smallest s
		if a.N != b.N {
			return a.N < b.N
		}
		return a.S < b.S
	}
	merge := func(e, w, bc int64, b *c29Bad) {
		mu.Lock()
		evals += e
		wraps += w
		badCount += bc
		if b != nil && (best == nil || less(b, best)) {
			best = b
		}
		mu.Unlock()
	}

	// ---- sweep 1: boundary window, every s x every n.
	const W = 4096
	var ss, ns []int32
	for s := int64(0); s <= W; s++ {
		ss = append(ss, int32(s))
	}
	for s := c29Mod - W; s < c29Mod; s++ {
		ss = append(ss, int32(s))
	}
	for n := int64(1); n <= W; n++ {
		ns = append(ns, int32(n))
	}
	for n := c29Mod - W; n < c29Mod; n++ {
		ns = append(ns, int32(n))
	}
	{
		var next atomic.Int64
		var wg sync.WaitGroup
		for w := 0; w < workers; w++ {
			wg.Add(1)
			go func() {
				defer wg.Done()
				var e, wr, bc int64
				var b *c29Bad
				for {
					i := int(next.Add(1) - 1)
					if i >= len(ss) {
						break
					}
					s := ss[i]
					for _, n := range ns {
						got := incrementSequence(s, n)
						want := c29Ref(s, n)
						e++
						if int64(s)+int64(n) >= c29Mod {
							wr++
						}
						if got != want {
							bc++
							c := &c29Bad{s, n, got, want}
							if b == nil || less(c, b) {
								b = c
							}
						}
					}
				}
				merge(e, wr, bc, b)
			}()
		}
		wg.Wait()
	}
	for _, s := range ss {
		distinct[c29Hash(fmt.Sprintf("client:window:s=%d", s))] = struct{}{}
	}
	for _, n := range ns {
		distinct[c29Hash(fmt.Sprintf("client:window:n=%d", n))] = struct{}{}
	}
	windowPairs := int64(len(ss)) * int64(len(ns))

	// ---- sweep 2: ALL 2^31 values of s for selected n.
	fullNs := []int32{1, 2, 5, int32(c29Mod - 1)}
	if thorough {
		fullNs = []int32{
			1, 2, 3, 4, 5, 7, 8, 16, 100, 1000, 4095, 4096, 4097, 65535, 65536, 1 << 20,
			1<<30 - 1, 1 << 30, 1<<30 + 1, int32(c29Mod - 1<<20), int32(c29Mod - 4097), int32(c29Mod - 4096),
			int32(c29Mod - 16), int32(c29Mod - 5), int32(c29Mod - 3), int32(c29Mod - 2), int32(c29Mod - 1),
		}
	}
	const chunk = int64(1) << 22
	type job struct {
		n  int32
		lo int64
	}
	var jobs []job
	for _, n := range fullNs {
		for lo := int64(0); lo < c29Mod; lo += chunk {
			jobs = append(jobs, job{n, lo})
		}
	}
	{
		var next atomic.Int64
		var wg sync.WaitGroup
		for w := 0; w < workers; w++ {
			wg.Add(1)
			go func() {
				defer wg.Done()
				var e, wr, bc int64
				var b *c29Bad
				for {
					i := int(next.Add(1) - 1)
					if i >= len(jobs) {
						break
					}
					j := jobs[i]
					n := j.n
					n64 := int64(n)
					for s := j.lo; s < j.lo+chunk; s++ {
						got := incrementSequence(int32(s), n)
						want := int32((s + n64) % c29Mod)
						if got != want {
							bc++
							c := &c29Bad{int32(s), n, got, want}
							if b == nil || less(c, b) {
								b = c
							}
						}
					}
					e += chunk
					// number of s in [lo,lo+chunk) with s+n >= 2^31
					first := c29Mod - n64
					if first < j.lo {
						first = j.lo
					}
					if hi := j.lo + chunk; first < hi {
						wr += hi - first
					}
				}
				merge(e, wr, bc, b)
			}()
		}
		wg.Wait()
	}
	for _, n := range fullNs {
		distinct[c29Hash(fmt.Sprintf("client:full:n=%d", n))] = struct{}{}
	}

	sum := c29ClientSummary{
		Part:        "client",
		Evaluations: evals,
		Nontrivial:  wraps,
		Sets: map[string]any{
			"client_window_pairs":     windowPairs,
			"client_full_sweep_n":     fullNs,
			"client_full_sweep_s":     "all 2^31 values",
			"client_pairs_that_wrap":  wraps,
			"client_mismatches":       badCount,
			"client_window_halfwidth": W,
		},
	}
	for _, c := range [][2]int32{{int32(c29Mod - 1), 1}, {int32(c29Mod - 2), 1}, {int32(c29Mod - 3), 5}, {0, int32(c29Mod - 1)}} {
		sum.Samples = append(sum.Samples, map[string]any{"part": "client", "s": c[0], "n": c[1],
			"incrementSequence": incrementSequence(c[0], c[1]), "reference": c29Ref(c[0], c[1])})
	}
	for h := range distinct {
		sum.Distinct = append(sum.Distinct, h)
	}
	sort.Slice(sum.Distinct, func(i, j int) bool { return sum.Distinct[i] < sum.Distinct[j] })
	if best != nil {
		sum.Violations = append(sum.Violations, c29ClientViol{
			Key: "C29:client:incrementSequence",
			What: fmt.Sprintf("incrementSequence(%d, %d) = %d, Kafka requires (s+n) mod 2^31 = %d (%d mismatching (s,n) pairs in the swept space)",
				best.S, best.N, best.Got, best.Want, badCount),
			Count:    badCount,
			Artefact: map[string]any{"part": "client", "s": best.S, "n": best.N, "got": best.Got, "want": best.Want},
		})
	}
	b, _ := json.MarshalIndent(sum, "", " ")
	if err := os.WriteFile(out, b, 0o644); err != nil {
		fmt.Fprintf(os.Stderr, "INFRA-ERROR: %v\n", err)
		os.Exit(2)
	}
	fmt.Printf("C29 client: evaluations=%d wrapping=%d mismatches=%d\n", evals, wraps, badCount)
	os.Exit(0)
}

func c29ClientReplay(path string) {
	b, err := os.ReadFile(path)
	if err != nil {
		fmt.Fprintf(os.Stderr, "INFRA-ERROR: %v\n", err)
		os.Exit(2)
	}
	var v struct {
		Artefact struct {
			Part string `json:"part"`
			S    int32  `json:"s"`
			N    int32  `json:"n"`
		} `json:"artefact"`
	}
	if err := json.Unmarshal(b, &v); err != nil || v.Artefact.Part != "client" {
		fmt.Fprintf(os.Stderr, "INFRA-ERROR: not a client artefact: %v\n", err)
		os.Exit(2)
	}
	got, want := incrementSequence(v.Artefact.S, v.Artefact.N), c29Ref(v.Artefact.S, v.Artefact.N)
	fmt.Printf("replay client: incrementSequence(%d,%d)=%d reference=%d\n", v.Artefact.S, v.Artefact.N, got, want)
	if got != want {
		fmt.Println("VIOLATION reproduced")
		os.Exit(1)
	}
	fmt.Println("held")
	os.Exit(0)
}
