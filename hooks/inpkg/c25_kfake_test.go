package kfake

// C25 in-package harness: kfake's server-side (KIP-848) assignors.
//
// Builds a bare *group whose consumerMembers carry the 848 member state the
// assignors read (memberID, instanceID, memberEpoch incl. -2 "static leave",
// subscribedTopics, subscribedTopicRegex, previous targetAssignment), calls
// the real group.computeTargetAssignment(snapshot) -- which resolves
// subscriptions, builds allTPs/memberIDs/memberSubs and dispatches to
// assignUniform / assignRange -- and checks the resulting target assignment of
// the active members with the C25 validity oracle (balenum.CheckValid).
//
// It prints nothing on success and writes a JSON summary to
// $C25_KFAKE_SUMMARY which checks/c25/main.go merges into the evidence file.

import (
	"encoding/json"
	"fmt"
	"os"
	"regexp"
	"runtime/pprof"
	"sort"
	"sync"
	"testing"
	"time"

	"verif/checks/c25/balenum"
)

const c25RegexBit uint8 = 1 << 6 // member subscribes by regex "^t[ab]$" instead of by names

var (
	c25UUIDs    = []uuid{{1}, {2}}
	c25GhostID  = uuid{9} // a topic ID that is not in the snapshot (deleted topic)
	c25RegexAll = regexp.MustCompile(`^t[ab]$`)
)

type c25Case struct {
	Assignor string        `json:"assignor"`
	Away     int           `json:"away"` // index of the member with memberEpoch -2, or -1
	Case     *balenum.Case `json:"case"` // N, Parts, Subs, Owners (= previous target), Ghost, Static
}

type c25Artefact struct {
	Balancer string   `json:"balancer"`
	KCase    *c25Case `json:"kfake_case"`
	Input    string   `json:"input"`
	Plan     string   `json:"plan"`
}

func c25Describe(k *c25Case) string {
	c := k.Case
	s := fmt.Sprintf("assignor=%s snapshot:", k.Assignor)
	for t, p := range c.Parts {
		s += fmt.Sprintf(" %s=%d", balenum.RealTopics[t], p)
	}
	s += "\n"
	for i := 0; i < c.N; i++ {
		sub := fmt.Sprint(c.TopicsOf(i))
		if c.Subs[i]&c25RegexBit != 0 {
			sub += " + regex ^t[ab]$"
		}
		epoch := "5"
		if i == k.Away {
			epoch = "-2 (static leave)"
		}
		s += fmt.Sprintf("member %s instance=%q epoch=%s subscribes=%s previous-target=%v\n", c.ID(i), c.InstanceID(i), epoch, sub, c.Owned(i))
	}
	return s
}

// c25Run executes one case on the real code and returns the target assignment
// of the active members plus the oracle's view of the input.
func c25Run(k *c25Case) (plan balenum.Plan, oc *balenum.Case, err error) {
	defer func() {
		if r := recover(); r != nil {
			err = fmt.Errorf("panic: %v", r)
		}
	}()
	c := k.Case
	snap := topicMetaSnap{}
	idName := map[uuid]string{}
	for t, p := range c.Parts {
		snap[balenum.RealTopics[t]] = topicSnapInfo{id: c25UUIDs[t], partitions: p}
		idName[c25UUIDs[t]] = balenum.RealTopics[t]
	}
	g := &group{
		assignorName:    k.Assignor,
		consumerMembers: make(map[string]*consumerMember, c.N),
		partitionEpochs: make(map[uuid]map[int32]int32),
		groupEpoch:      6,
	}
	oc = &balenum.Case{Parts: c.Parts}
	for i := 0; i < c.N; i++ {
		m := &consumerMember{
			memberID:                    c.ID(i),
			memberEpoch:                 5,
			subscribedTopics:            c.TopicsOf(i),
			targetAssignment:            make(map[uuid][]int32),
			partitionsPendingRevocation: make(map[uuid][]int32),
		}
		if iid := c.InstanceID(i); iid != "" {
			m.instanceID = &iid
		}
		eff := c.Subs[i] &^ c25RegexBit
		if c.Subs[i]&c25RegexBit != 0 {
			m.subscribedTopicRegex = c25RegexAll
			m.subscribedRegexSource = c25RegexAll.String()
			for t := range c.Parts {
				eff |= 1 << uint(t)
			}
		}
		for topic, ps := range c.Owned(i) {
			switch topic {
			case balenum.GhostTopic:
				m.targetAssignment[c25GhostID] = append([]int32(nil), ps...)
			default:
				for t := range balenum.RealTopics {
					if balenum.RealTopics[t] == topic {
						m.targetAssignment[c25UUIDs[t]] = append([]int32(nil), ps...)
					}
				}
			}
		}
		if i == k.Away {
			m.memberEpoch = -2
		} else {
			oc.IDs = append(oc.IDs, c.ID(i))
			oc.Subs = append(oc.Subs, eff)
			oc.N++
		}
		g.consumerMembers[m.memberID] = m
	}
	oc.Gens = make([]int32, oc.N)
	oc.Owners = make([][]int, oc.NumFlat())

	g.computeTargetAssignment(snap)

	plan = balenum.Plan{}
	for i := 0; i < c.N; i++ {
		if i == k.Away {
			continue
		}
		m := g.consumerMembers[c.ID(i)]
		a := map[string][]int32{}
		for id, ps := range m.targetAssignment {
			name, ok := idName[id]
			if !ok {
				name = fmt.Sprintf("<topic id %x not in snapshot>", id[:1])
			}
			a[name] = append(a[name], ps...)
		}
		plan[c.ID(i)] = a
	}
	if g.targetAssignmentEpoch != g.groupEpoch && oc.N > 0 {
		return plan, oc, fmt.Errorf("targetAssignmentEpoch %d not advanced to groupEpoch %d", g.targetAssignmentEpoch, g.groupEpoch)
	}
	return plan, oc, nil
}

func c25Check(k *c25Case) (balenum.Plan, *balenum.Verdict) {
	plan, oc, err := c25Run(k)
	if err != nil {
		return plan, &balenum.Verdict{Key: "panic-or-error", What: err.Error()}
	}
	return plan, balenum.CheckValid(oc, plan, false)
}

type c25Block struct {
	assignor string
	away     int
	blk      balenum.Block
}

// c25SubOptions: explicit subsets of {ta, tb} with and without the
// nonexistent topic tz, plus the regex subscription.
func c25SubVectors(n, nt int, rich bool) [][]uint8 {
	var opts []uint8
	for m := 0; m < 1<<uint(nt); m++ {
		opts = append(opts, uint8(m))
		if rich {
			opts = append(opts, uint8(m)|balenum.GhostBit)
		}
	}
	if rich {
		opts = append(opts, c25RegexBit)
	}
	out := [][]uint8{{}}
	for i := 0; i < n; i++ {
		var next [][]uint8
		for _, v := range out {
			for _, o := range opts {
				next = append(next, append(append([]uint8(nil), v...), o))
			}
		}
		out = next
	}
	return out
}

func c25Blocks(thorough bool) ([]c25Block, string) {
	maxN, richN, total, totalAtMax := 3, 2, 4, 4
	conflictTopics, conflictTotal := 2, 3
	if thorough {
		maxN, richN, total, totalAtMax = 4, 3, 6, 4
		conflictTotal = 4
	}
	plainSubs := func(subs []uint8) bool {
		for _, s := range subs {
			if s&(balenum.GhostBit|c25RegexBit) != 0 {
				return false
			}
		}
		return true
	}
	var out []c25Block
	for n := 1; n <= maxN; n++ {
		tot := total
		if n == maxN {
			tot = totalAtMax
		}
		for _, parts := range balenum.PartConfigs(2, 3, tot) {
			for _, subs := range c25SubVectors(n, len(parts), n <= richN) {
				for away := -1; away < n; away++ {
					// uniform is sticky: sweep the previous target (nobody | one member),
					// with and without stale entries (deleted topic ID, partition beyond the end)
					for _, ghost := range []bool{false, true} {
						out = append(out, c25Block{"uniform", away, balenum.Block{Sweep: "kfake-uniform", N: n, Parts: parts, Subs: subs, Ghost: ghost, Prior: balenum.PriorSingle, Orders: 1}})
					}
					// A previous target in which two members hold the same partition is
					// reachable: a static member on leave (epoch -2) keeps its target while
					// computeTargetAssignment hands its partitions to others, and the member
					// replacing it inherits the old target (consumerJoin). Swept on a smaller
					// space: nobody | one member | two conflicting members.
					if away == -1 && len(parts) <= conflictTopics && int(parts[0])+int(parts[len(parts)-1])*(len(parts)-1) <= conflictTotal && (n <= 2 || plainSubs(subs)) {
						out = append(out, c25Block{"uniform", away, balenum.Block{Sweep: "kfake-uniform-conflict", N: n, Parts: parts, Subs: subs, Prior: balenum.PriorConflict, Orders: 1}})
					}
					// range recomputes from scratch: previous target is irrelevant but
					// must be fully replaced; member order depends on static instance IDs
					for _, static := range []bool{false, true} {
						out = append(out, c25Block{"range", away, balenum.Block{Sweep: "kfake-range", N: n, Parts: parts, Subs: subs, Static: static, Ghost: true, Prior: balenum.PriorNone, Orders: 1}})
						out = append(out, c25Block{"range", away, balenum.Block{Sweep: "kfake-range", N: n, Parts: parts, Subs: subs, Static: static, Prior: balenum.PriorSingle, Orders: 1}})
					}
				}
			}
		}
	}
	bound := fmt.Sprintf("members<=%d (one optionally on static-leave epoch -2), snapshot topics<=2 with 1..3 partitions and total<=%d (<=%d at %d members); per-member subscription: every subset of {ta,tb} x {with,without nonexistent tz} + regex (members<=%d; plain subsets above); previous target: partition -> nobody | one member, with/without stale topic-ID and out-of-range entries, plus (total<=%d, no member on leave, plain subscriptions above 2 members) nobody | one | two conflicting members; range: dynamic and static(reversed) IDs", maxN, total, totalAtMax, maxN, richN, conflictTotal)
	return out, bound
}

func TestVerifC25(t *testing.T) {
	if p := os.Getenv("VERIF_REPLAY"); p != "" {
		b, err := os.ReadFile(p)
		if err != nil {
			fmt.Println("replay:", err)
			os.Exit(2)
		}
		var f struct {
			Artefact c25Artefact `json:"artefact"`
		}
		if json.Unmarshal(b, &f) != nil || f.Artefact.KCase == nil {
			fmt.Println("not a kfake artefact; nothing to replay in the kfake harness")
			os.Exit(0)
		}
		fmt.Printf("replaying\n%s", c25Describe(f.Artefact.KCase))
		plan, v := c25Check(f.Artefact.KCase)
		fmt.Printf("target: %s\n", balenum.FormatPlan(plan))
		if v != nil {
			fmt.Printf("VIOLATION reproduced: %s: %s\n", v.Key, v.What)
			os.Exit(1)
		}
		fmt.Println("holds")
		os.Exit(0)
	}
	out := os.Getenv("C25_KFAKE_SUMMARY")
	if out == "" {
		t.Skip("C25_KFAKE_SUMMARY not set")
	}
	if pp := os.Getenv("C25_PPROF"); pp != "" {
		f, _ := os.Create(pp)
		pprof.StartCPUProfile(f)
	}
	t0 := time.Now()
	thorough := os.Getenv("VERIF_TIER") == "thorough"
	blocks, bound := c25Blocks(thorough)
	balenum.TuneGC(256 << 20)
	workers := 16
	fmt.Sscan(os.Getenv("VERIF_WORKERS"), &workers)

	coll := balenum.NewCollector()
	ch := make(chan *c25Block, 256)
	var wg sync.WaitGroup
	var mu sync.Mutex
	var evals, awayCases, movedCases int64
	per := map[string]int64{}
	all := map[uint64]struct{}{}
	for w := 0; w < workers; w++ {
		wg.Add(1)
		go func() {
			defer wg.Done()
			var lEvals, lAway, lMoved int64
			lPer := map[string]int64{}
			distinct := balenum.NewHashSet(1 << 20)
			for b := range ch {
				shape := balenum.Hash64(fmt.Sprintf("kfake-%s|%d|%v|%v|%d|%v", b.assignor, b.blk.N, b.blk.Parts, b.blk.Subs, b.away, b.blk.Static))
				n := b.blk.Each(func(c *balenum.Case) {
					k := &c25Case{Assignor: b.assignor, Away: b.away, Case: c}
					plan, v := c25Check(k)
					lEvals++
					if b.away >= 0 {
						lAway++
					}
					if b.blk.N >= 2 {
						distinct.Add(shape ^ balenum.PlanCode(c, plan)*0x9e3779b97f4a7c15)
					}
					if b.assignor == "uniform" && plan != nil {
						for i := 0; i < c.N; i++ {
							if i != b.away && balenum.PlanCode(c, balenum.Plan{c.ID(i): c.Owned(i)}) != balenum.PlanCode(c, balenum.Plan{c.ID(i): plan[c.ID(i)]}) {
								lMoved++
								break
							}
						}
					}
					if v != nil {
						kc := &c25Case{Assignor: b.assignor, Away: b.away, Case: c.Clone()}
						size := balenum.CaseSize(c)
						for _, sb := range c.Subs {
							if sb&c25RegexBit != 0 {
								size += 20
							}
						}
						coll.Add("kfake-"+b.assignor+":"+v.Key, v.What, size, func() any {
							return c25Artefact{"kfake-" + b.assignor, kc, c25Describe(kc), balenum.FormatPlan(plan)}
						})
					}
				})
				lPer[b.assignor] += n
			}
			mu.Lock()
			evals += lEvals
			awayCases += lAway
			movedCases += lMoved
			for k, v := range lPer {
				per[k] += v
			}
			distinct.Each(func(h uint64) { all[h] = struct{}{} })
			mu.Unlock()
		}()
	}
	var samples []any
	for i := range blocks {
		b := &blocks[i]
		if len(samples) < 2 && b.blk.N == 3 && len(b.blk.Parts) == 2 && b.blk.Parts[0]+b.blk.Parts[1] == 4 && b.blk.Subs[0] == 3 && b.blk.Subs[1] == 1 && (len(samples) == 0) == (b.assignor == "uniform") && b.blk.Prior == balenum.PriorSingle {
			cnt := 0
			b.blk.Each(func(c *balenum.Case) {
				cnt++
				if cnt == 100 {
					k := &c25Case{Assignor: b.assignor, Away: b.away, Case: c.Clone()}
					plan, _ := c25Check(k)
					samples = append(samples, map[string]any{"balancer": "kfake-" + b.assignor, "input": c25Describe(k), "target": balenum.FormatPlan(plan)})
				}
			})
		}
		ch <- b
	}
	close(ch)
	wg.Wait()

	dl := make([]uint64, 0, len(all))
	for h := range all {
		dl = append(dl, h)
	}
	sort.Slice(dl, func(i, j int) bool { return dl[i] < dl[j] })
	findings := coll.Findings()
	for i := range findings {
		a := findings[i].Artefact.(c25Artefact)
		findings[i].What = fmt.Sprintf("%s\n%starget: %s", findings[i].What, a.Input, a.Plan)
	}
	sum := map[string]any{
		"evals":        evals,
		"distinct":     dl,
		"per_assignor": per,
		"bound":        bound,
		"samples":      samples,
		"findings":     findings,
		"wall_s":       time.Since(t0).Seconds(),
		"extra":        map[string]int64{"cases_with_member_on_static_leave": awayCases, "uniform_cases_where_target_changed": movedCases},
	}
	js, _ := json.Marshal(sum)
	if err := os.WriteFile(out, js, 0o644); err != nil {
		fmt.Println("cannot write summary:", err)
		os.Exit(2)
	}
	pprof.StopCPUProfile()
	fmt.Printf("C25 kfake harness: evaluations=%d distinct=%d violation_classes=%d\n", evals, len(dl), len(findings))
	os.Exit(0)
}
