package kgo

// C19: compression round-trips and decompression is bounded.
// In-package harness (needs maxDecompressedSize and xerialDecode). Built by
// /verif/checks/c19/run.sh through inpkg_test; /repo is untouched.
//
// Everything here is prefixed c19 to stay clear of the package's identifiers.

import (
	"bytes"
	"compress/gzip"
	"encoding/binary"
	"encoding/hex"
	"encoding/json"
	"errors"
	"fmt"
	"hash/crc32"
	"hash/fnv"
	"io"
	"math"
	"os"
	"os/exec"
	"regexp"
	"runtime"
	"runtime/debug"
	"runtime/pprof"
	"sort"
	"strings"
	"sync"
	"sync/atomic"
	"syscall"
	"testing"
	"time"
	"unsafe"

	"github.com/klauspost/compress/s2"
	"github.com/klauspost/compress/zstd"
	"verif.local/ev"
)

// ---------------------------------------------------------------- payloads

type c19Payload struct {
	Kind string `json:"kind"` // lit | run | p2 | p3 | ctr | lcg
	Hex  string `json:"hex,omitempty"`
	A    byte   `json:"a,omitempty"`
	B    byte   `json:"b,omitempty"`
	C    byte   `json:"c,omitempty"`
	Seed uint64 `json:"seed,omitempty"`
	N    int    `json:"n"`
}

func (p c19Payload) bytes() []byte {
	b := make([]byte, p.N)
	switch p.Kind {
	case "lit":
		x, _ := hex.DecodeString(p.Hex)
		return x
	case "run":
		for i := range b {
			b[i] = p.A
		}
	case "p2":
		for i := range b {
			b[i] = [2]byte{p.A, p.B}[i%2]
		}
	case "p3":
		for i := range b {
			b[i] = [3]byte{p.A, p.B, p.C}[i%3]
		}
	case "ctr":
		for i := range b {
			b[i] = p.A + byte(i)
		}
	case "lcg": // Knuth MMIX constants, high byte of the state
		x := p.Seed
		for i := range b {
			x = x*6364136223846793005 + 1442695040888963407
			b[i] = byte(x >> 56)
		}
	}
	return b
}

func c19Lit(b []byte) c19Payload {
	return c19Payload{Kind: "lit", Hex: hex.EncodeToString(b), N: len(b)}
}

var c19Gens = []c19Payload{
	{Kind: "run", A: 0x00}, {Kind: "run", A: 0x61}, {Kind: "run", A: 0xff},
	{Kind: "p2", A: 0x00, B: 0xff}, {Kind: "p2", A: 0x61, B: 0x62},
	{Kind: "p3", A: 0x61, B: 0x62, C: 0x63}, {Kind: "p3", A: 0x00, B: 0x80, C: 0xff},
	{Kind: "ctr", A: 0},
	{Kind: "lcg", Seed: 1}, {Kind: "lcg", Seed: 2},
}

var c19Lens = []int{0, 1, 2, 3, 4, 15, 16, 17, 255, 256, 257, 65535, 65536, 65537, 1 << 20}

type c19PD struct {
	P c19Payload
	D []byte
}

// c19Family returns the generator x length family with n<=maxLen, deduplicated by content.
func c19Family(maxLen int) []c19PD {
	var out []c19PD
	seen := map[uint64]bool{}
	for _, n := range c19Lens {
		if n > maxLen {
			continue
		}
		for _, g := range c19Gens {
			g.N = n
			d := g.bytes()
			h := fnv.New64a()
			h.Write(d)
			k := h.Sum64() ^ uint64(n)<<40
			if seen[k] {
				continue
			}
			seen[k] = true
			out = append(out, c19PD{g, d})
		}
	}
	return out
}

// ---------------------------------------------------------------- codec configs

type c19Cfg struct {
	Codec   int  `json:"codec"`
	Level   int  `json:"level"`
	NoLevel bool `json:"constructor_default,omitempty"` // WithLevel not called
	Valid   bool `json:"level_valid"`
}

func (c c19Cfg) cc() CompressionCodec {
	var cc CompressionCodec
	switch CompressionCodecType(c.Codec) {
	case CodecNone:
		cc = NoCompression()
	case CodecGzip:
		cc = GzipCompression()
	case CodecSnappy:
		cc = SnappyCompression()
	case CodecLz4:
		cc = Lz4Compression()
	case CodecZstd:
		cc = ZstdCompression()
	}
	if !c.NoLevel {
		cc = cc.WithLevel(c.Level)
	}
	return cc
}

func (c c19Cfg) String() string {
	if c.NoLevel {
		return fmt.Sprintf("%s/default", c19CodecName(c.Codec))
	}
	return fmt.Sprintf("%s/L%d", c19CodecName(c.Codec), c.Level)
}

func c19CodecName(c int) string {
	switch c {
	case 0:
		return "none"
	case 1:
		return "gzip"
	case 2:
		return "snappy"
	case 3:
		return "lz4"
	case 4:
		return "zstd"
	}
	return fmt.Sprintf("codec%d", c)
}

// c19AllCfgs: every level each library accepts, plus out-of-range levels that
// WithLevel documents as "just use a default level".
func c19AllCfgs() []c19Cfg {
	var out []c19Cfg
	add := func(codec int, valid bool, levels ...int) {
		for _, l := range levels {
			out = append(out, c19Cfg{Codec: codec, Level: l, Valid: valid})
		}
	}
	for c := 1; c <= 4; c++ {
		out = append(out, c19Cfg{Codec: c, NoLevel: true, Valid: true})
	}
	// gzip: stdlib accepts -2..9; kgo maps 0 to the default.
	add(1, true, -2, -1, 0, 1, 2, 3, 4, 5, 6, 7, 8, 9)
	add(1, false, -3, 10, 127, -128, math.MaxInt32, math.MinInt32, math.MaxInt64, math.MinInt64)
	// snappy has no levels; any value is ignored.
	add(2, true, 0)
	add(2, false, 1, -1, 127, math.MaxInt64)
	// lz4: pierrec levels are Fast=0 and 1<<(9..17).
	add(3, true, 0, 1<<9, 1<<10, 1<<11, 1<<12, 1<<13, 1<<14, 1<<15, 1<<16, 1<<17)
	add(3, false, -1, 1, 9, 511, 513, 1<<18, 1<<32|1<<9, math.MaxInt64, math.MinInt64)
	// zstd: klauspost levels 1..4; 0 is "not set".
	add(4, true, 1, 2, 3, 4)
	add(4, false, 0, -1, 5, 127, math.MaxInt64, math.MinInt64)
	return out
}

// ---------------------------------------------------------------- independent decoders

var errC19 = errors.New("c19 independent decoder")

func c19Errf(f string, a ...any) error { return fmt.Errorf("%w: "+f, append([]any{errC19}, a...)...) }

// c19SnappyDecode decodes one snappy block (format_description.txt of
// google/snappy): uvarint length, then literal / copy1 / copy2 / copy4 elements.
// Offset 0 (the S2 "repeat" extension) is rejected: output must be plain snappy.
func c19SnappyDecode(src []byte, limit int) ([]byte, error) {
	n64, k := binary.Uvarint(src)
	if k <= 0 || n64 > 0xffffffff {
		return nil, c19Errf("bad length varint")
	}
	n := int(n64)
	if n > limit {
		return nil, c19Errf("claimed length %d over limit %d", n, limit)
	}
	dst := make([]byte, 0, n)
	s := k
	for s < len(src) {
		tag := src[s]
		var length, offset int
		switch tag & 3 {
		case 0:
			l := int(tag >> 2)
			s++
			if l >= 60 {
				nb := l - 59
				if s+nb > len(src) {
					return nil, c19Errf("literal length truncated")
				}
				l = 0
				for i := nb - 1; i >= 0; i-- {
					l = l<<8 | int(src[s+i])
				}
				s += nb
			}
			l++
			if l < 0 || s+l > len(src) || len(dst)+l > n {
				return nil, c19Errf("literal overruns")
			}
			dst = append(dst, src[s:s+l]...)
			s += l
			continue
		case 1:
			if s+2 > len(src) {
				return nil, c19Errf("copy1 truncated")
			}
			length = 4 + int(tag>>2)&7
			offset = int(tag>>5)<<8 | int(src[s+1])
			s += 2
		case 2:
			if s+3 > len(src) {
				return nil, c19Errf("copy2 truncated")
			}
			length = 1 + int(tag>>2)
			offset = int(binary.LittleEndian.Uint16(src[s+1:]))
			s += 3
		case 3:
			if s+5 > len(src) {
				return nil, c19Errf("copy4 truncated")
			}
			length = 1 + int(tag>>2)
			offset = int(binary.LittleEndian.Uint32(src[s+1:]))
			s += 5
		}
		if offset == 0 || offset > len(dst) || len(dst)+length > n {
			return nil, c19Errf("bad copy offset=%d len=%d at out=%d", offset, length, len(dst))
		}
		for i := 0; i < length; i++ {
			dst = append(dst, dst[len(dst)-offset])
		}
	}
	if len(dst) != n {
		return nil, c19Errf("decoded %d != claimed %d", len(dst), n)
	}
	return dst, nil
}

const (
	c19p1 uint32 = 2654435761
	c19p2 uint32 = 2246822519
	c19p3 uint32 = 3266489917
	c19p4 uint32 = 668265263
	c19p5 uint32 = 374761393
)

func c19rol(x uint32, r uint) uint32 { return x<<r | x>>(32-r) }

// c19XXH32 is xxHash32 from the specification (used by the LZ4 frame format).
func c19XXH32(b []byte, seed uint32) uint32 {
	n := len(b)
	var h uint32
	if n >= 16 {
		v1 := seed + c19p1
		v1 += c19p2
		v2 := seed + c19p2
		v3 := seed
		v4 := seed - c19p1
		for len(b) >= 16 {
			v1 = c19rol(v1+binary.LittleEndian.Uint32(b[0:])*c19p2, 13) * c19p1
			v2 = c19rol(v2+binary.LittleEndian.Uint32(b[4:])*c19p2, 13) * c19p1
			v3 = c19rol(v3+binary.LittleEndian.Uint32(b[8:])*c19p2, 13) * c19p1
			v4 = c19rol(v4+binary.LittleEndian.Uint32(b[12:])*c19p2, 13) * c19p1
			b = b[16:]
		}
		h = c19rol(v1, 1) + c19rol(v2, 7) + c19rol(v3, 12) + c19rol(v4, 18)
	} else {
		h = seed + c19p5
	}
	h += uint32(n)
	for len(b) >= 4 {
		h += binary.LittleEndian.Uint32(b) * c19p3
		h = c19rol(h, 17) * c19p4
		b = b[4:]
	}
	for _, c := range b {
		h += uint32(c) * c19p5
		h = c19rol(h, 11) * c19p1
	}
	h ^= h >> 15
	h *= c19p2
	h ^= h >> 13
	h *= c19p3
	h ^= h >> 16
	return h
}

// c19LZ4Block decodes one LZ4 block appended to dst; matches may not reach
// below index base of dst.
func c19LZ4Block(dst, src []byte, base, limit int) ([]byte, error) {
	if len(src) == 0 {
		return nil, c19Errf("empty lz4 block")
	}
	s := 0
	for s < len(src) {
		tok := src[s]
		s++
		ll := int(tok >> 4)
		if ll == 15 {
			for {
				if s >= len(src) {
					return nil, c19Errf("literal length truncated")
				}
				b := src[s]
				s++
				ll += int(b)
				if b != 255 {
					break
				}
			}
		}
		if s+ll > len(src) || len(dst)+ll > limit {
			return nil, c19Errf("literals overrun")
		}
		dst = append(dst, src[s:s+ll]...)
		s += ll
		if s == len(src) {
			return dst, nil // last sequence: literals only
		}
		if s+2 > len(src) {
			return nil, c19Errf("offset truncated")
		}
		off := int(binary.LittleEndian.Uint16(src[s:]))
		s += 2
		ml := int(tok & 15)
		if ml == 15 {
			for {
				if s >= len(src) {
					return nil, c19Errf("match length truncated")
				}
				b := src[s]
				s++
				ml += int(b)
				if b != 255 {
					break
				}
			}
		}
		ml += 4
		if off == 0 || off > len(dst)-base || len(dst)+ml > limit {
			return nil, c19Errf("bad match off=%d len=%d out=%d", off, ml, len(dst))
		}
		for i := 0; i < ml; i++ {
			dst = append(dst, dst[len(dst)-off])
		}
	}
	return nil, c19Errf("block ends with a match")
}

// c19LZ4Frame decodes exactly one LZ4 frame (lz4_Frame_format.md) spanning all
// of src, verifying header, block and content checksums.
func c19LZ4Frame(src []byte, limit int) ([]byte, error) {
	if len(src) < 7 || binary.LittleEndian.Uint32(src) != 0x184D2204 {
		return nil, c19Errf("bad magic")
	}
	flg, bd := src[4], src[5]
	if flg>>6 != 1 || flg&2 != 0 || bd&0x8f != 0 {
		return nil, c19Errf("bad FLG/BD %02x %02x", flg, bd)
	}
	indep, bsum, csize, csum, dict := flg&0x20 != 0, flg&0x10 != 0, flg&8 != 0, flg&4 != 0, flg&1 != 0
	bmaxCode := int(bd >> 4)
	if bmaxCode < 4 {
		return nil, c19Errf("bad block max size code %d", bmaxCode)
	}
	bmax := 1 << (8 + 2*uint(bmaxCode))
	p := 6
	var contentSize uint64
	if csize {
		if p+8 > len(src) {
			return nil, c19Errf("content size truncated")
		}
		contentSize = binary.LittleEndian.Uint64(src[p:])
		p += 8
	}
	if dict {
		return nil, c19Errf("dictionary id not expected")
	}
	if p >= len(src) {
		return nil, c19Errf("header truncated")
	}
	if hc := byte(c19XXH32(src[4:p], 0) >> 8); hc != src[p] {
		return nil, c19Errf("header checksum %02x != %02x", src[p], hc)
	}
	p++
	var out []byte
	for {
		if p+4 > len(src) {
			return nil, c19Errf("block size truncated")
		}
		sz := binary.LittleEndian.Uint32(src[p:])
		p += 4
		if sz == 0 {
			break
		}
		raw := sz&0x80000000 != 0
		n := int(sz & 0x7fffffff)
		if n > bmax || p+n > len(src) {
			return nil, c19Errf("block size %d (max %d, have %d)", n, bmax, len(src)-p)
		}
		data := src[p : p+n]
		p += n
		if bsum {
			if p+4 > len(src) {
				return nil, c19Errf("block checksum truncated")
			}
			if c19XXH32(data, 0) != binary.LittleEndian.Uint32(src[p:]) {
				return nil, c19Errf("block checksum mismatch")
			}
			p += 4
		}
		start := len(out)
		if raw {
			if len(out)+n > limit {
				return nil, c19Errf("over limit")
			}
			out = append(out, data...)
		} else {
			base := start
			if !indep {
				base = max(0, start-65535)
			}
			var err error
			if out, err = c19LZ4Block(out, data, base, limit); err != nil {
				return nil, err
			}
		}
		if len(out)-start > bmax {
			return nil, c19Errf("block decodes to %d > block max %d", len(out)-start, bmax)
		}
	}
	if csum {
		if p+4 > len(src) {
			return nil, c19Errf("content checksum truncated")
		}
		if c19XXH32(out, 0) != binary.LittleEndian.Uint32(src[p:]) {
			return nil, c19Errf("content checksum mismatch")
		}
		p += 4
	}
	if csize && contentSize != uint64(len(out)) {
		return nil, c19Errf("content size %d != %d", contentSize, len(out))
	}
	if p != len(src) {
		return nil, c19Errf("%d trailing bytes after frame", len(src)-p)
	}
	return out, nil
}

// c19GunzipStd: stdlib reader, exactly one member spanning all of src, and the
// trailer checked by hand (CRC32 and ISIZE of RFC 1952).
func c19GunzipStd(src, want []byte) error {
	br := bytes.NewReader(src)
	st := c19GzPool.Get().(*c19GzState) // harness-owned reader, reused only to avoid garbage
	defer c19GzPool.Put(st)
	if err := st.zr.Reset(br); err != nil {
		return err
	}
	st.zr.Multistream(false)
	st.buf.Reset()
	if _, err := st.buf.ReadFrom(&st.zr); err != nil {
		return err
	}
	got := st.buf.Bytes()
	if br.Len() != 0 {
		return c19Errf("%d trailing bytes after gzip member", br.Len())
	}
	if !bytes.Equal(got, want) {
		return c19Errf("stdlib gzip decoded %d bytes != input %d bytes", len(got), len(want))
	}
	if len(src) < 18 || src[0] != 0x1f || src[1] != 0x8b || src[2] != 8 {
		return c19Errf("not a gzip/deflate member header")
	}
	t := src[len(src)-8:]
	if binary.LittleEndian.Uint32(t) != crc32.ChecksumIEEE(want) || binary.LittleEndian.Uint32(t[4:]) != uint32(len(want)) {
		return c19Errf("gzip trailer CRC32/ISIZE do not describe the input")
	}
	return nil
}

type c19GzState struct {
	zr  gzip.Reader
	buf bytes.Buffer
}

var c19GzPool = sync.Pool{New: func() any { return new(c19GzState) }}

var c19ZstdIndep = sync.Pool{New: func() any {
	d, err := zstd.NewReader(nil, zstd.WithDecoderConcurrency(1)) // library defaults otherwise
	if err != nil {
		panic(err)
	}
	return d
}}

// c19Indep decodes out with the harness-side decoder of codec and compares.
func c19Indep(codec CompressionCodecType, out, want []byte) error {
	switch codec {
	case CodecGzip:
		return c19GunzipStd(out, want)
	case CodecSnappy:
		got, err := c19SnappyDecode(out, len(want))
		if err != nil {
			return err
		}
		if !bytes.Equal(got, want) {
			return c19Errf("snappy block decoded to different bytes")
		}
	case CodecLz4:
		got, err := c19LZ4Frame(out, len(want))
		if err != nil {
			return err
		}
		if !bytes.Equal(got, want) {
			return c19Errf("lz4 frame decoded to different bytes")
		}
	case CodecZstd:
		d := c19ZstdIndep.Get().(*zstd.Decoder)
		defer c19ZstdIndep.Put(d)
		got, err := d.DecodeAll(out, nil)
		if err != nil {
			return err
		}
		if !bytes.Equal(got, want) {
			return c19Errf("independently configured zstd decoder decoded to different bytes")
		}
	}
	return nil
}

// ---------------------------------------------------------------- harness plumbing

// c19Art is the replayable description of one case.
type c19Art struct {
	Kind     string      `json:"kind"` // roundtrip | xerial | hostile
	Payload  *c19Payload `json:"payload,omitempty"`
	Cfgs     []c19Cfg    `json:"codecs,omitempty"`
	Flags    []int       `json:"flags,omitempty"`
	Xerial   *c19Xer     `json:"xerial,omitempty"`
	Codec    int         `json:"codec"`
	Dec      string      `json:"decompressor,omitempty"`
	Max      int64       `json:"max_decompressed_size,omitempty"`
	InputHex string      `json:"input_hex,omitempty"`
	Craft    string      `json:"craft,omitempty"`
	Base     *c19Art     `json:"base,omitempty"`
	Op       string      `json:"op,omitempty"`
	Pos      int         `json:"pos,omitempty"`
	Val      int         `json:"val,omitempty"`
	Setup    string      `json:"setup,omitempty"`   // history: default | userpool
	History  []c19Op     `json:"history,omitempty"` // history: the operation sequence
	Step     int         `json:"step,omitempty"`    // history: index of the operation after which the oracle failed
	Victim   int         `json:"victim,omitempty"`  // history: index of the operation whose result / input was damaged
}

type c19Dec struct {
	name string
	d    Decompressor
}

// c19Pool hands out a short, dirty, len>0 slice: only its capacity may be used.
type c19Pool struct{}

func (c19Pool) GetDecompressBytes([]byte, CompressionCodecType) []byte {
	b := make([]byte, 16, 256)
	for i := range b {
		b[i] = 0xAA
	}
	return b
}
func (c19Pool) PutDecompressBytes([]byte) {}

type c19H struct {
	r       *ev.Run
	replay  bool
	nviol   atomic.Int64
	workers int
	decs    []c19Dec
	cli     map[string]string // tool -> path ("" = absent)
	mu      sync.Mutex
	counts  map[string]int64
	outcome map[string]int64
	cur     []atomic.Pointer[c19Running]
	ws      []*c19W // per-worker state, reused across phases (keeps CLI batch buffers warm)
	seen    [64]struct {
		mu sync.Mutex
		m  map[uint64]struct{}
	}
	infoMu   sync.Mutex
	violKeys map[string]int64
	info     map[string][]any
}

type c19Running struct {
	start time.Time
	desc  string
}

func (h *c19H) viol(key, what string, art c19Art) {
	h.nviol.Add(1)
	h.infoMu.Lock()
	if h.violKeys == nil {
		h.violKeys = map[string]int64{}
	}
	h.violKeys[key]++
	h.infoMu.Unlock()
	if h.replay {
		b, _ := json.Marshal(art)
		fmt.Printf("REPLAY: violation key=%s: %s\n  %s\n", key, what, b)
		return
	}
	h.r.Violation(key, what, art)
}

func (h *c19H) note(k string, v any) {
	h.infoMu.Lock()
	if len(h.info[k]) < 6 {
		h.info[k] = append(h.info[k], v)
	}
	h.infoMu.Unlock()
}

// firstSeen records k in a sharded set and reports whether it was new.
func (h *c19H) firstSeen(k uint64) bool {
	s := &h.seen[k&63]
	s.mu.Lock()
	if s.m == nil {
		s.m = map[uint64]struct{}{}
	}
	_, ok := s.m[k]
	if !ok {
		s.m[k] = struct{}{}
	}
	s.mu.Unlock()
	return !ok
}

func (h *c19H) mkDecs() {
	h.decs = []c19Dec{{"default", DefaultDecompressor()}, {"userpool", DefaultDecompressor(c19Pool{})}}
}

// c19W is per-worker state: local counters and CLI batches.
type c19W struct {
	h       *c19H
	id      int
	evals   int64
	counts  map[string]int64
	outcome map[string]int64
	batches map[string]*c19Batch
}

func (w *c19W) cnt(k string, n int64) { w.counts[k] += n }

// par runs fn(w,i) for i in [0,n) on h.workers goroutines, then flushes.
func (h *c19H) par(phase string, n int, fn func(w *c19W, i int)) {
	t0, c0 := time.Now(), c19CPU()
	var next atomic.Int64
	var wg sync.WaitGroup
	nw := min(h.workers, max(n, 1))
	for len(h.ws) < nw {
		h.ws = append(h.ws, &c19W{h: h, id: len(h.ws), batches: map[string]*c19Batch{}})
	}
	for k := 0; k < nw; k++ {
		wg.Add(1)
		go func(k int) {
			defer wg.Done()
			w := h.ws[k]
			w.evals, w.counts, w.outcome = 0, map[string]int64{}, map[string]int64{}
			for {
				i := int(next.Add(1) - 1)
				if i >= n {
					break
				}
				h.cur[k].Store(&c19Running{time.Now(), fmt.Sprintf("%s job %d/%d", phase, i, n)})
				fn(w, i)
				h.cur[k].Store(nil)
			}
			for _, b := range w.batches {
				b.flush(w)
			}
			h.mu.Lock()
			for k, v := range w.counts {
				h.counts[k] += v
			}
			for k, v := range w.outcome {
				h.outcome[k] += v
			}
			h.mu.Unlock()
			h.r.Evals(w.evals)
		}(k)
	}
	wg.Wait()
	h.mu.Lock()
	h.counts["phase_ms:"+phase] += time.Since(t0).Milliseconds()
	h.counts["phase_cpu_ms:"+phase] += (c19CPU() - c0).Milliseconds()
	h.mu.Unlock()
}

// watchdog: a case that never returns neither "returns data" nor "an error".
func (h *c19H) watchdog(limit time.Duration) {
	for {
		time.Sleep(5 * time.Second)
		for i := range h.cur {
			if c := h.cur[i].Load(); c != nil && time.Since(c.start) > limit {
				h.r.Violation("no-return", "a job did not finish within "+limit.String()+": "+c.desc, c.desc)
				os.Exit(h.r.Write())
			}
		}
	}
}

// ---------------------------------------------------------------- CLI decoders, batched

// One CLI process decodes the concatenation of many frames (zstd, lz4 and gzip
// all decode concatenated frames/members to the concatenated contents); a
// mismatch is then located by re-running the batch case by case.
type c19Batch struct {
	tool   string
	frames bytes.Buffer
	want   bytes.Buffer
	cases  []c19BatchCase
}

type c19BatchCase struct {
	fo, fl, wo, wl int
	art            c19Art
}

func c19RunCLI(path string, in []byte) ([]byte, error) {
	cmd := exec.Command(path, "-d", "-c", "-q")
	cmd.Stdin = bytes.NewReader(in)
	var stderr bytes.Buffer
	cmd.Stderr = &stderr
	out, err := cmd.Output()
	if err != nil {
		return out, fmt.Errorf("%v: %s", err, strings.TrimSpace(stderr.String()))
	}
	return out, nil
}

func (w *c19W) cliAdd(tool string, frame, want []byte, art c19Art) {
	if w.h.cli[tool] == "" {
		return
	}
	b := w.batches[tool]
	if b == nil {
		b = &c19Batch{tool: tool}
		w.batches[tool] = b
	}
	b.cases = append(b.cases, c19BatchCase{b.frames.Len(), len(frame), b.want.Len(), len(want), art})
	b.frames.Write(frame)
	b.want.Write(want)
	if b.frames.Len()+b.want.Len() > 6<<20 || len(b.cases) >= 20000 {
		b.flush(w)
	}
}

func (b *c19Batch) flush(w *c19W) {
	if len(b.cases) == 0 {
		return
	}
	path := w.h.cli[b.tool]
	out, err := c19RunCLI(path, b.frames.Bytes())
	w.cnt("cli_"+b.tool+"_processes", 1)
	w.cnt("cli_"+b.tool+"_frames", int64(len(b.cases)))
	if err != nil || !bytes.Equal(out, b.want.Bytes()) {
		located := 0
		for _, c := range b.cases {
			o, e := c19RunCLI(path, b.frames.Bytes()[c.fo:c.fo+c.fl])
			if e != nil || !bytes.Equal(o, b.want.Bytes()[c.wo:c.wo+c.wl]) {
				located++
				if located <= 3 {
					w.h.viol("independent-cli-"+b.tool, fmt.Sprintf("%s CLI cannot decode the compressor's output to the input: err=%v got %d bytes want %d", b.tool, e, len(o), c.wl), c.art)
				}
			}
		}
		if located == 0 {
			w.h.viol("independent-cli-"+b.tool, fmt.Sprintf("%s CLI failed on a batch of concatenated frames but on no single frame: %v", b.tool, err), b.cases[0].art)
		}
	}
	b.frames.Reset()
	b.want.Reset()
	b.cases = b.cases[:0]
}

// ---------------------------------------------------------------- round trips

func c19Compress(c Compressor, dst *bytes.Buffer, src []byte, flags []CompressFlag) (out []byte, used CompressionCodecType, pan any) {
	defer func() {
		if p := recover(); p != nil {
			pan = p
		}
	}()
	if c == nil { // DefaultCompressor's documented "no compression"
		return src, CodecNone, nil
	}
	out, used = c.Compress(dst, src, flags...)
	return
}

func c19Decompress(d Decompressor, src []byte, codec CompressionCodecType) (out []byte, err error, pan any) {
	defer func() {
		if p := recover(); p != nil {
			pan = fmt.Sprint(p)
		}
	}()
	out, err = d.Decompress(src, codec)
	return
}

func c19NewCompressor(cfgs []c19Cfg) (c Compressor, err error, pan any) {
	defer func() {
		if p := recover(); p != nil {
			pan = p
		}
	}()
	ccs := make([]CompressionCodec, len(cfgs)) // fresh: DefaultCompressor rewrites its argument
	for i, c := range cfgs {
		ccs[i] = c.cc()
	}
	c, err = DefaultCompressor(ccs...)
	return
}

// c19Expect is the reference model of codec choice: first listed codec (first
// occurrence of each type; nothing after a "none"), skipping zstd when the
// disable flag is present; none if nothing is left.
func c19Expect(cfgs []c19Cfg, flags []CompressFlag) CompressionCodecType {
	disable := false
	for _, f := range flags {
		if f == CompressDisableZstd {
			disable = true
		}
	}
	for _, c := range cfgs {
		if c.Codec == int(CodecNone) {
			return CodecNone
		}
		if c.Codec == int(CodecZstd) && disable {
			continue
		}
		return CompressionCodecType(c.Codec)
	}
	return CodecNone
}

func c19Flags(flags []CompressFlag) []int {
	var o []int
	for _, f := range flags {
		o = append(o, int(f))
	}
	return o
}

// rt runs one compress / decompress / independent-decode case. Returns the
// compressed bytes (valid until the next call) for callers that compare outputs.
func (w *c19W) rt(comp Compressor, cfgs []c19Cfg, flags []CompressFlag, p c19Payload, data []byte, keep *[]byte) {
	h := w.h
	art := c19Art{Kind: "roundtrip", Payload: &p, Cfgs: cfgs, Flags: c19Flags(flags)}
	buf := byteBuffers.Get().(*bytes.Buffer) // as sink.go does
	buf.Reset()
	defer byteBuffers.Put(buf)
	out, used, pan := c19Compress(comp, buf, data, flags)
	w.evals++
	art.Codec = int(used)
	if pan != nil {
		h.viol("compress-panic:"+c19CodecName(cfgs[0].Codec), fmt.Sprintf("Compress panicked: %v", pan), art)
		return
	}
	if used == CodecError || (out == nil && len(data) > 0) {
		h.viol("compress-failed:"+c19CodecName(cfgs[0].Codec), fmt.Sprintf("Compress failed (codec %d, nil output)", used), art)
		return
	}
	want := c19Expect(cfgs, flags)
	if used == CodecZstd && want != CodecZstd {
		h.viol("zstd-chosen-when-disabled", "compressor reported zstd although CompressDisableZstd was passed", art)
	} else if used != want {
		h.viol("codec-preference", fmt.Sprintf("compressor reported codec %d, preference order says %d", used, want), art)
	}
	for _, d := range h.decs {
		got, err, pan := c19Decompress(d.d, out, used)
		w.evals++
		a := art
		a.Dec = d.name
		if pan != nil {
			h.viol("decompress-panic:"+c19CodecName(int(used)), fmt.Sprintf("Decompress of compressor output panicked: %v", pan), a)
		} else if err != nil {
			h.viol("roundtrip-error:"+c19CodecName(int(used)), fmt.Sprintf("Decompress of compressor output failed: %v", err), a)
		} else if !bytes.Equal(got, data) {
			h.viol("roundtrip-mismatch:"+c19CodecName(int(used)), fmt.Sprintf("decompressed %d bytes != input %d bytes", len(got), len(data)), a)
		}
	}
	if used != CodecNone {
		w.cnt("rt_"+c19CodecName(int(used)), 1)
		f := fnv.New64a()
		f.Write([]byte{byte(used)})
		f.Write(out)
		// Byte-identical outputs of one codec (other levels, other preference
		// lists) decode identically: the independent decoders see each distinct
		// (codec, output) once. kgo's own Decompress above always runs.
		if h.firstSeen(f.Sum64()) {
			if err := c19Indep(used, out, data); err != nil {
				h.viol("independent-"+c19CodecName(int(used)), "independent decoder rejects / differs on the compressor's output: "+err.Error(), art)
			}
			w.evals++
			switch used {
			case CodecZstd:
				w.cliAdd("zstd", out, data, art)
			case CodecLz4:
				w.cliAdd("lz4", out, data, art)
			case CodecGzip:
				w.cliAdd("gzip", out, data, art)
			}
			h.r.DistinctHash(f.Sum64())
			w.cnt("rt_distinct_outputs_"+c19CodecName(int(used)), 1)
		}
	} else {
		w.cnt("rt_none_identity", 1)
	}
	if keep != nil {
		*keep = append((*keep)[:0], out...)
	}
}

// phaseRoundTrip: payloads x single-codec configs.
func (h *c19H) phaseRoundTrip(lits [][]byte, fam []c19PD, litCfgs, famCfgs, bigCfgs []c19Cfg, bigLen int) {
	type job struct {
		cfg      c19Cfg
		lit0, n  int // chunk of lits
		fam      int // or one family payload (index), -1
		famSmall bool
	}
	var jobs []job
	for i, f := range fam { // big ones first
		if len(f.D) >= bigLen {
			for _, c := range bigCfgs {
				jobs = append(jobs, job{cfg: c, fam: i})
			}
		}
	}
	for i, f := range fam {
		if len(f.D) >= 65535 && len(f.D) < bigLen {
			for _, c := range famCfgs {
				jobs = append(jobs, job{cfg: c, fam: i})
			}
		}
	}
	for _, c := range famCfgs {
		jobs = append(jobs, job{cfg: c, fam: -1, famSmall: true})
	}
	const chunk = 4096
	for _, c := range litCfgs {
		for o := 0; o < len(lits); o += chunk {
			jobs = append(jobs, job{cfg: c, fam: -1, lit0: o, n: min(chunk, len(lits)-o)})
		}
	}
	comps := map[c19Cfg]Compressor{}
	defs := map[int]Compressor{}
	for _, cs := range [][]c19Cfg{litCfgs, famCfgs, bigCfgs} {
		for _, c := range cs {
			if _, ok := comps[c]; ok {
				continue
			}
			comp, err, pan := c19NewCompressor([]c19Cfg{c})
			if err != nil || pan != nil || comp == nil {
				h.viol("compressor-construct:"+c19CodecName(c.Codec), fmt.Sprintf("DefaultCompressor(%v) err=%v panic=%v nil=%v; an invalid level must fall back to a default", c, err, pan, comp == nil), c19Art{Kind: "roundtrip", Cfgs: []c19Cfg{c}})
				continue
			}
			comps[c] = comp
			if defs[c.Codec] == nil {
				defs[c.Codec], _, _ = c19NewCompressor([]c19Cfg{{Codec: c.Codec, NoLevel: true}})
			}
		}
	}
	h.par("roundtrip", len(jobs), func(w *c19W, ji int) {
		j := jobs[ji]
		comp := comps[j.cfg]
		if comp == nil {
			return
		}
		cfgs := []c19Cfg{j.cfg}
		var keep, keepDef []byte
		one := func(p c19Payload, d []byte) {
			if j.cfg.Valid || len(d) == 2 { // the (unjudged) equality note skips the 65536 two-byte strings
				w.rt(comp, cfgs, nil, p, d, nil)
				return
			}
			// out-of-range level: must still work; whether the bytes equal the
			// default level's is recorded, not judged.
			w.rt(comp, cfgs, nil, p, d, &keep)
			buf := byteBuffers.Get().(*bytes.Buffer)
			buf.Reset()
			o, _, _ := c19Compress(defs[j.cfg.Codec], buf, d, nil)
			keepDef = append(keepDef[:0], o...)
			byteBuffers.Put(buf)
			if bytes.Equal(keep, keepDef) {
				w.cnt("invalid_level_output_equals_default", 1)
			} else {
				w.cnt("invalid_level_output_differs_from_default", 1)
				h.note("invalid_level_differs", map[string]any{"cfg": j.cfg, "payload": p})
			}
		}
		switch {
		case j.fam >= 0:
			one(fam[j.fam].P, fam[j.fam].D)
		case j.famSmall:
			for _, f := range fam {
				if len(f.D) < 65535 {
					one(f.P, f.D)
				}
			}
		default:
			for _, b := range lits[j.lit0 : j.lit0+j.n] {
				one(c19Lit(b), b)
			}
		}
	})
	h.mu.Lock()
	h.counts["rt_configs"] = max(h.counts["rt_configs"], int64(len(comps)))
	h.mu.Unlock()
}

// phasePrefs: every preference list (length<=3 with repetition over the five
// codec types, every permutation of 4 and of 5) x flag lists.
func (h *c19H) phasePrefs(payloads []c19PD) {
	var lists [][]int
	var rec func(cur []int, depth int)
	rec = func(cur []int, depth int) {
		if len(cur) > 0 {
			lists = append(lists, append([]int(nil), cur...))
		}
		if depth == 0 {
			return
		}
		for c := 0; c <= 4; c++ {
			rec(append(cur, c), depth-1)
		}
	}
	rec(nil, 3)
	var perm func(cur []int, used int, want int)
	perm = func(cur []int, used, want int) {
		if len(cur) == want {
			lists = append(lists, append([]int(nil), cur...))
			return
		}
		for c := 0; c <= 4; c++ {
			if used&(1<<c) == 0 {
				perm(append(cur, c), used|1<<c, want)
			}
		}
	}
	perm(nil, 0, 4)
	perm(nil, 0, 5)
	flagSets := [][]CompressFlag{nil, {CompressDisableZstd}, {CompressDisableZstd, CompressDisableZstd}, {99}, {99, CompressDisableZstd}, {0, CompressDisableZstd, 65535}}
	h.par("prefs", len(lists), func(w *c19W, i int) {
		cfgs := make([]c19Cfg, len(lists[i]))
		for k, c := range lists[i] {
			cfgs[k] = c19Cfg{Codec: c, NoLevel: true, Valid: true}
		}
		comp, err, pan := c19NewCompressor(cfgs)
		if err != nil || pan != nil {
			h.viol("compressor-construct:list", fmt.Sprintf("DefaultCompressor(%v) err=%v panic=%v", cfgs, err, pan), c19Art{Kind: "roundtrip", Cfgs: cfgs})
			return
		}
		if (comp == nil) != (cfgs[0].Codec == 0) {
			h.viol("compressor-nil", fmt.Sprintf("DefaultCompressor(%v) nil=%v; documented nil only when the first codec is none", cfgs, comp == nil), c19Art{Kind: "roundtrip", Cfgs: cfgs})
			return
		}
		for _, fl := range flagSets {
			for _, p := range payloads {
				w.rt(comp, cfgs, fl, p.P, p.D, nil)
			}
			h.r.Distinct(fmt.Sprint("pref", lists[i], fl))
			w.cnt("pref_list_x_flags", 1)
		}
	})
	h.mu.Lock()
	h.counts["pref_lists"] = int64(len(lists))
	h.mu.Unlock()
}

// ---------------------------------------------------------------- xerial framing

type c19Xer struct {
	Scheme string `json:"scheme"` // whole c1 c2 c3 c32k tail1 empties nochunks
	Enc    string `json:"enc"`    // lit (hand-written literal-only snappy) | s2 (s2.EncodeSnappy)
	Hdr    string `json:"hdr"`    // 8 bytes after the magic, hex
}

// c19SnappyLit is a hand-written snappy block of literals only.
func c19SnappyLit(dst, b []byte) []byte {
	dst = binary.AppendUvarint(dst, uint64(len(b)))
	for len(b) > 0 {
		n := min(len(b), 1<<16)
		switch {
		case n <= 60:
			dst = append(dst, byte(n-1)<<2)
		case n <= 256:
			dst = append(dst, 60<<2, byte(n-1))
		default:
			dst = append(dst, 61<<2, byte(n-1), byte((n-1)>>8))
		}
		dst = append(dst, b[:n]...)
		b = b[n:]
	}
	return dst
}

func c19Split(d []byte, scheme string) [][]byte {
	every := func(k int) [][]byte {
		var o [][]byte
		for len(d) > k {
			o = append(o, d[:k])
			d = d[k:]
		}
		return append(o, d)
	}
	switch scheme {
	case "nochunks":
		return nil
	case "c1":
		return every(1)
	case "c2":
		return every(2)
	case "c3":
		return every(3)
	case "c32k": // Java SnappyOutputStream default block size
		return every(32 << 10)
	case "tail1":
		if len(d) > 1 {
			return [][]byte{d[:len(d)-1], d[len(d)-1:]}
		}
	case "empties":
		return [][]byte{nil, d[:len(d)/2], nil, nil, d[len(d)/2:], nil}
	}
	return [][]byte{d}
}

func c19XerFrame(d []byte, x c19Xer) []byte {
	out := append([]byte(nil), xerialPfx...)
	hd, _ := hex.DecodeString(x.Hdr)
	out = append(out, hd...)
	for _, c := range c19Split(d, x.Scheme) {
		var enc []byte
		if x.Enc == "lit" {
			enc = c19SnappyLit(nil, c)
		} else {
			enc = s2.EncodeSnappy(nil, c)
		}
		out = binary.BigEndian.AppendUint32(out, uint32(len(enc)))
		out = append(out, enc...)
	}
	return out
}

func c19XerialDecode(dst, src []byte) (out []byte, err error, pan any) {
	defer func() {
		if p := recover(); p != nil {
			pan = fmt.Sprint(p)
		}
	}()
	out, err = xerialDecode(dst, src)
	return
}

func c19XerSchemes(n int) []string {
	s := []string{"whole", "c32k", "tail1", "empties"}
	if n <= 257 {
		s = append(s, "c1", "c2", "c3")
	}
	return s
}

func (h *c19H) phaseXerial(payloads []c19PD) {
	hdrs := []string{"0000000100000001", "0000000000000000", "ffffffffffffffff"}
	h.par("xerial", len(payloads), func(w *c19W, i int) {
		p := payloads[i]
		for _, scheme := range c19XerSchemes(len(p.D)) {
			for _, enc := range []string{"lit", "s2"} {
				for _, hd := range hdrs {
					if hd != hdrs[0] && len(p.D) > 65537 {
						continue
					}
					x := c19Xer{scheme, enc, hd}
					in := c19XerFrame(p.D, x)
					art := c19Art{Kind: "xerial", Payload: &p.P, Xerial: &x, Codec: int(CodecSnappy)}
					for _, d := range h.decs {
						got, err, pan := c19Decompress(d.d, in, CodecSnappy)
						w.evals++
						a := art
						a.Dec = d.name
						if pan != nil {
							h.viol("xerial-panic", fmt.Sprintf("Decompress of xerial-framed snappy panicked: %v", pan), a)
						} else if err != nil {
							h.viol("xerial-error", "Decompress of valid xerial-framed snappy failed: "+err.Error(), a)
						} else if !bytes.Equal(got, p.D) {
							h.viol("xerial-mismatch", fmt.Sprintf("xerial-framed snappy decoded to %d bytes != %d", len(got), len(p.D)), a)
						}
					}
					pre := []byte("xyz")
					got, err, pan := c19XerialDecode(append([]byte(nil), pre...), in)
					w.evals++
					if pan != nil || err != nil || !bytes.Equal(got, append(pre, p.D...)) {
						a := art
						a.Dec = "xerialDecode(dst=xyz)"
						h.viol("xerial-append", fmt.Sprintf("xerialDecode(dst,src) does not append the payload to dst: err=%v panic=%v len=%d", err, pan, len(got)), a)
					}
					f := fnv.New64a()
					f.Write(in)
					h.r.DistinctHash(f.Sum64())
					w.cnt("xerial_frames", 1)
				}
			}
		}
	})
	// Java's SnappyOutputStream writes only the 16-byte header for an empty
	// stream; kgo requires len>16 to take the xerial path. Recorded, not judged
	// (Kafka never ships an empty compressed payload).
	x := c19Xer{"nochunks", "lit", hdrs[0]}
	got, err, pan := c19Decompress(h.decs[0].d, c19XerFrame(nil, x), CodecSnappy)
	h.r.Set("xerial_header_only_result", fmt.Sprintf("len=%d err=%v panic=%v (observation only)", len(got), err, pan))
	if pan != nil {
		h.viol("xerial-panic", fmt.Sprintf("header-only xerial input panicked: %v", pan), c19Art{Kind: "xerial", Payload: &c19Payload{Kind: "lit"}, Xerial: &x, Codec: 2, Dec: "default"})
	}
}

// ---------------------------------------------------------------- hostile inputs

var (
	c19Digits = regexp.MustCompile(`\b[0-9a-fA-Fx]*[0-9][0-9a-fA-Fx]*\b`)
	c19GotExp = regexp.MustCompile(`\b(got|expected|want|have):? [0-9a-fA-Fx]+\b`)
)

// c19ErrClass folds numbers and hex values out of an error text so outcome
// classes stay a small set.
func c19ErrClass(err error) string {
	s := c19GotExp.ReplaceAllString(err.Error(), "$1 N")
	s = c19Digits.ReplaceAllString(s, "N")
	if len(s) > 60 {
		s = s[:60]
	}
	return s
}

// hostile runs one arbitrary input through one decompressor and applies the
// oracle: returns (no panic) and never more than the maximum.
func (w *c19W) hostile(dv int, codec CompressionCodecType, in []byte, family string, art func() c19Art) (out []byte, err error) {
	h := w.h
	d := h.decs[dv]
	out, err, pan := c19Decompress(d.d, in, codec)
	w.evals++
	if pan != nil {
		a := art()
		a.Dec, a.Max = d.name, maxDecompressedSize
		h.viol("hostile-panic:"+c19CodecName(int(codec)), fmt.Sprintf("Decompress panicked on a %d-byte %s input: %v", len(in), family, pan), a)
		w.outcome[fmt.Sprintf("%s|%s|%s|PANIC", c19CodecName(int(codec)), d.name, family)]++
		return
	}
	if int64(len(out)) > maxDecompressedSize {
		a := art()
		a.Dec, a.Max = d.name, maxDecompressedSize
		h.viol("hostile-oversize:"+c19CodecName(int(codec)), fmt.Sprintf("Decompress returned %d bytes > maximum decompressed size %d (err=%v)", len(out), maxDecompressedSize, err), a)
	}
	if err != nil {
		w.outcome[fmt.Sprintf("%s|%s|%s|err:%s", c19CodecName(int(codec)), d.name, family, c19ErrClass(err))]++
	} else {
		w.outcome[fmt.Sprintf("%s|%s|%s|ok", c19CodecName(int(codec)), d.name, family)]++
		w.cnt("hostile_returned_data", 1)
	}
	return
}

func c19HexArt(codec CompressionCodecType, in []byte) c19Art {
	return c19Art{Kind: "hostile", Codec: int(codec), InputHex: hex.EncodeToString(in)}
}

func c19LZ4Hdr(flg, bd byte, contentSize *uint64) []byte {
	b := []byte{0x04, 0x22, 0x4d, 0x18, flg, bd}
	if contentSize != nil {
		b = binary.LittleEndian.AppendUint64(b, *contentSize)
	}
	return append(b, byte(c19XXH32(b[4:], 0)>>8))
}

type c19Form struct {
	codec    CompressionCodecType
	name     string
	pre, suf []byte
	deep     bool // also enumerated with 3-byte middles in thorough
}

func c19Forms() []c19Form {
	hx := func(s string) []byte { b, _ := hex.DecodeString(strings.ReplaceAll(s, " ", "")); return b }
	var f []c19Form
	for _, c := range []CompressionCodecType{CodecGzip, CodecSnappy, CodecLz4, CodecZstd} {
		f = append(f, c19Form{c, "raw", nil, nil, true})
	}
	for _, fl := range []byte{0x00, 0x02, 0x04, 0x08, 0x10, 0x1f, 0xe0, 0xff} {
		hd := []byte{0x1f, 0x8b, 8, fl, 0, 0, 0, 0, 0, 0xff}
		f = append(f, c19Form{CodecGzip, fmt.Sprintf("gzhdr-flg%02x", fl), hd, nil, false})
		f = append(f, c19Form{CodecGzip, fmt.Sprintf("gzhdr-flg%02x+trailer0", fl), hd, make([]byte, 8), fl == 0})
	}
	xh := append(append([]byte(nil), xerialPfx...), 0, 0, 0, 1, 0, 0, 0, 1)
	f = append(f,
		c19Form{CodecSnappy, "snappy+8a", nil, []byte("aaaaaaaa"), true},
		c19Form{CodecSnappy, "xerialhdr", xh, nil, false},
		c19Form{CodecSnappy, "xerialhdr+size3hi", append(append([]byte(nil), xh...), 0, 0, 0), nil, true},
		c19Form{CodecSnappy, "xerialhdr+size=2", append(append([]byte(nil), xh...), 0, 0, 0, 2), nil, false},
		c19Form{CodecSnappy, "xerialhdr+size=3", append(append([]byte(nil), xh...), 0, 0, 0, 3), nil, false},
		c19Form{CodecSnappy, "xerialhdr+chunk+next", append(append([]byte(nil), xh...), 0, 0, 0, 3, 1, 0, 'a'), nil, false},
	)
	lh := c19LZ4Hdr(0x60, 0x40, nil)
	f = append(f,
		c19Form{CodecLz4, "lz4magic", hx("04224d18"), nil, false},
		c19Form{CodecLz4, "lz4hdr", lh, nil, false},
		c19Form{CodecLz4, "lz4hdr+00 00", lh, hx("0000"), false},
		c19Form{CodecLz4, "lz4hdr+size3lo+00+data+end", lh, append(hx("00"), append([]byte("aaaaaaaaaaaaaaaa"), 0, 0, 0, 0)...), true},
		c19Form{CodecLz4, "lz4hdr+size3lo+80+data+end", lh, append(hx("80"), append([]byte("aaaaaaaaaaaaaaaa"), 0, 0, 0, 0)...), false},
		c19Form{CodecLz4, "lz4hdr+block(3)+end", append(append([]byte(nil), lh...), 3, 0, 0, 0), hx("00000000"), true},
		c19Form{CodecLz4, "lz4legacy", hx("02214c18"), nil, false},
		c19Form{CodecLz4, "lz4skippable", hx("502a4d18"), nil, false},
	)
	f = append(f,
		c19Form{CodecZstd, "zstdmagic", hx("28b52ffd"), nil, false},
		c19Form{CodecZstd, "zstd+fhd00wd00", hx("28b52ffd0000"), nil, true},
		c19Form{CodecZstd, "zstd+single-fcs0", hx("28b52ffd2000"), nil, false},
		c19Form{CodecZstd, "zstd+single-fcs1+byte", hx("28b52ffd2001"), []byte("A"), true},
		c19Form{CodecZstd, "zstd+single-fcs4+compressed(3)", hx("28b52ffd20041d0000"), nil, false},
		c19Form{CodecZstd, "zstdskippable", hx("502a4d18"), nil, false},
	)
	return f
}

// phaseEnum: every byte string of length <=depth placed in every form.
func (h *c19H) phaseEnum(deep bool) {
	forms := c19Forms()
	type job struct {
		f      c19Form
		n      int // middle length
		b0     int // first byte fixed (for n==3), else -1
		dvs    []int
		family string
	}
	var jobs []job
	both := []int{0, 1}
	for _, f := range forms {
		fam := "enum:" + f.name
		jobs = append(jobs, job{f, 0, -1, both, fam}, job{f, 1, -1, both, fam}, job{f, 2, -1, both, fam})
		if deep && f.deep {
			for b0 := 0; b0 < 256; b0++ {
				jobs = append(jobs, job{f, 3, b0, []int{0}, fam})
			}
		}
	}
	for _, c := range []CompressionCodecType{CodecNone, -1, 5, 127, -128} {
		jobs = append(jobs, job{c19Form{c, "raw-othercodec", nil, nil, false}, 1, -1, both, "enum:othercodec"})
	}
	// heavy (n==3) first
	sort.SliceStable(jobs, func(i, j int) bool { return jobs[i].n > jobs[j].n })
	h.par("hostile-enum", len(jobs), func(w *c19W, ji int) {
		j := jobs[ji]
		in := make([]byte, 0, len(j.f.pre)+3+len(j.f.suf))
		total := 1
		for i := 0; i < j.n; i++ {
			total *= 256
		}
		if j.b0 >= 0 {
			total = 65536
		}
		for v := 0; v < total; v++ {
			in = append(in[:0], j.f.pre...)
			switch {
			case j.b0 >= 0:
				in = append(in, byte(j.b0), byte(v>>8), byte(v))
			case j.n == 2:
				in = append(in, byte(v>>8), byte(v))
			case j.n == 1:
				in = append(in, byte(v))
			}
			in = append(in, j.f.suf...)
			for _, dv := range j.dvs {
				out, err := w.hostile(dv, j.f.codec, in, j.family, func() c19Art { return c19HexArt(j.f.codec, in) })
				if j.f.codec == CodecNone && (err != nil || !bytes.Equal(out, in)) {
					h.viol("none-identity", "CodecNone must return the input", c19HexArt(j.f.codec, in))
				}
			}
		}
		w.cnt("hostile_enum_inputs", int64(total))
	})
}

// c19Base is a valid compressed input (compressor output or xerial framing) to mutate.
type c19Base struct {
	art   c19Art
	codec CompressionCodecType
	data  []byte
}

var c19BaseComps = map[string]Compressor{}

func c19BuildBase(a c19Art) ([]byte, CompressionCodecType, error) {
	d := a.Payload.bytes()
	if a.Kind == "xerial" {
		return c19XerFrame(d, *a.Xerial), CodecSnappy, nil
	}
	key := fmt.Sprint(a.Cfgs)
	comp := c19BaseComps[key]
	if comp == nil {
		var err error
		var pan any
		comp, err, pan = c19NewCompressor(a.Cfgs)
		if err != nil || pan != nil || comp == nil {
			return nil, 0, fmt.Errorf("compressor: %v %v", err, pan)
		}
		c19BaseComps[key] = comp
	}
	var fl []CompressFlag
	for _, f := range a.Flags {
		fl = append(fl, CompressFlag(f))
	}
	out, used, pan := c19Compress(comp, new(bytes.Buffer), d, fl)
	if pan != nil || used < 0 {
		return nil, 0, fmt.Errorf("compress: %v %v", used, pan)
	}
	return bytes.Clone(out), used, nil
}

var c19Subst = []byte{0x00, 0x01, 0x7f, 0x80, 0xff}

// phaseMutate: every truncation and every single-byte substitution of each base.
func (h *c19H) phaseMutate(bases []c19Base, allValsEdge int) {
	type job struct{ b, lo, hi int }
	var jobs []job
	for i, b := range bases {
		step := 2048
		if len(b.data) > 4096 {
			step = 512
		}
		for lo := 0; lo < len(b.data); lo += step {
			jobs = append(jobs, job{i, lo, min(lo+step, len(b.data))})
		}
	}
	sort.SliceStable(jobs, func(i, j int) bool { return len(bases[jobs[i].b].data) > len(bases[jobs[j].b].data) })
	h.par("hostile-mutate", len(jobs), func(w *c19W, ji int) {
		j := jobs[ji]
		b := bases[j.b]
		famT, famS := "trunc", "subst"
		if b.art.Kind == "xerial" {
			famT, famS = "trunc-xerial", "subst-xerial"
		}
		mut := make([]byte, len(b.data))
		decs := h.decs
		if len(b.data) > 8192 {
			decs = decs[:1] // large bases: default decompressor only
		}
		edge := allValsEdge
		if !(b.art.Kind == "xerial" || b.art.Cfgs[0].NoLevel) {
			edge = 0
		}
		for pos := j.lo; pos < j.hi; pos++ {
			for dv := range decs {
				w.hostile(dv, b.codec, b.data[:pos], famT, func() c19Art {
					base := b.art
					return c19Art{Kind: "hostile", Codec: int(b.codec), Base: &base, Op: "trunc", Pos: pos}
				})
			}
			w.cnt("hostile_truncations", 1)
			vals := c19Subst
			if pos < edge || pos >= len(b.data)-edge {
				vals = nil
				for v := 0; v < 256; v++ {
					vals = append(vals, byte(v))
				}
			}
			for _, v := range vals {
				if b.data[pos] == v {
					continue
				}
				copy(mut, b.data)
				mut[pos] = v
				for dv := range decs {
					w.hostile(dv, b.codec, mut, famS, func() c19Art {
						base := b.art
						return c19Art{Kind: "hostile", Codec: int(b.codec), Base: &base, Op: "subst", Pos: pos, Val: int(v)}
					})
				}
				w.cnt("hostile_substitutions", 1)
			}
		}
		if j.lo == 0 {
			h.r.Distinct(fmt.Sprint("mutbase", j.b, b.codec, len(b.data)))
			// the unmutated base must still decode under the small maximum
			want := b.art.Payload.bytes()
			for dv := range h.decs {
				out, err := w.hostile(dv, b.codec, b.data, "base", func() c19Art { return b.art })
				if err != nil || !bytes.Equal(out, want) {
					a := b.art
					a.Dec, a.Max = h.decs[dv].name, maxDecompressedSize
					h.viol("roundtrip-under-small-max", fmt.Sprintf("valid %d-byte payload (<= max) does not decode under max=%d: err=%v", len(want), maxDecompressedSize, err), a)
				}
			}
		}
	})
}

// ---------------------------------------------------------------- crafted size claims and bombs

type c19Craft struct {
	Name  string
	Codec CompressionCodecType
	In    []byte
	// Real is the true decoded length when the craft is a well-formed stream
	// (checked with the harness decoders where one exists), -1 otherwise.
	Real int64
	// direct xerialDecode call with a pre-filled dst of this length (0 = via Decompress)
	DstLen int
}

// c19SnappyRun: snappy block claiming `claim` bytes whose elements really
// produce n bytes of 'a' (one literal, then 64-byte copies at offset 1).
func c19SnappyRun(claim uint64, n int) []byte {
	b := binary.AppendUvarint(nil, claim)
	if n == 0 {
		return b
	}
	b = append(b, 0x00, 'a')
	n--
	for n > 0 {
		l := min(n, 64)
		b = append(b, byte(l-1)<<2|2, 1, 0)
		n -= l
	}
	return b
}

// c19LZ4RunBlock: one LZ4 block decoding to n>=10 bytes of 'a'.
func c19LZ4RunBlock(n int) []byte {
	ml := n - 6 - 4 // 1 literal, match, 5 trailing literals; stored minus minmatch
	b := []byte{0x1f, 'a', 1, 0}
	ml -= 15
	for ml >= 255 {
		b = append(b, 255)
		ml -= 255
	}
	b = append(b, byte(ml))
	return append(b, 0x50, 'a', 'a', 'a', 'a', 'a')
}

func c19LZ4FrameOf(flg, bd byte, contentSize *uint64, blocks [][]byte, rawFlags []bool) []byte {
	b := c19LZ4Hdr(flg, bd, contentSize)
	for i, blk := range blocks {
		sz := uint32(len(blk))
		if rawFlags != nil && rawFlags[i] {
			sz |= 0x80000000
		}
		b = binary.LittleEndian.AppendUint32(b, sz)
		b = append(b, blk...)
	}
	return append(b, 0, 0, 0, 0)
}

// c19ZstdRLE: zstd frame (no content size, 1 MiB window unless wd given) of k
// RLE blocks of 128 KiB each: 4 bytes per 128 KiB.
func c19ZstdRLE(fhd []byte, k, blockLen int) []byte {
	b := append([]byte{0x28, 0xb5, 0x2f, 0xfd}, fhd...)
	for i := 0; i < k; i++ {
		hd := uint32(blockLen)<<3 | 1<<1
		if i == k-1 {
			hd |= 1
		}
		b = append(b, byte(hd), byte(hd>>8), byte(hd>>16), 'a')
	}
	return b
}

func c19Gzip(d []byte) []byte {
	var b bytes.Buffer
	w, _ := gzip.NewWriterLevel(&b, 9)
	w.Write(d)
	w.Close()
	return b.Bytes()
}

func c19Crafts(M int64, thorough bool) []c19Craft {
	var cs []c19Craft
	add := func(name string, codec CompressionCodecType, in []byte, real int64) {
		cs = append(cs, c19Craft{Name: name, Codec: codec, In: in, Real: real})
	}
	m := int(M)
	sizes := []uint64{0, 1, uint64(M) - 1, uint64(M), uint64(M) + 1, 2 * uint64(M), 1<<31 - 1, 1 << 31, 1<<32 - 1, 1 << 32, 1 << 35, 1 << 63, 1<<64 - 1}
	realN := []int{m - 1, m, m + 1, m + 2, 2 * m, 8 * m}
	if thorough {
		realN = append(realN, 64*m)
	}

	// ---- gzip
	small := c19Gzip([]byte("abc"))
	for _, isz := range []uint32{0, 2, 4, uint32(M) + 1, 0x7fffffff, 0xffffffff} {
		g := bytes.Clone(small)
		binary.LittleEndian.PutUint32(g[len(g)-4:], isz)
		add(fmt.Sprintf("gzip-isize-%d", isz), CodecGzip, g, -1)
	}
	for _, n := range append(realN, 64*m) {
		add(fmt.Sprintf("gzip-zeros-%d", n), CodecGzip, c19Gzip(make([]byte, n)), int64(n))
	}
	half := c19Gzip(make([]byte, m/2+1))
	add("gzip-2members-sum-over", CodecGzip, bytes.Repeat(half, 2), int64(m+2))
	add("gzip-3members-sum-over", CodecGzip, bytes.Repeat(half, 3), int64(3*(m/2+1)))
	add("gzip-2members-sum-at-max", CodecGzip, bytes.Repeat(c19Gzip(make([]byte, m/2)), 2), int64(m))
	add("gzip-4096members-1KiB", CodecGzip, bytes.Repeat(c19Gzip(make([]byte, 1024)), 4096), 4096*1024)
	add("gzip-fextra-xlen-ffff", CodecGzip, []byte{0x1f, 0x8b, 8, 4, 0, 0, 0, 0, 0, 0xff, 0xff, 0xff}, -1)
	add("gzip-fname-unterminated", CodecGzip, append([]byte{0x1f, 0x8b, 8, 8, 0, 0, 0, 0, 0, 0xff}, bytes.Repeat([]byte("a"), 1<<16)...), -1)
	add("gzip-stored-len-ffff-truncated", CodecGzip, []byte{0x1f, 0x8b, 8, 0, 0, 0, 0, 0, 0, 0xff, 0x01, 0xff, 0xff, 0x00, 0x00, 'a'}, -1)

	// ---- snappy: claimed length varints with little or no body
	for _, c := range sizes {
		add(fmt.Sprintf("snappy-claim-%d-nobody", c), CodecSnappy, binary.AppendUvarint(nil, c), -1)
		add(fmt.Sprintf("snappy-claim-%d-1lit", c), CodecSnappy, append(binary.AppendUvarint(nil, c), 0x00, 'a'), -1)
		add(fmt.Sprintf("snappy-claim-%d-lit+copy", c), CodecSnappy, append(binary.AppendUvarint(nil, c), 0x00, 'a', 63<<2|2, 1, 0), -1)
	}
	add("snappy-varint-6bytes", CodecSnappy, []byte{0xff, 0xff, 0xff, 0xff, 0xff, 0x01, 0, 'a'}, -1)
	add("snappy-varint-11bytes", CodecSnappy, append(bytes.Repeat([]byte{0xff}, 10), 0x01), -1)
	for _, n := range realN {
		add(fmt.Sprintf("snappy-run-%d", n), CodecSnappy, c19SnappyRun(uint64(n), n), int64(n))
	}
	add("snappy-claim-max-body-2max", CodecSnappy, c19SnappyRun(uint64(m), 2*m), -1)
	add("snappy-claim-10-body-2max", CodecSnappy, c19SnappyRun(10, 2*m), -1)
	add("snappy-literal-len-ffffffff", CodecSnappy, append(binary.AppendUvarint(nil, uint64(m)), 63<<2, 0xff, 0xff, 0xff, 0xff, 'a'), -1)
	add("snappy-copy4-offset-ffffffff", CodecSnappy, append(binary.AppendUvarint(nil, 100), 0x00, 'a', 63<<2|3, 0xff, 0xff, 0xff, 0xff), -1)

	// ---- xerial framing
	xh := append(append([]byte(nil), xerialPfx...), 0, 0, 0, 1, 0, 0, 0, 1)
	xer := func(parts ...[]byte) []byte {
		b := append([]byte(nil), xh...)
		for _, p := range parts {
			b = append(b, p...)
		}
		return b
	}
	be := func(v uint32) []byte { return binary.BigEndian.AppendUint32(nil, v) }
	chunk := func(c []byte) []byte { return append(be(uint32(len(c))), c...) }
	hello := c19SnappyLit(nil, []byte("hello"))
	for _, sz := range []uint32{uint32(len(hello)), uint32(len(hello)) + 1, uint32(len(hello)) - 1, 0, 1, 0x7fffffff, 0x80000000, 0x80000007, 0xfffffffc, 0xffffffff} {
		add(fmt.Sprintf("xerial-size-%d", sz), CodecSnappy, xer(be(sz), hello), -1)
		add(fmt.Sprintf("xerial-ok-then-size-%d", sz), CodecSnappy, xer(chunk(hello), be(sz), hello), -1)
	}
	for _, c := range sizes {
		add(fmt.Sprintf("xerial-chunk-claim-%d", c), CodecSnappy, xer(chunk(append(binary.AppendUvarint(nil, c), 0x00, 'a'))), -1)
		add(fmt.Sprintf("xerial-ok-then-chunk-claim-%d", c), CodecSnappy, xer(chunk(hello), chunk(append(binary.AppendUvarint(nil, c), 0x00, 'a'))), -1)
	}
	for _, n := range realN {
		add(fmt.Sprintf("xerial-1chunk-run-%d", n), CodecSnappy, xer(chunk(c19SnappyRun(uint64(n), n))), int64(n))
	}
	hc := chunk(c19SnappyRun(uint64(m/2+1), m/2+1))
	add("xerial-2chunks-sum-over", CodecSnappy, xer(hc, hc), int64(m+2))
	add("xerial-3chunks-sum-over", CodecSnappy, xer(hc, hc, hc), int64(3*(m/2+1)))
	hm := chunk(c19SnappyRun(uint64(m/2), m/2))
	add("xerial-2chunks-sum-at-max", CodecSnappy, xer(hm, hm), int64(m))
	add("xerial-max-then-1", CodecSnappy, xer(chunk(c19SnappyRun(uint64(m), m)), chunk(c19SnappyLit(nil, []byte("a")))), int64(m+1))
	q := chunk(c19SnappyRun(uint64(m/4), m/4))
	add("xerial-5quarter-chunks", CodecSnappy, xer(q, q, q, q, q), int64(5*(m/4)))
	add("xerial-9chunks-claim-max/8+1-nobody", CodecSnappy, xer(bytes.Repeat(chunk(binary.AppendUvarint(nil, uint64(m/8+1))), 9)), -1)
	add("xerial-100000-empty-chunks", CodecSnappy, xer(bytes.Repeat(chunk([]byte{0}), 100000)), 0)
	add("xerial-4096-chunks-1KiB", CodecSnappy, xer(bytes.Repeat(chunk(c19SnappyRun(1024, 1024)), 4096)), 4096*1024)
	// direct xerialDecode with a pre-filled destination
	for _, k := range []int{4, 5, 6} {
		cs = append(cs, c19Craft{Name: fmt.Sprintf("xerialDecode-dst=max-5-chunk=%d", k), Codec: CodecSnappy, In: xer(chunk(c19SnappyLit(nil, []byte("hello!")[:k]))), Real: int64(m - 5 + k), DstLen: m - 5})
	}

	// ---- lz4
	u := func(v uint64) *uint64 { return &v }
	for _, c := range []uint64{0, 5, 6, uint64(M) + 1, 1<<32 - 1, 1 << 63, 1<<64 - 1} {
		add(fmt.Sprintf("lz4-contentsize-%d", c), CodecLz4, c19LZ4FrameOf(0x68, 0x40, u(c), [][]byte{[]byte("hello")}, []bool{true}), -1)
	}
	for _, sz := range []uint32{0x7fffffff, 0xffffffff, 0x80000000, 0x00400001, 0x80400001, 1 << 16, 1<<16 + 1} {
		b := c19LZ4Hdr(0x60, 0x40, nil)
		b = binary.LittleEndian.AppendUint32(b, sz)
		add(fmt.Sprintf("lz4-blocksize-%#x-truncated", sz), CodecLz4, append(b, "aaaaaaaa"...), -1)
	}
	for _, n := range realN {
		if n <= 4<<20 {
			add(fmt.Sprintf("lz4-1block-run-%d", n), CodecLz4, c19LZ4FrameOf(0x60, 0x70, nil, [][]byte{c19LZ4RunBlock(n)}, nil), int64(n))
		}
	}
	blk64 := c19LZ4RunBlock(1 << 16)
	rep := func(b []byte, k int) [][]byte {
		o := make([][]byte, k)
		for i := range o {
			o[i] = b
		}
		return o
	}
	for _, k := range []int{m >> 16, m>>16 + 1, 8 * (m >> 16), 4096} {
		add(fmt.Sprintf("lz4-%dx64KiB-blocks", k), CodecLz4, c19LZ4FrameOf(0x60, 0x40, nil, rep(blk64, k), nil), int64(k)<<16)
	}
	add("lz4-4MiB-blocks-x16", CodecLz4, c19LZ4FrameOf(0x60, 0x70, nil, rep(c19LZ4RunBlock(4<<20), 16), nil), 64<<20)
	add("lz4-block-expands-past-BD-64KiB", CodecLz4, c19LZ4FrameOf(0x60, 0x40, nil, [][]byte{c19LZ4RunBlock(4 << 20)}, nil), -1)
	add("lz4-block-expands-past-4MiB", CodecLz4, c19LZ4FrameOf(0x60, 0x70, nil, [][]byte{c19LZ4RunBlock(64 << 20)}, nil), -1)
	raw64 := bytes.Repeat([]byte("a"), 1<<16)
	rf := make([]bool, 17)
	for i := range rf {
		rf[i] = true
	}
	add("lz4-17-raw-64KiB-blocks", CodecLz4, c19LZ4FrameOf(0x60, 0x40, nil, rep(raw64, 17), rf), 17<<16)
	legacy := func(blocks ...[]byte) []byte {
		b := []byte{0x02, 0x21, 0x4c, 0x18}
		for _, x := range blocks {
			b = binary.LittleEndian.AppendUint32(b, uint32(len(x)))
			b = append(b, x...)
		}
		return b
	}
	add("lz4-legacy-8MiB-block", CodecLz4, legacy(c19LZ4RunBlock(8<<20)), -1)
	add("lz4-legacy-8x8MiB-blocks", CodecLz4, legacy(rep(c19LZ4RunBlock(8<<20), 8)...), -1)
	add("lz4-legacy-blocksize-ffffffff", CodecLz4, append([]byte{0x02, 0x21, 0x4c, 0x18, 0xff, 0xff, 0xff, 0xff}, "aaaa"...), -1)
	add("lz4-skippable-size-ffffffff", CodecLz4, []byte{0x50, 0x2a, 0x4d, 0x18, 0xff, 0xff, 0xff, 0xff, 'a'}, -1)
	add("lz4-skippable-then-bomb", CodecLz4, append([]byte{0x50, 0x2a, 0x4d, 0x18, 1, 0, 0, 0, 'a'}, c19LZ4FrameOf(0x60, 0x70, nil, [][]byte{c19LZ4RunBlock(2 * m)}, nil)...), -1)
	halfF := c19LZ4FrameOf(0x60, 0x70, nil, [][]byte{c19LZ4RunBlock(m/2 + 1)}, nil)
	add("lz4-2frames-sum-over", CodecLz4, bytes.Repeat(halfF, 2), -1)
	add("lz4-64frames-sum-over", CodecLz4, bytes.Repeat(halfF, 64), -1)
	add("lz4-dictid-flag", CodecLz4, append(c19LZ4Hdr(0x61, 0x40, nil), 0, 0, 0, 0, 0, 0, 0, 0), -1)
	add("lz4-match-offset-0", CodecLz4, c19LZ4FrameOf(0x60, 0x40, nil, [][]byte{{0x1f, 'a', 0, 0, 0xff, 0xff, 0xff, 0x00, 0x50, 'a', 'a', 'a', 'a', 'a'}}, nil), -1)
	add("lz4-match-offset-beyond-start", CodecLz4, c19LZ4FrameOf(0x60, 0x40, nil, [][]byte{{0x1f, 'a', 0xff, 0xff, 0xff, 0x00, 0x50, 'a', 'a', 'a', 'a', 'a'}}, nil), -1)
	add("lz4-literal-len-ext-unterminated", CodecLz4, c19LZ4FrameOf(0x60, 0x40, nil, [][]byte{append([]byte{0xf0}, bytes.Repeat([]byte{0xff}, 4096)...)}, nil), -1)

	// ---- zstd
	zm := []byte{0x28, 0xb5, 0x2f, 0xfd}
	for _, c := range []uint64{0, uint64(M), uint64(M) + 1, 8 << 30, 1 << 63, 1<<64 - 1} {
		hd := append(append([]byte(nil), zm...), 0xc0, 0x00)
		hd = binary.LittleEndian.AppendUint64(hd, c)
		add(fmt.Sprintf("zstd-fcs8-%d-noblocks", c), CodecZstd, hd, -1)
		add(fmt.Sprintf("zstd-fcs8-%d-rawblock", c), CodecZstd, append(bytes.Clone(hd), 0x11, 0, 0, 'h', 'i'), -1)
		ss := append(append([]byte(nil), zm...), 0xe0)
		ss = binary.LittleEndian.AppendUint64(ss, c)
		add(fmt.Sprintf("zstd-singleseg-fcs8-%d-rle", c), CodecZstd, append(ss, c19ZstdRLE(nil, 1, 1<<17)[4:]...), -1)
	}
	for _, c := range []uint32{uint32(M), uint32(M) + 1, 1<<31 - 1, 1<<32 - 1} {
		ss := append(append([]byte(nil), zm...), 0xa0)
		ss = binary.LittleEndian.AppendUint32(ss, c)
		add(fmt.Sprintf("zstd-singleseg-fcs4-%d-noblocks", c), CodecZstd, ss, -1)
	}
	for _, wd := range []byte{0x00, 0x50, 0x58, 0x80, 0xa8, 0xf8, 0xff} {
		add(fmt.Sprintf("zstd-window-%#02x-rle9", wd), CodecZstd, c19ZstdRLE([]byte{0x00, wd}, 9, 1<<17), -1)
	}
	for _, k := range []int{m >> 17, m>>17 + 1, 16 * (m >> 17), 4096, 65536} {
		add(fmt.Sprintf("zstd-rle-%dx128KiB", k), CodecZstd, c19ZstdRLE([]byte{0x00, 0x50}, k, 1<<17), int64(k)<<17)
	}
	add("zstd-rle-max+1-in-1KiB-window", CodecZstd, c19ZstdRLE([]byte{0x00, 0x00}, m>>10+1, 1<<10), M+1024)
	lie := append(append(append([]byte(nil), zm...), 0x40, 0x50, 10, 0), c19ZstdRLE(nil, 16, 1<<17)[4:]...)
	add("zstd-fcs-says-266-blocks-2MiB", CodecZstd, lie, -1)
	halfZ := c19ZstdRLE([]byte{0x00, 0x50}, m>>18, 1<<17)
	halfZ = append(halfZ, c19ZstdRLE([]byte{0x00, 0x50}, 1, 1)...) // + one frame of 1 byte
	add("zstd-frames-half+1-x2", CodecZstd, bytes.Repeat(halfZ, 2), int64(m+2))
	add("zstd-frames-half+1-x64", CodecZstd, bytes.Repeat(halfZ, 64), int64(64*(m/2+1)))
	add("zstd-4096-frames-1KiB", CodecZstd, bytes.Repeat(c19ZstdRLE([]byte{0x00, 0x00}, 1, 1024), 4096), 4096*1024)
	add("zstd-skippable-size-ffffffff", CodecZstd, []byte{0x50, 0x2a, 0x4d, 0x18, 0xff, 0xff, 0xff, 0xff, 'a'}, -1)
	add("zstd-skippable-then-bomb", CodecZstd, append([]byte{0x50, 0x2a, 0x4d, 0x18, 1, 0, 0, 0, 'a'}, c19ZstdRLE([]byte{0x00, 0x50}, 64, 1<<17)...), -1)
	add("zstd-dictid-flag", CodecZstd, append(append([]byte(nil), zm...), 0x03, 0x00, 1, 2, 3, 4, 0x01, 0, 0), -1)
	return cs
}

// phaseCrafts runs sequentially: TotalAlloc is process-wide.
func (h *c19H) phaseCrafts(crafts []c19Craft) {
	t0, c0 := time.Now(), c19CPU()
	w := &c19W{h: h, counts: map[string]int64{}, outcome: map[string]int64{}, batches: map[string]*c19Batch{}}
	bound := uint64(4*maxDecompressedSize + 64<<20)
	var maxDelta uint64
	var maxName string
	var ms0, ms1 runtime.MemStats
	accepted, acceptedOf := 0, 0
	run := func(c c19Craft, dv int) {
		art := func() c19Art { return c19Art{Kind: "hostile", Codec: int(c.Codec), Craft: c.Name} }
		runtime.ReadMemStats(&ms0) // TotalAlloc is cumulative: no GC needed around the call
		var out []byte
		var err error
		if c.DstLen > 0 {
			var pan any
			out, err, pan = c19XerialDecode(make([]byte, c.DstLen), c.In)
			w.evals++
			if pan != nil {
				h.viol("hostile-panic:snappy", fmt.Sprintf("xerialDecode panicked on craft %s: %v", c.Name, pan), art())
			}
			if int64(len(out)) > maxDecompressedSize {
				h.viol("hostile-oversize:snappy", fmt.Sprintf("xerialDecode returned %d bytes > max %d on craft %s", len(out), maxDecompressedSize, c.Name), art())
			}
		} else {
			out, err = w.hostile(dv, c.Codec, c.In, "craft", art)
		}
		runtime.ReadMemStats(&ms1)
		delta := ms1.TotalAlloc - ms0.TotalAlloc
		if c.DstLen > 0 {
			delta -= min(delta, uint64(c.DstLen))
		}
		if delta > maxDelta {
			maxDelta, maxName = delta, c.Name
		}
		if delta > bound {
			a := art()
			a.Dec, a.Max = h.decs[dv].name, maxDecompressedSize
			h.viol("hostile-alloc:"+c19CodecName(int(c.Codec)), fmt.Sprintf("decompressing the %d-byte craft %s allocated %d bytes (> 4*max+64MiB = %d) with max=%d", len(c.In), c.Name, delta, bound, maxDecompressedSize), a)
		}
		if c.Real >= 0 && c.Real <= maxDecompressedSize {
			acceptedOf++
			if err == nil && int64(len(out)) == c.Real {
				accepted++
			} else {
				h.note("wellformed_craft_within_max_not_decoded", fmt.Sprintf("%s/%s: len=%d err=%v", c.Name, h.decs[dv].name, len(out), err))
			}
		}
		if strings.HasPrefix(c.Name, "kgo-") && c.Real <= maxDecompressedSize && (err != nil || int64(len(out)) != c.Real) {
			a := art()
			a.Dec, a.Max = h.decs[dv].name, maxDecompressedSize
			h.viol("roundtrip-under-small-max", fmt.Sprintf("compressor output of a %d-byte payload (<= max %d) does not decode: len=%d err=%v", c.Real, maxDecompressedSize, len(out), err), a)
		}
		if c.Real > maxDecompressedSize && err == nil {
			h.note("craft_over_max_returned_without_error", fmt.Sprintf("%s/%s: len=%d (<= max, so not judged)", c.Name, h.decs[dv].name, len(out)))
		}
		h.r.Distinct("craft:" + c.Name)
	}
	for _, c := range crafts {
		for dv := range h.decs {
			run(c, dv)
			if c.DstLen > 0 {
				break
			}
		}
	}
	h.r.Evals(w.evals)
	h.mu.Lock()
	for k, v := range w.counts {
		h.counts[k] += v
	}
	for k, v := range w.outcome {
		h.outcome[k] += v
	}
	h.counts["crafted_inputs"] = int64(len(crafts))
	h.counts["phase_ms:crafts"] = time.Since(t0).Milliseconds()
	h.counts["phase_cpu_ms:crafts"] = (c19CPU() - c0).Milliseconds()
	h.mu.Unlock()
	h.r.Set("alloc_max_totalalloc_delta_bytes", maxDelta)
	h.r.Set("alloc_max_delta_craft", maxName)
	h.r.Set("alloc_bound_bytes", bound)
	h.r.Set("wellformed_crafts_within_max_decoded", fmt.Sprintf("%d/%d", accepted, acceptedOf))
}

// selfcheck: the harness decoders must agree with the crafts that claim to be
// well-formed; otherwise the crafts do not mean what their names say.
func c19CraftSelfcheck(crafts []c19Craft) error {
	for _, c := range crafts {
		if c.Real < 0 || c.Real > 80<<20 {
			continue
		}
		switch {
		case c.Codec == CodecSnappy && !bytes.HasPrefix(c.In, xerialPfx):
			if o, err := c19SnappyDecode(c.In, int(c.Real)); err != nil || int64(len(o)) != c.Real {
				return fmt.Errorf("craft %s: %v", c.Name, err)
			}
		case c.Codec == CodecLz4 && !strings.Contains(c.Name, "frames"):
			if o, err := c19LZ4Frame(c.In, int(c.Real)); err != nil || int64(len(o)) != c.Real {
				return fmt.Errorf("craft %s: %v", c.Name, err)
			}
		case c.Codec == CodecGzip:
			zr, err := gzip.NewReader(bytes.NewReader(c.In))
			if err != nil {
				return fmt.Errorf("craft %s: %v", c.Name, err)
			}
			if n, err := io.Copy(io.Discard, zr); err != nil || n != c.Real {
				return fmt.Errorf("craft %s: n=%d %v", c.Name, n, err)
			}
		case c.Codec == CodecZstd:
			d := c19ZstdIndep.Get().(*zstd.Decoder)
			o, err := d.DecodeAll(c.In, nil)
			c19ZstdIndep.Put(d)
			if err != nil || int64(len(o)) != c.Real {
				return fmt.Errorf("craft %s: len=%d %v", c.Name, len(o), err)
			}
		}
	}
	return nil
}

// c19KgoBombs: the real compressor's output for run payloads around the maximum.
func c19KgoBombs(M int64, thorough bool) []c19Craft {
	var cs []c19Craft
	ns := []int64{M - 1, M, M + 1, 2 * M, 8 * M}
	if thorough {
		ns = append(ns, 64*M)
	}
	for codec := 1; codec <= 4; codec++ {
		comp, _, _ := c19NewCompressor([]c19Cfg{{Codec: codec, NoLevel: true}})
		if comp == nil {
			continue
		}
		for _, n := range ns {
			for _, fill := range []byte{0, 'a'} {
				out, used, pan := c19Compress(comp, new(bytes.Buffer), bytes.Repeat([]byte{fill}, int(n)), nil)
				if pan != nil || int(used) != codec {
					continue
				}
				cs = append(cs, c19Craft{Name: fmt.Sprintf("kgo-%s-run%02x-%d", c19CodecName(codec), fill, n), Codec: used, In: bytes.Clone(out), Real: n})
			}
		}
	}
	return cs
}

func c19AllCrafts(M int64, thorough bool) []c19Craft {
	seen := map[string]bool{}
	var out []c19Craft
	for _, c := range append(c19Crafts(M, thorough), c19KgoBombs(M, thorough)...) {
		if !seen[c.Name] {
			seen[c.Name] = true
			out = append(out, c)
		}
	}
	return out
}

// ---------------------------------------------------------------- replay

const c19SmallMax = 1 << 20

func c19Replay(path string) int {
	raw, err := os.ReadFile(path)
	if err != nil {
		ev.InfraError("replay: %v", err)
	}
	var f struct {
		Key      string `json:"key"`
		What     string `json:"what"`
		Artefact c19Art `json:"artefact"`
	}
	if err := json.Unmarshal(raw, &f); err != nil {
		ev.InfraError("replay: %v", err)
	}
	a := f.Artefact
	fmt.Printf("REPLAY %s\n  recorded: key=%s %s\n", path, f.Key, f.What)
	h := &c19H{replay: true, workers: 1, r: ev.New("C19", "exploration"), counts: map[string]int64{}, outcome: map[string]int64{}, info: map[string][]any{}, cli: c19FindCLI()}
	h.cur = make([]atomic.Pointer[c19Running], 1)
	w := &c19W{h: h, counts: map[string]int64{}, outcome: map[string]int64{}, batches: map[string]*c19Batch{}}
	pick := func() int {
		for i, d := range h.decs {
			if d.name == a.Dec {
				return i
			}
		}
		return 0
	}
	switch a.Kind {
	case "roundtrip":
		h.mkDecs()
		comp, err, pan := c19NewCompressor(a.Cfgs)
		if err != nil || pan != nil {
			fmt.Printf("REPLAY: DefaultCompressor: err=%v panic=%v\n", err, pan)
			return 1
		}
		var fl []CompressFlag
		for _, x := range a.Flags {
			fl = append(fl, CompressFlag(x))
		}
		if a.Payload != nil {
			w.rt(comp, a.Cfgs, fl, *a.Payload, a.Payload.bytes(), nil)
		}
		for _, b := range w.batches {
			b.flush(w)
		}
	case "xerial":
		h.mkDecs()
		h.phaseXerial([]c19PD{{*a.Payload, a.Payload.bytes()}})
	case "history":
		hs := c19NewHist(h)
		var seq []*c19Op
		for _, o := range a.History {
			op, err := hs.mkOp(o.Kind, o.Form, o.Dst, o.Payload)
			if err != nil {
				ev.InfraError("replay: %v", err)
			}
			seq = append(seq, op)
		}
		hs.hook()
		var d Decompressor = DefaultDecompressor()
		if a.Setup == "userpool" {
			d = DefaultDecompressor(c19Pool{})
		}
		for i := 0; i < 50 && h.nviol.Load() == 0; i++ { // content damage needs the pool to hand the same buffer out again
			hs.run(a.Setup, d, seq)
		}
		hs.unhook()
	case "hostile":
		if a.Max == 0 {
			a.Max = c19SmallMax
		}
		maxDecompressedSize = a.Max
		h.mkDecs()
		var in []byte
		codec := CompressionCodecType(a.Codec)
		switch {
		case a.Craft != "":
			for _, c := range c19AllCrafts(a.Max, true) {
				if c.Name == a.Craft {
					h.phaseCrafts([]c19Craft{c})
				}
			}
			goto done
		case a.Base != nil:
			b, _, err := c19BuildBase(*a.Base)
			if err != nil {
				ev.InfraError("replay: %v", err)
			}
			if a.Op == "trunc" {
				in = b[:a.Pos]
			} else {
				in = bytes.Clone(b)
				in[a.Pos] = byte(a.Val)
			}
		default:
			in, _ = hex.DecodeString(a.InputHex)
		}
		out, err := w.hostile(pick(), codec, in, "replay", func() c19Art { return a })
		fmt.Printf("REPLAY: Decompress(%d bytes, codec %d) -> %d bytes, err=%v\n", len(in), codec, len(out), err)
	default:
		ev.InfraError("replay: unknown artefact kind %q", a.Kind)
	}
done:
	if h.nviol.Load() > 0 {
		fmt.Println("REPLAY verdict: violation reproduced")
		return 1
	}
	fmt.Println("REPLAY verdict: held (not reproduced on this tree)")
	return 0
}

func c19FindCLI() map[string]string {
	m := map[string]string{}
	for _, t := range []string{"zstd", "lz4", "gzip"} {
		if os.Getenv("VERIF_C19_NO_CLI") != "" {
			m[t] = ""
			continue
		}
		p, err := exec.LookPath(t)
		if err != nil {
			for _, d := range []string{"/root/miniconda/bin", "/usr/local/bin", "/usr/bin", "/bin"} {
				if st, e := os.Stat(d + "/" + t); e == nil && !st.IsDir() {
					p = d + "/" + t
					break
				}
			}
		}
		m[t] = p // probed with a real frame by the caller
	}
	return m
}

// ---------------------------------------------------------------- the check

func TestVerifC19(t *testing.T) {
	if p := os.Getenv("VERIF_REPLAY"); p != "" {
		os.Exit(c19Replay(p))
	}
	thorough := ev.Thorough()
	r := ev.New("C19", "exploration")
	if p := os.Getenv("VERIF_C19_CPUPROFILE"); p != "" { // debugging aid only
		f, _ := os.Create(p)
		pprof.StartCPUProfile(f)
		defer pprof.StopCPUProfile()
	}
	h := &c19H{r: r, workers: ev.Workers(), counts: map[string]int64{}, outcome: map[string]int64{}, info: map[string][]any{}}
	h.cur = make([]atomic.Pointer[c19Running], h.workers+1)
	go h.watchdog(10 * time.Minute)
	// measured: the default GC pace is the cheapest here (a larger heap costs more
	// in fresh-page faults than it saves in sync.Pool refills).
	gogc := 100
	if g := os.Getenv("VERIF_C19_GOGC"); g != "" { // tuning aid
		fmt.Sscan(g, &gogc)
	}
	debug.SetGCPercent(gogc)

	r.Rule("Phase H (operation histories, run first and alone): every ordered sequence of 2 operations (thorough: also of 3 over a reduced 48-letter alphabet) over Decompress{none, gzip, raw snappy, xerial snappy with two header/chunkings, lz4, zstd} x 10 payload classes (3 B, 1000 B, 7679 B, 8191 B, 8193 B around the 8 KiB pooled buffer; compressible and LCG noise) and Compress{gzip, snappy, lz4, zstd, zstd-disabled->lz4} x {caller-owned dst, byteBuffers dst as sink.go} x the same payloads, on one decompressor (default pools, and user byte pool) and one set of compressors; every earlier result is kept and after every later operation re-compared with its snapshot, inputs re-compared with pristine copies, results checked pairwise for shared memory and against every buffer the internal byteBuffers pool ever created (New hook). Phase A (production maximum): every byte string of length <=2, and run / period-2 / period-3 / counter / LCG-noise payloads of lengths 0-4, 15-17, 255-257, 65535-65537, 1 MiB, through DefaultCompressor for every codec x every level the libraries accept plus out-of-range levels; every codec preference list (length <=3 with repetition, all permutations of 4 and 5) x flag lists incl. CompressDisableZstd; xerial-framed snappy built by hand (chunk splits x two chunk encoders x header variants). Each output is decoded by both DefaultDecompressor variants (no pool / user byte pool) and by an independent decoder (stdlib gzip + hand-checked trailer, hand-written snappy block decoder, hand-written LZ4 frame decoder with xxh32 checksums, separately configured zstd decoder, and the zstd / lz4 / gzip CLIs over concatenated frames). Phase B (maxDecompressedSize shrunk to 1 MiB): every byte string of length <=2 (thorough <=3) raw and embedded after each codec's magic / header forms; every truncation and every single-byte substitution {00,01,7f,80,ff} (all 256 values near both ends) of valid outputs incl. xerial; crafted headers claiming huge sizes and real bombs, run sequentially with TotalAlloc measured. distinct_nontrivial counts distinct compressed outputs that round-tripped, distinct preference-list x flag combinations, distinct xerial frames, mutated bases, crafts, and distinct (codec, decompressor, family, outcome) classes of hostile inputs.")
	r.Assume(
		"stdlib compress/gzip, hash/crc32 and the zstd/lz4/gzip command-line tools are correct decoders",
		"the zstd cross-check inside the process uses klauspost's decoder with library-default options (a different configuration, not a different implementation); the zstd CLI is the independent implementation",
		"maxDecompressedSize has no public option; the harness sets the package variable in-package exactly as the repository's own bomb test does, before the decompressors are created",
		"TotalAlloc deltas are measured with all workers idle",
	)
	h.cli = c19FindCLI()
	// probe each CLI with a known frame; a tool that cannot decode it is treated as absent
	probe := map[string][]byte{
		"gzip": c19Gzip([]byte("probe")),
		"lz4":  c19LZ4FrameOf(0x60, 0x40, nil, [][]byte{[]byte("probe")}, []bool{true}),
		"zstd": append([]byte{0x28, 0xb5, 0x2f, 0xfd, 0x20, 5, 0x29, 0, 0}, "probe"...),
	}
	for tool, p := range h.cli {
		if p == "" {
			continue
		}
		if o, err := c19RunCLI(p, probe[tool]); err != nil || string(o) != "probe" {
			fmt.Printf("C19: %s CLI at %s unusable (%v); skipping it\n", tool, p, err)
			h.cli[tool] = ""
		}
	}
	r.Set("skipped_independent_zstd", h.cli["zstd"] == "")
	r.Set("skipped_cli_lz4", h.cli["lz4"] == "")
	r.Set("skipped_cli_gzip", h.cli["gzip"] == "")
	r.Set("cli_paths", h.cli)

	// ---------------- phase H: operation histories (needs an untouched byteBuffers pool)
	h.phaseHistory(thorough)

	// ---------------- phase A: production maximum
	r.Set("phaseA_max_decompressed_size", maxDecompressedSize)
	h.mkDecs()
	var lits [][]byte
	lits = append(lits, []byte{})
	for a := 0; a < 256; a++ {
		lits = append(lits, []byte{byte(a)})
	}
	for a := 0; a < 65536; a++ {
		lits = append(lits, []byte{byte(a >> 8), byte(a)})
	}
	fam := c19Family(1 << 20)
	all := c19AllCfgs()
	bigCfgs := all
	if !thorough {
		// 1 MiB payloads: constructor default, lowest and highest valid level and one
		// out-of-range level per codec in quick; every config in thorough.
		bigCfgs = nil
		keep := map[c19Cfg]bool{}
		for _, c := range all {
			switch {
			case c.NoLevel:
				keep[c] = true
			case c.Codec == 1 && (c.Level == -2 || c.Level == 1 || c.Level == 9 || c.Level == 127):
				keep[c] = true
			case c.Codec == 3 && (c.Level == 1<<9 || c.Level == 1<<17 || c.Level == 513):
				keep[c] = true
			case c.Codec == 4 && (c.Level == 1 || c.Level == 4 || c.Level == 127):
				keep[c] = true
			}
		}
		for _, c := range all {
			if keep[c] {
				bigCfgs = append(bigCfgs, c)
			}
		}
		r.Set("quick_restriction", "1 MiB payloads and 2-byte strings run with constructor-default, lowest, highest and one out-of-range level per codec (strings of length <=1 and all other payloads run with every level); thorough runs every level everywhere")
	}
	h.phaseRoundTrip(lits[:257], fam, all, all, bigCfgs, 1<<20)
	h.phaseRoundTrip(lits[257:], nil, bigCfgs, nil, nil, 1<<20)
	r.Set("configs_all", len(all))
	r.Set("configs_on_1MiB", len(bigCfgs))
	r.Set("family_payloads", len(fam))
	r.Set("short_strings", len(lits))

	var prefP []c19PD
	for _, f := range fam {
		if (f.P.Kind == "run" && f.P.A == 0x61 || f.P.Kind == "lcg" && f.P.Seed == 1) && (f.P.N == 0 || f.P.N == 1 || f.P.N == 17 || f.P.N == 257 || f.P.N == 65536) {
			prefP = append(prefP, f)
		}
	}
	h.phasePrefs(prefP)

	var xerP []c19PD
	for _, b := range lits[:257] {
		xerP = append(xerP, c19PD{c19Lit(b), b})
	}
	for _, f := range fam {
		if f.P.N <= 65537 || thorough {
			xerP = append(xerP, f)
		}
	}
	sort.SliceStable(xerP, func(i, j int) bool { return len(xerP[i].D) > len(xerP[j].D) })
	h.phaseXerial(xerP)

	// ---------------- phase B: small maximum
	maxDecompressedSize = c19SmallMax
	r.Set("phaseB_max_decompressed_size", maxDecompressedSize)
	h.mkDecs() // the zstd decoder reads the bound when it is created
	h.phaseEnum(thorough)

	var bases []c19Base
	baseCfgs := []c19Cfg{}
	for _, c := range all {
		if c.NoLevel || (thorough && c.Valid) || (c.Codec == 1 && (c.Level == -2 || c.Level == 9)) || (c.Codec == 3 && c.Level == 1<<17) || (c.Codec == 4 && (c.Level == 1 || c.Level == 4)) {
			baseCfgs = append(baseCfgs, c)
		}
	}
	addBase := func(a c19Art) {
		d, codec, err := c19BuildBase(a)
		if err != nil {
			ev.InfraError("base: %v", err)
		}
		bases = append(bases, c19Base{a, codec, d})
	}
	for _, f := range fam {
		p := f.P
		switch {
		case p.N <= 257:
			for _, c := range baseCfgs {
				addBase(c19Art{Kind: "roundtrip", Payload: &p, Cfgs: []c19Cfg{c}, Codec: c.Codec})
			}
			for _, s := range []string{"whole", "c3", "empties"} {
				for _, e := range []string{"lit", "s2"} {
					addBase(c19Art{Kind: "xerial", Payload: &p, Xerial: &c19Xer{s, e, "0000000100000001"}, Codec: 2})
				}
			}
		case thorough && p.N <= 65537 && (p.N == 65536 || p.Kind == "lcg" && p.Seed == 1 || p.Kind == "run" && p.A == 0x61):
			for _, c := range all[:4] { // constructor defaults
				addBase(c19Art{Kind: "roundtrip", Payload: &p, Cfgs: []c19Cfg{c}, Codec: c.Codec})
			}
			addBase(c19Art{Kind: "xerial", Payload: &p, Xerial: &c19Xer{"c32k", "s2", "0000000100000001"}, Codec: 2})
		}
	}
	edge := 0
	if thorough {
		edge = 24
	}
	r.Set("mutation_bases", len(bases))
	h.phaseMutate(bases, edge)

	crafts := c19AllCrafts(c19SmallMax, thorough)
	if err := c19CraftSelfcheck(crafts); err != nil {
		ev.InfraError("craft self-check: %v", err)
	}
	for i := range h.cur {
		h.cur[i].Store(nil)
	}
	h.phaseCrafts(crafts)

	// ---------------- evidence
	var ms runtime.MemStats
	runtime.ReadMemStats(&ms)
	r.Set("process_sys_bytes_at_end", ms.Sys)
	okc, errc := map[string]int64{}, map[string]int64{}
	for k, v := range h.outcome {
		r.Distinct("outcome:" + k)
		codec := k[:strings.IndexByte(k, '|')]
		if strings.HasSuffix(k, "|ok") {
			okc[codec] += v
		} else {
			errc[codec] += v
		}
	}
	r.Set("hostile_outcome_classes", len(h.outcome))
	{
		ks := make([]string, 0, len(h.outcome))
		for k := range h.outcome {
			ks = append(ks, k)
		}
		sort.Strings(ks)
		step := max(1, len(ks)/40)
		var ex []string
		for i := 0; i < len(ks); i += step {
			ex = append(ex, fmt.Sprintf("%s x%d", ks[i], h.outcome[ks[i]]))
		}
		r.Set("hostile_outcome_examples", ex)
	}
	r.Set("hostile_returned_data_by_codec", okc)
	r.Set("hostile_returned_error_by_codec", errc)
	keys := make([]string, 0, len(h.counts))
	for k := range h.counts {
		keys = append(keys, k)
	}
	sort.Strings(keys)
	for _, k := range keys {
		r.Set(k, h.counts[k])
	}
	for k, v := range h.info {
		r.Set("note_"+k, v)
	}
	if len(h.violKeys) > 0 {
		r.Set("violations_by_key", h.violKeys)
	}
	depth := 2
	if thorough {
		depth = 3
	}
	r.Set("bound_completed", fmt.Sprintf("all operation sequences of length 2 over the full history alphabet (thorough: and of length 3 over the reduced one) x 2 pool setups; all payloads x %d configs (1 MiB: %d configs); %d preference lists x 6 flag lists; hostile strings to length %d in %d forms; %d mutation bases fully truncated/substituted; %d crafts", len(all), len(bigCfgs), h.counts["pref_lists"], depth, len(c19Forms()), len(bases), len(crafts)))
	r.Sample(map[string]any{"roundtrip": c19Art{Kind: "roundtrip", Payload: &fam[len(fam)-1].P, Cfgs: []c19Cfg{all[len(all)-1]}}})
	r.Sample(map[string]any{"hostile_mutation": c19Art{Kind: "hostile", Codec: int(bases[0].codec), Base: &bases[0].art, Op: "subst", Pos: 3, Val: 0x80}})
	r.Sample(map[string]any{"craft": crafts[len(crafts)/2].Name, "bytes": len(crafts[len(crafts)/2].In)})
	r.Sample(map[string]any{"enum_form": c19Forms()[20].name, "prefix_hex": hex.EncodeToString(c19Forms()[20].pre)})
	pprof.StopCPUProfile()
	os.Exit(r.Write())
}

// ---------------------------------------------------------------- operation histories (who owns the bytes)
//
// A round trip is about values: a result that a later call silently
// overwrites is not a round trip. This part runs every ordered sequence of
// operations (depth 2, thorough also depth 3 over a reduced alphabet) on one
// decompressor and one set of compressors, keeps EVERY earlier result, and
// after every later operation (a) re-compares each kept result with the
// snapshot taken when it was returned, (b) re-compares each input with its
// pristine copy, (c) requires that no two results share memory and (d) that
// no result lies inside a buffer of the client's internal byteBuffers pool
// (every buffer that pool ever hands out is registered through its New hook,
// so (d) does not depend on which P the goroutine happens to run on).
// Documented aliasing is exempt: CodecNone returns its input; Compress may
// return (part of) the dst buffer the CALLER passed.
// Runs alone on one goroutine: the registry is read between operations.

type c19Op struct {
	Kind    string     `json:"op"`            // decompress | compress
	Form    string     `json:"form"`          // decompress: none gzip snappy xerial-v1 xerial-alt lz4 zstd; compress: gzip snappy lz4 zstd zstd-disabled
	Dst     string     `json:"dst,omitempty"` // compress: own (fresh caller-owned buffer, result kept as returned) | pooled (byteBuffers Get/Put exactly as sink.go; result copied out before Put)
	Payload c19Payload `json:"payload"`

	in    []byte // decompress: compressed input; compress: the payload
	want  []byte // decompress: the payload
	codec CompressionCodecType
	comp  int
	flags []CompressFlag
	deep  bool // member of the reduced depth-3 alphabet
}

type c19Hist struct {
	h        *c19H
	comps    []Compressor // gzip, snappy, lz4, zstd, [zstd lz4]
	registry []*bytes.Buffer
	origNew  func() any
	seqs     int64
	ops      int64
}

var c19HistCompForms = []string{"gzip", "snappy", "lz4", "zstd", "zstd-disabled"}

func c19NewHist(h *c19H) *c19Hist {
	hs := &c19Hist{h: h}
	for _, cfgs := range [][]c19Cfg{{{Codec: 1, NoLevel: true}}, {{Codec: 2, NoLevel: true}}, {{Codec: 3, NoLevel: true}}, {{Codec: 4, NoLevel: true}}, {{Codec: 4, NoLevel: true}, {Codec: 3, NoLevel: true}}} {
		c, err, pan := c19NewCompressor(cfgs)
		if err != nil || pan != nil || c == nil {
			ev.InfraError("history: compressor %v: %v %v", cfgs, err, pan)
		}
		hs.comps = append(hs.comps, c)
	}
	return hs
}

// hook registers every buffer the client's byteBuffers pool creates from now on.
func (hs *c19Hist) hook() {
	hs.origNew = byteBuffers.New
	byteBuffers.New = func() any {
		b := hs.origNew().(*bytes.Buffer)
		hs.registry = append(hs.registry, b)
		return b
	}
}

func (hs *c19Hist) unhook() { byteBuffers.New = hs.origNew }

// mkOp prepares one alphabet letter. Decompress inputs are made by the
// harness's own encoders / stdlib / a separate compressor instance, cloned.
func (hs *c19Hist) mkOp(kind, form, dst string, p c19Payload) (*c19Op, error) {
	d := p.bytes()
	op := &c19Op{Kind: kind, Form: form, Dst: dst, Payload: p}
	if kind == "compress" {
		op.in = d
		for i, f := range c19HistCompForms {
			if f == form {
				op.comp = i
				op.codec = CompressionCodecType(i + 1)
				if f == "zstd-disabled" {
					op.codec = CodecLz4
					op.flags = []CompressFlag{CompressDisableZstd}
				}
				return op, nil
			}
		}
		return nil, fmt.Errorf("unknown compress form %q", form)
	}
	op.want = d
	viaKgo := func(codec int) ([]byte, error) {
		c, err, pan := c19NewCompressor([]c19Cfg{{Codec: codec, NoLevel: true}})
		if err != nil || pan != nil || c == nil {
			return nil, fmt.Errorf("prep compressor: %v %v", err, pan)
		}
		out, used, pan := c19Compress(c, new(bytes.Buffer), d, nil)
		if pan != nil || int(used) != codec {
			return nil, fmt.Errorf("prep compress: %v %v", used, pan)
		}
		return bytes.Clone(out), nil
	}
	var err error
	switch form {
	case "none":
		op.codec, op.in = CodecNone, d
	case "gzip":
		op.codec, op.in = CodecGzip, bytes.Clone(c19Gzip(d))
	case "snappy":
		op.codec, op.in = CodecSnappy, s2.EncodeSnappy(nil, d)
	case "xerial-v1":
		op.codec, op.in = CodecSnappy, c19XerFrame(d, c19Xer{"whole", "s2", "0000000100000001"})
	case "xerial-alt": // other version/compat words, two chunks
		op.codec, op.in = CodecSnappy, c19XerFrame(d, c19Xer{"tail1", "lit", "0000000200000002"})
	case "lz4":
		op.codec = CodecLz4
		op.in, err = viaKgo(3)
	case "zstd":
		op.codec = CodecZstd
		op.in, err = viaKgo(4)
	default:
		err = fmt.Errorf("unknown decompress form %q", form)
	}
	return op, err
}

func c19HistPayloads() (all, deepDec, deepComp []c19Payload) {
	for _, n := range []int{3, 1000, 7679, 8191, 8193} { // tiny, ~1 KiB, cap-512 (no ReadFrom growth), just under / just over the 8 KiB pooled capacity
		all = append(all, c19Payload{Kind: "p3", A: 0x61, B: 0x62, C: 0x63, N: n}, c19Payload{Kind: "lcg", Seed: 7, N: n})
	}
	deepDec = []c19Payload{all[1], all[2], all[7], all[8]} // 3 lcg, 1000 p3, 8191 lcg, 8193 p3
	deepComp = []c19Payload{all[2], all[7]}                // 1000 p3, 8191 lcg
	return
}

func (hs *c19Hist) alphabet() []*c19Op {
	all, deepDec, deepComp := c19HistPayloads()
	in := func(ps []c19Payload, p c19Payload) bool {
		for _, q := range ps {
			if q == p {
				return true
			}
		}
		return false
	}
	var ops []*c19Op
	for _, form := range []string{"none", "gzip", "snappy", "xerial-v1", "xerial-alt", "lz4", "zstd"} {
		for _, p := range all {
			op, err := hs.mkOp("decompress", form, "", p)
			if err != nil {
				ev.InfraError("history: %v", err)
			}
			op.deep = in(deepDec, p)
			ops = append(ops, op)
		}
	}
	for _, form := range c19HistCompForms {
		for _, dst := range []string{"own", "pooled"} {
			for _, p := range all {
				op, _ := hs.mkOp("compress", form, dst, p)
				op.deep = in(deepComp, p)
				ops = append(ops, op)
			}
		}
	}
	return ops
}

func c19Overlap(a, b []byte) bool {
	if len(a) == 0 || len(b) == 0 {
		return false
	}
	pa, pb := uintptr(unsafe.Pointer(unsafe.SliceData(a))), uintptr(unsafe.Pointer(unsafe.SliceData(b)))
	return pa < pb+uintptr(len(b)) && pb < pa+uintptr(len(a))
}

type c19Kept struct {
	res, snap []byte
	in        []byte
	aliasIn   bool // documented: result is the input (codec none)
	copied    bool // harness copied the result out before giving the dst back (pooled-dst compress)
}

// run executes one sequence and returns false at the first violation.
func (hs *c19Hist) run(setup string, d Decompressor, seq []*c19Op) bool {
	h := hs.h
	hs.seqs++
	art := func(step, victim int) c19Art {
		a := c19Art{Kind: "history", Setup: setup, Step: step, Victim: victim}
		for _, o := range seq {
			a.History = append(a.History, *o)
		}
		return a
	}
	kept := make([]c19Kept, 0, len(seq))
	// Memory-ownership findings (c, d) are held back to the end of the sequence
	// so that the behavioural finding (a: a kept value really changes under a
	// later operation) is observed and reported too when it happens.
	var ptr func()
	flush := func() bool {
		if ptr != nil {
			ptr()
			return false
		}
		return true
	}
	for step, op := range seq {
		hs.ops++
		in := bytes.Clone(op.in) // every operation instance owns its input
		var k c19Kept
		k.in = in
		switch op.Kind {
		case "decompress":
			got, err, pan := c19Decompress(d, in, op.codec)
			if pan != nil || err != nil || !bytes.Equal(got, op.want) {
				h.viol("history-roundtrip:"+op.Form, fmt.Sprintf("operation %d of the sequence: Decompress(%s) gave len=%d err=%v panic=%v, want the %d-byte payload", step, op.Form, len(got), err, pan, len(op.want)), art(step, step))
				return false
			}
			k.res, k.aliasIn = got, op.codec == CodecNone
		case "compress":
			var buf *bytes.Buffer
			if op.Dst == "pooled" {
				buf = byteBuffers.Get().(*bytes.Buffer)
				buf.Reset()
			} else {
				buf = new(bytes.Buffer)
			}
			out, used, pan := c19Compress(hs.comps[op.comp], buf, in, op.flags)
			if pan != nil || used != op.codec || out == nil {
				h.viol("history-compress:"+op.Form, fmt.Sprintf("operation %d: Compress gave codec=%d panic=%v", step, used, pan), art(step, step))
				return false
			}
			if err := c19Indep(used, out, op.in); err != nil {
				h.viol("history-compress:"+op.Form, fmt.Sprintf("operation %d: Compress output does not decode to the payload: %v", step, err), art(step, step))
				return false
			}
			k.res = out
			if op.Dst == "pooled" {
				k.res, k.copied = bytes.Clone(out), true
				byteBuffers.Put(buf)
			}
		}
		k.snap = bytes.Clone(k.res)
		kept = append(kept, k)
		// the oracle, after every operation, over everything kept so far
		for i := range kept {
			ki := &kept[i]
			if !bytes.Equal(ki.res, ki.snap) {
				h.viol("history-result-overwritten:"+seq[i].Kind+":"+seq[i].Form, fmt.Sprintf("[%s] the result of operation %d (%s %s, %d bytes) changed after operation %d (%s %s): an earlier result was overwritten by a later call", setup, i, seq[i].Kind, seq[i].Form, len(ki.snap), step, op.Kind, op.Form), art(step, i))
				flush()
				return false
			}
			if !bytes.Equal(ki.in, seq[i].in) {
				h.viol("history-input-mutated:"+seq[i].Kind+":"+seq[i].Form, fmt.Sprintf("[%s] the input of operation %d (%s %s) was modified by operation %d or earlier", setup, i, seq[i].Kind, seq[i].Form, step), art(step, i))
				return false
			}
			if ki.copied {
				continue
			}
			if i == len(kept)-1 {
				for j := 0; j < i; j++ {
					if !kept[j].copied && ptr == nil && c19Overlap(ki.res, kept[j].res) {
						j, i, step := j, i, step
						ptr = func() {
							h.viol("history-results-share-memory:"+seq[i].Kind+":"+seq[i].Form, fmt.Sprintf("[%s] the results of operations %d (%s %s) and %d (%s %s) overlap in memory", setup, j, seq[j].Kind, seq[j].Form, i, seq[i].Kind, seq[i].Form), art(step, j))
						}
					}
				}
			}
			if ki.aliasIn {
				continue
			}
			for _, b := range hs.registry {
				bb := b.Bytes()
				if ptr == nil && c19Overlap(ki.res, bb[:cap(bb)]) {
					i, step, n := i, step, len(ki.res)
					ptr = func() {
						h.viol("history-result-in-internal-pool:"+seq[i].Kind+":"+seq[i].Form, fmt.Sprintf("[%s] the result of operation %d (%s %s, %d bytes) lies inside a buffer of the client's internal byteBuffers pool (seen after operation %d): the next user of the pool overwrites it", setup, i, seq[i].Kind, seq[i].Form, n, step), art(step, i))
					}
				}
			}
		}
	}
	return flush()
}

// phaseHistory must run before anything else has populated byteBuffers.
func (h *c19H) phaseHistory(thorough bool) {
	t0, c0 := time.Now(), c19CPU()
	hs := c19NewHist(h)
	ops := hs.alphabet()
	hs.hook()
	defer hs.unhook()
	var deep []*c19Op
	for _, o := range ops {
		if o.deep {
			deep = append(deep, o)
		}
	}
	bad := map[string]int{}
	for _, setup := range []string{"default", "userpool"} {
		var d Decompressor
		if setup == "default" {
			d = DefaultDecompressor()
		} else {
			d = DefaultDecompressor(c19Pool{}) // hands out a fresh slice per call: results own distinct memory here too
		}
		h.cur[0].Store(&c19Running{time.Now(), "history " + setup})
		seq := make([]*c19Op, 2)
		for i, a := range ops {
			for j, b := range ops {
				seq[0], seq[1] = a, b
				if !hs.run(setup, d, seq) {
					bad[setup]++
				}
				h.r.Distinct(fmt.Sprint("hist2", setup, i, j))
			}
		}
		if thorough {
			seq = make([]*c19Op, 3)
			for i, a := range deep {
				for j, b := range deep {
					for k, c := range deep {
						seq[0], seq[1], seq[2] = a, b, c
						if !hs.run(setup, d, seq) {
							bad[setup]++
						}
						h.r.Distinct(fmt.Sprint("hist3", setup, i, j, k))
					}
				}
			}
		}
		h.cur[0].Store(nil)
	}
	h.r.Evals(hs.ops)
	h.r.Set("history_alphabet", len(ops))
	h.r.Set("history_alphabet_depth3", map[bool]int{true: len(deep), false: 0}[thorough])
	h.r.Set("history_sequences", hs.seqs)
	h.r.Set("history_operations", hs.ops)
	h.r.Set("history_pool_buffers_registered", len(hs.registry))
	h.r.Set("history_sequences_violating", bad)
	h.mu.Lock()
	h.counts["phase_ms:history"] = time.Since(t0).Milliseconds()
	h.counts["phase_cpu_ms:history"] = (c19CPU() - c0).Milliseconds()
	h.mu.Unlock()
}

// ---------------------------------------------------------------- debugging aid (not part of the check)

func c19CPU() time.Duration {
	var ru syscall.Rusage
	syscall.Getrusage(syscall.RUSAGE_SELF, &ru)
	return time.Duration(ru.Utime.Nano() + ru.Stime.Nano())
}

// TestVerifC19Bench prints CPU cost per round trip for a few configs (VERIF_C19_BENCH=1).
func TestVerifC19Bench(t *testing.T) {
	if os.Getenv("VERIF_C19_BENCH") == "" {
		t.Skip()
	}
	if g := os.Getenv("VERIF_C19_GOGC"); g != "" {
		var n int
		fmt.Sscan(g, &n)
		debug.SetGCPercent(n)
	}
	h := &c19H{r: ev.New("C19bench", "exploration"), workers: 1, counts: map[string]int64{}, outcome: map[string]int64{}, info: map[string][]any{}, cli: map[string]string{}}
	h.cur = make([]atomic.Pointer[c19Running], 2)
	h.mkDecs()
	for _, c := range c19AllCfgs() {
		if !(c.NoLevel || c.Level == 9 || c.Level == 1<<17 || c.Level == 4) {
			continue
		}
		comp, _, _ := c19NewCompressor([]c19Cfg{c})
		w := &c19W{h: h, counts: map[string]int64{}, outcome: map[string]int64{}, batches: map[string]*c19Batch{}}
		c0, t0 := c19CPU(), time.Now()
		const n = 20000
		for i := 0; i < n; i++ {
			b := []byte{byte(i >> 8), byte(i)}
			w.rt(comp, []c19Cfg{c}, nil, c19Lit(b), b, nil)
		}
		fmt.Printf("%-16v cpu/op=%v wall/op=%v\n", c, (c19CPU()-c0)/n, time.Since(t0)/n)
	}
}
