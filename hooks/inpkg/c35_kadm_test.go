package kadm

// C35 (verification harness, injected with -overlay; not part of the repository).
//
// Bounded exhaustive enumeration of described groups, commit sets and listed
// start/end offsets for CalculateGroupLag / CalculateGroupLagWithStartOffsets.
// In-package because GroupMemberAssignment / GroupMemberMetadata carry their
// decoded value in an unexported field.

import (
	"encoding/json"
	"errors"
	"fmt"
	"os"
	"runtime/pprof"
	"strings"
	"sync"
	"testing"

	"github.com/twmb/franz-go/pkg/kmsg"
	"verif.local/ev"
)

// ---- case description (JSON-able, replayable) ----

const (
	cAbsent = iota
	cNeg    // present, At=-1, no error: broker's "nothing committed"
	cAt0
	cAt3
	cAt7
	cErr // present with error (At=3 alongside, which must not be used)
)
const (
	oAbsent = iota
	oOK     // end: 5, start: 2
	oErr
	oHigh // start only: 9 (beyond the end offset)
)

type c35Part struct {
	Assign int `json:"assign"` // -1 none, else member index
	Commit int `json:"commit"`
	End    int `json:"end"`
	Start  int `json:"start"`
}

type c35Global struct {
	Members   int  `json:"members"`    // 0 (empty group), 1, 2
	M1Kind    int  `json:"m1_kind"`    // member 1's assignment: 0 consumer, 1 connect, 2 raw bytes
	Join      bool `json:"join"`       // members carry consumer join metadata naming all topics
	EmptyMaps bool `json:"empty_maps"` // topics without entries appear as empty inner maps; empty inputs as empty non-nil maps
}

type c35Case struct {
	Shape  []int     `json:"shape"` // partitions per topic
	Global c35Global `json:"global"`
	Parts  []c35Part `json:"parts"` // topic-major
}

var (
	errC35Commit = errors.New("c35 commit error")
	errC35End    = errors.New("c35 end offset error")
	errC35Start  = errors.New("c35 start offset error")
)

const c35End, c35Start, c35StartHigh = 5, 2, 9

func c35Topic(i int) string { return fmt.Sprintf("t%d", i) }

type c35Inputs struct {
	group    DescribedGroup
	commit   OffsetResponses
	starts   ListedOffsets
	ends     ListedOffsets
	anyStart bool
}

// c35Cache memoises the four input components per worker, keyed by the
// per-partition state tuple of that component (the functions under test only
// read their inputs). nil disables it (replay).
type c35Cache struct {
	group  map[uint32]DescribedGroup
	commit map[uint32]OffsetResponses
	starts map[uint32]ListedOffsets
	ends   map[uint32]ListedOffsets
}

func newC35Cache() *c35Cache {
	return &c35Cache{map[uint32]DescribedGroup{}, map[uint32]OffsetResponses{}, map[uint32]ListedOffsets{}, map[uint32]ListedOffsets{}}
}

// c35Each calls fn(topic, partition, state) in topic-major order.
func c35Each(c *c35Case, fn func(t string, p int32, ps c35Part)) {
	k := 0
	for ti, np := range c.Shape {
		t := c35Topic(ti)
		for pi := 0; pi < np; pi++ {
			fn(t, int32(pi), c.Parts[k])
			k++
		}
	}
}

func c35BuildGroup(c *c35Case) DescribedGroup {
	g := c.Global
	group := DescribedGroup{Group: "g", ProtocolType: "consumer", State: "Stable"}
	if g.Members == 0 {
		group.State = "Empty"
	}
	var topics []string
	for ti := range c.Shape {
		topics = append(topics, c35Topic(ti))
	}
	assigns := make([]*kmsg.ConsumerMemberAssignment, g.Members)
	for mi := range assigns {
		assigns[mi] = &kmsg.ConsumerMemberAssignment{}
	}
	c35Each(c, func(t string, p int32, ps c35Part) {
		if ps.Assign < 0 || ps.Assign >= g.Members {
			return
		}
		a := assigns[ps.Assign]
		if n := len(a.Topics); n > 0 && a.Topics[n-1].Topic == t {
			a.Topics[n-1].Partitions = append(a.Topics[n-1].Partitions, p)
			return
		}
		a.Topics = append(a.Topics, kmsg.ConsumerMemberAssignmentTopic{Topic: t, Partitions: []int32{p}})
	})
	for mi := 0; mi < g.Members; mi++ {
		m := DescribedGroupMember{MemberID: fmt.Sprintf("m%d", mi), ClientID: "c", ClientHost: "h"}
		m.Assigned = GroupMemberAssignment{assigns[mi]}
		if mi == 1 {
			switch g.M1Kind {
			case 1:
				m.Assigned = GroupMemberAssignment{&kmsg.ConnectMemberAssignment{}}
			case 2:
				m.Assigned = GroupMemberAssignment{[]byte{0xde, 0xad}}
			}
		}
		if g.Join {
			m.Join = GroupMemberMetadata{&kmsg.ConsumerMemberMetadata{Topics: topics}}
		}
		group.Members = append(group.Members, m)
	}
	return group
}

func c35BuildCommit(c *c35Case) OffsetResponses {
	var out OffsetResponses
	if c.Global.EmptyMaps {
		out = OffsetResponses{}
		for ti := range c.Shape {
			out[c35Topic(ti)] = map[int32]OffsetResponse{}
		}
	}
	c35Each(c, func(t string, p int32, ps c35Part) {
		if ps.Commit == cAbsent {
			return
		}
		or := OffsetResponse{Offset: Offset{Topic: t, Partition: p, LeaderEpoch: -1}}
		switch ps.Commit {
		case cNeg:
			or.At = -1
		case cAt0:
			or.At = 0
		case cAt3:
			or.At = 3
		case cAt7:
			or.At = 7
		case cErr:
			or.At, or.Err = 3, errC35Commit
		}
		if out == nil {
			out = OffsetResponses{}
		}
		if out[t] == nil {
			out[t] = map[int32]OffsetResponse{}
		}
		out[t][p] = or
	})
	return out
}

func c35BuildListed(c *c35Case, start bool) ListedOffsets {
	var out ListedOffsets
	if c.Global.EmptyMaps {
		out = ListedOffsets{}
		for ti := range c.Shape {
			out[c35Topic(ti)] = map[int32]ListedOffset{}
		}
	}
	c35Each(c, func(t string, p int32, ps c35Part) {
		st := ps.End
		lo := ListedOffset{Topic: t, Partition: p, Timestamp: -1, Offset: c35End, LeaderEpoch: -1}
		errv := errC35End
		if start {
			st, lo.Offset, errv = ps.Start, c35Start, errC35Start
		}
		switch st {
		case oAbsent:
			return
		case oErr:
			lo.Offset, lo.Err = -1, errv
		case oHigh:
			lo.Offset = c35StartHigh
		}
		if out == nil {
			out = ListedOffsets{}
		}
		if out[t] == nil {
			out[t] = map[int32]ListedOffset{}
		}
		out[t][p] = lo
	})
	return out
}

func c35Build(c *c35Case, cache *c35Cache) c35Inputs {
	var in c35Inputs
	var ka, kc, ks, ke uint32
	for _, ps := range c.Parts {
		ka = ka*4 + uint32(ps.Assign+1)
		kc = kc*8 + uint32(ps.Commit)
		ks = ks*4 + uint32(ps.Start)
		ke = ke*4 + uint32(ps.End)
		if ps.Start != oAbsent {
			in.anyStart = true
		}
	}
	if cache == nil {
		in.group, in.commit, in.starts, in.ends = c35BuildGroup(c), c35BuildCommit(c), c35BuildListed(c, true), c35BuildListed(c, false)
		return in
	}
	var ok bool
	if in.group, ok = cache.group[ka]; !ok {
		in.group = c35BuildGroup(c)
		cache.group[ka] = in.group
	}
	if in.commit, ok = cache.commit[kc]; !ok {
		in.commit = c35BuildCommit(c)
		cache.commit[kc] = in.commit
	}
	if in.starts, ok = cache.starts[ks]; !ok {
		in.starts = c35BuildListed(c, true)
		cache.starts[ks] = in.starts
	}
	if in.ends, ok = cache.ends[ke]; !ok {
		in.ends = c35BuildListed(c, false)
		cache.ends[ke] = in.ends
	}
	return in
}

type c35Fail struct{ key, what string }

// c35Want: the statement's formula for a partition that is assigned or committed.
func c35Want(ps c35Part) (lag int64, wantErr bool) {
	if ps.End != oOK || ps.Commit == cErr {
		return -1, true
	}
	var at int64 = -1
	switch ps.Commit {
	case cAt0:
		at = 0
	case cAt3:
		at = 3
	case cAt7:
		at = 7
	}
	lag = c35End
	if at >= 0 {
		lag = c35End - at
	} else if ps.Start == oOK {
		lag = c35End - c35Start
	} else if ps.Start == oHigh {
		lag = c35End - c35StartHigh
	}
	if lag < 0 {
		lag = 0
	}
	return lag, false
}

type c35Obs struct {
	listedOnly         int // reported partitions that are neither assigned nor committed
	listedOnlyMismatch int // ... whose lag/err differ from the same formula (outside the statement)
	mismatchWhat       string
}

// c35Check runs the real code on one case; sig is an outcome signature.
func c35Check(c *c35Case, cache *c35Cache) (fail *c35Fail, sig string, obs c35Obs) {
	defer func() {
		if p := recover(); p != nil {
			fail = &c35Fail{"panic", fmt.Sprintf("panicked: %v", p)}
		}
	}()
	in := c35Build(c, cache)
	type fnT struct {
		name string
		fn   func() GroupLag
	}
	fns := []fnT{{"CalculateGroupLagWithStartOffsets", func() GroupLag {
		return CalculateGroupLagWithStartOffsets(in.group, in.commit, in.starts, in.ends)
	}}}
	if !in.anyStart {
		fns = append(fns,
			fnT{"CalculateGroupLag", func() GroupLag { return CalculateGroupLag(in.group, in.commit, in.ends) }},
			fnT{"CalculateGroupLagWithStartOffsets(nil starts)", func() GroupLag {
				return CalculateGroupLagWithStartOffsets(in.group, in.commit, nil, in.ends)
			}})
	}
	for _, f := range fns {
		l := f.fn()
		sorted := l.Sorted()
		var count [2][2]int
		for _, e := range sorted {
			if len(e.Topic) == 2 && e.Topic[0] == 't' && e.Topic[1]-'0' < 2 && e.Partition >= 0 && e.Partition < 2 {
				count[e.Topic[1]-'0'][e.Partition]++
			}
		}
		var sb strings.Builder
		k := 0
		for ti, np := range c.Shape {
			t := c35Topic(ti)
			for pi := 0; pi < np; pi++ {
				ps := c.Parts[k]
				k++
				assigned := ps.Assign >= 0 && ps.Assign < c.Global.Members && !(ps.Assign == 1 && c.Global.M1Kind != 0)
				committed := ps.Commit != cAbsent
				e, ok := l.Lookup(t, int32(pi))
				n := count[ti][pi]
				if !assigned && !committed {
					if ok {
						obs.listedOnly++
						ps2 := ps
						wl, we := c35Want(ps2)
						if (e.Err != nil) != we || e.Lag != wl {
							obs.listedOnlyMismatch++
							obs.mismatchWhat = fmt.Sprintf("%s: %s/%d is neither assigned nor committed, reported with Lag=%d Err=%v; the formula gives lag=%d err=%v", f.name, t, pi, e.Lag, e.Err, wl, we)
						}
						fmt.Fprintf(&sb, "L%d%v;", e.Lag, e.Err != nil)
					}
					continue
				}
				if !ok || n != 1 {
					return &c35Fail{"not-reported-once", fmt.Sprintf("%s: partition %s/%d (assigned=%v committed=%v) is reported %d times in Sorted(), Lookup found=%v", f.name, t, pi, assigned, committed, n, ok)}, "", obs
				}
				if e.Topic != t || e.Partition != int32(pi) {
					return &c35Fail{"wrong-entry", fmt.Sprintf("%s: entry at %s/%d names %s/%d", f.name, t, pi, e.Topic, e.Partition)}, "", obs
				}
				wantLag, wantErr := c35Want(ps)
				if wantErr {
					if e.Lag != -1 || e.Err == nil {
						return &c35Fail{"missing-error", fmt.Sprintf("%s: %s/%d end=%s commit=%s: want Lag=-1 with non-nil Err, got Lag=%d Err=%v", f.name, t, pi, c35O(ps.End), c35C(ps.Commit), e.Lag, e.Err)}, "", obs
					}
				} else {
					if e.Err != nil || e.Lag == -1 {
						return &c35Fail{"spurious-error", fmt.Sprintf("%s: %s/%d end=%s commit=%s start=%s: end offset present and commit not errored, got Lag=%d Err=%v", f.name, t, pi, c35O(ps.End), c35C(ps.Commit), c35O(ps.Start), e.Lag, e.Err)}, "", obs
					}
					if e.Lag != wantLag {
						return &c35Fail{"wrong-lag", fmt.Sprintf("%s: %s/%d end=%s commit=%s start=%s assigned=%v: Lag=%d, formula gives %d", f.name, t, pi, c35O(ps.End), c35C(ps.Commit), c35O(ps.Start), assigned, e.Lag, wantLag)}, "", obs
					}
				}
				fmt.Fprintf(&sb, "%d%v%v;", e.Lag, e.Err != nil, e.Member == nil)
			}
			sb.WriteByte('|')
		}
		// totals = sum of the non-negative lags of what is reported
		var tot int64
		byTopic := map[string]int64{}
		for t, ps := range l {
			byTopic[t] += 0
			for _, e := range ps {
				if e.Lag >= 0 {
					tot += e.Lag
					byTopic[t] += e.Lag
				}
			}
		}
		if got := l.Total(); got != tot {
			return &c35Fail{"total", fmt.Sprintf("%s: Total()=%d, sum of non-negative lags is %d", f.name, got, tot)}, "", obs
		}
		tbt := l.TotalByTopic()
		for t, want := range byTopic {
			if got, ok := tbt[t]; !ok || got.Lag != want || got.Topic != t {
				return &c35Fail{"total-by-topic", fmt.Sprintf("%s: TotalByTopic()[%s]=%+v (present=%v), sum of non-negative lags is %d", f.name, t, got, ok, want)}, "", obs
			}
		}
		if len(sorted) != func() (n int) {
			for _, ps := range l {
				n += len(ps)
			}
			return
		}() {
			return &c35Fail{"not-reported-once", fmt.Sprintf("%s: Sorted() has %d entries, which is not the number of entries in the lag map", f.name, len(sorted))}, "", obs
		}
		fmt.Fprintf(&sb, "T%d#", tot)
		sig += sb.String()
	}
	return nil, sig, obs
}

func c35C(k int) string {
	return [...]string{"absent", "at=-1", "at=0", "at=3", "at=7", "errored"}[k]
}
func c35O(k int) string { return [...]string{"absent", "present", "errored", "high"}[k] }

// ---- enumeration ----

type c35Stage struct {
	name    string
	shape   []int
	domain  []c35Part // per-partition states (Assign restricted by the global)
	globals []c35Global
}

func c35Domain(assigns, commits, ends, starts []int) []c35Part {
	var out []c35Part
	for _, a := range assigns {
		for _, c := range commits {
			for _, e := range ends {
				for _, s := range starts {
					out = append(out, c35Part{a, c, e, s})
				}
			}
		}
	}
	return out
}

func c35Assigns(members int) []int {
	switch members {
	case 0:
		return []int{-1}
	case 1:
		return []int{-1, 0}
	}
	return []int{-1, 0, 1}
}

func c35Run(r *ev.Run, st c35Stage, obsTot *c35Obs, obsMu *sync.Mutex) int64 {
	var total int64
	for _, g := range st.globals {
		var dom []c35Part
		allowed := map[int]bool{}
		for _, a := range c35Assigns(g.Members) {
			allowed[a] = true
		}
		for _, d := range st.domain {
			if allowed[d.Assign] {
				dom = append(dom, d)
			}
		}
		np := 0
		for _, n := range st.shape {
			np += n
		}
		n := int64(1)
		for i := 0; i < np; i++ {
			n *= int64(len(dom))
		}
		total += n
		var mu sync.Mutex
		next := int64(0)
		const chunk = 2048
		var wg sync.WaitGroup
		for w := 0; w < ev.Workers(); w++ {
			wg.Add(1)
			go func() {
				defer wg.Done()
				sigs := map[string]struct{}{}
				var lo c35Obs
				c := c35Case{Shape: st.shape, Global: g, Parts: make([]c35Part, np)}
				cache := newC35Cache()
				for {
					mu.Lock()
					from := next
					next += chunk
					mu.Unlock()
					if from >= n {
						break
					}
					if r.Violations() > 100 {
						r.NotExhaustive("stopped after more than 100 violations")
						break
					}
					to := from + chunk
					if to > n {
						to = n
					}
					for idx := from; idx < to; idx++ {
						x := idx
						for i := np - 1; i >= 0; i-- {
							c.Parts[i] = dom[x%int64(len(dom))]
							x /= int64(len(dom))
						}
						f, sig, o := c35Check(&c, cache)
						lo.listedOnly += o.listedOnly
						lo.listedOnlyMismatch += o.listedOnlyMismatch
						if o.mismatchWhat != "" && lo.mismatchWhat == "" {
							lo.mismatchWhat = o.mismatchWhat
							b, _ := json.Marshal(c)
							lo.mismatchWhat += " case=" + string(b)
						}
						if f != nil {
							cc := c
							cc.Parts = append([]c35Part{}, c.Parts...)
							r.Violation(f.key, f.what, map[string]any{"case": cc, "stage": st.name})
							continue
						}
						sigs[sig] = struct{}{}
					}
					r.Evals(to - from)
				}
				for s := range sigs {
					r.Distinct(s)
				}
				obsMu.Lock()
				obsTot.listedOnly += lo.listedOnly
				obsTot.listedOnlyMismatch += lo.listedOnlyMismatch
				if obsTot.mismatchWhat == "" {
					obsTot.mismatchWhat = lo.mismatchWhat
				}
				obsMu.Unlock()
			}()
		}
		wg.Wait()
	}
	return total
}

func TestVerifC35(t *testing.T) {
	if path := os.Getenv("VERIF_REPLAY"); path != "" {
		b, err := os.ReadFile(path)
		if err != nil {
			ev.InfraError("replay: %v", err)
		}
		var v struct {
			Artefact struct {
				Case c35Case `json:"case"`
			} `json:"artefact"`
		}
		if err := json.Unmarshal(b, &v); err != nil {
			ev.InfraError("replay: %v", err)
		}
		f, _, _ := c35Check(&v.Artefact.Case, nil)
		if f != nil {
			fmt.Printf("REPLAY: VIOLATION key=%s\n  %s\n", f.key, f.what)
			os.Exit(1)
		}
		fmt.Println("REPLAY: held")
		os.Exit(0)
	}

	if pp := os.Getenv("VERIF_PPROF"); pp != "" {
		pf, _ := os.Create(pp)
		pprof.StartCPUProfile(pf)
	}
	r := ev.New("C35", "exploration")
	r.Rule("1-2 topics x 1-2 partitions; each partition independently: unassigned / assigned to member 0 / member 1; commit in {absent, 0, 3, 7, errored} (thorough adds present-at -1); end offset in {absent, 5, errored}; start offset in {absent, 2, errored} (thorough adds 9 > end); groups: empty, 1 member, 2 members, member 1 with a connect or raw (undecodable) assignment; join metadata present or not; inputs missing as nil / absent keys or as empty maps; without start offsets CalculateGroupLag, WithStartOffsets(nil) and WithStartOffsets(map) are all run. 3- and 4-partition shapes use the reduced domains listed in stage_domains. distinct = distinct outcome signatures (lag, error, member-nil per reported partition, total)")
	r.Assume("the functions under test do not modify their inputs (input maps are memoised per worker and reused between cases)",
		"a partition 'committed by the group' is one present in the commit set (errored or not); present with At<0 and no error counts as nothing committed for the formula",
		"partitions that are neither assigned nor committed but appear in the listed end offsets of a reported topic are outside the statement: they are counted (listed_only_*) and compared with the same formula as an observation, never as a violation",
		"a partition assigned to a member whose assignment is not of consumer type is treated as unassigned (GroupMemberAssignment doc: only consumer assignments name partitions)")

	commitsQ := []int{cAbsent, cAt0, cAt3, cAt7, cErr}
	commitsT := []int{cAbsent, cNeg, cAt0, cAt3, cAt7, cErr}
	offs3 := []int{oAbsent, oOK, oErr}
	startsT := []int{oAbsent, oOK, oErr, oHigh}
	allA := []int{-1, 0, 1}

	var globalsAll []c35Global
	for _, mk := range [][2]int{{0, 0}, {1, 0}, {2, 0}, {2, 1}, {2, 2}} {
		for _, join := range []bool{false, true} {
			if mk[0] == 0 && join {
				continue
			}
			for _, em := range []bool{false, true} {
				globalsAll = append(globalsAll, c35Global{Members: mk[0], M1Kind: mk[1], Join: join, EmptyMaps: em})
			}
		}
	}
	g2 := c35Global{Members: 2}
	g2j := c35Global{Members: 2, Join: true}
	g2raw := c35Global{Members: 2, M1Kind: 2, Join: true, EmptyMaps: true}
	g1j := c35Global{Members: 1, Join: true}
	g0 := c35Global{Members: 0}
	g0e := c35Global{Members: 0, EmptyMaps: true}

	var stages []c35Stage
	domains := map[string]any{}
	add := func(name string, shapes [][]int, dom []c35Part, globals []c35Global) {
		domains[name] = map[string]any{"per_partition_states": len(dom), "globals": len(globals), "shapes": shapes}
		for _, sh := range shapes {
			stages = append(stages, c35Stage{fmt.Sprintf("%s/shape%v", name, sh), sh, dom, globals})
		}
	}
	if ev.Thorough() {
		add("small-full", [][]int{{1}, {2}, {1, 1}}, c35Domain(allA, commitsT, offs3, startsT), globalsAll)
		add("three-partitions", [][]int{{1, 2}, {2, 1}}, c35Domain(allA, commitsQ, offs3, offs3), []c35Global{g2, g2j, g2raw, g1j, g0, g0e})
		add("four-partitions", [][]int{{2, 2}}, c35Domain(allA, []int{cAbsent, cAt7, cErr}, offs3, []int{oAbsent, oOK}), []c35Global{g2, g1j})
	} else {
		add("small-full", [][]int{{1}, {2}, {1, 1}}, c35Domain(allA, commitsQ, offs3, offs3), globalsAll)
		add("small-extended", [][]int{{1}, {2}}, c35Domain(allA, commitsT, offs3, startsT), []c35Global{g2j, g0})
		add("three-partitions", [][]int{{1, 2}, {2, 1}}, c35Domain(allA, []int{cAbsent, cAt3, cAt7, cErr}, offs3, []int{oAbsent, oOK}), []c35Global{g2, g1j, g0e})
		add("four-partitions", [][]int{{2, 2}}, c35Domain([]int{-1, 0}, []int{cAbsent, cAt7, cErr}, offs3, []int{oOK}), []c35Global{g1j})
		add("four-partitions/no-starts", [][]int{{2, 2}}, c35Domain([]int{-1, 0}, []int{cAbsent, cAt3, cErr}, offs3, []int{oAbsent}), []c35Global{g2raw})
	}
	r.Set("stage_domains", domains)

	var obs c35Obs
	var obsMu sync.Mutex
	done := map[string]int64{}
	for _, st := range stages {
		done[st.name] = c35Run(r, st, &obs, &obsMu)
	}
	r.Set("bound_completed", done)
	r.Set("listed_only_partitions_reported", obs.listedOnly)
	r.Set("listed_only_formula_mismatches", obs.listedOnlyMismatch)
	if obs.mismatchWhat != "" {
		r.Set("listed_only_mismatch_example", obs.mismatchWhat)
		fmt.Printf("OBSERVATION (outside the C35 statement, not a violation): %d reported listed-only partitions deviate from the lag formula, e.g. %s\n", obs.listedOnlyMismatch, obs.mismatchWhat)
	}
	sample := c35Case{Shape: []int{1, 2}, Global: g2j, Parts: []c35Part{{0, cAt7, oOK, oOK}, {1, cAbsent, oOK, oOK}, {-1, cErr, oOK, oAbsent}}}
	if f, sig, _ := c35Check(&sample, nil); f == nil {
		r.Sample(map[string]any{"case": sample, "outcome_signature": sig})
	}
	pprof.StopCPUProfile()
	os.Exit(r.Write())
}
