package kfake

// C33: kfake persistence survives crashes at any write.
//
// Bounded exhaustive crash-point enumeration. A recording file system logs
// every mutating operation the real cluster performs while a small workload is
// driven through the Kafka protocol. Every prefix of that log, combined with
// every loss pattern of the data that was written after the last fsync of each
// file, is materialised into a fresh in-memory file system; a NEW cluster is
// started on it and its state is read back through the protocol and compared
// with a harness-side reference model of what was acknowledged.

import (
	"bytes"
	"context"
	"encoding/base64"
	"encoding/binary"
	"encoding/json"
	"errors"
	"fmt"
	"hash/crc32"
	"hash/fnv"
	"io"
	"os"
	"os/exec"
	"path/filepath"
	"sort"
	"strings"
	"sync"
	"testing"
	"time"

	"github.com/twmb/franz-go/pkg/kerr"
	"github.com/twmb/franz-go/pkg/kgo"
	"github.com/twmb/franz-go/pkg/kmsg"
	"github.com/twmb/franz-go/pkg/kversion"

	"verif.local/ev"
)

/////////////////////////////////////////////////////////////////////////////
// Recording / plain in-memory file system (implements kfake's fs interface)
/////////////////////////////////////////////////////////////////////////////

type c33Kind uint8

const (
	c33Create c33Kind = iota
	c33Write
	c33Sync
	c33Trunc // Truncate(size) or O_TRUNC on an existing file (size 0)
	c33Rename
	c33Remove
	c33RemoveAll
	c33Mkdir
	c33Close
)

var c33KindNames = [...]string{"create", "write", "sync", "truncate", "rename", "remove", "removeall", "mkdir", "close"}

type c33Op struct {
	K     c33Kind
	Path  string
	Path2 string
	Ino   int
	Off   int64
	Data  []byte
	Size  int64
}

func (o c33Op) String() string {
	switch o.K {
	case c33Write:
		return fmt.Sprintf("write %s ino=%d off=%d len=%d", o.Path, o.Ino, o.Off, len(o.Data))
	case c33Trunc:
		return fmt.Sprintf("truncate %s ino=%d size=%d", o.Path, o.Ino, o.Size)
	case c33Rename:
		return fmt.Sprintf("rename %s -> %s", o.Path, o.Path2)
	case c33Create, c33Sync, c33Close:
		return fmt.Sprintf("%s %s ino=%d", c33KindNames[o.K], o.Path, o.Ino)
	}
	return fmt.Sprintf("%s %s", c33KindNames[o.K], o.Path)
}

type c33Inode struct {
	id   int
	data []byte
}

type c33FS struct {
	mu      sync.Mutex
	files   map[string]*c33Inode
	dirs    map[string]bool
	nextIno int
	rec     bool
	log     []c33Op
}

func c33NewFS(rec bool) *c33FS {
	return &c33FS{files: map[string]*c33Inode{}, dirs: map[string]bool{"/": true}, rec: rec}
}

func (m *c33FS) logLen() int { m.mu.Lock(); defer m.mu.Unlock(); return len(m.log) }

func (m *c33FS) add(o c33Op) {
	if m.rec {
		m.log = append(m.log, o)
	}
}

func (m *c33FS) OpenFile(name string, flag int, _ os.FileMode) (file, error) {
	m.mu.Lock()
	defer m.mu.Unlock()
	d, exists := m.files[name]
	if !exists {
		if flag&os.O_CREATE == 0 {
			return nil, &os.PathError{Op: "open", Path: name, Err: os.ErrNotExist}
		}
		m.nextIno++
		d = &c33Inode{id: m.nextIno}
		m.files[name] = d
		m.add(c33Op{K: c33Create, Path: name, Ino: d.id})
	} else if flag&os.O_TRUNC != 0 {
		d.data = d.data[:0]
		m.add(c33Op{K: c33Trunc, Path: name, Ino: d.id, Size: 0})
	}
	f := &c33File{fs: m, ino: d, path: name, flag: flag}
	if flag&os.O_APPEND != 0 {
		f.pos = int64(len(d.data))
	}
	return f, nil
}

func (m *c33FS) Rename(oldpath, newpath string) error {
	m.mu.Lock()
	defer m.mu.Unlock()
	d, ok := m.files[oldpath]
	if !ok {
		return &os.PathError{Op: "rename", Path: oldpath, Err: os.ErrNotExist}
	}
	m.files[newpath] = d
	delete(m.files, oldpath)
	m.add(c33Op{K: c33Rename, Path: oldpath, Path2: newpath, Ino: d.id})
	return nil
}

func (m *c33FS) Remove(name string) error {
	m.mu.Lock()
	defer m.mu.Unlock()
	if _, ok := m.files[name]; ok {
		delete(m.files, name)
		m.add(c33Op{K: c33Remove, Path: name})
		return nil
	}
	if m.dirs[name] {
		delete(m.dirs, name)
		m.add(c33Op{K: c33Remove, Path: name})
		return nil
	}
	return &os.PathError{Op: "remove", Path: name, Err: os.ErrNotExist}
}

func (m *c33FS) RemoveAll(path string) error {
	m.mu.Lock()
	defer m.mu.Unlock()
	c33RemoveAllIn(m.files, m.dirs, path)
	m.add(c33Op{K: c33RemoveAll, Path: path})
	return nil
}

func c33RemoveAllIn[V any](files map[string]V, dirs map[string]bool, path string) {
	prefix := path + "/"
	for k := range files {
		if k == path || strings.HasPrefix(k, prefix) {
			delete(files, k)
		}
	}
	for k := range dirs {
		if k == path || strings.HasPrefix(k, prefix) {
			delete(dirs, k)
		}
	}
}

func c33MkdirIn(dirs map[string]bool, path string) {
	for p := path; p != "/" && p != "." && p != ""; p = filepath.Dir(p) {
		dirs[p] = true
	}
}

func (m *c33FS) MkdirAll(path string, _ os.FileMode) error {
	m.mu.Lock()
	defer m.mu.Unlock()
	c33MkdirIn(m.dirs, path)
	m.add(c33Op{K: c33Mkdir, Path: path})
	return nil
}

func (m *c33FS) ReadDir(name string) ([]os.DirEntry, error) {
	m.mu.Lock()
	defer m.mu.Unlock()
	prefix := name
	if prefix != "/" && !strings.HasSuffix(prefix, "/") {
		prefix += "/"
	}
	seen := map[string]bool{}
	var entries []os.DirEntry
	for k, d := range m.files {
		if !strings.HasPrefix(k, prefix) {
			continue
		}
		rest := k[len(prefix):]
		if slash := strings.IndexByte(rest, '/'); slash >= 0 {
			dn := rest[:slash]
			if !seen[dn] {
				seen[dn] = true
				entries = append(entries, memDirEntry{name: dn, isDir: true})
			}
			continue
		}
		if rest != "" && !seen[rest] {
			seen[rest] = true
			entries = append(entries, memDirEntry{name: rest, size: int64(len(d.data))})
		}
	}
	for k := range m.dirs {
		if !strings.HasPrefix(k, prefix) {
			continue
		}
		rest := k[len(prefix):]
		if rest != "" && !strings.Contains(rest, "/") && !seen[rest] {
			seen[rest] = true
			entries = append(entries, memDirEntry{name: rest, isDir: true})
		}
	}
	if len(entries) == 0 && !m.dirs[name] {
		return nil, &os.PathError{Op: "readdir", Path: name, Err: os.ErrNotExist}
	}
	sort.Slice(entries, func(i, j int) bool { return entries[i].Name() < entries[j].Name() })
	return entries, nil
}

func (m *c33FS) ReadFile(name string) ([]byte, error) {
	m.mu.Lock()
	defer m.mu.Unlock()
	d, ok := m.files[name]
	if !ok {
		return nil, &os.PathError{Op: "read", Path: name, Err: os.ErrNotExist}
	}
	return bytes.Clone(d.data), nil
}

func (m *c33FS) Stat(name string) (os.FileInfo, error) {
	m.mu.Lock()
	defer m.mu.Unlock()
	if d, ok := m.files[name]; ok {
		return memFileInfo{name: name, size: int64(len(d.data))}, nil
	}
	if m.dirs[name] {
		return memFileInfo{name: name, isDir: true}, nil
	}
	return nil, &os.PathError{Op: "stat", Path: name, Err: os.ErrNotExist}
}

type c33File struct {
	fs   *c33FS
	ino  *c33Inode
	path string
	pos  int64
	flag int
}

func (f *c33File) Write(b []byte) (int, error) {
	f.fs.mu.Lock()
	defer f.fs.mu.Unlock()
	if f.flag&os.O_APPEND != 0 {
		f.pos = int64(len(f.ino.data))
	}
	f.ino.data = c33WriteAt(f.ino.data, f.pos, b)
	f.fs.add(c33Op{K: c33Write, Path: f.path, Ino: f.ino.id, Off: f.pos, Data: bytes.Clone(b)})
	f.pos += int64(len(b))
	return len(b), nil
}

func c33WriteAt(data []byte, off int64, b []byte) []byte {
	end := off + int64(len(b))
	for int64(len(data)) < end {
		data = append(data, 0)
	}
	copy(data[off:], b)
	return data
}

func c33TruncTo(data []byte, size int64) []byte {
	if size <= int64(len(data)) {
		return data[:size]
	}
	for int64(len(data)) < size {
		data = append(data, 0)
	}
	return data
}

func (f *c33File) Read(b []byte) (int, error) {
	f.fs.mu.Lock()
	defer f.fs.mu.Unlock()
	if f.pos >= int64(len(f.ino.data)) {
		return 0, io.EOF
	}
	n := copy(b, f.ino.data[f.pos:])
	f.pos += int64(n)
	return n, nil
}

func (f *c33File) Seek(offset int64, whence int) (int64, error) {
	f.fs.mu.Lock()
	defer f.fs.mu.Unlock()
	switch whence {
	case io.SeekStart:
		f.pos = offset
	case io.SeekCurrent:
		f.pos += offset
	case io.SeekEnd:
		f.pos = int64(len(f.ino.data)) + offset
	}
	return f.pos, nil
}

func (f *c33File) Truncate(size int64) error {
	f.fs.mu.Lock()
	defer f.fs.mu.Unlock()
	f.ino.data = c33TruncTo(f.ino.data, size)
	f.fs.add(c33Op{K: c33Trunc, Path: f.path, Ino: f.ino.id, Size: size})
	return nil
}

func (f *c33File) Sync() error {
	f.fs.mu.Lock()
	defer f.fs.mu.Unlock()
	f.fs.add(c33Op{K: c33Sync, Path: f.path, Ino: f.ino.id})
	return nil
}

func (f *c33File) Close() error {
	f.fs.mu.Lock()
	defer f.fs.mu.Unlock()
	f.fs.add(c33Op{K: c33Close, Path: f.path, Ino: f.ino.id})
	return nil
}

/////////////////////////////////////////////////////////////////////////////
// Crash-state materialisation
/////////////////////////////////////////////////////////////////////////////

// c33Pend is one data operation issued after the last Sync of its inode.
type c33Pend struct {
	trunc bool
	off   int64
	data  []byte
	size  int64
}

type c33MInode struct {
	durable []byte
	pending []c33Pend
}

// c33Replay is the state of the model file system after a prefix of the log:
// namespace operations applied in order, data operations split in durable
// (covered by a later Sync of the same inode) and pending.
type c33Replay struct {
	files  map[string]int
	dirs   map[string]bool
	inodes map[int]*c33MInode
}

func c33NewReplay() *c33Replay {
	return &c33Replay{files: map[string]int{}, dirs: map[string]bool{"/": true}, inodes: map[int]*c33MInode{}}
}

func (r *c33Replay) ino(id int) *c33MInode {
	n := r.inodes[id]
	if n == nil {
		n = &c33MInode{}
		r.inodes[id] = n
	}
	return n
}

// apply applies one logged operation. If skipNS is true, namespace operations
// are dropped (used for the "metadata suffix lost" variant).
func (r *c33Replay) apply(o c33Op, skipNS bool) {
	switch o.K {
	case c33Create:
		r.ino(o.Ino)
		if !skipNS {
			r.files[o.Path] = o.Ino
		}
	case c33Write:
		n := r.ino(o.Ino)
		n.pending = append(n.pending, c33Pend{off: o.Off, data: o.Data})
	case c33Trunc:
		n := r.ino(o.Ino)
		n.pending = append(n.pending, c33Pend{trunc: true, size: o.Size})
	case c33Sync:
		n := r.ino(o.Ino)
		for _, p := range n.pending {
			n.durable = c33ApplyPend(n.durable, p, -1)
		}
		n.pending = nil
	case c33Rename:
		if !skipNS {
			if id, ok := r.files[o.Path]; ok {
				r.files[o.Path2] = id
				delete(r.files, o.Path)
			}
		}
	case c33Remove:
		if !skipNS {
			if _, ok := r.files[o.Path]; ok {
				delete(r.files, o.Path)
			} else {
				delete(r.dirs, o.Path)
			}
		}
	case c33RemoveAll:
		if !skipNS {
			c33RemoveAllIn(r.files, r.dirs, o.Path)
		}
	case c33Mkdir:
		if !skipNS {
			c33MkdirIn(r.dirs, o.Path)
		}
	case c33Close:
	}
}

// c33ApplyPend applies p to data; torn >= 0 keeps only the first torn bytes
// of a write.
func c33ApplyPend(data []byte, p c33Pend, torn int) []byte {
	return c33ApplyPendZ(data, p, torn, false)
}

func c33ApplyPendZ(data []byte, p c33Pend, torn int, zero bool) []byte {
	if p.trunc {
		return c33TruncTo(data, p.size)
	}
	b := p.data
	if torn >= 0 && torn < len(b) {
		if zero {
			z := make([]byte, len(b))
			copy(z, b[:torn])
			b = z
		} else {
			b = b[:torn]
		}
	}
	// copy-on-write: never alias the durable buffer between states
	out := make([]byte, len(data), max(len(data), int(p.off)+len(b)))
	copy(out, data)
	return c33WriteAt(out, p.off, b)
}

// c33Choice is the loss pattern of one inode: the first Keep pending
// operations are durable; if Torn >= 0 the next one (a write) is cut after
// Torn bytes.
type c33Choice struct {
	Keep int
	Torn int
	Zero bool // torn write whose length made it to disk: the lost tail reads as zeros
}

// c33ZeroFill adds the zero-filled-tail torn patterns: at every tear point
// (thorough), or only at the middle tear point (c33ZeroFillMid, quick: the
// middle tear keeps length fields intact, so checksums are what must reject it).
var (
	c33ZeroFill    bool
	c33ZeroFillMid bool
)

func (c c33Choice) String() string {
	if c.Torn >= 0 && c.Zero {
		return fmt.Sprintf("keep%d+torn@%d+zero-filled-to-full-length", c.Keep, c.Torn)
	}
	if c.Torn >= 0 {
		return fmt.Sprintf("keep%d+torn@%d", c.Keep, c.Torn)
	}
	return fmt.Sprintf("keep%d", c.Keep)
}

// choices lists every loss pattern of an inode with n pending operations.
func c33Choices(p []c33Pend) []c33Choice {
	var out []c33Choice
	for k := 0; k <= len(p); k++ {
		out = append(out, c33Choice{Keep: k, Torn: -1})
	}
	for k := 0; k < len(p); k++ {
		if p[k].trunc || len(p[k].data) < 2 {
			continue
		}
		n := len(p[k].data)
		seen := map[int]bool{}
		for _, t := range []int{1, n / 2, n - 1} {
			if t >= 1 && t < n && !seen[t] {
				seen[t] = true
				out = append(out, c33Choice{Keep: k, Torn: t})
				if c33ZeroFill || (c33ZeroFillMid && t == n/2) {
					out = append(out, c33Choice{Keep: k, Torn: t, Zero: true})
				}
			}
		}
	}
	return out
}

// materialise builds the crash state: inode `dev` (if >0) uses choice ch, all
// other inodes keep everything (baseAll) or nothing.
func (r *c33Replay) materialise(dev int, ch c33Choice, baseAll bool) *c33FS {
	if dev > 0 {
		return r.materialiseMulti(map[int]c33Choice{dev: ch}, baseAll)
	}
	return r.materialiseMulti(nil, baseAll)
}

// materialiseMulti: every inode in devs uses its own choice.
func (r *c33Replay) materialiseMulti(devs map[int]c33Choice, baseAll bool) *c33FS {
	out := c33NewFS(false)
	for d := range r.dirs {
		out.dirs[d] = true
	}
	built := map[int]*c33Inode{}
	for path, id := range r.files {
		if n, ok := built[id]; ok {
			out.files[path] = n
			continue
		}
		mi := r.inodes[id]
		data := bytes.Clone(mi.durable)
		c := c33Choice{Keep: 0, Torn: -1}
		if baseAll {
			c.Keep = len(mi.pending)
		}
		if ch, ok := devs[id]; ok {
			c = ch
		}
		for k := 0; k < c.Keep && k < len(mi.pending); k++ {
			data = c33ApplyPend(data, mi.pending[k], -1)
		}
		if c.Torn >= 0 && c.Keep < len(mi.pending) {
			data = c33ApplyPendZ(data, mi.pending[c.Keep], c.Torn, c.Zero)
		}
		n := &c33Inode{id: id, data: data}
		built[id] = n
		out.files[path] = n
		if id > out.nextIno {
			out.nextIno = id
		}
	}
	return out
}

func (m *c33FS) hash() uint64 {
	h := fnv.New64a()
	paths := make([]string, 0, len(m.files))
	for p := range m.files {
		paths = append(paths, p)
	}
	sort.Strings(paths)
	var lb [8]byte
	for _, p := range paths {
		h.Write([]byte(p))
		binary.LittleEndian.PutUint64(lb[:], uint64(len(m.files[p].data)))
		h.Write(lb[:])
		h.Write(m.files[p].data)
	}
	dirs := make([]string, 0, len(m.dirs))
	for d := range m.dirs {
		dirs = append(dirs, d)
	}
	sort.Strings(dirs)
	for _, d := range dirs {
		h.Write([]byte{0xff})
		h.Write([]byte(d))
	}
	return h.Sum64()
}

func (m *c33FS) dump() map[string]string {
	out := map[string]string{}
	for p, d := range m.files {
		out[p] = base64.StdEncoding.EncodeToString(d.data)
	}
	return out
}

func (m *c33FS) dirList() []string {
	var out []string
	for d := range m.dirs {
		out = append(out, d)
	}
	sort.Strings(out)
	return out
}

func c33FSFromDump(files map[string]string, dirs []string) *c33FS {
	out := c33NewFS(false)
	for _, d := range dirs {
		out.dirs[d] = true
	}
	for p, b := range files {
		data, _ := base64.StdEncoding.DecodeString(b)
		out.nextIno++
		out.files[p] = &c33Inode{id: out.nextIno, data: data}
	}
	return out
}

func (m *c33FS) clone() *c33FS {
	out := c33NewFS(false)
	for d := range m.dirs {
		out.dirs[d] = true
	}
	built := map[*c33Inode]*c33Inode{}
	for p, d := range m.files {
		n, ok := built[d]
		if !ok {
			n = &c33Inode{id: d.id, data: bytes.Clone(d.data)}
			built[d] = n
		}
		out.files[p] = n
	}
	out.nextIno = m.nextIno
	return out
}

var (
	_ = errors.New
	_ = json.Marshal
	_ = crc32.Checksum
	_ = exec.Command
	_ = context.Background
	_ = time.Now
	_ = kerr.ErrorForCode
	_ = kgo.NewClient
	_ = kmsg.NewPtrMetadataRequest
	_ = kversion.Stable
	_ = ev.New
	_ testing.TB
)

/////////////////////////////////////////////////////////////////////////////
// Reference model (what the harness asked for and what was acknowledged)
/////////////////////////////////////////////////////////////////////////////

// Issue = length of the fs log when the request was sent, Ack = length when
// the response arrived. An operation is "acknowledged before crash point i"
// iff Ack <= i, and "possibly started" iff Issue < i.

type c33Item struct {
	Step    string
	Control bool
	Commit  bool // control only
	PID     int64
	Epoch   int16
	Raw     []byte // data batches: bytes as produced (offset 0)
	Base    int64
	NRec    int32
	Txn     int // index in Ref.Txns, -1 if not transactional
	Issue   int
	Ack     int
}

type c33CommitRef struct {
	Step   string
	Offset int64
	Meta   string
	Issue  int
	Ack    int
}

type c33TopicRef struct {
	Name  string
	ID    [16]byte
	Parts int32
	Issue int
	Ack   int
}

type c33TxnRef struct {
	TxID     string
	PID      int64
	Epoch    int16
	Ended    bool
	Commit   bool
	EndIssue int
	EndAck   int
}

type c33DelRef struct {
	Offset int64
	Issue  int
	Ack    int
}

type c33Ref struct {
	Topics  []*c33TopicRef
	Logs    map[string][]*c33Item      // "topic/part"
	Commits map[string][]*c33CommitRef // "group|topic/part"
	Txns    []*c33TxnRef
	Dels    map[string][]*c33DelRef
	Groups  []string
	TxIDs   []string
}

func c33NewRef() *c33Ref {
	return &c33Ref{Logs: map[string][]*c33Item{}, Commits: map[string][]*c33CommitRef{}, Dels: map[string][]*c33DelRef{}}
}

func c33TPKey(t string, p int32) string { return fmt.Sprintf("%s/%d", t, p) }

func (r *c33Ref) next(tp string) int64 {
	l := r.Logs[tp]
	if len(l) == 0 {
		return 0
	}
	last := l[len(l)-1]
	return last.Base + int64(last.NRec)
}

// reqSig summarises which requirements apply at crash point i; two identical
// crash states with the same signature need only one recovery.
func (r *c33Ref) reqSig(i int) uint64 {
	h := fnv.New64a()
	b := func(v bool) {
		if v {
			h.Write([]byte{1})
		} else {
			h.Write([]byte{0})
		}
	}
	for _, t := range r.Topics {
		b(t.Ack <= i)
		b(t.Issue < i)
	}
	keys := make([]string, 0, len(r.Logs))
	for k := range r.Logs {
		keys = append(keys, k)
	}
	sort.Strings(keys)
	for _, k := range keys {
		for _, it := range r.Logs[k] {
			b(it.Ack <= i)
			b(it.Issue < i)
		}
	}
	keys = keys[:0]
	for k := range r.Commits {
		keys = append(keys, k)
	}
	sort.Strings(keys)
	for _, k := range keys {
		for _, c := range r.Commits[k] {
			b(c.Ack <= i)
			b(c.Issue < i)
		}
	}
	for _, t := range r.Txns {
		b(t.Ended && t.EndAck <= i)
		b(t.Ended && t.EndIssue < i)
	}
	keys = keys[:0]
	for k := range r.Dels {
		keys = append(keys, k)
	}
	sort.Strings(keys)
	for _, k := range keys {
		for _, d := range r.Dels[k] {
			b(d.Ack <= i)
			b(d.Issue < i)
		}
	}
	return h.Sum64()
}

/////////////////////////////////////////////////////////////////////////////
// Cluster + client plumbing (no TCP: kfake VirtualNetwork + kgo.Dialer)
/////////////////////////////////////////////////////////////////////////////

const c33DataDir = "/d"

type c33Node struct {
	c  *Cluster
	cl *kgo.Client
}

func c33Start(fsys fs, extra []Opt) (n *c33Node, err error) {
	defer func() {
		if p := recover(); p != nil {
			err = fmt.Errorf("PANIC in NewCluster: %v", p)
			n = nil
		}
	}()
	vn := new(VirtualNetwork)
	opts := []Opt{DataDir(c33DataDir), SyncWrites(), withFS(fsys), NumBrokers(1), Ports(9092), ListenFn(vn.Listen)}
	opts = append(opts, extra...)
	c, err := NewCluster(opts...)
	if err != nil {
		return nil, err
	}
	v := kversion.Stable()
	v.SetMaxKeyVersion(0, 11) // produce by topic name, explicit AddPartitionsToTxn
	v.SetMaxKeyVersion(8, 9)  // offset commit by topic name
	v.SetMaxKeyVersion(9, 9)  // offset fetch by topic name
	v.SetMaxKeyVersion(24, 3) // client form of AddPartitionsToTxn
	cl, err := kgo.NewClient(
		kgo.SeedBrokers("localhost:9092"),
		kgo.Dialer(vn.DialContext),
		kgo.MaxVersions(v),
		kgo.RequestRetries(2),
	)
	if err != nil {
		c.Close()
		return nil, err
	}
	return &c33Node{c: c, cl: cl}, nil
}

func (n *c33Node) close() {
	n.cl.Close()
	n.c.Close()
}

func c33Ctx() (context.Context, context.CancelFunc) {
	return context.WithTimeout(context.Background(), 20*time.Second)
}

func c33Str(s string) *string { return &s }

// c33BuildBatch builds a RecordBatch (offset 0) with nrec records.
func c33BuildBatch(tag string, pid int64, epoch int16, seq int32, nrec int, txnal bool) []byte {
	var recs []byte
	for i := 0; i < nrec; i++ {
		rec := kmsg.Record{
			OffsetDelta: int32(i),
			Key:         fmt.Appendf(nil, "k-%s-%d", tag, i),
			Value:       fmt.Appendf(nil, "v-%s-%d-%s", tag, i, strings.Repeat("x", 7+3*i)),
		}
		rec.Length = int32(len(rec.AppendTo(nil)) - 1)
		recs = rec.AppendTo(recs)
	}
	now := time.Now().UnixMilli()
	var attrs int16
	if txnal {
		attrs |= 0x0010
	}
	batch := kmsg.RecordBatch{
		PartitionLeaderEpoch: -1,
		Magic:                2,
		Attributes:           attrs,
		LastOffsetDelta:      int32(nrec - 1),
		FirstTimestamp:       now,
		MaxTimestamp:         now,
		ProducerID:           pid,
		ProducerEpoch:        epoch,
		FirstSequence:        seq,
		NumRecords:           int32(nrec),
		Records:              recs,
	}
	raw := batch.AppendTo(nil)
	batch.Length = int32(len(raw) - 12)
	raw = batch.AppendTo(nil)
	batch.CRC = int32(crc32.Checksum(raw[21:], crc32c))
	return batch.AppendTo(nil)
}

func c33ProduceRaw(cl *kgo.Client, topic string, part int32, raw []byte, txid *string) (int64, int16, error) {
	req := kmsg.NewPtrProduceRequest()
	req.Acks = -1
	req.TimeoutMillis = 5000
	req.TransactionID = txid
	rt := kmsg.NewProduceRequestTopic()
	rt.Topic = topic
	rp := kmsg.NewProduceRequestTopicPartition()
	rp.Partition = part
	rp.Records = raw
	rt.Partitions = append(rt.Partitions, rp)
	req.Topics = append(req.Topics, rt)
	ctx, cancel := c33Ctx()
	defer cancel()
	resp, err := req.RequestWith(ctx, cl)
	if err != nil {
		return 0, 0, err
	}
	if len(resp.Topics) != 1 || len(resp.Topics[0].Partitions) != 1 {
		return 0, 0, fmt.Errorf("produce: malformed response")
	}
	p := resp.Topics[0].Partitions[0]
	return p.BaseOffset, p.ErrorCode, nil
}

/////////////////////////////////////////////////////////////////////////////
// Live workload driver
/////////////////////////////////////////////////////////////////////////////

type c33Producer struct {
	txid  string // "" = idempotent only
	pid   int64
	epoch int16
	seq   map[string]int32
	last  map[string][]byte // last batch per partition (for the dedupe check)
	lastB map[string]int64
	txn   int // current open txn index, -1 none
}

type c33StepLog struct {
	Name  string
	Issue int
	Ack   int
}

type c33Live struct {
	name   string
	extra  []Opt
	fs     *c33FS
	n      *c33Node
	ref    *c33Ref
	steps  []c33StepLog
	nstep  int
	viols  *c33Viols
	restarts int
}

func (l *c33Live) fail(format string, a ...any) {
	ev.InfraError("C33 workload %s: %s", l.name, fmt.Sprintf(format, a...))
}

func (l *c33Live) step(name string) (string, int) {
	l.nstep++
	return fmt.Sprintf("%02d-%s", l.nstep, name), l.fs.logLen()
}

func (l *c33Live) done(name string, issue int) int {
	ack := l.fs.logLen()
	l.steps = append(l.steps, c33StepLog{name, issue, ack})
	return ack
}

func c33NewLive(name string, viols *c33Viols, extra ...Opt) *c33Live {
	l := &c33Live{name: name, extra: extra, fs: c33NewFS(true), ref: c33NewRef(), viols: viols}
	n, err := c33Start(l.fs, extra)
	if err != nil {
		l.fail("start: %v", err)
	}
	l.n = n
	return l
}

func (l *c33Live) createTopic(name string, parts int32, cfgs map[string]string) {
	sn, issue := l.step("create-" + name)
	req := kmsg.NewPtrCreateTopicsRequest()
	req.TimeoutMillis = 5000
	rt := kmsg.NewCreateTopicsRequestTopic()
	rt.Topic = name
	rt.NumPartitions = parts
	rt.ReplicationFactor = 1
	keys := make([]string, 0, len(cfgs))
	for k := range cfgs {
		keys = append(keys, k)
	}
	sort.Strings(keys)
	for _, k := range keys {
		c := kmsg.NewCreateTopicsRequestTopicConfig()
		c.Name = k
		c.Value = c33Str(cfgs[k])
		rt.Configs = append(rt.Configs, c)
	}
	req.Topics = append(req.Topics, rt)
	ctx, cancel := c33Ctx()
	defer cancel()
	resp, err := req.RequestWith(ctx, l.n.cl)
	if err != nil || len(resp.Topics) != 1 || resp.Topics[0].ErrorCode != 0 {
		l.fail("%s: %v %+v", sn, err, resp)
	}
	ack := l.done(sn, issue)
	l.ref.Topics = append(l.ref.Topics, &c33TopicRef{Name: name, ID: resp.Topics[0].TopicID, Parts: parts, Issue: issue, Ack: ack})
}

func (l *c33Live) initPID(txid string) *c33Producer {
	sn, issue := l.step("initpid-" + txid)
	req := kmsg.NewPtrInitProducerIDRequest()
	req.ProducerID = -1
	req.ProducerEpoch = -1
	if txid != "" {
		req.TransactionalID = c33Str(txid)
		req.TransactionTimeoutMillis = 600000
		l.ref.TxIDs = append(l.ref.TxIDs, txid)
	}
	ctx, cancel := c33Ctx()
	defer cancel()
	resp, err := req.RequestWith(ctx, l.n.cl)
	if err != nil || resp.ErrorCode != 0 {
		l.fail("%s: %v %+v", sn, err, resp)
	}
	l.done(sn, issue)
	return &c33Producer{txid: txid, pid: resp.ProducerID, epoch: resp.ProducerEpoch, seq: map[string]int32{}, last: map[string][]byte{}, lastB: map[string]int64{}, txn: -1}
}

func (l *c33Live) addParts(p *c33Producer, tps ...string) {
	sn, issue := l.step("addparts-" + p.txid)
	req := kmsg.NewPtrAddPartitionsToTxnRequest()
	req.TransactionalID = p.txid
	req.ProducerID = p.pid
	req.ProducerEpoch = p.epoch
	for _, tp := range tps {
		t, part := c33SplitTP(tp)
		rt := kmsg.NewAddPartitionsToTxnRequestTopic()
		rt.Topic = t
		rt.Partitions = []int32{part}
		req.Topics = append(req.Topics, rt)
	}
	ctx, cancel := c33Ctx()
	defer cancel()
	resp, err := req.RequestWith(ctx, l.n.cl)
	if err != nil {
		l.fail("%s: %v", sn, err)
	}
	for _, t := range resp.Topics {
		for _, pp := range t.Partitions {
			if pp.ErrorCode != 0 {
				l.fail("%s: %v", sn, kerr.ErrorForCode(pp.ErrorCode))
			}
		}
	}
	l.done(sn, issue)
	if p.txn < 0 {
		l.ref.Txns = append(l.ref.Txns, &c33TxnRef{TxID: p.txid, PID: p.pid, Epoch: p.epoch})
		p.txn = len(l.ref.Txns) - 1
	}
}

func c33SplitTP(tp string) (string, int32) {
	i := strings.LastIndexByte(tp, '/')
	var p int32
	fmt.Sscanf(tp[i+1:], "%d", &p)
	return tp[:i], p
}

func (l *c33Live) produce(p *c33Producer, tp string, nrec int) {
	txnal := p.txid != ""
	sn, issue := l.step("produce-" + tp)
	t, part := c33SplitTP(tp)
	raw := c33BuildBatch(sn, p.pid, p.epoch, p.seq[tp], nrec, txnal)
	var txid *string
	if txnal {
		if p.txn < 0 {
			l.fail("%s: transactional produce outside a transaction", sn)
		}
		txid = &p.txid
	}
	base, ec, err := c33ProduceRaw(l.n.cl, t, part, raw, txid)
	if err != nil || ec != 0 {
		l.fail("%s: %v %v", sn, err, kerr.ErrorForCode(ec))
	}
	ack := l.done(sn, issue)
	if want := l.ref.next(tp); base != want {
		l.fail("%s: base offset %d, reference expects %d", sn, base, want)
	}
	it := &c33Item{Step: sn, PID: p.pid, Epoch: p.epoch, Raw: raw, Base: base, NRec: int32(nrec), Txn: -1, Issue: issue, Ack: ack}
	if txnal {
		it.Txn = p.txn
	}
	l.ref.Logs[tp] = append(l.ref.Logs[tp], it)
	p.seq[tp] += int32(nrec)
	p.last[tp] = raw
	p.lastB[tp] = base
}

func (l *c33Live) commit(group, tp string, offset int64) {
	sn, issue := l.step("commit-" + group + "-" + tp)
	t, part := c33SplitTP(tp)
	meta := "m-" + sn
	req := kmsg.NewPtrOffsetCommitRequest()
	req.Group = group
	req.Generation = -1
	rt := kmsg.NewOffsetCommitRequestTopic()
	rt.Topic = t
	rp := kmsg.NewOffsetCommitRequestTopicPartition()
	rp.Partition = part
	rp.Offset = offset
	rp.LeaderEpoch = -1
	rp.Metadata = c33Str(meta)
	rt.Partitions = append(rt.Partitions, rp)
	req.Topics = append(req.Topics, rt)
	ctx, cancel := c33Ctx()
	defer cancel()
	resp, err := req.RequestWith(ctx, l.n.cl)
	if err != nil || len(resp.Topics) != 1 || len(resp.Topics[0].Partitions) != 1 || resp.Topics[0].Partitions[0].ErrorCode != 0 {
		l.fail("%s: %v %+v", sn, err, resp)
	}
	ack := l.done(sn, issue)
	l.addGroup(group)
	k := group + "|" + tp
	l.ref.Commits[k] = append(l.ref.Commits[k], &c33CommitRef{Step: sn, Offset: offset, Meta: meta, Issue: issue, Ack: ack})
}

func (l *c33Live) addGroup(g string) {
	for _, x := range l.ref.Groups {
		if x == g {
			return
		}
	}
	l.ref.Groups = append(l.ref.Groups, g)
}

// txnCommitOffsets stages offsets in the open transaction (AddOffsetsToTxn +
// TxnOffsetCommit); they are applied by endTxn(commit).
type c33Staged struct {
	group, tp string
	offset    int64
	meta      string
}

func (l *c33Live) txnOffsets(p *c33Producer, group, tp string, offset int64) c33Staged {
	sn, issue := l.step("txnoffsets-" + group)
	t, part := c33SplitTP(tp)
	ar := kmsg.NewPtrAddOffsetsToTxnRequest()
	ar.TransactionalID = p.txid
	ar.ProducerID = p.pid
	ar.ProducerEpoch = p.epoch
	ar.Group = group
	ctx, cancel := c33Ctx()
	defer cancel()
	aresp, err := ar.RequestWith(ctx, l.n.cl)
	if err != nil || aresp.ErrorCode != 0 {
		l.fail("%s addoffsets: %v %+v", sn, err, aresp)
	}
	meta := "m-" + sn
	req := kmsg.NewPtrTxnOffsetCommitRequest()
	req.TransactionalID = p.txid
	req.Group = group
	req.ProducerID = p.pid
	req.ProducerEpoch = p.epoch
	req.Generation = -1
	rt := kmsg.NewTxnOffsetCommitRequestTopic()
	rt.Topic = t
	rp := kmsg.NewTxnOffsetCommitRequestTopicPartition()
	rp.Partition = part
	rp.Offset = offset
	rp.LeaderEpoch = -1
	rp.Metadata = c33Str(meta)
	rt.Partitions = append(rt.Partitions, rp)
	req.Topics = append(req.Topics, rt)
	resp, err := req.RequestWith(ctx, l.n.cl)
	if err != nil || len(resp.Topics) != 1 || resp.Topics[0].Partitions[0].ErrorCode != 0 {
		l.fail("%s: %v %+v", sn, err, resp)
	}
	l.done(sn, issue)
	if p.txn < 0 {
		l.ref.Txns = append(l.ref.Txns, &c33TxnRef{TxID: p.txid, PID: p.pid, Epoch: p.epoch})
		p.txn = len(l.ref.Txns) - 1
	}
	l.addGroup(group)
	return c33Staged{group, tp, offset, meta}
}

func (l *c33Live) endTxn(p *c33Producer, commit bool, staged ...c33Staged) {
	name := "endtxn-abort"
	if commit {
		name = "endtxn-commit"
	}
	sn, issue := l.step(name)
	req := kmsg.NewPtrEndTxnRequest()
	req.TransactionalID = p.txid
	req.ProducerID = p.pid
	req.ProducerEpoch = p.epoch
	req.Commit = commit
	ctx, cancel := c33Ctx()
	defer cancel()
	resp, err := req.RequestWith(ctx, l.n.cl)
	if err != nil || resp.ErrorCode != 0 {
		l.fail("%s: %v %+v", sn, err, resp)
	}
	ack := l.done(sn, issue)
	tx := l.ref.Txns[p.txn]
	tx.Ended, tx.Commit, tx.EndIssue, tx.EndAck = true, commit, issue, ack
	// One marker per partition that holds data of this transaction. (The
	// reference adds them in sorted partition order; each partition's log
	// only ever gets one.)
	var tps []string
	for tp, items := range l.ref.Logs {
		for _, it := range items {
			if it.Txn == p.txn {
				tps = append(tps, tp)
				break
			}
		}
	}
	sort.Strings(tps)
	for _, tp := range tps {
		l.ref.Logs[tp] = append(l.ref.Logs[tp], &c33Item{Step: sn, Control: true, Commit: commit, PID: p.pid, Epoch: p.epoch,
			Base: l.ref.next(tp), NRec: 1, Txn: p.txn, Issue: issue, Ack: ack})
	}
	if commit {
		for _, s := range staged {
			k := s.group + "|" + s.tp
			l.ref.Commits[k] = append(l.ref.Commits[k], &c33CommitRef{Step: sn, Offset: s.offset, Meta: s.meta, Issue: issue, Ack: ack})
		}
	}
	p.txn = -1
	if resp.Version >= 5 && resp.ProducerEpoch >= 0 {
		if resp.ProducerID != p.pid {
			p.pid = resp.ProducerID
			p.seq = map[string]int32{}
		}
		if resp.ProducerEpoch != p.epoch {
			p.epoch = resp.ProducerEpoch
			p.seq = map[string]int32{}
			p.last = map[string][]byte{}
		}
	}
}

func (l *c33Live) deleteRecords(tp string, offset int64) {
	sn, issue := l.step("deleterecords-" + tp)
	t, part := c33SplitTP(tp)
	req := kmsg.NewPtrDeleteRecordsRequest()
	req.TimeoutMillis = 5000
	rt := kmsg.NewDeleteRecordsRequestTopic()
	rt.Topic = t
	rp := kmsg.NewDeleteRecordsRequestTopicPartition()
	rp.Partition = part
	rp.Offset = offset
	rt.Partitions = append(rt.Partitions, rp)
	req.Topics = append(req.Topics, rt)
	ctx, cancel := c33Ctx()
	defer cancel()
	resp, err := req.RequestWith(ctx, l.n.cl)
	if err != nil || len(resp.Topics) != 1 || resp.Topics[0].Partitions[0].ErrorCode != 0 {
		l.fail("%s: %v %+v", sn, err, resp)
	}
	ack := l.done(sn, issue)
	l.ref.Dels[tp] = append(l.ref.Dels[tp], &c33DelRef{Offset: offset, Issue: issue, Ack: ack})
}

/////////////////////////////////////////////////////////////////////////////
// Observation of a cluster's state through the protocol
/////////////////////////////////////////////////////////////////////////////

type c33Batch struct {
	Raw     []byte `json:"-"`
	First   int64
	NRec    int32
	PID     int64
	Epoch   int16
	Attrs   int16
	CRCOK   bool
	Control bool
	Commit  bool
	Hash    string
}

type c33Aborted struct {
	PID   int64
	First int64
}

type c33PartObs struct {
	Err        string `json:",omitempty"`
	Earliest   int64
	Latest     int64
	LS         int64
	HWM        int64
	LSO        int64
	RU         []c33Batch
	RUTrailing int
	RC         []c33Batch
	RCTrailing int
	RCAborted  []c33Aborted
}

type c33OffObs struct {
	Offset int64
	Meta   string
}

type c33ProdObs struct {
	PID      int64
	Epoch    int32
	LastSeq  int32
	TxnStart int64
}

type c33TxnObs struct {
	Err   int16
	PID   int64
	Epoch int16
	State string
	Parts []string
}

type c33TopicObs struct {
	ID    string
	Parts int
}

type c33Obs struct {
	Topics    map[string]c33TopicObs
	Parts     map[string]*c33PartObs
	Offsets   map[string]c33OffObs // "group|topic/part"
	Producers map[string][]c33ProdObs `json:",omitempty"`
	Txns      map[string]c33TxnObs    `json:",omitempty"`
}

func c33ParseBatches(raw []byte) ([]c33Batch, int) {
	var out []c33Batch
	pos := 0
	for pos+12 <= len(raw) {
		l := int(int32(binary.BigEndian.Uint32(raw[pos+8 : pos+12])))
		if l < 49 || pos+12+l > len(raw) {
			break
		}
		b := raw[pos : pos+12+l]
		var rb kmsg.RecordBatch
		if err := rb.ReadFrom(b); err != nil {
			break
		}
		cb := c33Batch{Raw: bytes.Clone(b), First: rb.FirstOffset, NRec: rb.NumRecords, PID: rb.ProducerID, Epoch: rb.ProducerEpoch, Attrs: rb.Attributes}
		cb.CRCOK = uint32(rb.CRC) == crc32.Checksum(b[21:], crc32c)
		cb.Control = rb.Attributes&0x0020 != 0
		if cb.Control {
			var rec kmsg.Record
			if err := rec.ReadFrom(rb.Records); err == nil && len(rec.Key) >= 4 {
				cb.Commit = binary.BigEndian.Uint16(rec.Key[2:4]) == 1
			}
		}
		// hash ignores the partition leader epoch (bytes 12..16)
		h := fnv.New64a()
		h.Write(b[:12])
		h.Write(b[16:])
		cb.Hash = fmt.Sprintf("%016x", h.Sum64())
		out = append(out, cb)
		pos += 12 + l
	}
	return out, len(raw) - pos
}

func c33Fetch(cl *kgo.Client, topic string, id [16]byte, part int32, from int64, iso int8) (*kmsg.FetchResponseTopicPartition, error) {
	req := kmsg.NewPtrFetchRequest()
	req.MaxWaitMillis = 0
	req.MinBytes = 0
	req.MaxBytes = 1 << 24
	req.IsolationLevel = iso
	req.SessionID = 0
	req.SessionEpoch = -1
	rt := kmsg.NewFetchRequestTopic()
	rt.Topic = topic
	rt.TopicID = id
	rp := kmsg.NewFetchRequestTopicPartition()
	rp.Partition = part
	rp.FetchOffset = from
	rp.CurrentLeaderEpoch = -1
	rp.PartitionMaxBytes = 1 << 24
	rt.Partitions = append(rt.Partitions, rp)
	req.Topics = append(req.Topics, rt)
	ctx, cancel := c33Ctx()
	defer cancel()
	resp, err := req.RequestWith(ctx, cl)
	if err != nil {
		return nil, err
	}
	if resp.ErrorCode != 0 {
		return nil, fmt.Errorf("fetch: %v", kerr.ErrorForCode(resp.ErrorCode))
	}
	if len(resp.Topics) != 1 || len(resp.Topics[0].Partitions) != 1 {
		return nil, fmt.Errorf("fetch: malformed response %+v", resp)
	}
	return &resp.Topics[0].Partitions[0], nil
}

func c33ListOffset(cl *kgo.Client, topic string, part int32, ts int64) (int64, error) {
	req := kmsg.NewPtrListOffsetsRequest()
	req.ReplicaID = -1
	rt := kmsg.NewListOffsetsRequestTopic()
	rt.Topic = topic
	rp := kmsg.NewListOffsetsRequestTopicPartition()
	rp.Partition = part
	rp.Timestamp = ts
	rp.CurrentLeaderEpoch = -1
	rt.Partitions = append(rt.Partitions, rp)
	req.Topics = append(req.Topics, rt)
	ctx, cancel := c33Ctx()
	defer cancel()
	resp, err := req.RequestWith(ctx, cl)
	if err != nil {
		return 0, err
	}
	if len(resp.Topics) != 1 || len(resp.Topics[0].Partitions) != 1 {
		return 0, fmt.Errorf("listoffsets: malformed response")
	}
	p := resp.Topics[0].Partitions[0]
	if p.ErrorCode != 0 {
		return 0, fmt.Errorf("listoffsets: %v", kerr.ErrorForCode(p.ErrorCode))
	}
	return p.Offset, nil
}

// c33Observe reads the state of a running cluster through the protocol.
// full adds producer / transaction state (clean-restart comparison).
func c33Observe(n *c33Node, ref *c33Ref, full bool) (*c33Obs, error) {
	o := &c33Obs{Topics: map[string]c33TopicObs{}, Parts: map[string]*c33PartObs{}, Offsets: map[string]c33OffObs{}}
	ctx, cancel := c33Ctx()
	defer cancel()
	mreq := kmsg.NewPtrMetadataRequest()
	mreq.Topics = nil
	mresp, err := mreq.RequestWith(ctx, n.cl)
	if err != nil {
		return nil, fmt.Errorf("metadata: %w", err)
	}
	ids := map[string][16]byte{}
	for _, t := range mresp.Topics {
		if t.Topic == nil {
			continue
		}
		if t.ErrorCode != 0 {
			return nil, fmt.Errorf("metadata topic %s: %v", *t.Topic, kerr.ErrorForCode(t.ErrorCode))
		}
		o.Topics[*t.Topic] = c33TopicObs{ID: fmt.Sprintf("%x", t.TopicID[:]), Parts: len(t.Partitions)}
		ids[*t.Topic] = t.TopicID
	}
	for _, rt := range ref.Topics {
		to, ok := o.Topics[rt.Name]
		if !ok {
			continue
		}
		for p := int32(0); p < int32(to.Parts); p++ {
			po := &c33PartObs{}
			o.Parts[c33TPKey(rt.Name, p)] = po
			if po.Earliest, err = c33ListOffset(n.cl, rt.Name, p, -2); err != nil {
				po.Err = err.Error()
				continue
			}
			if po.Latest, err = c33ListOffset(n.cl, rt.Name, p, -1); err != nil {
				po.Err = err.Error()
				continue
			}
			ru, err := c33Fetch(n.cl, rt.Name, ids[rt.Name], p, po.Earliest, 0)
			if err != nil {
				po.Err = err.Error()
				continue
			}
			if ru.ErrorCode != 0 {
				po.Err = "fetch read_uncommitted: " + kerr.ErrorForCode(ru.ErrorCode).Error()
				continue
			}
			po.LS, po.HWM, po.LSO = ru.LogStartOffset, ru.HighWatermark, ru.LastStableOffset
			po.RU, po.RUTrailing = c33ParseBatches(ru.RecordBatches)
			rc, err := c33Fetch(n.cl, rt.Name, ids[rt.Name], p, po.Earliest, 1)
			if err != nil {
				po.Err = err.Error()
				continue
			}
			if rc.ErrorCode != 0 {
				po.Err = "fetch read_committed: " + kerr.ErrorForCode(rc.ErrorCode).Error()
				continue
			}
			po.RC, po.RCTrailing = c33ParseBatches(rc.RecordBatches)
			for _, a := range rc.AbortedTransactions {
				po.RCAborted = append(po.RCAborted, c33Aborted{a.ProducerID, a.FirstOffset})
			}
			sort.Slice(po.RCAborted, func(i, j int) bool {
				if po.RCAborted[i].First != po.RCAborted[j].First {
					return po.RCAborted[i].First < po.RCAborted[j].First
				}
				return po.RCAborted[i].PID < po.RCAborted[j].PID
			})
		}
	}
	for _, g := range ref.Groups {
		req := kmsg.NewPtrOffsetFetchRequest()
		req.Group = g
		req.Topics = nil
		rg := kmsg.NewOffsetFetchRequestGroup()
		rg.Group = g
		rg.Topics = nil
		req.Groups = append(req.Groups, rg)
		resp, err := req.RequestWith(ctx, n.cl)
		if err != nil {
			return nil, fmt.Errorf("offsetfetch %s: %w", g, err)
		}
		add := func(t string, p int32, off int64, meta *string, ec int16) {
			if ec != 0 || off < 0 {
				return
			}
			m := ""
			if meta != nil {
				m = *meta
			}
			o.Offsets[g+"|"+c33TPKey(t, p)] = c33OffObs{off, m}
		}
		if len(resp.Groups) > 0 {
			for _, rg := range resp.Groups {
				if rg.ErrorCode == kerr.GroupIDNotFound.Code {
					continue // group unknown: no committed offsets
				}
				if rg.ErrorCode != 0 {
					return nil, fmt.Errorf("offsetfetch %s: %v", g, kerr.ErrorForCode(rg.ErrorCode))
				}
				for _, t := range rg.Topics {
					for _, p := range t.Partitions {
						add(t.Topic, p.Partition, p.Offset, p.Metadata, p.ErrorCode)
					}
				}
			}
		} else {
			if resp.ErrorCode != 0 && resp.ErrorCode != kerr.GroupIDNotFound.Code {
				return nil, fmt.Errorf("offsetfetch %s: %v", g, kerr.ErrorForCode(resp.ErrorCode))
			}
			for _, t := range resp.Topics {
				for _, p := range t.Partitions {
					add(t.Topic, p.Partition, p.Offset, p.Metadata, p.ErrorCode)
				}
			}
		}
	}
	if !full {
		return o, nil
	}
	o.Producers = map[string][]c33ProdObs{}
	o.Txns = map[string]c33TxnObs{}
	for _, rt := range ref.Topics {
		to, ok := o.Topics[rt.Name]
		if !ok {
			continue
		}
		req := kmsg.NewPtrDescribeProducersRequest()
		qt := kmsg.NewDescribeProducersRequestTopic()
		qt.Topic = rt.Name
		for p := int32(0); p < int32(to.Parts); p++ {
			qt.Partitions = append(qt.Partitions, p)
		}
		req.Topics = append(req.Topics, qt)
		resp, err := req.RequestWith(ctx, n.cl)
		if err != nil {
			return nil, fmt.Errorf("describeproducers: %w", err)
		}
		for _, t := range resp.Topics {
			for _, p := range t.Partitions {
				if p.ErrorCode != 0 {
					return nil, fmt.Errorf("describeproducers %s/%d: %v", t.Topic, p.Partition, kerr.ErrorForCode(p.ErrorCode))
				}
				var ps []c33ProdObs
				for _, a := range p.ActiveProducers {
					ps = append(ps, c33ProdObs{a.ProducerID, a.ProducerEpoch, a.LastSequence, a.CurrentTxnStartOffset})
				}
				sort.Slice(ps, func(i, j int) bool { return ps[i].PID < ps[j].PID })
				o.Producers[c33TPKey(t.Topic, p.Partition)] = ps
			}
		}
	}
	if len(ref.TxIDs) > 0 {
		req := kmsg.NewPtrDescribeTransactionsRequest()
		req.TransactionalIDs = append(req.TransactionalIDs, ref.TxIDs...)
		resp, err := req.RequestWith(ctx, n.cl)
		if err != nil {
			return nil, fmt.Errorf("describetransactions: %w", err)
		}
		for _, s := range resp.TransactionStates {
			to := c33TxnObs{Err: s.ErrorCode, PID: s.ProducerID, Epoch: s.ProducerEpoch, State: s.State}
			for _, t := range s.Topics {
				for _, p := range t.Partitions {
					to.Parts = append(to.Parts, c33TPKey(t.Topic, p))
				}
			}
			sort.Strings(to.Parts)
			o.Txns[s.TransactionalID] = to
		}
	}
	return o, nil
}

/////////////////////////////////////////////////////////////////////////////
// Oracle
/////////////////////////////////////////////////////////////////////////////

type c33V struct {
	Class string // violation class without the C33: prefix and pattern suffix
	What  string
}

// c33Check compares the observed state of a cluster recovered from the crash
// state at prefix i with the reference model.
func c33Check(ref *c33Ref, i int, o *c33Obs) (vs []c33V, info []string) {
	v := func(class, format string, a ...any) { vs = append(vs, c33V{class, fmt.Sprintf(format, a...)}) }

	known := map[string]*c33TopicRef{}
	for _, t := range ref.Topics {
		known[t.Name] = t
		to, ok := o.Topics[t.Name]
		if !ok {
			if t.Ack <= i {
				v("acked-topic-lost", "topic %s (CreateTopics acknowledged at op %d) is missing after recovery", t.Name, t.Ack)
			}
			continue
		}
		if t.Issue >= i {
			v("foreign-topic", "topic %s exists although CreateTopics was only sent at op %d", t.Name, t.Issue)
		}
		if to.ID != fmt.Sprintf("%x", t.ID[:]) || to.Parts != int(t.Parts) {
			v("topic-identity-changed", "topic %s recovered with id=%s parts=%d, created with id=%x parts=%d", t.Name, to.ID, to.Parts, t.ID[:], t.Parts)
		}
	}
	for name := range o.Topics {
		if known[name] == nil {
			v("foreign-topic", "unknown topic %s after recovery", name)
		}
	}

	tps := make([]string, 0, len(ref.Logs))
	for tp := range ref.Logs {
		tps = append(tps, tp)
	}
	sort.Strings(tps)
	for _, tp := range tps {
		items := ref.Logs[tp]
		acked, issued := 0, 0
		for k, it := range items {
			if it.Ack <= i {
				acked = k + 1
			}
			if it.Issue < i {
				issued = k + 1
			}
		}
		po := o.Parts[tp]
		if po == nil {
			if acked > 0 {
				v("acked-produce-lost", "%s: partition missing, %d acknowledged batches lost (first %s)", tp, acked, items[0].Step)
			}
			continue
		}
		if po.Err != "" {
			v("partition-unreadable", "%s: %s", tp, po.Err)
			continue
		}
		if po.RUTrailing != 0 || po.RCTrailing != 0 {
			v("partial-batch-visible", "%s: fetch returned %d/%d trailing bytes that are not a whole batch", tp, po.RUTrailing, po.RCTrailing)
		}
		if po.LS != po.Earliest || po.HWM != po.Latest {
			v("offsets-inconsistent", "%s: Fetch logStart/HWM=%d/%d but ListOffsets earliest/latest=%d/%d", tp, po.LS, po.HWM, po.Earliest, po.Latest)
		}
		// log start: 0, or anything up to the largest DeleteRecords offset sent so far
		maxDel, ackDel := int64(0), int64(0)
		for _, d := range ref.Dels[tp] {
			if d.Issue < i && d.Offset > maxDel {
				maxDel = d.Offset
			}
			if d.Ack <= i && d.Offset > ackDel {
				ackDel = d.Offset
			}
		}
		if po.LS < 0 || po.LS > maxDel {
			v("log-start-invalid", "%s: log start %d, but DeleteRecords never asked for more than %d", tp, po.LS, maxDel)
			continue
		}
		if po.LS < ackDel {
			info = append(info, "delete-records-not-durable")
		}
		// visible batches must be exactly items[first:m] with acked <= m <= issued
		first := 0
		for first < len(items) && items[first].Base+int64(items[first].NRec) <= po.LS {
			first++
		}
		m := first + len(po.RU)
		bad := false
		next := int64(-1)
		for k, b := range po.RU {
			idx := first + k
			if idx >= len(items) {
				v("foreign-batch-visible", "%s: batch #%d at offset %d was never produced", tp, idx, b.First)
				bad = true
				break
			}
			it := items[idx]
			if !b.CRCOK {
				v("partial-batch-visible", "%s: batch at offset %d has a bad CRC", tp, b.First)
				bad = true
				break
			}
			if next >= 0 && b.First != next {
				v("log-not-contiguous", "%s: batch at offset %d follows a batch ending at %d", tp, b.First, next-1)
				bad = true
				break
			}
			next = b.First + int64(b.NRec)
			if b.First != it.Base || b.NRec != it.NRec {
				v("foreign-batch-visible", "%s: batch #%d is at offset %d (%d records), reference %s is at %d (%d records)", tp, idx, b.First, b.NRec, it.Step, it.Base, it.NRec)
				bad = true
				break
			}
			if it.Control {
				if !b.Control || b.Commit != it.Commit || b.PID != it.PID || b.Epoch != it.Epoch {
					v("foreign-batch-visible", "%s: offset %d should be the %s marker of pid %d epoch %d, got control=%v commit=%v pid=%d epoch=%d", tp, b.First, it.Step, it.PID, it.Epoch, b.Control, b.Commit, b.PID, b.Epoch)
					bad = true
					break
				}
			} else if len(b.Raw) != len(it.Raw) || !bytes.Equal(b.Raw[8:12], it.Raw[8:12]) || !bytes.Equal(b.Raw[16:], it.Raw[16:]) {
				v("foreign-batch-visible", "%s: batch at offset %d is not byte-identical to what %s produced", tp, b.First, it.Step)
				bad = true
				break
			}
			if it.Issue >= i {
				v("foreign-batch-visible", "%s: batch of %s visible although the request was only sent at op %d", tp, it.Step, it.Issue)
				bad = true
				break
			}
		}
		if bad {
			continue
		}
		if m < acked {
			lost := items[m]
			cls := "acked-produce-lost"
			if lost.Control {
				cls = "acked-endtxn-lost"
			}
			v(cls, "%s: log ends at offset %d (%d batches); %s (acknowledged at op %d, base offset %d) is missing", tp, po.HWM, m, lost.Step, lost.Ack, lost.Base)
			continue
		}
		_ = issued
		wantHWM := po.LS
		if m > 0 && m > first {
			wantHWM = items[m-1].Base + int64(items[m-1].NRec)
		} else if first > 0 {
			wantHWM = max(po.LS, items[first-1].Base+int64(items[first-1].NRec))
		}
		if po.HWM != wantHWM {
			v("hwm-mismatch", "%s: high watermark %d but visible log ends at %d", tp, po.HWM, wantHWM)
		}
		if po.LSO > po.HWM || po.LSO < po.LS {
			v("lso-invalid", "%s: last stable offset %d outside [%d,%d]", tp, po.LSO, po.LS, po.HWM)
		}
		// read_committed view
		if len(po.RC) > len(po.RU) {
			v("foreign-batch-visible", "%s: read_committed returned more batches than read_uncommitted", tp)
			continue
		}
		for k, b := range po.RC {
			if b.Hash != po.RU[k].Hash {
				v("foreign-batch-visible", "%s: read_committed batch #%d differs from read_uncommitted", tp, k)
			}
			if b.First >= po.LSO {
				v("lso-invalid", "%s: read_committed returned offset %d >= LSO %d", tp, b.First, po.LSO)
			}
		}
		committed := map[int64]bool{} // base offsets delivered to a read_committed consumer
		active := map[int64]bool{}
		ai := 0
		for _, b := range po.RC {
			for ai < len(po.RCAborted) && po.RCAborted[ai].First <= b.First+int64(b.NRec)-1 {
				active[po.RCAborted[ai].PID] = true
				ai++
			}
			if b.Control {
				if !b.Commit {
					delete(active, b.PID)
				}
				continue
			}
			if b.Attrs&0x0010 != 0 && active[b.PID] {
				continue
			}
			committed[b.First] = true
		}
		lsoFloor := po.HWM
		for k := first; k < m; k++ {
			it := items[k]
			if it.Control {
				continue
			}
			if it.Txn < 0 {
				continue
			}
			tx := ref.Txns[it.Txn]
			switch {
			case tx.Ended && tx.EndAck <= i && tx.Commit:
				if !committed[it.Base] {
					v("acked-endtxn-lost", "%s: %s belongs to a transaction whose commit was acknowledged at op %d but a read_committed fetch does not deliver it (LSO=%d aborted=%v)", tp, it.Step, tx.EndAck, po.LSO, po.RCAborted)
				}
			case tx.Ended && tx.EndAck <= i && !tx.Commit:
				if committed[it.Base] {
					v("aborted-txn-visible", "%s: %s belongs to a transaction whose abort was acknowledged at op %d but a read_committed fetch delivers it", tp, it.Step, tx.EndAck)
				}
			case tx.Ended && tx.Commit && tx.EndIssue < i:
				// commit in flight: either outcome
			default:
				if it.Base < lsoFloor {
					lsoFloor = it.Base
				}
				if committed[it.Base] {
					v("uncommitted-txn-visible", "%s: %s belongs to a transaction that was never committed (no EndTxn(commit) sent before op %d) but a read_committed fetch delivers it as committed (LSO=%d aborted=%v)", tp, it.Step, i, po.LSO, po.RCAborted)
				}
			}
		}
		for k := first; k < m && k < acked; k++ {
			it := items[k]
			if !it.Control && it.Txn < 0 && it.Base < lsoFloor && !committed[it.Base] {
				v("acked-produce-lost", "%s: %s (acknowledged, non-transactional, below every open transaction) is not delivered by a read_committed fetch (LSO=%d)", tp, it.Step, po.LSO)
			}
		}
	}

	cks := make([]string, 0, len(ref.Commits))
	for k := range ref.Commits {
		cks = append(cks, k)
	}
	sort.Strings(cks)
	for _, k := range cks {
		list := ref.Commits[k]
		lastAcked := -1
		for j, c := range list {
			if c.Ack <= i {
				lastAcked = j
			}
		}
		got, have := o.Offsets[k]
		ok := false
		if !have && lastAcked < 0 {
			ok = true
		}
		if have {
			for j := max(lastAcked, 0); j < len(list); j++ {
				if list[j].Issue < i && list[j].Offset == got.Offset && list[j].Meta == got.Meta {
					ok = true
				}
			}
		}
		if !ok {
			switch {
			case lastAcked >= 0:
				v("acked-commit-lost", "%s: committed offset after recovery is %v (present=%v); %s acknowledged offset %d metadata %q at op %d", k, got, have, list[lastAcked].Step, list[lastAcked].Offset, list[lastAcked].Meta, list[lastAcked].Ack)
			default:
				v("foreign-commit", "%s: committed offset %v was never sent before op %d", k, got, i)
			}
		}
	}
	for k, got := range o.Offsets {
		if _, ok := ref.Commits[k]; !ok {
			v("foreign-commit", "%s: committed offset %v for a partition the workload never committed", k, got)
		}
	}
	return vs, info
}

// c33Canon renders the parts of an observation that must be identical across
// a clean Close + restart.
func c33Canon(o *c33Obs) string {
	b, _ := json.Marshal(o)
	return string(b)
}

/////////////////////////////////////////////////////////////////////////////
// Violation collection (minimal witness per class is reported at the end)
/////////////////////////////////////////////////////////////////////////////

type c33Witness struct {
	Key      string
	What     string
	Workload string
	WIdx     int
	Prefix   int
	Rank     int // pattern rank: smaller = simpler loss pattern
	Artefact map[string]any
}

type c33Viols struct {
	mu    sync.Mutex
	best  map[string]*c33Witness
	count map[string]int
	info  map[string]int64
}

func c33NewViols() *c33Viols {
	return &c33Viols{best: map[string]*c33Witness{}, count: map[string]int{}, info: map[string]int64{}}
}

func (vs *c33Viols) add(w *c33Witness) {
	vs.mu.Lock()
	defer vs.mu.Unlock()
	vs.count[w.Key]++
	b := vs.best[w.Key]
	if b == nil || w.WIdx < b.WIdx || (w.WIdx == b.WIdx && (w.Prefix < b.Prefix || (w.Prefix == b.Prefix && (w.Rank < b.Rank || (w.Rank == b.Rank && w.What < b.What))))) {
		vs.best[w.Key] = w
	}
}

func (vs *c33Viols) addInfo(k string, n int64) {
	vs.mu.Lock()
	vs.info[k] += n
	vs.mu.Unlock()
}

/////////////////////////////////////////////////////////////////////////////
// Clean Close + restart on the live (recording) file system
/////////////////////////////////////////////////////////////////////////////

// restart observes the state, closes the cluster cleanly, reopens it on the
// same file system and requires an identical observation, then re-sends the
// last batch of every producer and requires it to be deduplicated.
func (l *c33Live) restart(widx int, prods ...*c33Producer) {
	l.restarts++
	tag := fmt.Sprintf("restart-%d", l.restarts)
	before, err := c33Observe(l.n, l.ref, true)
	if err != nil {
		l.fail("%s: observe before close: %v", tag, err)
	}
	_, issue := l.step(tag)
	l.n.close()
	atClose := l.fs.logLen()
	n, err := c33Start(l.fs, l.extra)
	if err != nil {
		l.viols.add(&c33Witness{Key: "C33:clean-restart-failed", What: fmt.Sprintf("workload %s %s: NewCluster after a clean Close failed: %v", l.name, tag, err),
			Workload: l.name, WIdx: widx, Prefix: atClose, Artefact: map[string]any{"workload": l.name, "step": tag, "fs": l.fs.dump(), "dirs": l.fs.dirList()}})
		l.fail("%s: cannot continue after failed clean restart: %v", tag, err)
	}
	l.n = n
	l.done(tag, issue)
	after, err := c33Observe(l.n, l.ref, true)
	if err != nil {
		l.fail("%s: observe after reopen: %v", tag, err)
	}
	if a, b := c33Canon(before), c33Canon(after); a != b {
		field := c33DiffField(before, after)
		l.viols.add(&c33Witness{Key: "C33:clean-restart-differs:" + field,
			What:     fmt.Sprintf("workload %s %s: state observed through the protocol differs across a clean Close + restart (first differing part: %s)", l.name, tag, field),
			Workload: l.name, WIdx: widx, Prefix: atClose,
			Artefact: map[string]any{"workload": l.name, "step": tag, "before": before, "after": after, "steps": l.steps}})
	}
	// also run the crash oracle on the live state (no-crash case)
	if vs, _ := c33Check(l.ref, l.fs.logLen(), after); len(vs) > 0 {
		for _, x := range vs {
			l.viols.add(&c33Witness{Key: "C33:" + x.Class + ":clean-restart", What: fmt.Sprintf("workload %s %s: %s", l.name, tag, x.What),
				Workload: l.name, WIdx: widx, Prefix: atClose, Artefact: map[string]any{"workload": l.name, "step": tag, "observed": after, "steps": l.steps}})
		}
	}
	// idempotent sequence state: a retried duplicate still dedupes
	for _, p := range prods {
		tps := make([]string, 0, len(p.last))
		for tp := range p.last {
			tps = append(tps, tp)
		}
		sort.Strings(tps)
		for _, tp := range tps {
			t, part := c33SplitTP(tp)
			var txid *string
			if p.txid != "" {
				if p.txn < 0 {
					continue // transaction ended: a retry is not meaningful
				}
				txid = &p.txid
			}
			base, ec, err := c33ProduceRaw(l.n.cl, t, part, p.last[tp], txid)
			hwm, _ := c33ListOffset(l.n.cl, t, part, -1)
			if err != nil || ec != 0 || base != p.lastB[tp] || hwm != l.ref.next(tp) {
				l.viols.add(&c33Witness{Key: "C33:clean-restart-dedupe-failed",
					What: fmt.Sprintf("workload %s %s: re-sending the last batch of producer %d (epoch %d) on %s after a clean restart gave err=%v code=%v base=%d (original %d), high watermark %d (expected %d)",
						l.name, tag, p.pid, p.epoch, tp, err, kerr.ErrorForCode(ec), base, p.lastB[tp], hwm, l.ref.next(tp)),
					Workload: l.name, WIdx: widx, Prefix: atClose, Artefact: map[string]any{"workload": l.name, "step": tag, "steps": l.steps}})
				if hwm != l.ref.next(tp) {
					l.fail("%s: duplicate was appended; reference log diverged", tag)
				}
			}
		}
	}
}

func c33DiffField(a, b *c33Obs) string {
	j := func(v any) string { x, _ := json.Marshal(v); return string(x) }
	switch {
	case j(a.Topics) != j(b.Topics):
		return "topics"
	case j(a.Parts) != j(b.Parts):
		return "logs"
	case j(a.Offsets) != j(b.Offsets):
		return "committed-offsets"
	case j(a.Producers) != j(b.Producers):
		return "producers"
	case j(a.Txns) != j(b.Txns):
		return "transactions"
	}
	return "other"
}

// finish performs the final clean restart, checks producer-id continuity and
// closes the cluster (that Close is part of the log too).
func (l *c33Live) finish(widx int, prods ...*c33Producer) {
	l.restart(widx, prods...)
	for _, p := range prods {
		if p.txid == "" || p.txn >= 0 {
			continue
		}
		req := kmsg.NewPtrInitProducerIDRequest()
		req.ProducerID = -1
		req.ProducerEpoch = -1
		req.TransactionalID = c33Str(p.txid)
		req.TransactionTimeoutMillis = 600000
		ctx, cancel := c33Ctx()
		resp, err := req.RequestWith(ctx, l.n.cl)
		cancel()
		if err != nil || resp.ErrorCode != 0 || resp.ProducerID != p.pid || resp.ProducerEpoch != p.epoch+1 {
			l.viols.add(&c33Witness{Key: "C33:clean-restart-differs:producer-id-continuity",
				What:     fmt.Sprintf("workload %s: InitProducerID(%s) after the final clean restart returned %+v err=%v; expected producer %d epoch %d", l.name, p.txid, resp, err, p.pid, p.epoch+1),
				Workload: l.name, WIdx: widx, Prefix: l.fs.logLen(), Artefact: map[string]any{"workload": l.name, "steps": l.steps}})
		}
	}
	l.n.close()
}

/////////////////////////////////////////////////////////////////////////////
// Crash-state enumeration
/////////////////////////////////////////////////////////////////////////////

type c33Job struct {
	wl      *c33Live
	widx    int
	prefix  int
	fsys    *c33FS
	kind    string // prefix-only | all-kept | none-kept | partial | torn
	rank    int
	pattern string
	variant string // "" or "rename-lost"
	lostAt  int
}

const c33ProductCap = 600

type c33Stats struct {
	mu              sync.Mutex
	continued       int64
	productPrefixes int64
	boundedPrefixes int64
	enumerated  int64
	distinct    int64
	transitions int64
	recovered   int64
	byKind      map[string]int64
	outcomes    map[uint64]struct{}
}

func c33LastOp(l *c33Live, i int) string {
	if i == 0 {
		return "(nothing issued)"
	}
	return l.fs.log[i-1].String()
}

func c33StepAt(l *c33Live, i int) string {
	for _, s := range l.steps {
		if i > s.Issue && i <= s.Ack {
			return "during " + s.Name
		}
		if i == s.Issue {
			return "before " + s.Name
		}
	}
	return "between steps"
}

// c33Recover starts the real implementation on the crash state and checks it.
func c33Recover(j *c33Job, vs *c33Viols, st *c33Stats, curFile string) {
	l := j.wl
	desc := map[string]any{
		"workload": l.name, "prefix": j.prefix, "of": len(l.fs.log), "last_op": c33LastOp(l, j.prefix), "where": c33StepAt(l, j.prefix),
		"pattern": j.pattern, "pattern_kind": j.kind, "variant": j.variant,
	}
	if curFile != "" {
		b, _ := json.Marshal(desc)
		os.WriteFile(curFile, b, 0o644)
	}
	artefact := func(extra map[string]any) map[string]any {
		a := map[string]any{"fs": j.fsys.dump(), "dirs": j.fsys.dirList(), "steps": l.steps, "extra_opts": l.name}
		for k, v := range desc {
			a[k] = v
		}
		for k, v := range extra {
			a[k] = v
		}
		return a
	}
	snapshot := j.fsys.clone() // recovery mutates the fs; keep the crash state for the artefact
	prefixKey := "C33:"
	report := func(class, what string, extra map[string]any) {
		if j.variant != "" {
			// the source never syncs directories and claims atomicity, not
			// durability, for temp+rename: informational only
			vs.addInfo("informational_rename_loss_failures", 1)
			vs.addInfo("informational_rename_loss:"+class, 1)
			return
		}
		j.fsys = snapshot
		suffix := j.kind
		if class == "uncommitted-txn-visible" && c33IndexBehindSegment(snapshot) {
			// name the cause instead of the loss-pattern kind: the key is
			// the same for every way of losing the index entry
			suffix = "segment-durable-index-entry-missing-or-torn"
		}
		if class == "acked-commit-lost-after-recovery" {
			if d, ok := snapshot.files[c33DataDir+"/groups.log"]; ok {
				if c33ValidFramedBytes(d.data) < len(d.data) {
					suffix = "torn-groups-log-tail-not-truncated"
				}
			}
		}
		vs.add(&c33Witness{Key: prefixKey + class + ":" + suffix, What: fmt.Sprintf("workload %s, crash after op %d/%d [%s] (%s), loss pattern %s: %s", l.name, j.prefix, len(l.fs.log), c33LastOp(l, j.prefix), c33StepAt(l, j.prefix), j.pattern, what),
			Workload: l.name, WIdx: j.widx, Prefix: j.prefix, Rank: j.rank, Artefact: artefact(extra)})
	}
	// Recovery runs on a recording copy of the crash state so that a second
	// crash (after the recovered cluster acknowledged more work) can be
	// materialised as well.
	rfs := snapshot.clone()
	rfs.rec = true
	done := make(chan struct{})
	var (
		err   error
		obs   *c33Obs
		oerr  error
		post  *c33Post
		obs3  []*c33Obs
		err3  error
		extra []c33V
	)
	go func() {
		defer close(done)
		var n *c33Node
		n, err = c33Start(rfs, l.extra)
		if err != nil {
			return
		}
		obs, oerr = c33Observe(n, l.ref, false)
		if oerr == nil && j.variant == "" {
			post, extra = c33Continue(n, l.ref, obs, j.prefix)
		}
		cut := rfs.logLen()
		n.close()
		if post == nil || len(extra) > 0 {
			return
		}
		// second crash: everything acknowledged by the recovered cluster was
		// fsynced, so both "unsynced data lost" and "kept" must retain it
		rep := c33ReplayFrom(snapshot)
		for _, o := range rfs.log[:cut] {
			rep.apply(o, false)
		}
		seen := map[uint64]bool{}
		for _, baseAll := range []bool{false, true} {
			f3 := rep.materialise(0, c33Choice{}, baseAll)
			if h := f3.hash(); seen[h] {
				continue
			} else {
				seen[h] = true
			}
			n3, e := c33Start(f3, l.extra)
			if e != nil {
				err3 = e
				return
			}
			o3, e := c33Observe(n3, post.ref, false)
			n3.close()
			if e != nil {
				err3 = e
				return
			}
			obs3 = append(obs3, o3)
		}
	}()
	select {
	case <-done:
	case <-time.After(120 * time.Second):
		report("recovery-hang", "recovery did not finish within 120s", nil)
		return
	}
	st.mu.Lock()
	st.recovered++
	if post != nil {
		st.continued++
		st.recovered += int64(len(obs3))
		st.transitions += int64(post.ops)
	}
	st.mu.Unlock()
	if err != nil {
		cls := "startup-error"
		if strings.HasPrefix(err.Error(), "PANIC") {
			cls = "startup-panic"
		}
		report(cls, "NewCluster on the crash state failed: "+err.Error(), nil)
		return
	}
	if oerr != nil {
		report("recovered-cluster-unreadable", oerr.Error(), nil)
		return
	}
	viols, info := c33Check(l.ref, j.prefix, obs)
	for _, k := range info {
		vs.addInfo("informational_"+k, 1)
	}
	for _, x := range viols {
		report(x.Class, x.What, map[string]any{"observed": obs})
	}
	for _, x := range extra {
		report(x.Class, x.What, map[string]any{"observed": obs})
	}
	if err3 != nil {
		report("second-recovery-failed", "after recovery + acknowledged work + a second crash, NewCluster/observation failed: "+err3.Error(), map[string]any{"observed": obs, "post": post.desc})
	}
	for _, o3 := range obs3 {
		for _, x := range c33CheckPost(obs, post, o3) {
			report(x.Class, x.What, map[string]any{"observed_after_first_recovery": obs, "acknowledged_by_recovered_cluster": post.desc, "observed_after_second_crash": o3})
		}
	}
	oh := fnv.New64a()
	oh.Write([]byte(c33Canon(obs)))
	st.mu.Lock()
	st.outcomes[oh.Sum64()] = struct{}{}
	st.mu.Unlock()
}

// c33ReplayFrom starts a replay from an existing (fully durable) file system.
func c33ReplayFrom(m *c33FS) *c33Replay {
	r := c33NewReplay()
	for d := range m.dirs {
		r.dirs[d] = true
	}
	for p, d := range m.files {
		r.files[p] = d.id
		r.ino(d.id).durable = bytes.Clone(d.data)
	}
	return r
}

// c33Post is the work a recovered cluster acknowledged before the second crash.
type c33Post struct {
	ref     *c33Ref // topics + groups to observe after the second crash
	batches map[string][]byte
	bases   map[string]int64
	commits map[string]c33OffObs
	desc    []string
	ops     int
}

// c33Continue uses the recovered cluster: one plain produce per readable
// partition and one offset commit per group (the workload's groups plus a new
// one). Everything must be accepted.
func c33Continue(n *c33Node, ref *c33Ref, obs *c33Obs, prefix int) (*c33Post, []c33V) {
	post := &c33Post{ref: c33NewRef(), batches: map[string][]byte{}, bases: map[string]int64{}, commits: map[string]c33OffObs{}}
	var vs []c33V
	var tps []string
	for _, t := range ref.Topics {
		to, ok := obs.Topics[t.Name]
		if !ok {
			continue
		}
		post.ref.Topics = append(post.ref.Topics, t)
		for p := 0; p < to.Parts; p++ {
			tp := c33TPKey(t.Name, int32(p))
			if po := obs.Parts[tp]; po != nil && po.Err == "" {
				tps = append(tps, tp)
			}
		}
	}
	for _, tp := range tps {
		t, part := c33SplitTP(tp)
		raw := c33BuildBatch("post-"+tp, -1, -1, -1, 1, false)
		base, ec, err := c33ProduceRaw(n.cl, t, part, raw, nil)
		post.ops++
		if err != nil || ec != 0 {
			vs = append(vs, c33V{"post-recovery-produce-rejected", fmt.Sprintf("%s: a plain produce to the recovered cluster failed: err=%v code=%v", tp, err, kerr.ErrorForCode(ec))})
			continue
		}
		if base != obs.Parts[tp].HWM {
			vs = append(vs, c33V{"log-not-contiguous", fmt.Sprintf("%s: produce to the recovered cluster was assigned offset %d but the high watermark was %d", tp, base, obs.Parts[tp].HWM)})
		}
		post.batches[tp] = raw
		post.bases[tp] = base
		post.desc = append(post.desc, fmt.Sprintf("produce %s -> offset %d acknowledged", tp, base))
	}
	if len(tps) > 0 {
		groups := append(append([]string{}, ref.Groups...), "c33-post")
		for gi, g := range groups {
			tp := tps[gi%len(tps)]
			t, part := c33SplitTP(tp)
			req := kmsg.NewPtrOffsetCommitRequest()
			req.Group = g
			req.Generation = -1
			rt := kmsg.NewOffsetCommitRequestTopic()
			rt.Topic = t
			rp := kmsg.NewOffsetCommitRequestTopicPartition()
			rp.Partition = part
			rp.Offset = int64(100000 + prefix)
			rp.LeaderEpoch = -1
			rp.Metadata = c33Str("post-recovery")
			rt.Partitions = append(rt.Partitions, rp)
			req.Topics = append(req.Topics, rt)
			ctx, cancel := c33Ctx()
			resp, err := req.RequestWith(ctx, n.cl)
			cancel()
			post.ops++
			if err != nil || len(resp.Topics) != 1 || len(resp.Topics[0].Partitions) != 1 || resp.Topics[0].Partitions[0].ErrorCode != 0 {
				vs = append(vs, c33V{"post-recovery-commit-rejected", fmt.Sprintf("group %s %s: an offset commit to the recovered cluster failed: err=%v resp=%+v", g, tp, err, resp)})
				continue
			}
			post.commits[g+"|"+tp] = c33OffObs{rp.Offset, "post-recovery"}
			post.desc = append(post.desc, fmt.Sprintf("commit %s %s -> %d acknowledged", g, tp, rp.Offset))
		}
		post.ref.Groups = groups
	}
	return post, vs
}

// c33CheckPost: after the second crash the log must be what the first recovery
// showed plus the batches the recovered cluster acknowledged, and the
// acknowledged commits must be there.
func c33CheckPost(obs *c33Obs, post *c33Post, o3 *c33Obs) (vs []c33V) {
	v := func(class, format string, a ...any) { vs = append(vs, c33V{class, fmt.Sprintf(format, a...)}) }
	for name := range obs.Topics {
		if _, ok := o3.Topics[name]; !ok {
			v("acked-topic-lost-after-recovery", "topic %s was present after the first recovery but is missing after the second crash", name)
		}
	}
	tps := make([]string, 0, len(post.batches))
	for tp := range post.batches {
		tps = append(tps, tp)
	}
	sort.Strings(tps)
	for _, tp := range tps {
		p1, p3 := obs.Parts[tp], o3.Parts[tp]
		if p3 == nil || p3.Err != "" {
			v("acked-produce-lost-after-recovery", "%s: partition unreadable after the second crash (%v)", tp, p3)
			continue
		}
		if p3.RUTrailing != 0 {
			v("partial-batch-visible", "%s: %d trailing bytes after the second crash", tp, p3.RUTrailing)
		}
		// align on the first batch of the first recovery (the log start may
		// legitimately move back on a full replay)
		ru3 := p3.RU
		if len(p1.RU) > 0 {
			k := 0
			for k < len(ru3) && ru3[k].First != p1.RU[0].First {
				k++
			}
			ru3 = ru3[k:]
		} else {
			k := 0
			for k < len(ru3) && ru3[k].First < post.bases[tp] {
				k++
			}
			ru3 = ru3[k:]
		}
		want := len(p1.RU) + 1
		if len(ru3) < want {
			what := "the batch acknowledged by the recovered cluster"
			if len(ru3) < len(p1.RU) {
				what = "a batch that was visible after the first recovery"
			}
			v("acked-produce-lost-after-recovery", "%s: after the second crash the log holds %d of the expected %d batches (high watermark %d, expected %d): %s is missing", tp, len(ru3), want, p3.HWM, post.bases[tp]+1, what)
			continue
		}
		ok := len(ru3) == want
		for k := 0; ok && k < len(p1.RU); k++ {
			ok = ru3[k].Hash == p1.RU[k].Hash && ru3[k].CRCOK
		}
		if ok {
			nb := ru3[want-1]
			raw := post.batches[tp]
			ok = nb.CRCOK && nb.First == post.bases[tp] && len(nb.Raw) == len(raw) && bytes.Equal(nb.Raw[16:], raw[16:])
		}
		if !ok {
			v("foreign-batch-visible-after-recovery", "%s: after the second crash the log is not (log after first recovery) + (batch acknowledged by the recovered cluster)", tp)
			continue
		}
		if p3.HWM != post.bases[tp]+1 {
			v("hwm-mismatch", "%s: high watermark %d after the second crash, expected %d", tp, p3.HWM, post.bases[tp]+1)
		}
	}
	cks := make([]string, 0, len(post.commits))
	for k := range post.commits {
		cks = append(cks, k)
	}
	sort.Strings(cks)
	for _, k := range cks {
		if got, ok := o3.Offsets[k]; !ok || got != post.commits[k] {
			v("acked-commit-lost-after-recovery", "%s: the recovered cluster acknowledged offset %d, after the second crash the committed offset is %v (present=%v)", k, post.commits[k].Offset, got, ok)
		}
	}
	return vs
}

// c33ValidFramedBytes is the harness' own reading of the framed state-log
// format ([len u32le][crc32c u32le][version u16le + data]): number of leading
// bytes that form whole, checksummed entries.
func c33ValidFramedBytes(raw []byte) int {
	pos := 0
	for pos+10 <= len(raw) {
		l := int(binary.LittleEndian.Uint32(raw[pos:]))
		if l < 2 || pos+8+l > len(raw) {
			break
		}
		if crc32.Checksum(raw[pos+8:pos+8+l], crc32.MakeTable(crc32.Castagnoli)) != binary.LittleEndian.Uint32(raw[pos+4:]) {
			break
		}
		pos += 8 + l
	}
	return pos
}

// c33IndexBehindSegment reports whether some segment file of the crash state
// holds more whole batches than its index file holds valid entries.
func c33IndexBehindSegment(m *c33FS) bool {
	for p, d := range m.files {
		if !strings.HasSuffix(p, ".dat") || !strings.Contains(p, "/partitions/") {
			continue
		}
		bs, _ := c33ParseBatches(d.data)
		valid := 0
		if x, ok := m.files[strings.TrimSuffix(p, ".dat")+".idx"]; ok {
			for o := 0; o+indexEntrySize <= len(x.data); o += indexEntrySize {
				if _, _, _, ok := decodeIndexEntry(x.data[o : o+indexEntrySize]); !ok {
					break
				}
				valid++
			}
		}
		if len(bs) > valid {
			return true
		}
	}
	return false
}

// c33Enumerate walks every prefix of the log and every (deviation-bounded)
// loss pattern and hands the distinct crash states to the workers.
func c33Enumerate(l *c33Live, widx int, renameVariant, fullProduct bool, jobs chan<- *c33Job, st *c33Stats, r *ev.Run) {
	log := l.fs.log
	rep := c33NewReplay()
	seen := map[uint64]struct{}{}
	emit := func(i int, fsys *c33FS, kind string, rank int, pattern, variant string, lostAt int) {
		st.mu.Lock()
		st.enumerated++
		st.byKind[kind+variantSuffix(variant)]++
		st.mu.Unlock()
		h := fsys.hash() ^ (l.ref.reqSig(i) * 0x9e3779b97f4a7c15) ^ uint64(widx+1)<<56
		if variant != "" {
			h ^= 0x5555
		}
		if _, ok := seen[h]; ok {
			return
		}
		seen[h] = struct{}{}
		r.DistinctHash(h)
		st.mu.Lock()
		st.distinct++
		st.transitions += int64(i)
		st.mu.Unlock()
		jobs <- &c33Job{wl: l, widx: widx, prefix: i, fsys: fsys, kind: kind, rank: rank, pattern: pattern, variant: variant, lostAt: lostAt}
	}
	lastSync := -1
	for i := 0; i <= len(log); i++ {
		if i > 0 {
			rep.apply(log[i-1], false)
			if log[i-1].K == c33Sync {
				lastSync = i - 1
			}
		}
		// inodes reachable by a path that have unsynced data operations
		var devs []int
		inoPath := map[int]string{}
		for p, id := range rep.files {
			if _, ok := inoPath[id]; !ok || p < inoPath[id] {
				inoPath[id] = p
			}
		}
		for id, p := range inoPath {
			_ = p
			if len(rep.inodes[id].pending) > 0 {
				devs = append(devs, id)
			}
		}
		sort.Ints(devs)
		if len(devs) == 0 {
			emit(i, rep.materialise(0, c33Choice{}, true), "prefix-only", 0, "no unsynced data", "", 0)
		} else {
			emit(i, rep.materialise(0, c33Choice{}, true), "all-kept", 1, "all unsynced writes kept", "", 0)
			emit(i, rep.materialise(0, c33Choice{}, false), "none-kept", 2, "no unsynced write kept", "", 0)
			// thorough: full cartesian product across files when it is small
			product := 1
			lists := make([][]c33Choice, len(devs))
			for k, id := range devs {
				lists[k] = c33Choices(rep.inodes[id].pending)
				if product <= c33ProductCap {
					product *= len(lists[k])
				}
			}
			if fullProduct && len(devs) > 1 && product <= c33ProductCap {
				st.mu.Lock()
				st.productPrefixes++
				st.mu.Unlock()
				idx := make([]int, len(devs))
				for {
					m := map[int]c33Choice{}
					kind, rank := "partial", 3
					var desc []string
					for k, id := range devs {
						ch := lists[k][idx[k]]
						m[id] = ch
						if ch.Torn >= 0 {
							kind, rank = "torn", 4
						}
						desc = append(desc, fmt.Sprintf("%s: %s of %d", inoPath[id], ch, len(rep.inodes[id].pending)))
					}
					emit(i, rep.materialiseMulti(m, true), kind, rank, "product{"+strings.Join(desc, "; ")+"}", "", 0)
					k := 0
					for ; k < len(idx); k++ {
						idx[k]++
						if idx[k] < len(lists[k]) {
							break
						}
						idx[k] = 0
					}
					if k == len(idx) {
						break
					}
				}
				goto variants
			}
			if len(devs) > 1 {
				st.mu.Lock()
				st.boundedPrefixes++
				st.mu.Unlock()
			}
			for _, id := range devs {
				pend := rep.inodes[id].pending
				for _, ch := range c33Choices(pend) {
					for _, baseAll := range []bool{true, false} {
						if ch.Torn < 0 && ((baseAll && ch.Keep == len(pend)) || (!baseAll && ch.Keep == 0)) {
							continue // the two base states above
						}
						kind, rank := "partial", 3
						if ch.Torn >= 0 {
							kind, rank = "torn", 4
						}
						base := "others none kept"
						if baseAll {
							base = "others all kept"
						}
						if len(devs) == 1 {
							base = "single file"
							if !baseAll {
								continue
							}
						}
						emit(i, rep.materialise(id, ch, baseAll), kind, rank,
							fmt.Sprintf("%s: %s of %d unsynced ops (%s)", inoPath[id], ch, len(pend), base), "", 0)
					}
				}
			}
		}
	variants:
		if renameVariant {
			// renames after the last Sync in the prefix are lost together
			// with every later namespace operation
			for jx := lastSync + 1; jx < i; jx++ {
				if log[jx].K != c33Rename {
					continue
				}
				alt := c33NewReplay()
				for k := 0; k < i; k++ {
					alt.apply(log[k], k >= jx)
				}
				for _, baseAll := range []bool{true, false} {
					emit(i, alt.materialise(0, c33Choice{}, baseAll), "rename-lost", 5,
						fmt.Sprintf("namespace operations from op %d [%s] on are lost (unsynced data kept=%v)", jx+1, log[jx], baseAll), "rename-lost", jx)
				}
			}
		}
	}
}

func variantSuffix(v string) string {
	if v == "" {
		return ""
	}
	return "/" + v
}

/////////////////////////////////////////////////////////////////////////////
// Workloads
/////////////////////////////////////////////////////////////////////////////

// Workload A: create topic, idempotent produce, transactional produce,
// offset commit, clean Close + reopen with the transaction open, EndTxn
// (commit), more produce/commit, final clean restart.
func c33WorkloadA(vs *c33Viols, widx int) *c33Live {
	l := c33NewLive("A-txn-commit-across-restart", vs)
	l.createTopic("t", 1, nil)
	pi := l.initPID("")
	l.produce(pi, "t/0", 2)
	pt := l.initPID("tx")
	l.addParts(pt, "t/0")
	l.produce(pt, "t/0", 1)
	l.commit("g", "t/0", 2)
	l.restart(widx, pi, pt)
	l.endTxn(pt, true)
	l.produce(pi, "t/0", 1)
	l.commit("g", "t/0", 4)
	l.finish(widx, pi, pt)
	return l
}

// Workload B: two partitions, a segment roll on every batch, DeleteRecords
// that removes whole segment files, a transaction spanning both partitions
// that is aborted after the restart.
func c33WorkloadB(vs *c33Viols, widx int) *c33Live {
	l := c33NewLive("B-segments-deleterecords-abort", vs)
	l.createTopic("b", 2, map[string]string{"segment.bytes": "1"})
	pi := l.initPID("")
	l.produce(pi, "b/0", 2)
	l.produce(pi, "b/0", 1)
	l.produce(pi, "b/1", 1)
	pt := l.initPID("txb")
	l.addParts(pt, "b/0", "b/1")
	l.produce(pt, "b/0", 1)
	l.produce(pt, "b/1", 1)
	l.commit("g", "b/0", 2)
	l.commit("g", "b/1", 1)
	l.deleteRecords("b/0", 2)
	l.restart(widx, pi, pt)
	l.endTxn(pt, false)
	l.produce(pi, "b/0", 1)
	l.commit("g", "b/0", 5)
	l.deleteRecords("b/0", 3)
	l.finish(widx, pi, pt)
	return l
}

// Workload C: two topics, offsets committed inside a transaction
// (AddOffsetsToTxn + TxnOffsetCommit + EndTxn), state-log compaction of
// groups.log / pids.log (temp + rename while serving), a second transaction
// after the restart.
func c33WorkloadC(vs *c33Viols, widx int) *c33Live {
	l := c33NewLive("C-two-topics-txn-offsets-compaction", vs, BrokerConfigs(map[string]string{"state.log.compact.bytes": "300"}))
	l.createTopic("c1", 1, nil)
	l.createTopic("c2", 1, nil)
	pt := l.initPID("txc")
	l.addParts(pt, "c1/0", "c2/0")
	l.produce(pt, "c1/0", 1)
	l.produce(pt, "c2/0", 2)
	s := l.txnOffsets(pt, "gc", "c1/0", 1)
	l.endTxn(pt, true, s)
	l.commit("gc", "c2/0", 1)
	l.commit("gc", "c2/0", 2)
	pi := l.initPID("")
	l.produce(pi, "c1/0", 1)
	l.restart(widx, pi, pt)
	l.addParts(pt, "c1/0")
	l.produce(pt, "c1/0", 1)
	l.endTxn(pt, true)
	l.commit("gc", "c1/0", 3)
	l.finish(widx, pi, pt)
	return l
}

/////////////////////////////////////////////////////////////////////////////
// Entry point
/////////////////////////////////////////////////////////////////////////////

func c33BuildDir() string {
	if b := os.Getenv("BUILD"); b != "" {
		return b
	}
	return filepath.Join(ev.Root(), "build")
}

func TestVerifC33(t *testing.T) {
	if p := os.Getenv("C33_REPLAY"); p != "" {
		c33Replayer(p)
		return
	}
	if os.Getenv("C33_CHILD") == "" {
		c33Parent()
		return
	}
	c33Child()
}

// c33Parent runs the enumeration in a child process so that a panic inside a
// kfake goroutine during some recovery (which cannot be recovered in-process)
// is still reported as a violation with the crash state that caused it.
func c33Parent() {
	curDir := filepath.Join(c33BuildDir(), "c33-cur")
	os.RemoveAll(curDir)
	os.MkdirAll(curDir, 0o755)
	cmd := exec.Command(os.Args[0], "-test.run", "^TestVerifC33$", "-test.timeout", "0")
	cmd.Env = append(os.Environ(), "C33_CHILD=1", "C33_CURDIR="+curDir)
	var tail c33Tail
	cmd.Stdout = os.Stdout
	cmd.Stderr = io.MultiWriter(os.Stderr, &tail)
	err := cmd.Run()
	code := 0
	if err != nil {
		code = 2
		var ee *exec.ExitError
		if errors.As(err, &ee) {
			code = ee.ExitCode()
		}
	}
	s := tail.String()
	crashed := strings.Contains(s, "\npanic: ") || strings.HasPrefix(s, "panic: ") || strings.Contains(s, "fatal error: ") || strings.Contains(s, "\ngoroutine ")
	if (code == 0 || code == 1) && !crashed {
		os.Exit(code)
	}
	if !crashed {
		os.Exit(code) // infrastructure error reported by the child
	}
	// the process died: report the crash states that were being recovered
	r := ev.New("C33", "model_checking")
	r.Rule("child process crashed during the enumeration; see violation")
	var cur []json.RawMessage
	ents, _ := os.ReadDir(curDir)
	for _, e := range ents {
		if b, err := os.ReadFile(filepath.Join(curDir, e.Name())); err == nil {
			cur = append(cur, b)
		}
	}
	r.NotExhaustive("process crashed before the enumeration finished")
	r.Violation("C33:process-crash-during-recovery", "the test process died (panic / fatal error in a kfake goroutine) while recovering one of the listed crash states", map[string]any{
		"in_flight_crash_states": cur, "stderr_tail": s,
	})
	os.Exit(r.Write())
}

type c33Tail struct {
	mu sync.Mutex
	b  []byte
}

func (t *c33Tail) Write(p []byte) (int, error) {
	t.mu.Lock()
	defer t.mu.Unlock()
	t.b = append(t.b, p...)
	if len(t.b) > 16384 {
		t.b = t.b[len(t.b)-16384:]
	}
	return len(p), nil
}
func (t *c33Tail) String() string { t.mu.Lock(); defer t.mu.Unlock(); return string(t.b) }

func c33Child() {
	r := ev.New("C33", "model_checking")
	vs := c33NewViols()
	thorough := ev.Thorough()
	c33ZeroFill = thorough
	c33ZeroFillMid = true
	curDir := os.Getenv("C33_CURDIR")

	builders := []func(*c33Viols, int) *c33Live{c33WorkloadA}
	if thorough {
		builders = append(builders, c33WorkloadB, c33WorkloadC)
	}
	st := &c33Stats{byKind: map[string]int64{}, outcomes: map[uint64]struct{}{}}
	type wsum struct {
		Name     string
		Ops      int
		Steps    []c33StepLog
		Unsynced int
	}
	var sums []wsum
	for widx, b := range builders {
		l := b(vs, widx)
		sums = append(sums, wsum{Name: l.name, Ops: len(l.fs.log), Steps: l.steps})
		if widx == 0 {
			var ops []string
			for k, o := range l.fs.log {
				if k >= 60 {
					break
				}
				ops = append(ops, o.String())
			}
			r.Sample(map[string]any{"workload": l.name, "first_ops_of_log": ops})
		}
		r.Sample(map[string]any{"workload": l.name, "fs_ops": len(l.fs.log), "steps(issue,ack)": l.steps})
		jobs := make(chan *c33Job, 64)
		var wg sync.WaitGroup
		for w := 0; w < ev.Workers(); w++ {
			wg.Add(1)
			cur := ""
			if curDir != "" {
				cur = filepath.Join(curDir, fmt.Sprintf("w%02d.json", w))
			}
			go func() {
				defer wg.Done()
				for j := range jobs {
					c33Recover(j, vs, st, cur)
				}
			}()
		}
		c33Enumerate(l, widx, thorough, thorough, jobs, st, r)
		close(jobs)
		wg.Wait()
	}

	r.Rule("every prefix of the recorded fs-operation log of each workload (crash after operation i, all i) x loss patterns of data written after the last Sync of each file: {all kept, none kept, every proper prefix of the unsynced ops, the last kept write torn at byte 1 / middle / len-1 (plus torn writes whose size update reached the disk, the lost tail reading back as zeros up to the full length: quick at the middle tear point, thorough at all three)}; across files: quick is deviation-bounded (one file deviates, the others all-kept or none-kept), thorough takes the full cartesian product whenever it has <= 600 combinations (else deviation-bounded; counted); directory operations durable in order (the source never syncs directories); thorough adds the variant where a rename not followed by any Sync is lost with all later namespace operations. A state is distinct by content hash of the materialised file system + the set of acknowledged/issued operations at that point; each distinct state is recovered by a fresh real cluster and read back through the protocol; the recovered cluster then acknowledges one produce per partition and one offset commit per group and is crashed again (all acknowledged data was fsynced; unsynced data lost / kept), and a third cluster must show the first recovery's log + the new batches and commits")
	r.Assume("the response observed by the client is the acknowledgement; its ack point is the fs-log length when the response arrived (a Sync issued after sending the response but before the client observed it would be missed)",
		"write/truncate of one file become durable in issue order (prefix loss + one torn write), fsync makes all earlier data operations of that inode durable",
		"forEachPartition runs partition saves in goroutines: the interleaving of their fs operations in the recorded log is whatever this run produced",
		"DeleteRecords log-start durability is not demanded (the source documents it as lossy); read_committed isolation of never-committed transactions is checked as its own class")
	r.Evals(st.enumerated)
	r.States(st.distinct)
	r.Transitions(st.transitions)
	r.Traces(st.recovered)
	r.Set("crash_states_enumerated", st.enumerated)
	r.Set("crash_states_distinct", st.distinct)
	r.Set("recoveries_on_real_implementation", st.recovered)
	r.Set("distinct_recovered_outcomes", len(st.outcomes))
	r.Set("states_by_pattern_kind", st.byKind)
	r.Set("recovered_clusters_continued_and_crashed_again", st.continued)
	r.Set("workloads", sums)
	r.Set("prefixes_with_several_unsynced_files_full_product", st.productPrefixes)
	r.Set("prefixes_with_several_unsynced_files_deviation_bounded", st.boundedPrefixes)
	r.Set("bound_completed", fmt.Sprintf("%d workload(s), all prefixes, all per-file loss patterns (see rule for the cross-file bound)", len(builders)))
	for k, n := range vs.info {
		r.Set(k, n)
	}
	if _, ok := vs.info["informational_rename_loss_failures"]; !ok && thorough {
		r.Set("informational_rename_loss_failures", 0)
	}

	keys := make([]string, 0, len(vs.best))
	for k := range vs.best {
		keys = append(keys, k)
	}
	sort.Slice(keys, func(a, b int) bool {
		x, y := vs.best[keys[a]], vs.best[keys[b]]
		if x.WIdx != y.WIdx {
			return x.WIdx < y.WIdx
		}
		if x.Prefix != y.Prefix {
			return x.Prefix < y.Prefix
		}
		return keys[a] < keys[b]
	})
	for _, k := range keys {
		w := vs.best[k]
		w.Artefact["states_with_this_key"] = vs.count[k]
		r.Violation(k, fmt.Sprintf("%s  [%d crash states hit this class; this is the earliest]", w.What, vs.count[k]), w.Artefact)
	}
	os.Exit(r.Write())
}

// c33Replayer re-runs one violation artefact: materialise the stored crash
// state, start a cluster on it and print what the protocol shows.
func c33Replayer(path string) {
	b, err := os.ReadFile(path)
	if err != nil {
		ev.InfraError("replay: %v", err)
	}
	var doc struct {
		Key      string
		What     string
		Artefact struct {
			FS   map[string]string `json:"fs"`
			Dirs []string          `json:"dirs"`
		}
	}
	if err := json.Unmarshal(b, &doc); err != nil {
		ev.InfraError("replay: %v", err)
	}
	fmt.Printf("replaying %s\n  %s\n", doc.Key, doc.What)
	if len(doc.Artefact.FS) == 0 {
		fmt.Println("artefact has no crash state (clean-restart finding: re-run the check)")
		os.Exit(0)
	}
	fsys := c33FSFromDump(doc.Artefact.FS, doc.Artefact.Dirs)
	var extra []Opt
	if strings.Contains(doc.What, "workload C-") {
		extra = append(extra, BrokerConfigs(map[string]string{"state.log.compact.bytes": "300"}))
	}
	initial := fsys.clone()
	fsys.rec = true
	n, err := c33Start(fsys, extra)
	if err != nil {
		fmt.Printf("verdict: VIOLATION reproduced: NewCluster failed: %v\n", err)
		os.Exit(1)
	}
	ref := c33NewRef()
	ctx, cancel := c33Ctx()
	defer cancel()
	mresp, err := kmsg.NewPtrMetadataRequest().RequestWith(ctx, n.cl)
	if err == nil {
		for _, t := range mresp.Topics {
			if t.Topic != nil {
				ref.Topics = append(ref.Topics, &c33TopicRef{Name: *t.Topic})
			}
		}
	}
	ref.Groups = []string{"g", "gc"}
	obs, err := c33Observe(n, ref, false)
	if err != nil {
		n.close()
		fmt.Printf("verdict: VIOLATION reproduced: recovered cluster unreadable: %v\n", err)
		os.Exit(1)
	}
	out, _ := json.MarshalIndent(obs, "", " ")
	fmt.Printf("state after recovery of the stored crash state:\n%s\n", out)
	if !strings.Contains(doc.Key, "after-recovery") {
		n.close()
		fmt.Println("verdict: compare with the artefact's \"observed\" / \"what\" (the reference model of the run is not stored)")
		os.Exit(0)
	}
	post, vs := c33Continue(n, ref, obs, 0)
	cut := fsys.logLen()
	n.close()
	rep := c33ReplayFrom(initial)
	for _, o := range fsys.log[:cut] {
		rep.apply(o, false)
	}
	n3, err := c33Start(rep.materialise(0, c33Choice{}, false), extra)
	if err != nil {
		fmt.Printf("verdict: VIOLATION reproduced: second recovery failed: %v\n", err)
		os.Exit(1)
	}
	o3, err := c33Observe(n3, post.ref, false)
	n3.close()
	if err != nil {
		fmt.Printf("verdict: VIOLATION reproduced: second recovery unreadable: %v\n", err)
		os.Exit(1)
	}
	vs = append(vs, c33CheckPost(obs, post, o3)...)
	fmt.Printf("acknowledged by the recovered cluster: %v\n", post.desc)
	for _, x := range vs {
		fmt.Printf("  %s: %s\n", x.Class, x.What)
	}
	if len(vs) > 0 {
		fmt.Println("verdict: VIOLATION reproduced")
		os.Exit(1)
	}
	fmt.Println("verdict: held (not reproduced)")
	os.Exit(0)
}
