package kgo

// C26 in-package harness: sticky balancing is optimal and keeps balanced
// assignments.
//
// The cooperative-sticky balancer's public Balance applies AdjustCooperative
// to the sticky engine's plan before returning it, so the plan *before* the
// cooperative adjustment is only reachable from inside package kgo. For every
// input of the shared enumeration (verif/checks/c25/balenum, the same one C25
// sweeps) this harness does what the leader does up to the engine call:
//
//	JoinGroupMetadata per member (+ rack injection) -> NewConsumerBalancer ->
//	partition-count map -> cb.partitionRacks -> the []sticky.GroupMember that
//	stickyBalancer.Balance builds -> sticky.BalanceWithRacks
//
// For the eager sticky balancer the real stickyBalancer.Balance is called (it
// does not adjust). Oracles: balenum.CheckValid (complete, before adjustment),
// balenum.CheckOptimal (brute-force chain-of-moves optimality) and
// balenum.CheckStaysPut. Results go to $C26_SUMMARY as JSON; checks/c26/main.go
// turns them into the evidence file.

import (
	"encoding/json"
	"fmt"
	"os"
	"runtime"
	"sort"
	"strings"
	"sync"
	"testing"
	"time"

	"github.com/twmb/franz-go/pkg/kgo/internal/sticky"
	"github.com/twmb/franz-go/pkg/kmsg"

	"verif/checks/c25/balenum"
)

type c26Artefact struct {
	Balancer string        `json:"balancer"`
	Case     *balenum.Case `json:"case"`
	Input    string        `json:"input"`
	Plan     string        `json:"plan"`
}

func c26Members(b GroupBalancer, c *balenum.Case) ([]kmsg.JoinGroupResponseMember, error) {
	members := make([]kmsg.JoinGroupResponseMember, 0, c.N)
	for i := 0; i < c.N; i++ {
		meta := b.JoinGroupMetadata(c.TopicsOf(i), c.Owned(i), c.Gens[i])
		if c.MRack != nil && c.MRack[i] != "" { // joinGroupProtocols' rack injection
			var m kmsg.ConsumerMemberMetadata
			if err := m.ReadFrom(meta); err != nil {
				return nil, err
			}
			if m.Rack == nil {
				rack := c.MRack[i]
				m.Rack = &rack
				if m.Version < 3 {
					m.Version = 3
				}
				meta = m.AppendTo(nil)
			}
		}
		jm := kmsg.NewJoinGroupResponseMember()
		jm.MemberID = c.ID(i)
		if iid := c.InstanceID(i); iid != "" {
			jm.InstanceID = &iid
		}
		jm.ProtocolMetadata = meta
		members = append(members, jm)
	}
	sortJoinMembers(members) // as balanceGroup does
	return members, nil
}

// c26Plan returns the sticky engine's plan before any cooperative adjustment.
func c26Plan(coop bool, c *balenum.Case) (plan balenum.Plan, err error) {
	defer func() {
		if r := recover(); r != nil {
			plan, err = nil, fmt.Errorf("panic: %v at %s", r, c26PanicSite())
		}
	}()
	s := &stickyBalancer{cooperative: coop}
	members, err := c26Members(s, c)
	if err != nil {
		return nil, err
	}
	cb, err := NewConsumerBalancer(s, members)
	if err != nil {
		return nil, err
	}
	counts := c.Counts(cb.MemberTopics())
	cb.partitionRacks = c.PartitionRacks(counts)
	if !coop {
		p, ok := s.Balance(cb, counts).(*BalancePlan)
		if !ok {
			return nil, fmt.Errorf("sticky Balance did not return a *BalancePlan")
		}
		return p.AsMemberIDMap(), nil
	}
	// stickyBalancer.Balance, up to and excluding p.AdjustCooperative(b)
	stickyMembers := make([]sticky.GroupMember, 0, len(cb.Members()))
	cb.EachMember(func(member *kmsg.JoinGroupResponseMember, meta *kmsg.ConsumerMemberMetadata) {
		var rack string
		if meta.Rack != nil {
			rack = *meta.Rack
		}
		stickyMembers = append(stickyMembers, sticky.GroupMember{
			ID:          member.MemberID,
			Topics:      meta.Topics,
			UserData:    meta.UserData,
			Owned:       meta.OwnedPartitions,
			Generation:  meta.Generation,
			Cooperative: s.cooperative,
			Rack:        rack,
		})
	})
	return sticky.BalanceWithRacks(stickyMembers, counts, cb.partitionRacks), nil
}

// c26PanicSite names the first franz-go frame of the panicking stack.
func c26PanicSite() string {
	pcs := make([]uintptr, 32)
	n := runtime.Callers(3, pcs)
	frames := runtime.CallersFrames(pcs[:n])
	for {
		f, more := frames.Next()
		if strings.Contains(f.Function, "franz-go/pkg/kgo") && !strings.Contains(f.Function, "c26") {
			return fmt.Sprintf("%s:%d", f.Function[strings.LastIndex(f.Function, "/")+1:], f.Line)
		}
		if !more {
			return "?"
		}
	}
}

func c26Check(coop bool, c *balenum.Case) (plan balenum.Plan, v *balenum.Verdict, staysApplicable bool) {
	plan, err := c26Plan(coop, c)
	if err != nil {
		if strings.HasPrefix(err.Error(), "panic: ") {
			return nil, &balenum.Verdict{Key: "panic", What: "the balancer panicked (recovered per case): " + err.Error()}, false
		}
		return nil, &balenum.Verdict{Key: "error", What: err.Error()}, false
	}
	if iv := balenum.CheckValid(c, plan, false); iv != nil {
		return plan, &balenum.Verdict{Key: "invalid-plan-" + iv.Key, What: "the plan before the cooperative adjustment is not a valid complete assignment: " + iv.What}, false
	}
	if why := balenum.CheckOptimal(c, plan); why != "" {
		return plan, &balenum.Verdict{Key: "not-optimal", What: "the plan is not optimally balanced: " + why}, false
	}
	app, sv := balenum.CheckStaysPut(c, plan)
	return plan, sv, app
}

func c26Name(coop bool) string {
	if coop {
		return "cooperative-sticky"
	}
	return "sticky"
}

func TestVerifC26(t *testing.T) {
	if p := os.Getenv("VERIF_REPLAY"); p != "" {
		b, err := os.ReadFile(p)
		if err != nil {
			fmt.Println("replay:", err)
			os.Exit(2)
		}
		var f struct {
			Artefact c26Artefact `json:"artefact"`
		}
		if json.Unmarshal(b, &f) != nil || f.Artefact.Case == nil {
			fmt.Println("replay: not a C26 artefact")
			os.Exit(2)
		}
		coop := f.Artefact.Balancer == "cooperative-sticky"
		fmt.Printf("replaying %s (plan before cooperative adjustment) on\n%s", f.Artefact.Balancer, f.Artefact.Case.Describe())
		bad := 0
		for i := 0; i < 32; i++ { // map iteration order inside the engine varies
			plan, v, _ := c26Check(coop, f.Artefact.Case)
			if v != nil {
				bad++
				if bad == 1 {
					fmt.Printf("VIOLATION reproduced: %s: %s\n  plan: %s\n", v.Key, v.What, balenum.FormatPlan(plan))
				}
			}
		}
		fmt.Printf("%d/32 runs violate\n", bad)
		if bad > 0 {
			os.Exit(1)
		}
		os.Exit(0)
	}
	out := os.Getenv("C26_SUMMARY")
	if out == "" {
		t.Skip("C26_SUMMARY not set")
	}
	t0 := time.Now()
	thorough := os.Getenv("VERIF_TIER") == "thorough"
	st := balenum.StickyTier(thorough)
	blocks := balenum.StickyBlocks(st)
	cx := balenum.ComplexTier(thorough)
	blocks = append(blocks, balenum.ComplexBlocks(cx)...)
	// time slice: stop handing out blocks after this long and say so
	slice := 8 * time.Minute
	if thorough {
		slice = 75 * time.Minute
	}
	if v := os.Getenv("C26_SLICE_S"); v != "" {
		var sec int
		fmt.Sscan(v, &sec)
		slice = time.Duration(sec) * time.Second
	}
	deadline := t0.Add(slice)
	var cutBlocks int
	var dropped int64
	balenum.TuneGC(256 << 20)
	workers := 16
	fmt.Sscan(os.Getenv("VERIF_WORKERS"), &workers)

	type job struct {
		coop bool
		blk  *balenum.Block
	}
	coll := balenum.NewCollector()
	ch := make(chan job, 256)
	var wg sync.WaitGroup
	var mu sync.Mutex
	var evals, stays, uneven, moved int64
	per := map[string]int64{}
	perSweep := map[string]int64{}
	all := map[uint64]struct{}{}
	for w := 0; w < workers; w++ {
		wg.Add(1)
		go func() {
			defer wg.Done()
			var lEvals, lStays, lUneven, lMoved int64
			lPer := map[string]int64{}
			lSweep := map[string]int64{}
			distinct := balenum.NewHashSet(1 << 18) // bounded; refusals are counted
			for j := range ch {
				name := c26Name(j.coop)
				shape := balenum.Hash64(fmt.Sprintf("%s|%d|%v|%v", name, j.blk.N, j.blk.Parts, j.blk.Subs))
				unevenSubs := false
				for i := 1; i < j.blk.N; i++ {
					if j.blk.Subs[i] != j.blk.Subs[0] {
						unevenSubs = true
					}
				}
				n := j.blk.Each(func(c *balenum.Case) {
					plan, v, app := c26Check(j.coop, c)
					lEvals++
					if app {
						lStays++
					}
					if unevenSubs {
						lUneven++
					}
					if j.blk.N >= 2 {
						distinct.Add(shape ^ balenum.PlanCode(c, plan)*0x9e3779b97f4a7c15)
					}
					if plan != nil {
						for i := 0; i < c.N; i++ {
							if c.Claims(i) > 0 && balenum.PlanCode(c, balenum.Plan{c.ID(i): c.Owned(i)}) != balenum.PlanCode(c, balenum.Plan{c.ID(i): plan[c.ID(i)]}) {
								lMoved++
								break
							}
						}
					}
					if v != nil {
						cc := c.Clone()
						coll.Add(name+":"+v.Key, v.What, balenum.CaseSize(c), func() any {
							return c26Artefact{name, cc, cc.Describe(), balenum.FormatPlan(plan)}
						})
					}
				})
				lPer[name] += n
				lSweep[j.blk.Sweep] += n
			}
			mu.Lock()
			evals += lEvals
			stays += lStays
			uneven += lUneven
			moved += lMoved
			for k, v := range lPer {
				per[k] += v
			}
			for k, v := range lSweep {
				perSweep[k] += v
			}
			distinct.Each(func(h uint64) { all[h] = struct{}{} })
			dropped += distinct.Dropped
			mu.Unlock()
		}()
	}
	var samples []any
	seen := map[string]bool{}
	for i := range blocks {
		b := &blocks[i]
		if time.Now().After(deadline) {
			cutBlocks = len(blocks) - i
			break
		}
		for _, coop := range []bool{false, true} {
			key := c26Name(coop) + "/" + b.Sweep
			if !seen[key] && (b.N == 3 && len(b.Parts) == 2 || b.N == 4 && len(b.Parts) == 3 && b.Parts[2] == 4 && b.Subs[0] == 1 && b.Subs[1] == 3 && b.Subs[2] == 6 && b.Subs[3] == 4) && b.Subs[0] != b.Subs[1] && b.Sweep != "special" && len(samples) < 8 {
				seen[key] = true
				cnt := 0
				b.Each(func(c *balenum.Case) {
					cnt++
					if cnt == 300 {
						plan, _, app := c26Check(coop, c)
						samples = append(samples, map[string]any{"balancer": c26Name(coop), "sweep": b.Sweep, "input": c.Describe(), "plan_before_adjustment": balenum.FormatPlan(plan), "loads": balenum.Loads(c, plan), "stays_put_oracle_applicable": app})
					}
				})
			}
			ch <- job{coop, b}
		}
	}
	close(ch)
	wg.Wait()

	dl := make([]uint64, 0, len(all))
	for h := range all {
		dl = append(dl, h)
	}
	sort.Slice(dl, func(i, j int) bool { return dl[i] < dl[j] })
	findings := coll.Findings()
	for i := range findings {
		a := findings[i].Artefact.(c26Artefact)
		findings[i].What = fmt.Sprintf("%s\n%splan: %s", findings[i].What, a.Input, a.Plan)
	}
	sum := map[string]any{
		"evals":            evals,
		"distinct":         dl,
		"per_balancer":     per,
		"per_sweep":        perSweep,
		"bound":            fmt.Sprintf("members<=%d; full prior sweep: total partitions<=%d (<=%d at %d members); special-member sweep: <=%d; rack sweep (2 racks, all placements): <=%d; topics<=2 with 1..3 partitions; count-map insertion orders: %s. Complex-path sweep: %s", st.MaxMembers, st.FullTotal, st.FullTotalAtMax, st.MaxMembers, st.SpecialTotal, st.RacksTotal, map[int]string{0: "one per input, alternating", 1: "one", 2: "both for every input (alternating at 6 partitions)"}[st.Orders], cx.String()),
		"samples":          samples,
		"findings":         findings,
		"wall_s":           time.Since(t0).Seconds(),
		"blocks":           len(blocks),
		"blocks_cut":       cutBlocks,
		"distinct_dropped": dropped,
		"extra": map[string]int64{
			"cases_where_stays_put_oracle_applied":  stays,
			"cases_with_uneven_subscriptions":       uneven,
			"cases_where_plan_moved_a_claimed_part": moved,
		},
	}
	js, _ := json.Marshal(sum)
	if err := os.WriteFile(out, js, 0o644); err != nil {
		fmt.Println("cannot write summary:", err)
		os.Exit(2)
	}
	fmt.Printf("C26 kgo harness: evaluations=%d distinct=%d violation_classes=%d\n", evals, len(dl), len(findings))
	os.Exit(0)
}
