package kgo

// C12 parts Q and Q2 (in-package harness, overlaid as zz_verif_test.go).
//
// Part Q: bounded exhaustive inputs of the acknowledgement range builder as
// the send path uses it: entries are queued on a real shareCursor with the
// real appendAck, gap ranges with the real enqueueGaps, both are drained with
// the real source.drainAllShareAcks (drainAcks), optionally passed through the
// real filterStaleEntries, given to the real buildAckRanges and turned into
// wire batches with ackTypes exactly as shareAck / createShareReq do. An
// independent reference (a plain offset -> type table) says what the wire
// batches of the partition must be.
//
// Part Q2: the documented "KNOWN WINDOW": every merge of the internal steps
// of the user side (tryAck CAS, appendAck) and of the sender side (drain,
// build+send, response handling) for scripts of 1-3 Ack calls over 1-2
// records; oracle: an offset leaves in at most one sent request with a final
// type.
//
// The summary goes to $C12Q_OUT as JSON; the engine-N binary (checks/c12)
// merges it into the evidence with nrun.MergeSummary.

import (
	"encoding/json"
	"fmt"
	"hash/fnv"
	"os"
	"sort"
	"strconv"
	"sync"
	"testing"
	"time"

	"github.com/twmb/franz-go/pkg/kerr"
)

const (
	c12KeyKnownOrder  = "C12:buildAckRanges:gap-after-entries-not-ascending"
	c12KeyKnownWindow = "C12:duplicate-terminal-ack:renew-drain-window"
)

// ---------------------------------------------------------------------------
// shared harness context: a share consumer skeleton, two sources, one cursor

type c12Ctx struct {
	sc      *shareConsumer
	src     [2]*source
	cur     *shareCursor
	slabs   [4]*shareAckSlab
	states  [8]shareAckState
	gapBuf  []shareAckRange
	wireBuf []c12Range
}

func (o c12Out) clone() c12Out {
	o.Wire = append([]c12Range(nil), o.Wire...)
	return o
}

// stamps: (source index, session epoch) an entry / gap was created under. The
// sending source is src[0] and its current session epoch is 2, so stamps 0 and
// 1 are live, 2 is "cursor migrated" and 3 is "session was reset".
var c12Stamps = [4]struct {
	src   int
	epoch int32
}{{0, 1}, {0, 2}, {1, 1}, {0, 3}}

const c12CurEpoch = 2

func c12Live(stamp int8) bool { return stamp == 0 || stamp == 1 }

func newC12Ctx() *c12Ctx {
	h := &c12Ctx{}
	sc := &shareConsumer{left: make(chan struct{})}
	sc.ackC = sync.NewCond(&sc.ackMu)
	sc.cond = sync.NewCond(&sc.mu)
	sc.dying = true
	h.sc = sc
	h.cur = &shareCursor{topic: "t", partition: 0}
	for i := range h.src {
		s := &source{nodeID: int32(i), sem: make(chan struct{})}
		s.share.s = s
		s.share.sc = sc
		s.share.ackCh = make(chan struct{}, 1)
		s.share.ackFlushCh = make(chan struct{}, 1)
		s.share.sessionParts = make(map[tidp]struct{})
		// Mark the fetch loop as already working so that signalShareAcks
		// (called by appendAck) never spawns loopShareFetch.
		s.fetchState.maybeBegin()
		h.src[i] = s
	}
	h.src[0].share.cursors = []*shareCursor{h.cur}
	h.src[0].share.sessionEpoch = c12CurEpoch
	h.cur.source.Store(h.src[0])
	for i, st := range c12Stamps {
		h.slabs[i] = &shareAckSlab{ackSource: h.src[st.src], cursor: h.cur, sessionEpoch: st.epoch}
	}
	return h
}

// ---------------------------------------------------------------------------
// Part Q

type c12Gap struct {
	First int8 `json:"first"`
	Last  int8 `json:"last"`
	Typ   int8 `json:"type"` // 0 gap, 2 release (decode failure / undeliverable)
	Stamp int8 `json:"stamp"`
}

type c12Case struct {
	Seq    []int8   `json:"entries_in_insertion_order_offsets"`
	Status [6]int8  `json:"status_by_offset"` // 0 unset 1 accept 2 release 3 reject 4 renew
	StampE [6]int8  `json:"stamp_by_offset"`
	Gaps   []c12Gap `json:"gaps_in_insertion_order"`
	Filter bool     `json:"through_filterStaleEntries"`
}

type c12Range struct {
	First int64  `json:"first"`
	Last  int64  `json:"last"`
	Types []int8 `json:"types"`
}

type c12Out struct {
	Wire     []c12Range `json:"wire_batches"`
	HasRenew bool       `json:"has_renew"`
	NUser    int64      `json:"n_user"`
	NStale   int64      `json:"n_stale"`
	StaleErr string     `json:"stale_err,omitempty"`
	Pending  int64      `json:"pending_after_append"`
}

func (h *c12Ctx) exec(c *c12Case) c12Out {
	var seen [6]bool
	for _, o := range c.Seq {
		if !seen[o] {
			seen[o] = true
			st := &h.states[o]
			st.status.Store(int32(c.Status[o]))
			st.offset = int64(o)
			st.deliveryCount = 1
			st.slab = h.slabs[c.StampE[o]]
		}
		h.states[o].appendAck()
	}
	if len(c.Gaps) > 0 {
		gs := h.gapBuf[:0]
		for _, g := range c.Gaps {
			st := c12Stamps[g.Stamp]
			gs = append(gs, shareAckRange{firstOffset: int64(g.First), lastOffset: int64(g.Last), source: h.src[st.src], sessionEpoch: st.epoch, ackType: g.Typ})
		}
		h.gapBuf = gs
		h.cur.enqueueGaps(gs) // appends copies to the cursor's own slice
	}
	var out c12Out
	out.Wire = h.wireBuf[:0]
	out.Pending = h.sc.pendingAcks.Load()
	h.sc.pendingAcks.Store(0)
	s := h.src[0]
	s.share.mu.Lock()
	epoch := s.share.sessionEpoch
	drains := s.drainAllShareAcks(false)
	s.share.mu.Unlock()
	if c.Filter {
		var res ShareAckResults
		out.NUser, out.NStale, res = filterStaleEntries(s, epoch, drains)
		if len(res) > 0 && res[0].Err != nil {
			out.StaleErr = res[0].Err.Error()
		}
		if len(res) > 1 {
			out.StaleErr = "more than one stale result for one cursor"
		}
	}
	for _, d := range drains {
		if len(d.entries) == 0 && len(d.gaps) == 0 {
			continue
		}
		ranges, hasRenew := buildAckRanges(d.entries, d.gaps)
		if hasRenew {
			out.HasRenew = true
		}
		for _, r := range ranges {
			out.Wire = append(out.Wire, c12Range{First: r.firstOffset, Last: r.lastOffset, Types: ackTypes(r.ackType)})
		}
	}
	h.wireBuf = out.Wire
	return out
}

type c12Finding struct {
	Key  string
	What string
}

// c12Check is the reference: what the wire batches of the partition must be.
func c12Check(c *c12Case, out *c12Out) []c12Finding {
	var (
		expHas  [8]bool
		expTyp  [8]int8
		seen    [6]bool
		expRen  bool
		nLive   int64
		nStale  int64
		wantErr string
	)
	for _, o := range c.Seq {
		live := !c.Filter || c12Live(c.StampE[o])
		if live {
			nLive++
		} else {
			nStale++
			if wantErr == "" {
				if c.StampE[o] == 3 {
					wantErr = kerr.InvalidShareSessionEpoch.Error()
				} else {
					wantErr = kerr.InvalidRecordState.Error()
				}
			}
		}
		if seen[o] {
			continue
		}
		seen[o] = true
		if c.Status[o] != 0 && live {
			expHas[o], expTyp[o] = true, c.Status[o]
			if c.Status[o] == 4 {
				expRen = true
			}
		}
	}
	for _, g := range c.Gaps {
		if c.Filter && !c12Live(g.Stamp) {
			continue
		}
		for o := g.First; o <= g.Last; o++ {
			expHas[o], expTyp[o] = true, g.Typ
		}
	}
	var f []c12Finding
	add := func(k, format string, a ...any) {
		if len(a) > 0 {
			format = fmt.Sprintf(format, a...)
		}
		f = append(f, c12Finding{k, format})
	}
	if out.Pending != int64(len(c.Seq)) {
		add("C12:appendAck:pending-counter", "after %d appendAck calls the pending-ack counter is %d", len(c.Seq), out.Pending)
	}
	if c.Filter {
		if out.NUser != nLive || out.NStale != nStale {
			add("C12:filterStaleEntries:counts", "filterStaleEntries counted live=%d stale=%d, reference live=%d stale=%d", out.NUser, out.NStale, nLive, nStale)
		}
		if out.StaleErr != wantErr {
			add("C12:filterStaleEntries:result", "stale result error %q, reference %q", out.StaleErr, wantErr)
		}
	}
	var (
		gotHas             [8]bool
		gotTyp             [8]int8
		dup, inverted, oob bool
		badTypes           bool
		asc                = true
	)
	for i, r := range out.Wire {
		if r.First > r.Last {
			inverted = true
			continue
		}
		if i > 0 && r.First <= out.Wire[i-1].Last {
			asc = false
		}
		if len(r.Types) != 1 {
			badTypes = true
			continue
		}
		for o := r.First; o <= r.Last; o++ {
			if o < 0 || o > 7 {
				oob = true
				continue
			}
			if gotHas[o] {
				dup = true
			}
			gotHas[o], gotTyp[o] = true, r.Types[0]
		}
	}
	coverageOK := !oob
	for o := 0; o < 8; o++ {
		if gotHas[o] != expHas[o] || (gotHas[o] && gotTyp[o] != expTyp[o]) {
			coverageOK = false
		}
	}
	switch {
	case inverted:
		add("C12:buildAckRanges:inverted-range", "a batch has first > last")
	case badTypes:
		add("C12:buildAckRanges:acktypes-shape", "a batch does not carry exactly one acknowledge type")
	case dup:
		add("C12:buildAckRanges:offset-in-two-batches", "an offset is covered by more than one batch of the partition")
	case !coverageOK:
		add("C12:buildAckRanges:coverage-or-type", "batches do not cover exactly the pending entries with a non-zero status (final type) plus the gaps: got %v/%v want %v/%v", gotHas, gotTyp, expHas, expTyp)
	case !asc:
		// Right offsets, right types, each offset once, but the list is not in
		// ascending order: sorting the emitted batches by first offset would
		// make it valid. This is exactly DESIGN.md section 5 item 2.
		add(c12KeyKnownOrder, "batches of the partition are not ascending (first <= previous last) although they cover the right offsets once each with the right types; kfake validateOneAckBatch and Kafka answer INVALID_REQUEST for the whole partition")
	}
	if !asc && (inverted || badTypes || dup || !coverageOK) {
		add("C12:buildAckRanges:not-ascending-other", "batches not ascending and not repairable by sorting")
	}
	if out.HasRenew != expRen {
		add("C12:buildAckRanges:hasRenew", "hasRenew=%v, reference %v", out.HasRenew, expRen)
	}
	return f
}

type c12Agg struct {
	mu       sync.Mutex
	viol     map[string]*c12Viol
	distinct map[uint64]struct{}
	capped   bool
	counters map[string]int64
	samples  []any
}

type c12Viol struct {
	Key      string `json:"key"`
	What     string `json:"what"`
	Count    int64  `json:"count"`
	Artefact any    `json:"artefact"`
	size     int
}

const c12DistinctCap = 6 << 20

const (
	c12cDup = iota
	c12cMix
	c12cGapBelow
	c12cSeveral
	c12cN
)

var c12cNames = [c12cN]string{"cases_with_duplicate_entry", "cases_mixing_entries_and_gaps", "cases_with_gap_below_an_entry", "cases_with_several_batches"}

type c12Local struct {
	fast     [c12cN]int64
	evals    int64
	distinct map[uint64]struct{}
	counters map[string]int64
	viol     map[string]*c12Viol
}

func newC12Local() *c12Local {
	return &c12Local{distinct: map[uint64]struct{}{}, counters: map[string]int64{}, viol: map[string]*c12Viol{}}
}

func (l *c12Local) violation(key, what string, size int, art func() any) {
	v := l.viol[key]
	if v == nil {
		v = &c12Viol{Key: key, What: what, size: 1 << 30}
		l.viol[key] = v
	}
	v.Count++
	if size < v.size {
		v.size, v.What, v.Artefact = size, what, art()
	}
}

func (a *c12Agg) merge(l *c12Local) {
	a.mu.Lock()
	defer a.mu.Unlock()
	for k := range l.distinct {
		if len(a.distinct) >= c12DistinctCap {
			a.capped = true
			break
		}
		a.distinct[k] = struct{}{}
	}
	for k, n := range l.counters {
		a.counters[k] += n
	}
	a.counters["evaluations"] += l.evals
	for k, v := range l.viol {
		w := a.viol[k]
		if w == nil {
			a.viol[k] = v
			continue
		}
		w.Count += v.Count
		if v.size < w.size {
			w.size, w.What, w.Artefact = v.size, v.What, v.Artefact
		}
	}
}

func c12HashOut(prefix byte, out *c12Out) uint64 {
	const prime = 1099511628211
	h := uint64(14695981039346656037)
	mix := func(b byte) { h ^= uint64(b); h *= prime }
	mix(prefix)
	if out.HasRenew {
		mix(1)
	} else {
		mix(0)
	}
	for _, r := range out.Wire {
		mix(byte(r.First))
		mix(byte(r.Last))
		for _, t := range r.Types {
			mix(byte(t))
		}
		mix(0xff)
	}
	return h
}

// gap sets per occupancy mask of offsets 0..5: every ordered list of <= maxGaps
// disjoint ranges inside 0..7 that avoid the occupied offsets.
func c12GapLists(mask int, maxGaps int) [][][2]int8 {
	free := func(o int8) bool { return o > 5 || mask&(1<<uint(o)) == 0 }
	var ranges [][2]int8
	for a := int8(0); a <= 7; a++ {
		for b := a; b <= 7; b++ {
			if !free(b) {
				break
			}
			ranges = append(ranges, [2]int8{a, b})
		}
	}
	out := [][][2]int8{nil}
	if maxGaps >= 1 {
		for _, r := range ranges {
			out = append(out, [][2]int8{r})
		}
	}
	if maxGaps >= 2 {
		for _, r1 := range ranges {
			for _, r2 := range ranges {
				if r1[1] < r2[0] || r2[1] < r1[0] {
					out = append(out, [][2]int8{r1, r2})
				}
			}
		}
	}
	return out
}

type c12Space struct {
	Name       string
	MaxEntries int
	MaxGaps    int
	Stamps     bool // enumerate every stamp assignment and go through filterStaleEntries
}

// c12RunSpace enumerates one space completely. Tasks are the sequences'
// first two offsets; every worker owns a harness context.
func c12RunSpace(sp c12Space, workers int, agg *c12Agg) {
	gapLists := make([][][][2]int8, 64)
	for m := range gapLists {
		gapLists[m] = c12GapLists(m, sp.MaxGaps)
	}
	type task struct {
		prefix  []int8
		subtree bool // also every extension of the prefix up to MaxEntries
	}
	tasks := []task{{nil, false}}
	if sp.MaxEntries >= 1 {
		for a := int8(0); a < 6; a++ {
			tasks = append(tasks, task{[]int8{a}, false})
			if sp.MaxEntries >= 2 {
				for b := int8(0); b < 6; b++ {
					tasks = append(tasks, task{[]int8{a, b}, true})
				}
			}
		}
	}
	ch := make(chan task, len(tasks))
	for _, t := range tasks {
		ch <- t
	}
	close(ch)
	var wg sync.WaitGroup
	for w := 0; w < workers; w++ {
		wg.Add(1)
		go func() {
			defer wg.Done()
			h := newC12Ctx()
			l := newC12Local()
			var c c12Case
			c.Filter = sp.Stamps
			nStamp := int8(1)
			if sp.Stamps {
				nStamp = 4
			}
			runCase := func() {
				out := h.exec(&c)
				l.evals++
				if len(l.distinct) < c12DistinctCap {
					var p byte
					if sp.Stamps {
						p = 1
					}
					l.distinct[c12HashOut(p, &out)] = struct{}{}
				}
				// coverage counters of non-trivial situations
				hasEntry := false
				var seen [6]bool
				dupEntry := false
				for _, o := range c.Seq {
					if seen[o] {
						dupEntry = true
					}
					seen[o] = true
					if c.Status[o] != 0 && (!c.Filter || c12Live(c.StampE[o])) {
						hasEntry = true
					}
				}
				if dupEntry {
					l.fast[c12cDup]++
				}
				if hasEntry && len(c.Gaps) > 0 {
					l.fast[c12cMix]++
					highestEntry := int8(-1)
					for o := int8(0); o < 6; o++ {
						if seen[o] && c.Status[o] != 0 && (!c.Filter || c12Live(c.StampE[o])) {
							highestEntry = o
						}
					}
					for _, g := range c.Gaps {
						if (!c.Filter || c12Live(g.Stamp)) && g.First < highestEntry {
							l.fast[c12cGapBelow]++
							break
						}
					}
				}
				if len(out.Wire) > 1 {
					l.fast[c12cSeveral]++
				}
				for _, f := range c12Check(&c, &out) {
					cc := c
					l.violation(f.Key, f.What, len(c.Seq)*4+len(c.Gaps)*4, func() any {
						cp := cc
						cp.Seq = append([]int8(nil), cc.Seq...)
						cp.Gaps = append([]c12Gap(nil), cc.Gaps...)
						return map[string]any{"part": "Q", "space": sp.Name, "case": cp, "output": out.clone()}
					})
				}
			}
			var gapRec func(gl [][2]int8, i int)
			gapRec = func(gl [][2]int8, i int) {
				if i == len(gl) {
					runCase()
					return
				}
				for _, typ := range []int8{0, 2} {
					for s := int8(0); s < nStamp; s++ {
						c.Gaps[i] = c12Gap{First: gl[i][0], Last: gl[i][1], Typ: typ, Stamp: s}
						gapRec(gl, i+1)
					}
				}
			}
			withGaps := func(mask int) {
				for _, gl := range gapLists[mask] {
					c.Gaps = c.Gaps[:0]
					for range gl {
						c.Gaps = append(c.Gaps, c12Gap{})
					}
					gapRec(gl, 0)
				}
			}
			// statuses (and stamps) for the distinct offsets of c.Seq
			var statusRec func(offs []int8, i int, mask int)
			statusRec = func(offs []int8, i int, mask int) {
				if i == len(offs) {
					withGaps(mask)
					return
				}
				o := offs[i]
				for s := int8(0); s <= 4; s++ {
					c.Status[o] = s
					for stp := int8(0); stp < nStamp; stp++ {
						c.StampE[o] = stp
						statusRec(offs, i+1, mask)
					}
				}
				c.Status[o], c.StampE[o] = 0, 0
			}
			complete := func() {
				var cnt [6]int
				var offs []int8
				mask := 0
				for _, o := range c.Seq {
					if cnt[o] == 0 {
						offs = append(offs, o)
						mask |= 1 << uint(o)
					}
					cnt[o]++
				}
				statusRec(offs, 0, mask)
			}
			var seqRec func(cnt *[6]int)
			seqRec = func(cnt *[6]int) {
				complete()
				if len(c.Seq) >= sp.MaxEntries {
					return
				}
				for o := int8(0); o < 6; o++ {
					if cnt[o] >= 2 {
						continue
					}
					cnt[o]++
					c.Seq = append(c.Seq, o)
					seqRec(cnt)
					c.Seq = c.Seq[:len(c.Seq)-1]
					cnt[o]--
				}
			}
			for t := range ch {
				var cnt [6]int
				c.Seq = c.Seq[:0]
				for _, o := range t.prefix {
					cnt[o]++
					c.Seq = append(c.Seq, o)
				}
				if t.subtree {
					seqRec(&cnt)
				} else {
					complete()
				}
			}
			for i, n := range l.fast {
				l.counters[sp.Name+"_"+c12cNames[i]] += n
			}
			agg.merge(l)
		}()
	}
	wg.Wait()
}

// ---------------------------------------------------------------------------
// Part Q2: merges of user-side and sender-side internal steps.

type c12Op struct {
	Rec    int8 `json:"record"` // 0: offset 3, 1: offset 4
	Status int8 `json:"status"`
}

type c12Round struct {
	Ops     []int      `json:"entries_appended_by_op"` // which Ack call appended each drained entry
	Snap    []int8     `json:"status_at_drain"`
	Wire    []c12Range `json:"wire_batches"`
	IsRenew bool       `json:"is_renew_ack"`
	Built   bool       `json:"sent"`
	entries []*shareAckState
}

var c12Q2Offsets = [2]int64{3, 4}

// c12RunQ2 executes one merge. sched[i] true = next user step, false = next
// sender step. Returns the rounds and findings.
func (h *c12Ctx) runQ2(ops []c12Op, rounds int, sched []bool) ([]*c12Round, []c12Finding) {
	var f []c12Finding
	add := func(k, format string, a ...any) { f = append(f, c12Finding{k, fmt.Sprintf(format, a...)}) }
	for i := range c12Q2Offsets {
		st := &h.states[i]
		st.status.Store(0)
		st.offset = c12Q2Offsets[i]
		st.deliveryCount = 1
		st.slab = h.slabs[1]
	}
	h.sc.pendingAcks.Store(0)
	h.cur.drainAcks(false)
	var (
		ref         [2]int8 // reference status machine
		casOK       = make([]bool, len(ops))
		shadow      []int
		rs          []*c12Round
		outstanding int64
		firstTerm   = [2]int8{}
	)
	s := h.src[0]
	checkCounter := func(where string) {
		p := h.sc.pendingAcks.Load()
		if p < 0 {
			add("C12:pendingAcks:negative", "pending-ack counter is %d after %s", p, where)
		} else if p == 0 && outstanding > 0 {
			add("C12:pendingAcks:flush-would-return-early", "pending-ack counter is 0 after %s although %d queued acks have not completed (FlushAcks would return)", where, outstanding)
		} else if p != outstanding {
			add("C12:pendingAcks:mismatch", "pending-ack counter is %d after %s, %d acks are queued and not completed", p, where, outstanding)
		}
	}
	userStep, senderStep := 0, 0
	doUser := func() {
		i := userStep / 2
		op := ops[i]
		st := &h.states[op.Rec]
		if userStep%2 == 0 {
			ok := st.tryAck(AckStatus(op.Status), false)
			// reference: renew only from 0; terminal from 0 or renew; never from terminal
			want := false
			switch {
			case op.Status == 4:
				want = ref[op.Rec] == 0
			default:
				want = ref[op.Rec] == 0 || ref[op.Rec] == 4
			}
			if want {
				ref[op.Rec] = op.Status
				if op.Status != 4 && firstTerm[op.Rec] == 0 {
					firstTerm[op.Rec] = op.Status
				}
			}
			if ok != want {
				add("C12:tryAck:transition", "Ack(%d) on a record in reference state gave %v, reference %v", op.Status, ok, want)
				if ok { // follow the implementation so the rest stays comparable
					ref[op.Rec] = op.Status
				}
			}
			casOK[i] = ok
		} else if casOK[i] {
			st.appendAck()
			shadow = append(shadow, i)
			outstanding++
			checkCounter("appendAck")
		}
		userStep++
	}
	doSender := func() {
		r := senderStep / 3
		for len(rs) <= r {
			rs = append(rs, &c12Round{})
		}
		rd := rs[r]
		switch senderStep % 3 {
		case 0: // drain
			s.share.mu.Lock()
			drains := s.drainAllShareAcks(false)
			s.share.mu.Unlock()
			for _, d := range drains {
				rd.entries = append(rd.entries, d.entries...)
			}
			rd.Ops, shadow = shadow, nil
			for _, e := range rd.entries {
				rd.Snap = append(rd.Snap, int8(e.status.Load()))
			}
			if len(rd.Ops) != len(rd.entries) {
				add("C12:drainAcks:entries", "drain returned %d entries, %d were appended", len(rd.entries), len(rd.Ops))
			}
		case 1: // build and send
			if len(rd.entries) == 0 {
				break
			}
			ranges, hasRenew := buildAckRanges(rd.entries, nil)
			rd.IsRenew = hasRenew
			if len(ranges) > 0 {
				rd.Built = true
			}
			prevEnd := int64(-1)
			for _, rg := range ranges {
				rd.Wire = append(rd.Wire, c12Range{First: rg.firstOffset, Last: rg.lastOffset, Types: ackTypes(rg.ackType)})
				if rg.firstOffset <= prevEnd {
					add("C12:Q2:request-not-ascending", "batches within one request not ascending / overlapping")
				}
				prevEnd = rg.lastOffset
				for o := rg.firstOffset; o <= rg.lastOffset; o++ {
					for rec, off := range c12Q2Offsets {
						if off == o && rg.ackType != ref[rec] {
							add("C12:Q2:wire-type", "request carries type %d for a record whose reference state is %d", rg.ackType, ref[rec])
						}
					}
				}
			}
		case 2: // response handling as in shareAck (success), then callback accounting
			if len(rd.entries) == 0 {
				break
			}
			if rd.IsRenew {
				for _, e := range rd.entries {
					e.status.CompareAndSwap(int32(AckRenew), 0)
				}
				for _, oi := range rd.Ops {
					if rec := ops[oi].Rec; ref[rec] == 4 {
						ref[rec] = 0
					}
				}
			}
			outstanding -= int64(len(rd.entries))
			h.sc.subtractPendingAcks(int64(len(rd.entries)))
			checkCounter("callback accounting")
		}
		senderStep++
	}
	for _, u := range sched {
		if u {
			doUser()
		} else {
			doSender()
		}
	}
	// one final, undisturbed round flushes what is left
	for i := 0; i < 3; i++ {
		senderStep = (rounds)*3 + i
		doSender()
	}
	if p := h.sc.pendingAcks.Load(); p != 0 {
		add("C12:pendingAcks:final", "pending-ack counter is %d after everything was sent and accounted", p)
	}
	// oracle (a): an offset leaves in at most one sent request with a final type
	for rec, off := range c12Q2Offsets {
		var finals []int
		for ri, rd := range rs {
			for _, w := range rd.Wire {
				if w.First <= off && off <= w.Last && len(w.Types) == 1 && w.Types[0] >= 1 && w.Types[0] <= 3 {
					finals = append(finals, ri)
					if firstTerm[rec] != 0 && w.Types[0] != firstTerm[rec] {
						add("C12:Q2:final-type", "final type %d sent, the first successful terminal Ack was %d", w.Types[0], firstTerm[rec])
					}
				}
			}
		}
		if firstTerm[rec] != 0 && len(finals) == 0 {
			add("C12:Q2:terminal-ack-lost", "a successful terminal Ack never left in any request")
		}
		if len(finals) > 1 {
			// known window: the earlier request was built from a drain that
			// held the record only through an entry appended by an AckRenew
			// call, the later one holds the entry appended by the terminal.
			known := len(finals) == 2
			if known {
				a, b := rs[finals[0]], rs[finals[1]]
				hasRenewEntry, hasTermEntryA, hasTermEntryB := false, false, false
				for _, oi := range a.Ops {
					if int(ops[oi].Rec) == rec {
						if ops[oi].Status == 4 {
							hasRenewEntry = true
						} else {
							hasTermEntryA = true
						}
					}
				}
				for _, oi := range b.Ops {
					if int(ops[oi].Rec) == rec && ops[oi].Status != 4 {
						hasTermEntryB = true
					}
				}
				known = hasRenewEntry && !hasTermEntryA && hasTermEntryB
			}
			if known {
				add(c12KeyKnownWindow, "the same terminal acknowledgement of offset %d left in two requests (rounds %v): the first drain took the AckRenew entry, the terminal CAS landed before that drain's build read the status, and its own entry went out with the next drain; a broker answers the second with INVALID_RECORD_STATE for the partition", off, finals)
			} else {
				add("C12:duplicate-terminal-ack:other", "offset %d left with a final type in %d requests (rounds %v)", off, len(finals), finals)
			}
		}
	}
	return rs, f
}

func c12RunQ2All(maxOps, nRecs, rounds int, agg *c12Agg) {
	h := newC12Ctx()
	l := newC12Local()
	alphabet := []c12Op{}
	for rec := int8(0); rec < int8(nRecs); rec++ {
		for s := int8(1); s <= 4; s++ {
			alphabet = append(alphabet, c12Op{rec, s})
		}
	}
	var ops []c12Op
	var sched []bool
	var merge func(u, s int)
	run := func() {
		rs, f := h.runQ2(ops, rounds, sched)
		l.evals++
		l.counters["q2_steps"] += int64(len(sched) + 3)
		hh := fnv.New64a()
		for _, rd := range rs {
			hh.Write([]byte{0xfe})
			for _, w := range rd.Wire {
				hh.Write([]byte{byte(w.First), byte(w.Last), byte(w.Types[0])})
			}
		}
		l.distinct[hh.Sum64()] = struct{}{}
		for _, x := range f {
			oo := append([]c12Op(nil), ops...)
			ss := append([]bool(nil), sched...)
			l.violation(x.Key, x.What, len(ops)*100+len(sched), func() any {
				steps := []string{}
				u, sd := 0, 0
				for _, b := range ss {
					if b {
						steps = append(steps, fmt.Sprintf("user:%s(op%d)", []string{"cas", "append"}[u%2], u/2))
						u++
					} else {
						steps = append(steps, fmt.Sprintf("sender:%s(round%d)", []string{"drain", "build+send", "response"}[sd%3], sd/3))
						sd++
					}
				}
				return map[string]any{"part": "Q2", "ops": oo, "records": nRecs, "rounds": rounds, "schedule_user_true": ss, "steps": steps, "rounds_observed": rs}
			})
		}
	}
	merge = func(u, s int) {
		if u == 0 && s == 0 {
			run()
			return
		}
		if u > 0 {
			sched = append(sched, true)
			merge(u-1, s)
			sched = sched[:len(sched)-1]
		}
		if s > 0 {
			sched = append(sched, false)
			merge(u, s-1)
			sched = sched[:len(sched)-1]
		}
	}
	var scripts func(n int)
	scripts = func(n int) {
		if len(ops) > 0 {
			sched = sched[:0]
			merge(2*len(ops), 3*rounds)
			l.counters[fmt.Sprintf("q2_scripts_%drec", nRecs)]++
		}
		if n == 0 {
			return
		}
		for _, a := range alphabet {
			ops = append(ops, a)
			scripts(n - 1)
			ops = ops[:len(ops)-1]
		}
	}
	scripts(maxOps)
	l.counters["q2_evaluations"] += l.evals
	l.evals = 0
	q2d := len(l.distinct)
	l.counters["q2_distinct_request_histories"] += int64(q2d)
	l.distinct = map[uint64]struct{}{}
	agg.merge(l)
}

// ---------------------------------------------------------------------------

// c12Summary is what nrun.MergeSummary reads (Execs, Points, Steps, Distinct,
// Harnesses, Viol, NotExhaustive) plus Tier / Samples / Coverage, which
// checks/c12/c12_test.go adds to the evidence itself.
type c12Summary struct {
	Tier          string
	Execs         int64
	Points        int64
	Steps         int64
	Distinct      int
	Harnesses     map[string]any
	Viol          []c12SumViol
	NotExhaustive []string
	Samples       []any
	Coverage      map[string]any
}

type c12SumViol struct {
	Key      string
	What     string
	Artefact any
}

func TestVerifC12(t *testing.T) {
	if rp := os.Getenv("C12_REPLAY"); rp != "" {
		c12Replay(rp)
		return
	}
	out := os.Getenv("C12Q_OUT")
	if out == "" {
		t.Skip("C12Q_OUT not set")
	}
	start := time.Now()
	thorough := os.Getenv("VERIF_TIER") == "thorough"
	workers, _ := strconv.Atoi(os.Getenv("VERIF_WORKERS"))
	if workers <= 0 {
		workers = 16
	}
	agg := &c12Agg{viol: map[string]*c12Viol{}, distinct: map[uint64]struct{}{}, counters: map[string]int64{}}
	spaces := []c12Space{
		{Name: "uniform", MaxEntries: 4, MaxGaps: 2},
		{Name: "stamped", MaxEntries: 2, MaxGaps: 1, Stamps: true},
	}
	q2Ops, q2Rounds := 3, 2
	if thorough {
		spaces = []c12Space{
			{Name: "uniform", MaxEntries: 5, MaxGaps: 2},
			{Name: "stamped", MaxEntries: 3, MaxGaps: 1, Stamps: true},
			{Name: "stamped2", MaxEntries: 2, MaxGaps: 2, Stamps: true},
		}
		q2Ops, q2Rounds = 4, 2
	}
	for _, sp := range spaces {
		before := agg.counters["evaluations"]
		t0 := time.Now()
		c12RunSpace(sp, workers, agg)
		agg.counters[sp.Name+"_cases"] = agg.counters["evaluations"] - before
		fmt.Printf("  C12 Q space %-9s entries<=%d gaps<=%d stamps=%v: %d cases in %.1fs\n", sp.Name, sp.MaxEntries, sp.MaxGaps, sp.Stamps, agg.counters[sp.Name+"_cases"], time.Since(t0).Seconds())
	}
	qEvals := agg.counters["evaluations"]
	qDistinct := int64(len(agg.distinct))
	// a few real cases written out
	{
		h := newC12Ctx()
		for _, c := range []c12Case{
			{Seq: []int8{4, 0, 4}, Status: [6]int8{1, 0, 0, 0, 2, 0}, Gaps: []c12Gap{{First: 1, Last: 2}}},
			{Seq: []int8{3, 2}, Status: [6]int8{0, 0, 1, 1, 0, 0}, Gaps: []c12Gap{{First: 6, Last: 7, Typ: 2}}},
			{Seq: []int8{1, 0}, Status: [6]int8{4, 3, 0, 0, 0, 0}, StampE: [6]int8{1, 2}, Filter: true},
		} {
			cc := c
			o := h.exec(&cc)
			agg.samples = append(agg.samples, map[string]any{"part": "Q", "case": cc, "output": o.clone()})
		}
	}
	t0 := time.Now()
	c12RunQ2All(2, 1, q2Rounds, agg)
	c12RunQ2All(q2Ops, 2, q2Rounds, agg)
	fmt.Printf("  C12 Q2: %d merges in %.1fs\n", agg.counters["q2_evaluations"], time.Since(t0).Seconds())

	q2Evals := agg.counters["q2_evaluations"]
	q2Steps := agg.counters["q2_steps"]
	q2Distinct := agg.counters["q2_distinct_request_histories"]
	delete(agg.counters, "evaluations")
	tier := os.Getenv("VERIF_TIER")
	if tier != "thorough" {
		tier = "quick"
	}
	sum := c12Summary{Tier: tier, Execs: qEvals + q2Evals, Points: q2Steps, Steps: qEvals + q2Steps,
		Distinct: int(qDistinct + q2Distinct), Samples: agg.samples,
		Harnesses: map[string]any{
			"Q":  map[string]any{"evaluations": qEvals, "distinct_wire_outputs": qDistinct, "spaces": spaces, "bound_completed": "every space enumerated completely"},
			"Q2": map[string]any{"evaluations": q2Evals, "steps": q2Steps, "distinct_request_histories": q2Distinct, "max_ack_calls": q2Ops, "records": 2, "sender_rounds_interleaved": q2Rounds},
		},
		Coverage: map[string]any{"q_evaluations": qEvals, "q_distinct": qDistinct, "q_distinct_capped": agg.capped, "q_spaces": spaces, "q_counters": agg.counters,
			"q2_evaluations": q2Evals, "q2_distinct": q2Distinct, "q2_max_ack_calls": q2Ops, "q2_sender_rounds": q2Rounds, "q_wall_s": time.Since(start).Seconds()},
	}
	if agg.capped {
		sum.NotExhaustive = append(sum.NotExhaustive, "part Q: the set of distinct wire outputs was capped (the enumeration itself is complete)")
	}
	keys := make([]string, 0, len(agg.viol))
	for k := range agg.viol {
		keys = append(keys, k)
	}
	sort.Strings(keys)
	for _, k := range keys {
		v := agg.viol[k]
		sum.Viol = append(sum.Viol, c12SumViol{Key: v.Key, What: fmt.Sprintf("%s (%d cases of the enumeration; the artefact is the smallest)", v.What, v.Count), Artefact: v.Artefact})
		fmt.Printf("  C12 Q finding %s x%d: %s\n", k, v.Count, v.What)
	}
	b, _ := json.MarshalIndent(sum, "", " ")
	if err := os.WriteFile(out, b, 0o644); err != nil {
		fmt.Fprintf(os.Stderr, "INFRA-ERROR: %v\n", err)
		os.Exit(2)
	}
	os.Exit(0)
}

// c12Replay re-runs one artefact (a violation file written by the aggregator).
func c12Replay(path string) {
	b, err := os.ReadFile(path)
	if err != nil {
		fmt.Fprintf(os.Stderr, "INFRA-ERROR: %v\n", err)
		os.Exit(2)
	}
	var a struct {
		Key      string `json:"key"`
		Artefact struct {
			Part   string  `json:"part"`
			Case   c12Case `json:"case"`
			Ops    []c12Op `json:"ops"`
			Rounds int     `json:"rounds"`
			Sched  []bool  `json:"schedule_user_true"`
		} `json:"artefact"`
	}
	if err := json.Unmarshal(b, &a); err != nil {
		fmt.Fprintf(os.Stderr, "INFRA-ERROR: %v\n", err)
		os.Exit(2)
	}
	h := newC12Ctx()
	var fs []c12Finding
	switch a.Artefact.Part {
	case "Q":
		out := h.exec(&a.Artefact.Case)
		ob, _ := json.Marshal(out)
		fmt.Printf("replay Q: output %s\n", ob)
		fs = c12Check(&a.Artefact.Case, &out)
	case "Q2":
		rs, f := h.runQ2(a.Artefact.Ops, a.Artefact.Rounds, a.Artefact.Sched)
		ob, _ := json.Marshal(rs)
		fmt.Printf("replay Q2: rounds %s\n", ob)
		fs = f
	default:
		fmt.Fprintf(os.Stderr, "INFRA-ERROR: artefact part %q is not Q/Q2\n", a.Artefact.Part)
		os.Exit(2)
	}
	for _, f := range fs {
		fmt.Printf("VIOLATION-REPLAYED %s: %s\n", f.Key, f.What)
	}
	if len(fs) > 0 {
		os.Exit(1)
	}
	fmt.Println("replay: no violation")
	os.Exit(0)
}
