package sticky

// C25 in-package harness for the sticky engine with an OWNED topic numbering.
//
// sticky.newBalancer numbers the topics in the iteration order of the Go map
// it is given, and every later decision (which partition is "next", which
// edge a steal search meets first) depends on that numbering. A Go map of at
// most 8 entries that was only ever inserted into iterates as a rotation of
// its insertion order starting at a random slot, so the order cannot be fixed
// from outside. From inside the package it can be owned without copying
// engine code: the real newBalancer is called (cheap, no balancing yet) until
// the numbering it produced is the wanted one, and then the real steps of
// BalanceWithRacks run on that balancer:
//
//	parseMemberMetadata; assignUnassignedAndInitGraph; initPlanByNumPartitions; balance; into
//
// With single-generation conflict-free prior ownership (no b.stales entries)
// the topic numbering is the only map-order dependence of the engine, so a
// verdict here is a verdict about one (input, numbering) pair, not a sample.
//
// Family (the "one hoarder" complex-path family): 4 members, one of them
// (every position) currently owns every partition of every topic it subscribes
// to -- or, per subscribed topic, the upper half of it -- and the other three
// join fresh; every member on every non-empty subset of the topics; partition
// counts from a small set; the numberings listed by the tier. Oracle: the C25
// validity oracle (balenum.CheckValid). Results go to $C25_STICKY_SUMMARY.

import (
	"encoding/json"
	"fmt"
	"os"
	"sort"
	"strings"
	"sync"
	"testing"
	"time"

	"github.com/twmb/franz-go/pkg/kmsg"

	"verif/checks/c25/balenum"
)

type c25bArtefact struct {
	Balancer  string        `json:"balancer"`
	Case      *balenum.Case `json:"case"`
	Numbering []string      `json:"topic_numbering"`
	Input     string        `json:"input"`
	Plan      string        `json:"plan"`
}

// c25bMembers builds the engine input the way stickyBalancer.Balance does for
// the eager sticky balancer (prior ownership travels in UserData).
func c25bMembers(c *balenum.Case) []GroupMember {
	ms := make([]GroupMember, c.N)
	for i := 0; i < c.N; i++ {
		s := kmsg.StickyMemberMetadata{Generation: c.Gens[i]}
		owned := c.Owned(i)
		ts := make([]string, 0, len(owned))
		for t := range owned {
			ts = append(ts, t)
		}
		sort.Strings(ts)
		for _, t := range ts {
			s.CurrentAssignment = append(s.CurrentAssignment, kmsg.StickyMemberMetadataCurrentAssignment{Topic: t, Partitions: owned[t]})
		}
		ms[i] = GroupMember{ID: c.ID(i), Topics: c.TopicsOf(i), UserData: s.AppendTo(nil), Generation: c.Gens[i]}
	}
	return ms
}

// c25bBalance is BalanceWithRacks(members, topics, nil) with the topic
// numbering forced to `order` (topic indexes into c.Parts).
func c25bBalance(c *balenum.Case, members []GroupMember, order []int) (plan Plan, err error) {
	defer func() {
		if r := recover(); r != nil {
			plan, err = nil, fmt.Errorf("panic: %v", r)
		}
	}()
	// only topics somebody subscribes to reach the engine (balanceGroup)
	var want []int
	for _, t := range order {
		if c.TopicWanted(t) {
			want = append(want, t)
		}
	}
	var b *balancer
	for try := 0; ; try++ {
		topics := make(map[string]int32, len(want))
		for _, t := range want {
			topics[balenum.RealTopics[t]] = c.Parts[t]
		}
		b = newBalancer(members, topics, nil)
		ok := len(b.topicInfos) == len(want)
		for i := 0; ok && i < len(want); i++ {
			ok = b.topicInfos[i].topic == balenum.RealTopics[want[i]]
		}
		if ok {
			break
		}
		if try > 100000 {
			return nil, fmt.Errorf("could not obtain topic numbering %v", want)
		}
	}
	if cap(b.partOwners) == 0 {
		return b.into(), nil
	}
	b.parseMemberMetadata()
	if len(b.stales) != 0 {
		return nil, fmt.Errorf("harness precondition broken: stale claims present, topic numbering is not the only map-order dependence")
	}
	b.assignUnassignedAndInitGraph()
	b.initPlanByNumPartitions()
	b.balance()
	return b.into(), nil
}

func c25bCheck(c *balenum.Case, members []GroupMember, order []int) (balenum.Plan, *balenum.Verdict) {
	plan, err := c25bBalance(c, members, order)
	if err != nil {
		key := "error"
		if strings.HasPrefix(err.Error(), "panic: ") {
			key = "panic"
		}
		return nil, &balenum.Verdict{Key: key, What: err.Error()}
	}
	return balenum.Plan(plan), balenum.CheckValid(c, balenum.Plan(plan), false)
}

func c25bPerms(n int) [][]int {
	var out [][]int
	var rec func(cur []int, used int)
	rec = func(cur []int, used int) {
		if len(cur) == n {
			out = append(out, append([]int(nil), cur...))
			return
		}
		for i := 0; i < n; i++ {
			if used&(1<<uint(i)) == 0 {
				rec(append(cur, i), used|1<<uint(i))
			}
		}
	}
	rec(nil, 0)
	return out
}

type c25bFamily struct {
	Topics   int
	Counts   []int32 // allowed per-topic partition counts
	MaxTotal int
	Halves   bool // also: per subscribed topic the hoarder owns only the upper half
	Orders   [][]int
}

func c25bNames(order []int) []string {
	out := make([]string, len(order))
	for i, t := range order {
		out[i] = balenum.RealTopics[t]
	}
	return out
}

func c25bCountVectors(nt int, allowed []int32, maxTotal int) [][]int32 {
	var out [][]int32
	var rec func(cur []int32, sum int)
	rec = func(cur []int32, sum int) {
		if len(cur) == nt {
			out = append(out, append([]int32(nil), cur...))
			return
		}
		for _, a := range allowed {
			if sum+int(a) <= maxTotal {
				rec(append(cur, a), sum+int(a))
			}
		}
	}
	rec(nil, 0)
	return out
}

func TestVerifC25Sticky(t *testing.T) {
	if p := os.Getenv("VERIF_REPLAY"); p != "" {
		b, err := os.ReadFile(p)
		if err != nil {
			fmt.Println("replay:", err)
			os.Exit(2)
		}
		var f struct {
			Artefact c25bArtefact `json:"artefact"`
		}
		if json.Unmarshal(b, &f) != nil || f.Artefact.Case == nil || f.Artefact.Numbering == nil {
			fmt.Println("not a sticky-engine artefact; nothing to replay in the sticky harness")
			os.Exit(0)
		}
		c := f.Artefact.Case
		var order []int
		for _, n := range f.Artefact.Numbering {
			for t := range c.Parts {
				if balenum.RealTopics[t] == n {
					order = append(order, t)
				}
			}
		}
		fmt.Printf("replaying sticky engine with topic numbering %v on\n%s", f.Artefact.Numbering, c.Describe())
		plan, v := c25bCheck(c, c25bMembers(c), order)
		fmt.Printf("plan: %s\n", balenum.FormatPlan(plan))
		if v != nil {
			fmt.Printf("VIOLATION reproduced: %s: %s\n", v.Key, v.What)
			os.Exit(1)
		}
		fmt.Println("holds")
		os.Exit(0)
	}
	out := os.Getenv("C25_STICKY_SUMMARY")
	if out == "" {
		t.Skip("C25_STICKY_SUMMARY not set")
	}
	t0 := time.Now()
	thorough := os.Getenv("VERIF_TIER") == "thorough"
	fam := c25bFamily{Topics: 4, Counts: []int32{1, 2, 3}, MaxTotal: 8, Orders: [][]int{{0, 1, 2, 3}}}
	if thorough {
		fam = c25bFamily{Topics: 4, Counts: []int32{1, 2, 3}, MaxTotal: 12, Halves: true, Orders: [][]int{{0, 1, 2, 3}, {3, 2, 1, 0}}}
	}
	// exploration overrides
	if v := os.Getenv("C25B_TOPICS"); v != "" {
		fmt.Sscan(v, &fam.Topics)
		fam.Orders = [][]int{c25bPerms(fam.Topics)[0]}
	}
	if v := os.Getenv("C25B_COUNTS"); v != "" {
		fam.Counts = nil
		for _, s := range strings.Split(v, ",") {
			var n int32
			fmt.Sscan(s, &n)
			fam.Counts = append(fam.Counts, n)
		}
	}
	if v := os.Getenv("C25B_MAXTOTAL"); v != "" {
		fmt.Sscan(v, &fam.MaxTotal)
	}
	if v := os.Getenv("C25B_HALVES"); v != "" {
		fam.Halves = v == "1"
	}
	if v := os.Getenv("C25B_ORDERS"); v == "all" {
		fam.Orders = c25bPerms(fam.Topics)
	}
	slice := 6 * time.Minute
	if thorough {
		slice = 40 * time.Minute
	}
	if v := os.Getenv("C25B_SLICE_S"); v != "" {
		var sec int
		fmt.Sscan(v, &sec)
		slice = time.Duration(sec) * time.Second
	}
	deadline := t0.Add(slice)
	balenum.TuneGC(256 << 20)
	workers := 16
	fmt.Sscan(os.Getenv("VERIF_WORKERS"), &workers)

	const n = 4
	nsub := 1<<uint(fam.Topics) - 1
	type job struct {
		hoarder int
		parts   []int32
		sub0    uint8
	}
	var jobs []job
	for _, parts := range c25bCountVectors(fam.Topics, fam.Counts, fam.MaxTotal) {
		for h := 0; h < n; h++ {
			for s := 1; s <= nsub; s++ {
				jobs = append(jobs, job{h, parts, uint8(s)})
			}
		}
	}
	coll := balenum.NewCollector()
	ch := make(chan job, 256)
	var wg sync.WaitGroup
	var mu sync.Mutex
	var evals, inputs, complexInputs int64
	all := map[uint64]struct{}{}
	var dropped int64
	for w := 0; w < workers; w++ {
		wg.Add(1)
		go func() {
			defer wg.Done()
			var lEvals, lInputs, lComplex int64
			distinct := balenum.NewHashSet(1 << 17)
			for j := range ch {
				c := &balenum.Case{N: n, Parts: j.parts, Subs: make([]uint8, n), Gens: []int32{balenum.GenCurrent, balenum.GenCurrent, balenum.GenCurrent, balenum.GenCurrent}}
				nf := c.NumFlat()
				c.Owners = make([][]int, nf)
				shape := balenum.Hash64(fmt.Sprintf("%d|%v", j.hoarder, j.parts))
				c.Subs[0] = j.sub0
				for s1 := 1; s1 <= nsub; s1++ {
					c.Subs[1] = uint8(s1)
					for s2 := 1; s2 <= nsub; s2++ {
						c.Subs[2] = uint8(s2)
						for s3 := 1; s3 <= nsub; s3++ {
							c.Subs[3] = uint8(s3)
							if c.Subs[0] == c.Subs[1] && c.Subs[1] == c.Subs[2] && c.Subs[2] == c.Subs[3] {
								continue // not the complex path
							}
							// prior variants: per subscribed topic of the hoarder, all of it or (Halves) its upper half
							var hts []int
							for tt := 0; tt < fam.Topics; tt++ {
								if c.Subscribed(j.hoarder, tt) && (fam.Halves && j.parts[tt] >= 2) {
									hts = append(hts, tt)
								}
							}
							for hv := 0; hv < 1<<uint(len(hts)); hv++ {
								for f := 0; f < nf; f++ {
									tt, p := c.TP(f)
									c.Owners[f] = nil
									if !c.Subscribed(j.hoarder, tt) {
										continue
									}
									half := false
									for k, ht := range hts {
										if ht == tt && hv&(1<<uint(k)) != 0 {
											half = true
										}
									}
									if !half || p >= j.parts[tt]/2 {
										c.Owners[f] = []int{j.hoarder}
									}
								}
								members := c25bMembers(c)
								lInputs++
								lComplex++
								for _, order := range fam.Orders {
									plan, v := c25bCheck(c, members, order)
									lEvals++
									distinct.Add(shape ^ balenum.PlanCode(c, plan)*0x9e3779b97f4a7c15)
									if v != nil {
										cc := c.Clone()
										ord := c25bNames(order)
										coll.Add("sticky-engine:"+v.Key, v.What, balenum.CaseSize(c), func() any {
											return c25bArtefact{"sticky-engine", cc, ord, cc.Describe(), balenum.FormatPlan(plan)}
										})
									}
								}
							}
						}
					}
				}
			}
			mu.Lock()
			evals += lEvals
			inputs += lInputs
			complexInputs += lComplex
			distinct.Each(func(h uint64) { all[h] = struct{}{} })
			dropped += distinct.Dropped
			mu.Unlock()
		}()
	}
	cut := 0
	for i, j := range jobs {
		if time.Now().After(deadline) {
			cut = len(jobs) - i
			break
		}
		ch <- j
	}
	close(ch)
	wg.Wait()

	dl := make([]uint64, 0, len(all))
	for h := range all {
		dl = append(dl, h)
	}
	sort.Slice(dl, func(i, j int) bool { return dl[i] < dl[j] })
	findings := coll.Findings()
	for i := range findings {
		a := findings[i].Artefact.(c25bArtefact)
		findings[i].What = fmt.Sprintf("%s\ntopic numbering inside the engine: %v\n%splan: %s", findings[i].What, a.Numbering, a.Input, a.Plan)
	}
	var ords [][]string
	for _, o := range fam.Orders {
		ords = append(ords, c25bNames(o))
	}
	sum := map[string]any{
		"evals":            evals,
		"inputs":           inputs,
		"distinct":         dl,
		"distinct_dropped": dropped,
		"bound":            fmt.Sprintf("sticky engine with owned topic numbering: 4 members, %d topics with partition counts from %v (total<=%d), every member on every non-empty topic subset (uniform subscriptions excluded), the hoarder at every position owning all%s of every topic it subscribes to, the others fresh; numberings %v", fam.Topics, fam.Counts, fam.MaxTotal, map[bool]string{false: "", true: " or the upper half"}[fam.Halves], ords),
		"findings":         findings,
		"wall_s":           time.Since(t0).Seconds(),
		"jobs":             len(jobs),
		"jobs_cut":         cut,
	}
	js, _ := json.Marshal(sum)
	if err := os.WriteFile(out, js, 0o644); err != nil {
		fmt.Println("cannot write summary:", err)
		os.Exit(2)
	}
	fmt.Printf("C25 sticky-engine harness: inputs=%d evaluations=%d distinct=%d violation_classes=%d jobs_cut=%d wall=%.0fs\n", inputs, evals, len(dl), len(findings), cut, time.Since(t0).Seconds())
	os.Exit(0)
}
