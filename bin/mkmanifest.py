#!/usr/bin/env python3
"""Regenerates /verif/MANIFEST.json from checks/<id>/meta.json files.
meta.json keys: level (category), text, note, technique, engine, design_ref, thorough (bool, default true)."""
import json, os, glob
root = os.path.dirname(os.path.dirname(os.path.abspath(__file__)))
props = [json.loads(l) for l in open(os.path.join(root, "properties.jsonl"))]
checks, na = [], []
enabled = set(open(os.path.join(root, "checks", "ENABLED")).read().split()) if os.path.exists(os.path.join(root, "checks", "ENABLED")) else set()
engines = {}
for p in props:
    pid = p["id"]
    d = os.path.join(root, "checks", pid.lower())
    mp = os.path.join(d, "meta.json")
    if pid in enabled and os.path.exists(mp) and os.access(os.path.join(d, "run.sh"), os.X_OK):
        m = json.load(open(mp))
        c = {
            "property_id": pid,
            "quick_cmd": f"bin/check {pid} quick",
            "evidence_file": f"/verif/evidence/{pid}.json",
            "replay_cmd_template": m.get("replay", f"bin/check {pid} quick  # artefact {{path}} holds the failing case; see DESIGN.md"),
            "engine": m.get("engine", "Q"),
            "level_claimed": {"category": m["level"], "text": m["text"], "design_ref": m.get("design_ref", f"DESIGN.md §4 {pid}")},
            "level_note": m["note"],
            "technique": m["technique"],
        }
        if m.get("thorough", True):
            c["thorough_cmd"] = f"bin/check {pid} thorough"
        checks.append(c)
        engines.setdefault(m.get("engine", "Q"), []).append(pid)
    else:
        reason = "check not built yet (planned in DESIGN.md §4; not claimed until it exists and is quiet on the unchanged tree)"
        rp = os.path.join(d, "NOT_CLAIMED.txt")
        if os.path.exists(rp):
            reason = open(rp).read().strip()
        na.append({"property_id": pid, "reason": reason})
ekind = {
    "Q": ("lib/ev + checks/*", "bounded exhaustive enumeration of inputs / operation histories / crash points of the real code against a reference model"),
    "S": ("lib/vrt + cmd/extract", "controlled cooperative scheduler with preemption-bounded DFS over code extracted mechanically from /repo"),
    "N": ("lib/netctl", "real kgo client(s) + real kfake in a testing/synctest bubble; explorer owns frames, timers, faults and application calls; deviation-bounded DFS"),
}
man = {
    "version": 1,
    "setup_cmd": "bin/setup",
    "hooks": {
        "guard": "verif",
        "enable": "go build/test -tags verif (engine N additionally uses the repository's own `synctests` tag); in-package harnesses are injected with -overlay and leave /repo untouched",
        "baseline_off_cmd": json.load(open("/root/.vp/BASELINE.json"))["cmd"] if os.path.exists("/root/.vp/BASELINE.json") else "",
        "source_commits": json.load(open(os.path.join(root, "hooks", "source_commits.json"))) if os.path.exists(os.path.join(root, "hooks", "source_commits.json")) else [],
        "add_only": True,
    },
    "engines": [{"name": k, "path": ekind.get(k, ("", ""))[0], "serves_properties": v, "kind_free_text": ekind.get(k, ("", ""))[1]} for k, v in sorted(engines.items())],
    "checks": checks,
    "not_applicable": na,
    "notes": "All checks rebuild from /repo's working tree on every run. Known findings: /verif/known_findings.json. See DESIGN.md.",
}
json.dump(man, open(os.path.join(root, "MANIFEST.json"), "w"), indent=1)
print(f"checks={len(checks)} not_claimed={len(na)}")
