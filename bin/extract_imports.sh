#!/bin/bash
# usage: extract_imports.sh <src.go> <dst.go> <package>
# Mechanical extraction for engine S: copies a repository source file verbatim
# except for (a) the package clause and (b) the import paths of sync,
# sync/atomic and kgo's internal xsync, which are redirected to the vrt shims.
set -eu
src="$1"; dst="$2"; pkg="$3"
[ -f "$src" ] || { echo "EXTRACTION-ERROR: $src missing" >&2; exit 2; }
sed -E \
  -e "s#^package [a-z0-9_]+#package $pkg#" \
  -e 's#^(\s*)"sync"$#\1sync "verif/lib/vrt/shim/sync"#' \
  -e 's#^import "sync"$#import sync "verif/lib/vrt/shim/sync"#' \
  -e 's#^(\s*)"sync/atomic"$#\1atomic "verif/lib/vrt/shim/atomic"#' \
  -e 's#^import "sync/atomic"$#import atomic "verif/lib/vrt/shim/atomic"#' \
  -e 's#^(\s*)"github.com/twmb/franz-go/pkg/kgo/internal/xsync"$#\1xsync "verif/lib/vrt/shim/xsync"#' \
  "$src" > "$dst"
