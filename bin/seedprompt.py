#!/usr/bin/env python3
"""Prints the brief for an independent 'seeded change' sub-agent for one property.
The sub-agent gets ONLY the property text and a scratch worktree of /repo."""
import json, sys
pid = sys.argv[1]
suffix = sys.argv[2] if len(sys.argv) > 2 else ''
p = [json.loads(l) for l in open('/verif/properties.jsonl') if json.loads(l)['id'] == pid][0]
wt = f"/tmp/seed-{pid.lower()}{suffix}"
print(f"""You are testing how well a semantic property of the Go Kafka client library twmb/franz-go is protected. You work ONLY in your own scratch git worktree of the repository at {wt} (already created; it is a full checkout at the pinned commit). Do not look at, read or write anything under /verif or /repo, and do not use any other directory except {wt} and a temp dir of your own under /tmp/seedtmp-{pid.lower()}{suffix}.

The property ({pid}: {p['title']}):

  STATEMENT: {p['statement']}

  QUANTIFIED OVER: {p['quantifier']['text']}

  Code it is anchored in: {', '.join(p['anchors']['files'])}

Your task: devise ONE realistic change to the library's non-test source code (a plausible maintenance mistake: a moved line, a dropped condition, an off-by-one, a wrong variable, an ordering change between two statements, two cooperating edits that each look fine alone) that BREAKS this property, while
  (a) the repository still compiles (`cd {wt} && GOFLAGS=-mod=mod GOPROXY=off go build ./...` and the same inside any sub-module you touch, e.g. {wt}/pkg/kfake, {wt}/pkg/kmsg, {wt}/pkg/kadm, which have their own go.mod), and
  (b) the existing test suites of the packages you touched still pass, unedited: run `GOFLAGS=-mod=mod GOPROXY=off go test -count=1 ./pkg/...` style commands in the module(s) you touched (root module: `cd {wt} && GOFLAGS=-mod=mod GOPROXY=off go test -count=1 ./pkg/kgo/... ./pkg/kbin/... ./pkg/kerr/... ./pkg/kversion/...`; sub-modules: cd into them and run `GOFLAGS=-mod=mod GOPROXY=off go test -count=1 ./...`; note pkg/kfake's tests are slow (several minutes) and a number of them are known to be flaky on the unchanged tree — if one fails, re-run it alone with your change reverted (`git apply -R`, never `git stash`) to see whether your change is the cause). The machine is heavily shared: be patient with build times, use `-p 4`.
  (c) the breakage needs something SPECIFIC to manifest — a particular interleaving of goroutines, a crash or fault at a particular point, a particular multi-step sequence of operations, an unusual input value, or a particular configuration — and is NOT something ordinary use would expose at once (a change that breaks every produce or every decode is useless).

Never set GOTOOLCHAIN=local or GOSUMDB=off; the network is unavailable (GOPROXY=off) and everything needed is in the module cache.

Deliverables, all inside {wt}/SEED/ (create it):
  1. patch.diff — `git -C {wt} diff` of the library change only (no test files, nothing under SEED/).
  2. A demonstration: a Go test file or small program (put it under {wt}/SEED/demo/, with a README line on how to run it from the worktree, e.g. by copying the _test.go file into the package directory) that FAILS with your change applied and PASSES without it (verify both with `git diff > p.diff; git apply -R p.diff; ...; git apply p.diff` — NEVER use `git stash`: the stash is shared between all worktrees of this repository and other agents use them concurrently). Deterministic if at all possible; if it needs a race/timing, make the window wide with the tools the repo offers (kfake control hooks, synctest, injected sleeps in the DEMO only — never in the library change).
  3. meta.json — {{"property": "{pid}", "summary": "<one sentence: what the change does>", "needs": "<what must happen for it to manifest>", "files": [...], "existing_tests_run": "<commands you ran and their result>", "demo": "<how to run it and the observed fail/pass>"}}.
Leave the worktree with the change APPLIED and SEED/ present (untracked). Do not commit. Your final message: the summary, what it needs to manifest, and the exact commands you ran for (a), (b) and the demonstration with their outcomes.""")
