# Sourced by every check's run.sh. Sets the offline Go environment and, when
# VERIF_REPO points somewhere other than /repo (a scratch copy carrying a
# seeded change), an alternate go.mod whose replace directives follow it.
# (Registered MANIFEST commands never set VERIF_REPO: they check /repo.)
export VERIF_ROOT="${VERIF_ROOT:-/verif}"
export REPO="${VERIF_REPO:-/repo}"
export GOPROXY=off
export GOFLAGS=-mod=mod
export GOTOOLCHAIN=auto
export VERIF_TIER="${VERIF_TIER:-quick}"
export VERIF_SEED="${VERIF_SEED:-0}"
export VERIF_WORKERS="${VERIF_WORKERS:-16}"
BUILD="$VERIF_ROOT/build"
mkdir -p "$BUILD"
VERIF_MODFILE="$VERIF_ROOT/go.mod"
if [ "$REPO" != "/repo" ]; then
  tag=$(printf %s "$REPO" | cksum | cut -d' ' -f1)
  VERIF_MODFILE="$BUILD/alt-$tag.mod"
  sed "s#=> /repo#=> $REPO#" "$VERIF_ROOT/go.mod" > "$VERIF_MODFILE"
  cp "$VERIF_ROOT/go.sum" "$BUILD/alt-$tag.sum"
  export GOFLAGS="-mod=mod -modfile=$VERIF_MODFILE"
  BUILD="$BUILD/alt-$tag"
  mkdir -p "$BUILD"
fi
export BUILD VERIF_MODFILE

# inpkg_test <pkgdir relative to repo> <harness _test.go file in /verif> <out binary> [extra go test -c flags...]
# Compiles an in-package test binary for an unexported-API harness without
# touching the repository: the harness file is overlaid as zz_verif_test.go and
# the sub-module's dependencies on franz-go/kmsg/kadm/kfake are resolved to the
# tree being checked through an alternate go.mod.
inpkg_test() {
  local pkg="$1" harness="$2" out="$3"; shift 3
  local moddir="$REPO/$pkg"
  while [ ! -f "$moddir/go.mod" ]; do moddir=$(dirname "$moddir"); done
  local key; key=$(printf %s "$moddir$harness" | cksum | cut -d' ' -f1)
  local alt="$BUILD/inpkg-$key.mod"
  {
    cat "$moddir/go.mod"
    echo
    echo "replace ("
    for m in "" /pkg/kmsg /pkg/kadm /pkg/kfake /pkg/sr /plugin/kotel; do
      [ "$REPO$m" = "$moddir" ] && continue
      echo "  github.com/twmb/franz-go$m => $REPO$m"
    done
    echo "  verif.local/ev => $VERIF_ROOT/lib/ev"
    echo ")"
    echo "require verif.local/ev v0.0.0"
  } > "$alt"
  cat "$VERIF_ROOT/go.sum" "$moddir/go.sum" 2>/dev/null | sort -u > "$BUILD/inpkg-$key.sum"
  local ov="$BUILD/inpkg-$key-$(basename "$harness").overlay.json"
  printf '{"Replace":{"%s":"%s"}}\n' "$REPO/$pkg/zz_verif_test.go" "$harness" > "$ov"
  ( cd "$REPO/$pkg" && GOFLAGS=-mod=mod go test -c -vet=off -modfile="$alt" -overlay="$ov" -o "$out" "$@" . )
}
