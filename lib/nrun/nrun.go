// Package nrun drives engine-N checks: it explores each scenario of a check
// with worker subprocesses of the same test binary and turns the results into
// evidence and violation artefacts.
package nrun

import (
	"encoding/json"
	"fmt"
	"os"
	"os/exec"
	"runtime"
	"sort"
	"strings"
	"testing"
	"time"

	"verif.local/ev"

	"verif/lib/explore"
	"verif/lib/netctl"
)

// Plan says how deep one scenario is explored in each tier.
type Plan struct {
	Scenario *netctl.Scenario
	// Budget per tier: total deviations.
	QuickBudget, ThoroughBudget int
	// FaultOnlyFrom: deviations at cost >= this level (1-based count of
	// deviations) are restricted to fault labels AND require all earlier
	// deviations to be faults too (0: no restriction).
	QuickFaultOnlyFrom, ThoroughFaultOnlyFrom int
	// Share of the tier's time budget (relative weight, default 1).
	Weight float64
	// Allow further restricts deviations (label is the alternative's label).
	Allow func(parent explore.Job, point int, label string, cost int) bool
}

type Check struct {
	ID        string
	TestName  string // name of the Test function (for worker re-exec)
	Plans     []Plan
	QuickTime time.Duration // total wall budget for the quick tier (soft)
	ThorTime  time.Duration
	Rule      string
	Assume    []string
	// KeyOf maps a violation (scenario, key) to the stable class used in the
	// known-findings file (default: "<ID>:<scenario>:<key>").
	KeyOf func(scenario, key string) string
	// Keep, if set, selects which oracle failures belong to THIS property
	// (scenario families are shared between checks: e.g. the hook-pairing
	// oracle rides on the producer scenarios but is C14's subject, not C01's).
	// Harness/liveness keys ("worker-crash", "goroutine-leak:*") should be kept.
	Keep func(scenario, key string) bool
	// Extra, if set, runs before the evidence is written (to merge the results
	// of another part of the same check, e.g. an engine-S summary file).
	Extra func(r *ev.Run)
}

// MergeSummary merges a JSON summary written by another part of a check
// (fields: Execs, Points, Steps, Distinct, Harnesses, Viol[{Key,What,Artefact}],
// NotExhaustive) into r under the given coverage prefix.
func MergeSummary(r *ev.Run, path, prefix string) {
	b, err := os.ReadFile(path)
	if err != nil {
		ev.InfraError("summary of part %s missing: %v", prefix, err)
	}
	var s struct {
		Execs, Points, Steps int64
		Distinct             int
		Harnesses            map[string]any
		Viol                 []struct {
			Key, What string
			Artefact  any
		}
		NotExhaustive []string
	}
	if err := json.Unmarshal(b, &s); err != nil {
		ev.InfraError("summary %s: %v", path, err)
	}
	r.Evals(s.Execs)
	r.Traces(s.Execs)
	r.States(s.Points + s.Execs)
	r.Transitions(s.Steps)
	for i := 0; i < s.Distinct; i++ {
		r.Distinct(fmt.Sprintf("%s-outcome-%d", prefix, i))
	}
	r.Set(prefix+"_executions", s.Execs)
	r.Set(prefix+"_harnesses", s.Harnesses)
	for _, ne := range s.NotExhaustive {
		r.NotExhaustive(ne)
	}
	for _, v := range s.Viol {
		r.Violation(v.Key, v.What, v.Artefact)
	}
}

func IsFault(label string) bool {
	for _, p := range []string{"kill", "err", "rewrite", "stall"} {
		if strings.HasPrefix(label, p) {
			return true
		}
	}
	return false
}

// Main is called from the check's single Test function.
func Main(t *testing.T, c *Check) {
	by := map[string]*netctl.Scenario{}
	for _, p := range c.Plans {
		by[p.Scenario.Name] = p.Scenario
	}
	if explore.IsWorker() {
		explore.ServeWorker(func(job explore.Job) explore.Result {
			sc := by[job.Scenario]
			if sc == nil {
				return explore.Result{Crash: "unknown scenario " + job.Scenario}
			}
			res := netctl.Run(t, sc, job)
			for try := 0; res.Diverged && try < 2; try++ {
				res = netctl.Run(t, sc, job)
			}
			return res
		})
		return
	}
	if p := os.Getenv("VERIF_REPLAY"); p != "" {
		replay(t, c, by, p)
		return
	}
	r := ev.New(c.ID, "model_checking")
	r.Rule(c.Rule)
	r.Assume(c.Assume...)
	total := c.QuickTime
	if ev.Thorough() {
		total = c.ThorTime
	}
	var wsum float64
	for _, p := range c.Plans {
		if p.Weight == 0 {
			wsum++
		} else {
			wsum += p.Weight
		}
	}
	only := os.Getenv("VERIF_SCENARIO")
	// One pool of worker processes for all scenarios of the check (a worker
	// looks the scenario up by the job's name).
	pool := explore.NewPool(ev.Workers(), func() *exec.Cmd {
		cmd := exec.Command(os.Args[0], "-test.run", "^"+c.TestName+"$", "-test.timeout", "0")
		gmp := "GOMAXPROCS=1"
		if netctl.Burst {
			gmp = "GOMAXPROCS=4" // burst mode wants real overlap; the race detector judges
		}
		// randautoseed=0: the global math/rand source starts from the same
		// seed in every worker (fewer replay divergences between processes)
		cmd.Env = append(os.Environ(), "VERIF_WORKER=1", gmp, "GORACE=halt_on_error=1 exitcode=66", "GODEBUG=randautoseed=0")
		if os.Getenv("VERIF_DEBUG") != "" {
			cmd.Stderr = os.Stderr
		}
		return cmd
	}, 3*time.Minute)
	perScenario := map[string]any{}
	start := time.Now()
	var used time.Duration
	for i, p := range c.Plans {
		sc := p.Scenario
		if only != "" && only != sc.Name {
			continue
		}
		budget, faultFrom := p.QuickBudget, p.QuickFaultOnlyFrom
		if ev.Thorough() {
			budget, faultFrom = p.ThoroughBudget, p.ThoroughFaultOnlyFrom
		}
		w := p.Weight
		if w == 0 {
			w = 1
		}
		// Unused time of earlier scenarios rolls over.
		var wrest float64
		for _, q := range c.Plans[i:] {
			if only != "" && only != q.Scenario.Name {
				continue // a single selected scenario gets the whole tier budget
			}
			if q.Weight == 0 {
				wrest++
			} else {
				wrest += q.Weight
			}
		}
		slice := time.Duration(float64(total-used) * w / wrest)
		scStart := time.Now()
		obs := map[string]struct{}{}
		var samples []any
		nviol := 0
		cfg := explore.Config{
			Scenario: sc.Name,
			Budget:   budget,
			Workers:  ev.Workers(),
			Deadline: time.Now().Add(slice),
			Pool:     pool,
			Allow: func(parent explore.Job, point int, label string, cost int) bool {
				if faultFrom > 0 && cost >= faultFrom {
					if !IsFault(label) {
						return false
					}
					for _, k := range parent.Kinds {
						if !IsFault(k) {
							return false
						}
					}
				}
				if p.Allow != nil {
					return p.Allow(parent, point, label, cost)
				}
				return true
			},
			OnResult: func(job explore.Job, res explore.Result) {
				r.Evals(1)
				r.Traces(1)
				r.States(int64(len(res.Points)) + 1)
				r.Transitions(int64(res.Steps))
				r.Distinct(sc.Name + "|" + res.Obs)
				obs[res.Obs] = struct{}{}
				if len(samples) < 2 && len(job.Prefix) > 0 {
					samples = append(samples, map[string]any{"scenario": sc.Name, "deviations": job.Kinds, "prefix_len": len(job.Prefix), "points": len(res.Points), "obs": trunc(res.Obs, 300)})
				} else if len(samples) == 0 {
					var lab []string
					for _, pt := range res.Points {
						lab = append(lab, pt.Labels[pt.Chosen])
					}
					samples = append(samples, map[string]any{"scenario": sc.Name, "default_schedule": lab, "obs": trunc(res.Obs, 300)})
				}
				if os.Getenv("VERIF_VERBOSE") != "" && (res.Capped || res.Diverged || res.Crash != "") {
					b, _ := json.Marshal(job)
					fmt.Printf("    capped=%v diverged=%v crash=%q obs=%s job=%s\n", res.Capped, res.Diverged, res.Crash, trunc(res.Obs, 120), b)
				}
				for k, v := range res.Counters {
					r.Add("counter_"+k, int64(v))
				}
				if res.Crash != "" {
					res.Viol = append(res.Viol, explore.Violation{Key: "worker-crash", What: res.Crash})
				}
				for _, v := range res.Viol {
					if c.Keep != nil && !c.Keep(sc.Name, v.Key) {
						continue
					}
					key := c.ID + ":" + sc.Name + ":" + v.Key
					if c.KeyOf != nil {
						key = c.KeyOf(sc.Name, v.Key)
					}
					if nviol < 50 {
						where := sc.Name
						if len(job.Picks) > 0 {
							where += " " + strings.Join(job.Picks, " ")
						}
						r.Violation(key, fmt.Sprintf("scenario %s, deviations %v: %s", where, job.Kinds, v.What),
							map[string]any{"check": c.ID, "scenario": sc.Name, "prefix": job.Prefix, "labels": job.Labels, "violation": v})
					}
					nviol++
				}
			},
		}
		st := explore.Explore(cfg)
		used += time.Since(scStart)
		for _, s := range samples {
			r.Sample(s)
		}
		perScenario[sc.Name] = map[string]any{
			"budget": budget, "fault_only_from": faultFrom, "bound_completed": st.LevelCompleted, "cut_by_time": st.Cut,
			"executions": st.Execs, "executions_per_level": st.LevelExecs, "decision_points": st.Points, "events": st.Steps,
			"distinct_outcomes": len(obs), "diverged": st.Diverged, "capped": st.Capped, "worker_crashes": st.Crashes,
			"wall_s": time.Since(scStart).Seconds(),
		}
		if st.Cut {
			r.NotExhaustive(fmt.Sprintf("%s: time slice ended inside deviation level %d (levels < %d complete)", sc.Name, st.LevelCompleted+1, st.LevelCompleted+1))
		}
		if st.Diverged > 0 {
			r.NotExhaustive(fmt.Sprintf("%s: %d replayed prefixes diverged (subtrees not expanded)", sc.Name, st.Diverged))
		}
		fmt.Printf("  %-28s budget=%d completed=%d execs=%d points=%d outcomes=%d diverged=%d capped=%d cut=%v %.1fs\n",
			sc.Name, budget, st.LevelCompleted, st.Execs, st.Points, len(obs), st.Diverged, st.Capped, st.Cut, time.Since(scStart).Seconds())
	}
	_ = start
	pool.Close()
	r.Set("scenarios", perScenario)
	if c.Extra != nil {
		c.Extra(r)
	}
	code := r.Write()
	os.Exit(code)
}

func trunc(s string, n int) string {
	if len(s) > n {
		return s[:n] + "…"
	}
	return s
}

// replay re-runs one violation artefact in-process with debug output.
func replay(t *testing.T, c *Check, by map[string]*netctl.Scenario, path string) {
	b, err := os.ReadFile(path)
	if err != nil {
		t.Fatal(err)
	}
	var a struct {
		Artefact struct {
			Scenario string   `json:"scenario"`
			Prefix   []int    `json:"prefix"`
			Labels   []string `json:"labels"`
		} `json:"artefact"`
	}
	if err := json.Unmarshal(b, &a); err != nil {
		t.Fatal(err)
	}
	sc := by[a.Artefact.Scenario]
	if sc == nil {
		t.Fatalf("unknown scenario %q", a.Artefact.Scenario)
	}
	runtime.GOMAXPROCS(1) // as the exploring workers ran it
	res := netctl.Run(t, sc, explore.Job{Scenario: sc.Name, Prefix: a.Artefact.Prefix, Labels: a.Artefact.Labels})
	var lab []string
	for _, pt := range res.Points {
		lab = append(lab, pt.Labels[pt.Chosen])
	}
	fmt.Printf("replay %s: points=%d diverged=%v\nschedule: %s\nobs: %s\n", sc.Name, len(res.Points), res.Diverged, strings.Join(lab, " "), res.Obs)
	keys := []string{}
	for _, v := range res.Viol {
		keys = append(keys, v.Key)
		fmt.Printf("VIOLATION-REPLAYED %s: %s\n", v.Key, v.What)
	}
	sort.Strings(keys)
	if len(keys) > 0 {
		os.Exit(1)
	}
	os.Exit(0)
}
