package vrt

import "fmt"

// ---------------------------------------------------------------- Mutex

type Locker interface {
	Lock()
	Unlock()
}

type Mutex struct {
	locked bool
	name   string
}

func (m *Mutex) Lock() {
	point(&op{kind: "lock", what: "Mutex.Lock", enabled: func() bool { return !m.locked }})
	m.locked = true
}

func (m *Mutex) TryLock() bool {
	point(&op{kind: "trylock", what: "Mutex.TryLock", enabled: always})
	if m.locked {
		return false
	}
	m.locked = true
	return true
}

func (m *Mutex) Unlock() {
	point(&op{kind: "unlock", what: "Mutex.Unlock", enabled: always})
	if !m.locked {
		panic("sync: unlock of unlocked mutex")
	}
	m.locked = false
}

// Held reports the modelled state (for harness assertions; not a scheduling point).
func (m *Mutex) Held() bool { return m.locked }

type RWMutex struct {
	readers int
	writer  bool
}

func (m *RWMutex) Lock() {
	point(&op{kind: "lock", what: "RWMutex.Lock", enabled: func() bool { return !m.writer && m.readers == 0 }})
	m.writer = true
}

func (m *RWMutex) TryLock() bool {
	point(&op{kind: "trylock", what: "RWMutex.TryLock", enabled: always})
	if m.writer || m.readers > 0 {
		return false
	}
	m.writer = true
	return true
}

func (m *RWMutex) Unlock() {
	point(&op{kind: "unlock", what: "RWMutex.Unlock", enabled: always})
	if !m.writer {
		panic("sync: Unlock of unlocked RWMutex")
	}
	m.writer = false
}

func (m *RWMutex) RLock() {
	point(&op{kind: "rlock", what: "RWMutex.RLock", enabled: func() bool { return !m.writer }})
	m.readers++
}

func (m *RWMutex) TryRLock() bool {
	point(&op{kind: "tryrlock", what: "RWMutex.TryRLock", enabled: always})
	if m.writer {
		return false
	}
	m.readers++
	return true
}

func (m *RWMutex) RUnlock() {
	point(&op{kind: "runlock", what: "RWMutex.RUnlock", enabled: always})
	if m.readers <= 0 {
		panic("sync: RUnlock of unlocked RWMutex")
	}
	m.readers--
}

type rlocker RWMutex

func (r *rlocker) Lock()   { (*RWMutex)(r).RLock() }
func (r *rlocker) Unlock() { (*RWMutex)(r).RUnlock() }

func (m *RWMutex) RLocker() Locker { return (*rlocker)(m) }

// ---------------------------------------------------------------- Cond

// Cond models sync.Cond over any Locker whose Lock is a vrt operation.
// Waiters are woken FIFO by Signal (as the runtime's notify list does).
type Cond struct {
	L       Locker
	waiters []*thread
}

func NewCond(l Locker) *Cond { return &Cond{L: l} }

func (c *Cond) Wait() {
	// Atomically: join the wait set and release the lock.
	t := point(&op{kind: "cond-wait", what: "Cond.Wait(release)", enabled: always})
	t.waitSig = false
	t.condWaits++
	c.waiters = append(c.waiters, t)
	unlockNoPoint(c.L)
	// Park until signalled.
	point(&op{kind: "cond-wake", what: "Cond.Wait(parked)", enabled: func() bool { return t.waitSig }})
	// Re-acquire through the locker's own Lock (a scheduling point of its own).
	c.L.Lock()
}

func unlockNoPoint(l Locker) {
	switch m := l.(type) {
	case *Mutex:
		if !m.locked {
			panic("sync: unlock of unlocked mutex")
		}
		m.locked = false
	case *RWMutex:
		if !m.writer {
			panic("sync: Unlock of unlocked RWMutex")
		}
		m.writer = false
	case *rlocker:
		(*RWMutex)(m).readers--
	default:
		// a Locker implemented by extracted code (e.g. the channel mutex):
		// its Unlock contains scheduling points, which only adds interleavings
		// a real sync.Cond also allows (Wait = add to notify list, then Unlock).
		l.Unlock()
	}
}

func (c *Cond) Signal() {
	point(&op{kind: "cond-signal", what: "Cond.Signal", enabled: always})
	if len(c.waiters) > 0 {
		c.waiters[0].waitSig = true
		c.waiters = c.waiters[1:]
	}
}

func (c *Cond) Broadcast() {
	point(&op{kind: "cond-broadcast", what: "Cond.Broadcast", enabled: always})
	for _, w := range c.waiters {
		w.waitSig = true
	}
	c.waiters = nil
}

// NumWaiters is for harness assertions.
func (c *Cond) NumWaiters() int { return len(c.waiters) }

// ---------------------------------------------------------------- Once / WaitGroup

type Once struct {
	done bool
	m    Mutex
}

func (o *Once) Do(f func()) {
	point(&op{kind: "once", what: "Once.Do(check)", enabled: always})
	if o.done {
		return
	}
	o.m.Lock()
	if !o.done {
		f()
		o.done = true
	}
	o.m.Unlock()
}

type WaitGroup struct{ n int }

func (w *WaitGroup) Add(d int) {
	point(&op{kind: "wg-add", what: "WaitGroup.Add", enabled: always})
	w.n += d
	if w.n < 0 {
		panic("sync: negative WaitGroup counter")
	}
}
func (w *WaitGroup) Done() { w.Add(-1) }
func (w *WaitGroup) Wait() {
	point(&op{kind: "wg-wait", what: "WaitGroup.Wait", enabled: func() bool { return w.n == 0 }})
}
func (w *WaitGroup) Go(f func()) {
	w.Add(1)
	Go("wg", func() { defer w.Done(); f() })
}

// ---------------------------------------------------------------- atomics

type Uint32 struct{ v uint32 }

func (a *Uint32) Load() uint32 { point(&op{kind: "atomic", what: "Uint32.Load", enabled: always}); return a.v }
func (a *Uint32) Store(v uint32) {
	point(&op{kind: "atomic", what: fmt.Sprintf("Uint32.Store(%d)", v), enabled: always})
	a.v = v
}
func (a *Uint32) Add(d uint32) uint32 {
	point(&op{kind: "atomic", what: "Uint32.Add", enabled: always})
	a.v += d
	return a.v
}
func (a *Uint32) Swap(v uint32) uint32 {
	point(&op{kind: "atomic", what: "Uint32.Swap", enabled: always})
	o := a.v
	a.v = v
	return o
}
func (a *Uint32) CompareAndSwap(o, n uint32) bool {
	point(&op{kind: "atomic", what: fmt.Sprintf("Uint32.CAS(%d,%d)", o, n), enabled: always})
	if a.v == o {
		a.v = n
		return true
	}
	return false
}

// Peek reads without a scheduling point (harness assertions only).
func (a *Uint32) Peek() uint32 { return a.v }

type Int32 struct{ v int32 }

func (a *Int32) Load() int32 { point(&op{kind: "atomic", what: "Int32.Load", enabled: always}); return a.v }
func (a *Int32) Store(v int32) {
	point(&op{kind: "atomic", what: "Int32.Store", enabled: always})
	a.v = v
}
func (a *Int32) Add(d int32) int32 {
	point(&op{kind: "atomic", what: "Int32.Add", enabled: always})
	a.v += d
	return a.v
}
func (a *Int32) Swap(v int32) int32 {
	point(&op{kind: "atomic", what: "Int32.Swap", enabled: always})
	o := a.v
	a.v = v
	return o
}
func (a *Int32) CompareAndSwap(o, n int32) bool {
	point(&op{kind: "atomic", what: "Int32.CAS", enabled: always})
	if a.v == o {
		a.v = n
		return true
	}
	return false
}
func (a *Int32) Peek() int32 { return a.v }

type Int64 struct{ v int64 }

func (a *Int64) Load() int64 { point(&op{kind: "atomic", what: "Int64.Load", enabled: always}); return a.v }
func (a *Int64) Store(v int64) {
	point(&op{kind: "atomic", what: "Int64.Store", enabled: always})
	a.v = v
}
func (a *Int64) Add(d int64) int64 {
	point(&op{kind: "atomic", what: "Int64.Add", enabled: always})
	a.v += d
	return a.v
}
func (a *Int64) Swap(v int64) int64 {
	point(&op{kind: "atomic", what: "Int64.Swap", enabled: always})
	o := a.v
	a.v = v
	return o
}
func (a *Int64) CompareAndSwap(o, n int64) bool {
	point(&op{kind: "atomic", what: "Int64.CAS", enabled: always})
	if a.v == o {
		a.v = n
		return true
	}
	return false
}
func (a *Int64) Peek() int64 { return a.v }

type Uint64 struct{ v uint64 }

func (a *Uint64) Load() uint64 { point(&op{kind: "atomic", what: "Uint64.Load", enabled: always}); return a.v }
func (a *Uint64) Store(v uint64) {
	point(&op{kind: "atomic", what: "Uint64.Store", enabled: always})
	a.v = v
}
func (a *Uint64) Add(d uint64) uint64 {
	point(&op{kind: "atomic", what: "Uint64.Add", enabled: always})
	a.v += d
	return a.v
}
func (a *Uint64) CompareAndSwap(o, n uint64) bool {
	point(&op{kind: "atomic", what: "Uint64.CAS", enabled: always})
	if a.v == o {
		a.v = n
		return true
	}
	return false
}

type Bool struct{ v bool }

func (a *Bool) Load() bool { point(&op{kind: "atomic", what: "Bool.Load", enabled: always}); return a.v }
func (a *Bool) Store(v bool) {
	point(&op{kind: "atomic", what: "Bool.Store", enabled: always})
	a.v = v
}
func (a *Bool) Swap(v bool) bool {
	point(&op{kind: "atomic", what: "Bool.Swap", enabled: always})
	o := a.v
	a.v = v
	return o
}
func (a *Bool) CompareAndSwap(o, n bool) bool {
	point(&op{kind: "atomic", what: "Bool.CAS", enabled: always})
	if a.v == o {
		a.v = n
		return true
	}
	return false
}

type Value struct{ v any }

func (a *Value) Load() any   { point(&op{kind: "atomic", what: "Value.Load", enabled: always}); return a.v }
func (a *Value) Store(v any) { point(&op{kind: "atomic", what: "Value.Store", enabled: always}); a.v = v }

type Pointer[T any] struct{ p *T }

func (a *Pointer[T]) Load() *T   { point(&op{kind: "atomic", what: "Pointer.Load", enabled: always}); return a.p }
func (a *Pointer[T]) Store(p *T) { point(&op{kind: "atomic", what: "Pointer.Store", enabled: always}); a.p = p }
func (a *Pointer[T]) Swap(p *T) *T {
	point(&op{kind: "atomic", what: "Pointer.Swap", enabled: always})
	o := a.p
	a.p = p
	return o
}
func (a *Pointer[T]) CompareAndSwap(o, n *T) bool {
	point(&op{kind: "atomic", what: "Pointer.CAS", enabled: always})
	if a.p == o {
		a.p = n
		return true
	}
	return false
}

// Function-style atomics on plain integers.
func LoadInt32(p *int32) int32 {
	point(&op{kind: "atomic", what: "LoadInt32", enabled: always})
	return *p
}
func StoreInt32(p *int32, v int32) {
	point(&op{kind: "atomic", what: "StoreInt32", enabled: always})
	*p = v
}
func AddInt32(p *int32, d int32) int32 {
	point(&op{kind: "atomic", what: "AddInt32", enabled: always})
	*p += d
	return *p
}
func LoadInt64(p *int64) int64 {
	point(&op{kind: "atomic", what: "LoadInt64", enabled: always})
	return *p
}
func StoreInt64(p *int64, v int64) {
	point(&op{kind: "atomic", what: "StoreInt64", enabled: always})
	*p = v
}
func AddInt64(p *int64, d int64) int64 {
	point(&op{kind: "atomic", what: "AddInt64", enabled: always})
	*p += d
	return *p
}
func CompareAndSwapInt32(p *int32, o, n int32) bool {
	point(&op{kind: "atomic", what: "CASInt32", enabled: always})
	if *p == o {
		*p = n
		return true
	}
	return false
}
func LoadUint32(p *uint32) uint32 {
	point(&op{kind: "atomic", what: "LoadUint32", enabled: always})
	return *p
}
func StoreUint32(p *uint32, v uint32) {
	point(&op{kind: "atomic", what: "StoreUint32", enabled: always})
	*p = v
}
