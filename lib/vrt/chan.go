package vrt

import (
	"context"
	"time"
)

// chanCore is the untyped state of a modelled channel.
type chanCore struct {
	cap    int
	buf    []any
	closed bool
	name   string
}

// Chan is a modelled channel.
type Chan[T any] struct{ c chanCore }

func MakeChan[T any](n ...int) *Chan[T] {
	ch := &Chan[T]{}
	if len(n) > 0 {
		ch.c.cap = n[0]
	}
	return ch
}

func (ch *Chan[T]) core() *chanCore {
	if ch == nil {
		return nil
	}
	return &ch.c
}

// pendingSender returns a thread parked on a send to c (unbuffered rendezvous).
func pendingSender(c *chanCore, self *thread) *thread {
	for _, t := range cur.threads {
		if t == self || t.done || t.op == nil || t.completed {
			continue
		}
		for _, sc := range t.op.sendOn {
			if sc == c {
				return t
			}
		}
	}
	return nil
}

func pendingReceiver(c *chanCore, self *thread) *thread {
	for _, t := range cur.threads {
		if t == self || t.done || t.op == nil || t.completed {
			continue
		}
		for _, rc := range t.op.recvOn {
			if rc == c {
				return t
			}
		}
	}
	return nil
}

func canRecv(c *chanCore, self *thread) bool {
	if c == nil {
		return false
	}
	return len(c.buf) > 0 || c.closed || (c.cap == 0 && pendingSender(c, self) != nil)
}

func canSend(c *chanCore, self *thread) bool {
	if c == nil {
		return false
	}
	if c.closed {
		return true // will panic, as in Go
	}
	if c.cap > 0 {
		return len(c.buf) < c.cap
	}
	return pendingReceiver(c, self) != nil
}

// doRecv takes a value from c on behalf of thread t.
func doRecv(c *chanCore, t *thread) (any, bool) {
	if len(c.buf) > 0 {
		v := c.buf[0]
		c.buf = c.buf[1:]
		return v, true
	}
	if c.cap == 0 {
		if s := pendingSender(c, t); s != nil && !c.closed {
			v := s.senderValue(c)
			s.completed = true
			return v, true
		}
	}
	if c.closed {
		return nil, false
	}
	panic("vrt: recv chosen but not enabled")
}

func (t *thread) senderValue(c *chanCore) any {
	if t.op.sel != nil {
		for i, cs := range t.op.sel.cases {
			if cs.send && cs.c == c {
				t.selIdx = i
				return cs.v
			}
		}
	}
	return t.op.sendV
}

func doSend(c *chanCore, t *thread, v any) {
	if c.closed {
		panic("send on closed channel")
	}
	if c.cap > 0 {
		c.buf = append(c.buf, v)
		return
	}
	r := pendingReceiver(c, t)
	if r == nil {
		panic("vrt: send chosen but not enabled")
	}
	r.completed = true
	r.val, r.ok = v, true
	if r.op.sel != nil {
		for i, cs := range r.op.sel.cases {
			if !cs.send && cs.c == c {
				r.selIdx = i
				break
			}
		}
	}
}

func (ch *Chan[T]) Send(v T) {
	c := ch.core()
	var me *thread
	o := &op{kind: "send", what: "chan send", sendV: v}
	if c != nil {
		o.sendOn = []*chanCore{c}
	}
	o.enabled = func() bool { return canSend(c, me) }
	me = cur.cur
	t := point(o)
	if t.completed { // a receiver took our value
		t.completed = false
		return
	}
	doSend(c, t, v)
}

func (ch *Chan[T]) Recv2() (T, bool) {
	c := ch.core()
	var me *thread
	o := &op{kind: "recv", what: "chan recv"}
	if c != nil {
		o.recvOn = []*chanCore{c}
	}
	o.enabled = func() bool { return canRecv(c, me) }
	me = cur.cur
	t := point(o)
	var v any
	var ok bool
	if t.completed {
		t.completed = false
		v, ok = t.val, t.ok
		t.val = nil
	} else {
		v, ok = doRecv(c, t)
	}
	if !ok || v == nil {
		var z T
		return z, ok
	}
	return v.(T), ok
}

func (ch *Chan[T]) Recv() T { v, _ := ch.Recv2(); return v }

func (ch *Chan[T]) Close() {
	point(&op{kind: "close", what: "chan close", enabled: always})
	if ch.c.closed {
		panic("close of closed channel")
	}
	ch.c.closed = true
}

func (ch *Chan[T]) Len() int { return len(ch.c.buf) }
func (ch *Chan[T]) Cap() int { return ch.c.cap }

// IsClosed is for harness assertions (no scheduling point).
func (ch *Chan[T]) IsClosed() bool { return ch.c.closed }

// Free functions used by rewritten code.
func Send[T any](ch *Chan[T], v T) { ch.Send(v) }
func Recv[T any](ch *Chan[T]) T      { return ch.Recv() }
func Close[T any](ch *Chan[T])       { ch.Close() }

// ---------------------------------------------------------------- select

type Case struct {
	c    *chanCore
	send bool
	v    any
}

type selectOp struct{ cases []Case }

func RecvCase[T any](ch *Chan[T]) Case        { return Case{c: ch.core()} }
func SendCase[T any](ch *Chan[T], v T) Case   { return Case{c: ch.core(), send: true, v: v} }

// Select blocks until one case is ready (or returns -1 at once if hasDefault
// and none is). With several ready cases the explorer chooses (the Go
// runtime would pick at random). The received value is discarded: rewritten
// code only uses signal-style receives in select.
func Select(hasDefault bool, cases ...Case) int {
	var me *thread
	so := &selectOp{cases: cases}
	o := &op{kind: "select", what: "select", sel: so}
	for _, cs := range cases {
		if cs.c == nil {
			continue
		}
		if cs.send {
			o.sendOn = append(o.sendOn, cs.c)
		} else {
			o.recvOn = append(o.recvOn, cs.c)
		}
	}
	ready := func() []int {
		var r []int
		for i, cs := range cases {
			if cs.send && canSend(cs.c, me) || !cs.send && canRecv(cs.c, me) {
				r = append(r, i)
			}
		}
		return r
	}
	o.enabled = func() bool { return hasDefault || len(ready()) > 0 }
	me = cur.cur
	t := point(o)
	if t.completed { // a peer completed one of our cases by rendezvous
		t.completed = false
		t.val = nil
		return t.selIdx
	}
	r := ready()
	if len(r) == 0 {
		return -1
	}
	pick := r[0]
	if len(r) > 1 {
		pick = r[Choose("select-case", len(r))]
	}
	cs := cases[pick]
	if cs.send {
		doSend(cs.c, t, cs.v)
	} else {
		doRecv(cs.c, t)
	}
	return pick
}

// ---------------------------------------------------------------- context

type vctx struct {
	context.Context
	done *Chan[struct{}]
	err  error
}

func (c *vctx) Done() <-chan struct{} { panic("vrt: raw Done() on a modelled context; extraction must rewrite it to vrt.DoneChan") }
func (c *vctx) Err() error             { return c.err }
func (c *vctx) Deadline() (time.Time, bool) { return time.Time{}, false }
func (c *vctx) Value(k any) any        { return c.Context.Value(k) }

// WithCancel returns a modelled context whose cancellation is a vrt operation.
func WithCancel(parent context.Context) (context.Context, func()) {
	c := &vctx{Context: parent, done: MakeChan[struct{}]()}
	return c, func() {
		if !c.done.c.closed {
			c.err = context.Canceled
			c.done.Close()
		}
	}
}

var never = &Chan[struct{}]{}

// DoneChan maps a context to its modelled Done channel (a never-ready
// channel for ordinary contexts).
func DoneChan(ctx context.Context) *Chan[struct{}] {
	if v, ok := ctx.(*vctx); ok {
		return v.done
	}
	return never
}
