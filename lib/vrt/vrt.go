// Package vrt is engine S: a cooperative runtime that runs modelled threads
// one at a time and makes every synchronisation operation a scheduling point
// decided by an explorer. Blocking never happens for real: enabledness is
// computed from modelled state, so "no enabled thread while some thread is
// unfinished" is a deadlock verdict.
//
// One execution at a time per process (the current scheduler is a package
// global): parallelism comes from worker subprocesses.
package vrt

import (
	"fmt"
	"runtime/debug"
	"strings"

	"verif/lib/explore"
)

type thread struct {
	id      int
	name    string
	resume  chan struct{}
	done    bool
	op      *op // pending operation (nil while running)
	steps   int // operations executed (program counter for state keys)
	waitSig bool // cond: signalled
	condWaits int // number of Cond.Wait calls this thread has parked in
	// rendezvous completion (unbuffered channels / select)
	completed bool
	selIdx    int
	val       any
	ok        bool
}

type op struct {
	kind    string
	what    string
	enabled func() bool
	// for channel ops: so that peers can find us
	recvOn []*chanCore // channels this op would receive from
	sendOn []*chanCore // channels this op would send on
	sel    *selectOp
	sendV  any
}

// Sched is one execution.
type Sched struct {
	threads  []*thread
	cur      *thread
	yield    chan struct{}
	prefix   []int
	points   []explore.Point
	steps    int
	maxSteps int
	failure  string
	failKey  string
	aborted  bool
	trace    []string
	Trace    bool
	// StateKey, if set, returns the harness-visible shared state; used for pruning by the caller.
	inCritical map[string]int
}

var cur *Sched

// FreeSwitchCost is the cost of choosing a non-default thread at a point
// where the running thread cannot continue (it blocked or finished). 0 gives
// classic preemption bounding (only preemptions cost); 1 gives deviation
// bounding (every departure from the default schedule costs), which keeps the
// levels polynomial for harnesses with many threads.
var FreeSwitchCost = 0

type abortExec struct{}

// Fail records a property violation found by a harness assertion and aborts the execution.
func Fail(key, format string, a ...any) {
	s := cur
	if s.failure == "" {
		s.failure = fmt.Sprintf(format, a...)
		s.failKey = key
	}
	s.aborted = true
	panic(abortExec{})
}

// Assert fails the execution if cond is false.
func Assert(cond bool, key, format string, a ...any) {
	if !cond {
		Fail(key, format, a...)
	}
}

// Result of one execution.
type Result struct {
	Points   []explore.Point
	Steps    int
	Failure  string
	FailKey  string
	Deadlock bool
	Capped   bool
	Trace    []string
	Diverged bool
}

// Run executes body as thread 0 under the schedule given by prefix (then
// default choices). body spawns further threads with Go.
func Run(prefix []int, maxSteps int, trace bool, body func()) (res Result) {
	s := &Sched{yield: make(chan struct{}), prefix: prefix, maxSteps: maxSteps, Trace: trace, inCritical: map[string]int{}}
	cur = s
	s.spawn("main", body)
	s.loop()
	res = Result{Points: s.points, Steps: s.steps, Failure: s.failure, FailKey: s.failKey, Trace: s.trace}
	if s.failKey == "deadlock" {
		res.Deadlock = true
	}
	if s.failKey == "capped" {
		res.Capped = true
		res.Failure, res.FailKey = "", ""
	}
	if s.failKey == "diverged" {
		res.Diverged = true
		res.Failure, res.FailKey = "", ""
	}
	// Unblock and discard remaining goroutines.
	s.aborted = true
	for _, t := range s.threads {
		if !t.done {
			t.resume <- struct{}{}
			<-s.yield
		}
	}
	cur = nil
	return res
}

func (s *Sched) spawn(name string, f func()) *thread {
	t := &thread{id: len(s.threads), name: name, resume: make(chan struct{})}
	s.threads = append(s.threads, t)
	t.op = &op{kind: "start", what: "start " + name, enabled: func() bool { return true }}
	go func() {
		<-t.resume
		defer func() {
			if r := recover(); r != nil {
				if _, ok := r.(abortExec); !ok {
					if s.failure == "" {
						s.failure = fmt.Sprintf("panic in thread %s: %v\n%s", t.name, r, trimStack(string(debug.Stack())))
						s.failKey = "panic"
					}
					s.aborted = true
				}
			}
			t.done = true
			t.op = nil
			s.yield <- struct{}{}
		}()
		if s.aborted {
			return
		}
		f()
	}()
	return t
}

func trimStack(st string) string {
	lines := strings.Split(st, "\n")
	if len(lines) > 40 {
		lines = lines[:40]
	}
	return strings.Join(lines, "\n")
}

// Go starts a new modelled thread.
func Go(name string, f func()) {
	s := cur
	s.spawn(name, f)
}

func (s *Sched) loop() {
	for {
		if s.aborted {
			return
		}
		var en []*thread
		unfinished := 0
		for _, t := range s.threads {
			if t.done {
				continue
			}
			unfinished++
			if t.op != nil && (t.completed || t.op.enabled()) {
				en = append(en, t)
			}
		}
		if unfinished == 0 {
			return
		}
		if len(en) == 0 {
			var b []string
			for _, t := range s.threads {
				if !t.done && t.op != nil {
					b = append(b, fmt.Sprintf("%s blocked at %s", t.name, t.op.what))
				}
			}
			s.failure = "deadlock: " + strings.Join(b, "; ")
			s.failKey = "deadlock"
			return
		}
		if s.steps >= s.maxSteps {
			s.failKey = "capped"
			return
		}
		// canonical order: running thread first if enabled, then ascending ids
		curEnabled := false
		if s.cur != nil {
			for i, t := range en {
				if t == s.cur {
					curEnabled = true
					copy(en[1:i+1], en[:i])
					en[0] = t
					break
				}
			}
		}
		pick := 0
		if len(en) > 1 {
			labels := make([]string, len(en))
			costs := make([]int, len(en))
			for i, t := range en {
				labels[i] = t.name
				if i > 0 && curEnabled {
					costs[i] = 1
				} else if i > 0 {
					costs[i] = FreeSwitchCost
				}
			}
			pick = s.choose(labels, costs)
			if pick < 0 {
				return
			}
		}
		t := en[pick]
		s.cur = t
		s.steps++
		if s.Trace {
			s.trace = append(s.trace, fmt.Sprintf("%s: %s", t.name, t.op.what))
		}
		t.resume <- struct{}{}
		<-s.yield
	}
}

// choose records a decision point and returns the chosen alternative.
func (s *Sched) choose(labels []string, costs []int) int {
	i := len(s.points)
	c := 0
	if i < len(s.prefix) {
		c = s.prefix[i]
		if c >= len(labels) {
			s.failKey = "diverged"
			s.aborted = true
			return -1
		}
	}
	s.points = append(s.points, explore.Point{Labels: labels, Costs: costs, Chosen: c})
	return c
}

// point parks the calling thread on a pending operation until the scheduler
// picks it; on return the operation may take effect.
func point(o *op) *thread {
	s := cur
	t := s.cur
	if s.aborted {
		panic(abortExec{})
	}
	t.op = o
	t.steps++
	s.yield <- struct{}{}
	<-t.resume
	if s.aborted {
		panic(abortExec{})
	}
	t.op = nil
	return t
}

func always() bool { return true }

// Yield is an explicit scheduling point (for spin loops in harnesses).
func Yield(what string) { point(&op{kind: "yield", what: what, enabled: always}) }

// Choose lets a harness make an explorer-owned choice among n alternatives (cost 0 each).
func Choose(what string, n int) int {
	s := cur
	labels := make([]string, n)
	costs := make([]int, n)
	for i := range labels {
		labels[i] = fmt.Sprintf("%s=%d", what, i)
	}
	c := s.choose(labels, costs)
	if c < 0 {
		panic(abortExec{})
	}
	return c
}

// CondWaitsOf returns how many times the named thread has parked in a
// Cond.Wait so far (an observation independent of the code under test: a
// thread that has parked inside a call is waiting there).
func CondWaitsOf(name string) int {
	for _, t := range cur.threads {
		if t.name == name {
			return t.condWaits
		}
	}
	return 0
}

// ThreadName returns the running thread's name.
func ThreadName() string { return cur.cur.name }

// Steps returns how many operations each thread has executed (program counters).
func Steps() []int {
	out := make([]int, len(cur.threads))
	for i, t := range cur.threads {
		out[i] = t.steps
		if t.done {
			out[i] = -1
		}
	}
	return out
}
