// Package sync is the drop-in replacement for "sync" in code extracted for engine S.
package sync

import "verif/lib/vrt"

type (
	Mutex     = vrt.Mutex
	RWMutex   = vrt.RWMutex
	Cond      = vrt.Cond
	Once      = vrt.Once
	WaitGroup = vrt.WaitGroup
	Locker    = vrt.Locker
)

func NewCond(l Locker) *Cond { return vrt.NewCond(l) }
