// Package atomic is the drop-in replacement for "sync/atomic" in extracted code.
package atomic

import "verif/lib/vrt"

type (
	Uint32 = vrt.Uint32
	Int32  = vrt.Int32
	Int64  = vrt.Int64
	Uint64 = vrt.Uint64
	Bool   = vrt.Bool
	Value  = vrt.Value
)

type Pointer[T any] = vrt.Pointer[T]

func LoadInt32(p *int32) int32                   { return vrt.LoadInt32(p) }
func StoreInt32(p *int32, v int32)               { vrt.StoreInt32(p, v) }
func AddInt32(p *int32, d int32) int32           { return vrt.AddInt32(p, d) }
func LoadInt64(p *int64) int64                   { return vrt.LoadInt64(p) }
func StoreInt64(p *int64, v int64)               { vrt.StoreInt64(p, v) }
func AddInt64(p *int64, d int64) int64           { return vrt.AddInt64(p, d) }
func CompareAndSwapInt32(p *int32, o, n int32) bool { return vrt.CompareAndSwapInt32(p, o, n) }
func LoadUint32(p *uint32) uint32                { return vrt.LoadUint32(p) }
func StoreUint32(p *uint32, v uint32)            { vrt.StoreUint32(p, v) }
