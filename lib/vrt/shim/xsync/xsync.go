// Package xsync replaces pkg/kgo/internal/xsync in extracted code (production
// flavour: plain mutexes). The channel-based synctest flavour is itself a
// subject of C31 and is extracted separately.
package xsync

import "verif/lib/vrt"

type (
	Mutex   = vrt.Mutex
	RWMutex = vrt.RWMutex
)
