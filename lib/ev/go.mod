module verif.local/ev

go 1.25.0
