// Package ev is the shared evidence / violation / known-finding plumbing of
// every check in /verif. A check creates one Run, feeds it counts, distinct
// keys, samples and violations, and calls Finish, which writes
// /verif/evidence/<id>.json and exits 0 (held) or 1 (VIOLATION printed).
package ev

import (
	"encoding/json"
	"fmt"
	"hash/fnv"
	"os"
	"path/filepath"
	"sort"
	"strconv"
	"strings"
	"sync"
	"time"
)

// Root is the verification directory (default /verif).
func Root() string {
	if r := os.Getenv("VERIF_ROOT"); r != "" {
		return r
	}
	return "/verif"
}

// Tier returns "quick" or "thorough" from VERIF_TIER (default quick).
func Tier() string {
	if os.Getenv("VERIF_TIER") == "thorough" {
		return "thorough"
	}
	return "quick"
}

func Thorough() bool { return Tier() == "thorough" }

func Seed() int64 {
	s, _ := strconv.ParseInt(os.Getenv("VERIF_SEED"), 10, 64)
	return s
}

// Workers is the number of parallel workers to use (VERIF_WORKERS, default 16).
func Workers() int {
	if n, err := strconv.Atoi(os.Getenv("VERIF_WORKERS")); err == nil && n > 0 {
		return n
	}
	return 16
}

type Finding struct {
	Property string `json:"property"`
	Status   string `json:"status"` // "known" | "fixed"
	Key      string `json:"key"`
	What     string `json:"what"`
	Commit   string `json:"commit,omitempty"`
}

func loadFindings() []Finding {
	b, err := os.ReadFile(filepath.Join(Root(), "known_findings.json"))
	if err != nil {
		return nil
	}
	var f struct {
		Findings []Finding `json:"findings"`
	}
	if err := json.Unmarshal(b, &f); err != nil {
		fmt.Fprintf(os.Stderr, "known_findings.json unreadable: %v\n", err)
		os.Exit(2)
	}
	return f.Findings
}

// Run accumulates what one check covered.
type Run struct {
	mu        sync.Mutex
	ID        string
	Level     string
	start     time.Time
	evals     int64
	states    int64
	trans     int64
	traces    int64
	distinct  map[uint64]struct{}
	samples   []any
	maxSample int
	rule      string
	extra     map[string]any
	assume    []string
	exhaust   bool
	viol      int
	known     map[string]bool
	findings  []Finding
	parts     []string
}

func New(id, level string) *Run {
	// artefacts of earlier runs of this tier are stale once a new run starts
	if old, _ := filepath.Glob(filepath.Join(Root(), "violations", id, Tier()+"-*.json")); os.Getenv("VERIF_REPLAY") == "" {
		for _, f := range old {
			os.Remove(f)
		}
	}
	return &Run{ID: id, Level: level, start: time.Now(), distinct: map[uint64]struct{}{},
		maxSample: 8, extra: map[string]any{}, exhaust: true, known: map[string]bool{}, findings: loadFindings()}
}

func (r *Run) Rule(s string)            { r.mu.Lock(); r.rule = s; r.mu.Unlock() }
func (r *Run) Assume(s ...string)       { r.mu.Lock(); r.assume = append(r.assume, s...); r.mu.Unlock() }
func (r *Run) Set(k string, v any)      { r.mu.Lock(); r.extra[k] = v; r.mu.Unlock() }
func (r *Run) Evals(n int64)            { r.mu.Lock(); r.evals += n; r.mu.Unlock() }
func (r *Run) States(n int64)           { r.mu.Lock(); r.states += n; r.mu.Unlock() }
func (r *Run) Transitions(n int64)      { r.mu.Lock(); r.trans += n; r.mu.Unlock() }
func (r *Run) Traces(n int64)           { r.mu.Lock(); r.traces += n; r.mu.Unlock() }
func (r *Run) NotExhaustive(why string) {
	r.mu.Lock()
	r.exhaust = false
	r.parts = append(r.parts, why)
	r.mu.Unlock()
}

// Add increments a named extra counter.
func (r *Run) Add(k string, n int64) {
	r.mu.Lock()
	c, _ := r.extra[k].(int64)
	r.extra[k] = c + n
	r.mu.Unlock()
}

func h64(s string) uint64 { h := fnv.New64a(); h.Write([]byte(s)); return h.Sum64() }

// Distinct records a non-trivial case / terminal observation key; the number
// of distinct keys is reported as distinct_nontrivial.
func (r *Run) Distinct(key string) {
	k := h64(key)
	r.mu.Lock()
	r.distinct[k] = struct{}{}
	r.mu.Unlock()
}

func (r *Run) DistinctHash(k uint64) {
	r.mu.Lock()
	r.distinct[k] = struct{}{}
	r.mu.Unlock()
}

func (r *Run) NumDistinct() int { r.mu.Lock(); defer r.mu.Unlock(); return len(r.distinct) }

// Sample keeps up to a handful of explored cases written out.
func (r *Run) Sample(v any) {
	r.mu.Lock()
	if len(r.samples) < r.maxSample {
		r.samples = append(r.samples, v)
	}
	r.mu.Unlock()
}

// Violation reports a property violation identified by key (the class of
// failing input / schedule / history) with a replayable artefact. If the key
// is listed as a known finding it is printed as KNOWN-FINDING and not
// counted. Returns true if it counted as a violation.
func (r *Run) Violation(key, what string, artefact any) bool {
	r.mu.Lock()
	defer r.mu.Unlock()
	for _, f := range r.findings {
		if f.Property == r.ID && f.Status == "known" && f.Key == key {
			if !r.known[key] {
				r.known[key] = true
				fmt.Printf("KNOWN-FINDING: property=%s %s\n", r.ID, f.What)
			}
			return false
		}
	}
	r.viol++
	if r.viol > 20 { // do not flood; keep counting
		return true
	}
	dir := filepath.Join(Root(), "violations", r.ID)
	os.MkdirAll(dir, 0o755)
	path := filepath.Join(dir, fmt.Sprintf("%s-%d.json", Tier(), r.viol))
	b, _ := json.MarshalIndent(map[string]any{"property": r.ID, "key": key, "what": what, "artefact": artefact}, "", " ")
	os.WriteFile(path, b, 0o644)
	fmt.Printf("VIOLATION property=%s replay=%s\n", r.ID, path)
	fmt.Printf("  key=%s\n  %s\n", key, strings.ReplaceAll(what, "\n", "\n  "))
	return true
}

func (r *Run) Violations() int { r.mu.Lock(); defer r.mu.Unlock(); return r.viol }

// InfraError aborts the check with exit 2 (infrastructure error, no verdict).
func InfraError(format string, a ...any) {
	fmt.Fprintf(os.Stderr, "INFRA-ERROR: "+format+"\n", a...)
	os.Exit(2)
}

// Write writes the evidence file and returns the exit code (0/1).
func (r *Run) Write() int {
	r.mu.Lock()
	defer r.mu.Unlock()
	cov := map[string]any{}
	for k, v := range r.extra {
		cov[k] = v
	}
	cov["evaluations"] = r.evals
	cov["distinct_nontrivial"] = len(r.distinct)
	cov["rule"] = r.rule
	if len(r.samples) == 0 {
		r.samples = []any{"(no sample recorded)"}
	}
	cov["samples"] = r.samples
	cov["exhaustive"] = r.exhaust
	if len(r.parts) > 0 {
		cov["not_exhaustive_because"] = r.parts
	}
	if r.Level == "model_checking" {
		st, tr := r.states, r.trans
		if st == 0 {
			st = r.evals
		}
		if tr == 0 {
			tr = r.evals
		}
		cov["states"] = st
		cov["transitions"] = tr
		cov["traces_validated_against_impl"] = r.traces
	}
	kn := make([]string, 0, len(r.known))
	for k := range r.known {
		kn = append(kn, k)
	}
	sort.Strings(kn)
	if len(kn) > 0 {
		cov["known_findings_reproduced"] = kn
	}
	out := map[string]any{
		"property_id": r.ID,
		"tier":        Tier(),
		"seed":        Seed(),
		"level":       r.Level,
		"coverage":    cov,
		"assumptions": r.assume,
		"wall_s":      time.Since(r.start).Seconds(),
		"violations":  r.viol,
	}
	if r.assume == nil {
		out["assumptions"] = []string{}
	}
	b, _ := json.MarshalIndent(out, "", " ")
	dir := filepath.Join(Root(), "evidence")
	if rp := os.Getenv("VERIF_REPO"); (rp != "" && rp != "/repo") || os.Getenv("VERIF_SCENARIO") != "" {
		// a run against a scratch copy carrying a seeded change, or of a
		// single scenario: not evidence about /repo
		dir = filepath.Join(Root(), "build", "scratch-evidence")
	}
	os.MkdirAll(dir, 0o755)
	if err := os.WriteFile(filepath.Join(dir, r.ID+".json"), append(b, '\n'), 0o644); err != nil {
		InfraError("write evidence: %v", err)
	}
	fmt.Printf("%s %s: evaluations=%d distinct=%d states=%d transitions=%d violations=%d known=%d exhaustive=%v wall=%.1fs\n",
		r.ID, Tier(), r.evals, len(r.distinct), r.states, r.trans, r.viol, len(r.known), r.exhaust, time.Since(r.start).Seconds())
	if r.viol > 0 {
		return 1
	}
	return 0
}

// Finish writes evidence and exits.
func (r *Run) Finish() { os.Exit(r.Write()) }

// Deadline returns a soft deadline for the current tier: checks stop
// expanding (reporting exhaustive:false) when it passes.
func Deadline(quick, thorough time.Duration) time.Time {
	if Thorough() {
		return time.Now().Add(thorough)
	}
	return time.Now().Add(quick)
}
