package cowwatch

import (
	"reflect"
	"strings"
	"testing"

	"github.com/twmb/franz-go/pkg/kgo"
)

// The oracle sees the paused set of a real client, stays silent while the
// client replaces it copy-on-write, and reports a write into a published map.
func TestWatcherDetectsInPlaceWrite(t *testing.T) {
	cl, err := kgo.NewClient(kgo.SeedBrokers("127.0.0.1:1"), kgo.ConsumeTopics("t"))
	if err != nil {
		t.Fatal(err)
	}
	defer cl.Close()
	var published []reflect.Value
	Debug = func(string, ...any) {}
	w := New()
	if bad := w.Check(cl); len(bad) != 0 {
		t.Fatalf("first walk: %v", bad)
	}
	if w.Maps == 0 {
		t.Fatal("walk found no published map")
	}
	cl.PauseFetchPartitions(map[string][]int32{"t": {0}})
	cl.PauseFetchPartitions(map[string][]int32{"t": {1}})
	cl.ResumeFetchPartitions(map[string][]int32{"t": {0}})
	cl.PauseFetchTopics("t")
	if bad := w.Check(cl); len(bad) != 0 {
		t.Fatalf("copy-on-write updates reported: %v", bad)
	}
	for _, p := range w.order {
		if e := w.seen[p]; strings.HasSuffix(e.path, ".paused") && e.m.Len() > 0 {
			published = append(published, e.m)
		}
	}
	if len(published) == 0 {
		t.Fatal("paused set not found")
	}
	// write into the published paused set in place: drop its entry
	m := published[len(published)-1]
	m.SetMapIndex(reflect.ValueOf("t"), reflect.Value{})
	bad := w.Check(cl)
	if len(bad) != 1 || !strings.Contains(bad[0], "paused") {
		t.Fatalf("in-place write not reported: %v", bad)
	}
	if bad := w.Check(cl); len(bad) != 0 {
		t.Fatalf("reported twice: %v", bad)
	}
}
