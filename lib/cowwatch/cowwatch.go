// Package cowwatch is an immutability oracle for the copy-on-write snapshots a
// kgo client publishes through atomic.Value fields (the external-topics map of
// a group leader, the paused set, the id->topic map, the topic->partitions
// maps): readers load those maps lock-free, so a write into a map that has
// already been published is a data race with every reader that can overlap it,
// whatever the timing of the execution at hand.
//
// At every quiescent point of an engine-N execution Check walks the client
// through reflection (struct fields and pointers only; atomic.Value fields are
// loaded), fingerprints every map found as the value of an atomic.Value, and
// compares the fingerprint of every map seen at an earlier quiescent point
// with the one recorded then. The walk runs after synctest.Wait, when no
// goroutine of the bubble is running, so it reads a consistent state.
package cowwatch

import (
	"fmt"
	"reflect"
	"sort"
	"strings"
	"sync/atomic"
	"unsafe"
)

type watched struct {
	m    reflect.Value // the map itself (keeps it alive)
	path string
	fp   string
}

// Watcher remembers the published maps of one client.
type Watcher struct {
	seen  map[uintptr]*watched
	order []uintptr
	Maps  int // distinct published maps seen
}

func New() *Watcher { return &Watcher{seen: map[uintptr]*watched{}} }

var atomicValueType = reflect.TypeOf(atomic.Value{})

const maxWatched = 512

// Debug, when set, is told about every newly seen published map.
var Debug func(format string, a ...any)

// Check returns a description of every previously seen published map whose
// content changed since it was first seen, then records the maps published now.
func (w *Watcher) Check(root any) []string {
	var bad []string
	for _, p := range w.order {
		e := w.seen[p]
		if now := fingerprint(e.m); now != e.fp {
			bad = append(bad, fmt.Sprintf("%s: published map mutated in place: was {%s} now {%s}", e.path, e.fp, now))
			e.fp = now
		}
	}
	visited := map[uintptr]bool{}
	w.walk(reflect.ValueOf(root), "cl", 0, visited)
	for len(w.order) > maxWatched {
		delete(w.seen, w.order[0])
		w.order = w.order[1:]
	}
	return bad
}

func (w *Watcher) walk(v reflect.Value, path string, depth int, visited map[uintptr]bool) {
	if depth > 14 || !v.IsValid() {
		return
	}
	switch v.Kind() {
	case reflect.Ptr:
		if v.IsNil() {
			return
		}
		p := v.Pointer()
		if visited[p] {
			return
		}
		visited[p] = true
		w.walk(v.Elem(), path, depth+1, visited)
	case reflect.Interface:
		if !v.IsNil() {
			w.walk(v.Elem(), path, depth, visited)
		}
	case reflect.Struct:
		if v.Type() == atomicValueType {
			if !v.CanAddr() {
				return
			}
			av := (*atomic.Value)(unsafe.Pointer(v.UnsafeAddr()))
			x := av.Load()
			if x == nil {
				return
			}
			xv := reflect.ValueOf(x)
			switch xv.Kind() {
			case reflect.Map:
				w.note(xv, path)
			case reflect.Ptr:
				w.walk(xv, path, depth+1, visited)
			}
			return
		}
		if !strings.Contains(v.Type().PkgPath(), "franz-go/pkg/kgo") {
			return
		}
		if !v.CanAddr() {
			return
		}
		for i := 0; i < v.NumField(); i++ {
			f := v.Field(i)
			switch f.Kind() {
			case reflect.Ptr, reflect.Struct:
				// unexported fields: re-derive an accessible value from the address
				f = reflect.NewAt(f.Type(), unsafe.Pointer(f.UnsafeAddr())).Elem()
				w.walk(f, path+"."+v.Type().Field(i).Name, depth+1, visited)
			}
		}
	}
}

func (w *Watcher) note(m reflect.Value, path string) {
	p := m.Pointer()
	if p == 0 {
		return
	}
	if _, ok := w.seen[p]; ok {
		return
	}
	w.seen[p] = &watched{m: m, path: path, fp: fingerprint(m)}
	w.order = append(w.order, p)
	w.Maps++
	if Debug != nil {
		Debug("cow: new published map %s @%x {%s}", path, p, w.seen[p].fp)
	}
}

func fingerprint(m reflect.Value) string {
	var ents []string
	it := m.MapRange()
	for it.Next() {
		ents = append(ents, fmt.Sprintf("%v=%s", it.Key().Interface(), fpValue(it.Value(), 0)))
	}
	sort.Strings(ents)
	return strings.Join(ents, ",")
}

// fpValue: scalars by value, pointers by identity (the snapshot is shallow:
// what a pointer leads to has its own synchronisation), structs field by
// field, nested maps by their sorted entries.
func fpValue(v reflect.Value, depth int) string {
	switch v.Kind() {
	case reflect.Bool:
		return fmt.Sprint(v.Bool())
	case reflect.Int, reflect.Int8, reflect.Int16, reflect.Int32, reflect.Int64:
		return fmt.Sprint(v.Int())
	case reflect.Uint, reflect.Uint8, reflect.Uint16, reflect.Uint32, reflect.Uint64:
		return fmt.Sprint(v.Uint())
	case reflect.String:
		return v.String()
	case reflect.Ptr, reflect.Chan, reflect.Func, reflect.UnsafePointer:
		return fmt.Sprintf("@%x", v.Pointer())
	case reflect.Map:
		if depth > 2 {
			return fmt.Sprintf("map@%x", v.Pointer())
		}
		var ents []string
		it := v.MapRange()
		for it.Next() {
			ents = append(ents, fmt.Sprintf("%v=%s", fpKey(it.Key()), fpValue(it.Value(), depth+1)))
		}
		sort.Strings(ents)
		return "{" + strings.Join(ents, ",") + "}"
	case reflect.Struct:
		if depth > 2 {
			return "struct"
		}
		var fs []string
		for i := 0; i < v.NumField(); i++ {
			fs = append(fs, fpValue(v.Field(i), depth+1))
		}
		return "(" + strings.Join(fs, ";") + ")"
	case reflect.Slice:
		return fmt.Sprintf("[]@%x/%d", v.Pointer(), v.Len())
	}
	return v.Kind().String()
}

func fpKey(k reflect.Value) string {
	switch k.Kind() {
	case reflect.String:
		return k.String()
	case reflect.Int, reflect.Int8, reflect.Int16, reflect.Int32, reflect.Int64:
		return fmt.Sprint(k.Int())
	}
	return fpValue(k, 3)
}
