// Package nscen holds helpers shared by engine-N scenarios: client
// construction with the conventions of DESIGN.md §2.2, ledgers for promises
// and hooks, and an uncontrolled log reader.
package nscen

import (
	"context"
	"encoding/binary"
	"fmt"
	"os"
	"sort"
	"sync"
	"time"

	"github.com/twmb/franz-go/pkg/kbin"
	"github.com/twmb/franz-go/pkg/kfake"
	"github.com/twmb/franz-go/pkg/kgo"
	"github.com/twmb/franz-go/pkg/kmsg"
	"github.com/twmb/franz-go/pkg/kversion"

	"verif/lib/cowwatch"
	"verif/lib/netctl"
)

// BaseOpts are the conventions every controlled client uses: one seed,
// constant short backoff, short metadata min age, virtual-time friendly.
func BaseOpts(x *netctl.Exec, name string, c *kfake.Cluster) []kgo.Opt {
	return []kgo.Opt{
		kgo.SeedBrokers(c.ListenAddrs()[0]),
		kgo.Dialer(x.Dialer(name)),
		kgo.ClientID(name),
		kgo.MetadataMinAge(time.Second),
		kgo.MetadataMaxAge(10 * time.Minute),
		kgo.RetryBackoffFn(func(int) time.Duration { return 10 * time.Millisecond }),
		kgo.RequestTimeoutOverhead(time.Second),
		kgo.DisableClientMetrics(),
	}
}

// NewClient builds a controlled client and registers its Close as cleanup.
func NewClient(x *netctl.Exec, name string, c *kfake.Cluster, opts ...kgo.Opt) *kgo.Client {
	cl, err := kgo.NewClient(append(BaseOpts(x, name, c), opts...)...)
	if err != nil {
		panic(fmt.Sprintf("kgo.NewClient(%s): %v", name, err))
	}
	x.OnCleanup(cl.Close)
	if cowOracle {
		// immutability oracle for the client's published copy-on-write maps
		// (lib/cowwatch); C41 sets VERIF_COW=1
		w := cowwatch.New()
		if x.Debug {
			cowwatch.Debug = x.Logf
		}
		x.OnQuiescent(func() {
			for _, bad := range w.Check(cl) {
				x.Violate("cow-mutated", "client %s: %s", name, bad)
			}
			x.Count("cow-checks", 1)
		})
		x.OnCleanup(func() { x.Count("cow-maps", w.Maps) })
	}
	return cl
}

var cowOracle = os.Getenv("VERIF_COW") == "1"

// Helper returns an uncontrolled client (direct dial, no proxy).
func Helper(x *netctl.Exec, c *kfake.Cluster, opts ...kgo.Opt) *kgo.Client {
	base := []kgo.Opt{
		kgo.SeedBrokers(c.ListenAddrs()...),
		kgo.Dialer(x.DirectDial),
		kgo.ClientID("helper"),
		kgo.MetadataMinAge(10 * time.Millisecond),
		kgo.RetryBackoffFn(func(int) time.Duration { return 10 * time.Millisecond }),
		kgo.DisableClientMetrics(),
	}
	cl, err := kgo.NewClient(append(base, opts...)...)
	if err != nil {
		panic(fmt.Sprintf("helper client: %v", err))
	}
	return cl
}

// LogRecord is one record read back from the log.
type LogRecord struct {
	Topic     string
	Partition int32
	Offset    int64
	Value     string
	Key       string
	PID       int64
	Epoch     int16
	Txn       bool
	Control   bool
	Commit    bool // control records: true = COMMIT marker, false = ABORT
}

// ReadRaw reads the complete log of one partition (read_uncommitted, control
// records included) with raw Fetch requests sent by an uncontrolled client,
// decoding record batches directly (independent of the client's fetch path).
func ReadRaw(x *netctl.Exec, c *kfake.Cluster, topic string, partition int32) []LogRecord {
	// Pin Fetch to v11: later versions address topics by id.
	vers := kversion.Stable()
	vers.SetMaxKeyVersion(1, 11)
	cl := Helper(x, c, kgo.MaxVersions(vers))
	defer cl.Close()
	ctx, cancel := context.WithTimeout(context.Background(), 120*time.Second)
	defer cancel()
	var out []LogRecord
	next := int64(0)
	start := true
	for tries := 0; tries < 200; tries++ {
		leader := c.LeaderFor(topic, partition)
		if leader < 0 {
			x.Violate("harness:no-leader", "no leader for %s/%d", topic, partition)
			return out
		}
		req := kmsg.NewPtrFetchRequest()
		req.Version = 11
		req.ReplicaID = -1
		req.MaxWaitMillis = 0
		req.MinBytes = 0
		req.MaxBytes = 64 << 20
		req.SessionEpoch = -1
		rt := kmsg.NewFetchRequestTopic()
		rt.Topic = topic
		rp := kmsg.NewFetchRequestTopicPartition()
		rp.Partition = partition
		rp.FetchOffset = next
		rp.CurrentLeaderEpoch = -1
		rp.PartitionMaxBytes = 64 << 20
		rt.Partitions = append(rt.Partitions, rp)
		req.Topics = append(req.Topics, rt)
		kresp, err := cl.Broker(int(leader)).RetriableRequest(ctx, req)
		if err != nil {
			x.Violate("harness:rawfetch", "raw fetch %s/%d: %v", topic, partition, err)
			return out
		}
		resp := kresp.(*kmsg.FetchResponse)
		if len(resp.Topics) != 1 || len(resp.Topics[0].Partitions) != 1 {
			x.Violate("harness:rawfetch", "raw fetch %s/%d: unexpected shape", topic, partition)
			return out
		}
		p := resp.Topics[0].Partitions[0]
		if p.ErrorCode == 1 && start { // OFFSET_OUT_OF_RANGE: log start moved
			next = p.LogStartOffset
			start = false
			continue
		}
		if p.ErrorCode != 0 {
			time.Sleep(20 * time.Millisecond)
			continue
		}
		in := p.RecordBatches
		for len(in) > 12 {
			l := int(int32(binary.BigEndian.Uint32(in[8:]))) + 12
			if l > len(in) || l < 61 {
				break
			}
			var b kmsg.RecordBatch
			if err := b.ReadFrom(in[:l]); err != nil {
				x.Violate("harness:rawfetch", "undecodable batch in %s/%d at %d: %v", topic, partition, next, err)
				return out
			}
			in = in[l:]
			if b.Attributes&7 != 0 {
				x.Violate("harness:rawfetch", "compressed batch in %s/%d: the raw reader expects uncompressed scenarios", topic, partition)
				return out
			}
			recs := b.Records
			for i := int32(0); i < b.NumRecords; i++ {
				var r kmsg.Record
				rl, n := kbin.Varint(recs)
				if n <= 0 || int(rl)+n > len(recs) {
					break
				}
				if err := r.ReadFrom(recs[:int(rl)+n]); err != nil {
					break
				}
				recs = recs[int(rl)+n:]
				lr := LogRecord{Topic: topic, Partition: partition, Offset: b.FirstOffset + int64(r.OffsetDelta), Value: string(r.Value), Key: string(r.Key),
					PID: b.ProducerID, Epoch: b.ProducerEpoch, Txn: b.Attributes&0x10 != 0, Control: b.Attributes&0x20 != 0}
				if lr.Control && len(r.Key) >= 4 {
					lr.Commit = binary.BigEndian.Uint16(r.Key[2:]) == 1
				}
				if lr.Offset >= next {
					out = append(out, lr)
				}
			}
			next = b.FirstOffset + int64(b.LastOffsetDelta) + 1
		}
		if next >= p.HighWatermark {
			return out
		}
	}
	x.Violate("harness:rawfetch", "raw fetch %s/%d did not reach the high watermark", topic, partition)
	return out
}

// Committed filters a raw log down to what a read_committed consumer must
// see once every transaction has ended: non-transactional data plus
// transactional data whose producer's next control marker is a COMMIT. Data of
// transactions still open at the end of the log is returned in the second list.
func Committed(log []LogRecord) (visible, open []LogRecord) {
	for i, r := range log {
		if r.Control {
			continue
		}
		if !r.Txn {
			visible = append(visible, r)
			continue
		}
		decided := false
		for _, m := range log[i+1:] {
			if m.Control && m.PID == r.PID {
				decided = true
				if m.Commit {
					visible = append(visible, r)
				}
				break
			}
		}
		if !decided {
			open = append(open, r)
		}
	}
	return
}

// Ledger counts promise invocations per record.
type Ledger struct {
	mu      sync.Mutex
	handed  map[*kgo.Record]string // record -> name
	calls   map[*kgo.Record][]error
	stray   []string
	order   []string
	offsets map[string]int64
}

func NewLedger() *Ledger {
	return &Ledger{handed: map[*kgo.Record]string{}, calls: map[*kgo.Record][]error{}, offsets: map[string]int64{}}
}

// Hand registers a record about to be handed to the client.
func (l *Ledger) Hand(name string, r *kgo.Record) {
	l.mu.Lock()
	l.handed[r] = name
	l.mu.Unlock()
}

// Promise returns the promise function to pass to Produce.
func (l *Ledger) Promise() func(*kgo.Record, error) {
	return func(r *kgo.Record, err error) {
		l.mu.Lock()
		defer l.mu.Unlock()
		name, ok := l.handed[r]
		if !ok {
			l.stray = append(l.stray, fmt.Sprintf("%p(%s)", r, r.Value))
			return
		}
		l.calls[r] = append(l.calls[r], err)
		if err == nil {
			l.order = append(l.order, name)
			l.offsets[name] = r.Offset
		}
	}
}

// Outstanding returns the names of handed records whose promise has not run.
func (l *Ledger) Outstanding() []string {
	l.mu.Lock()
	defer l.mu.Unlock()
	var out []string
	for r, n := range l.handed {
		if len(l.calls[r]) == 0 {
			out = append(out, n)
		}
	}
	sort.Strings(out)
	return out
}

// Check reports promise-count violations; final says whether every promise
// must have run by now.
func (l *Ledger) Check(x *netctl.Exec, final bool) {
	l.mu.Lock()
	defer l.mu.Unlock()
	for _, s := range l.stray {
		x.Violate("promise-for-unknown-record", "promise called for a record never handed in: %s", s)
	}
	for r, n := range l.handed {
		c := l.calls[r]
		if len(c) > 1 {
			x.Violate("promise-twice", "record %s promised %d times: %v", n, len(c), c)
		}
		if final && len(c) == 0 {
			x.Violate("promise-never", "record %s never promised", n)
		}
	}
}

// Summary is a canonical outcome string (record -> ok/err class).
func (l *Ledger) Summary() string {
	l.mu.Lock()
	defer l.mu.Unlock()
	var s []string
	for r, n := range l.handed {
		c := l.calls[r]
		switch {
		case len(c) == 0:
			s = append(s, n+"=none")
		case c[0] == nil:
			s = append(s, n+"=ok")
		default:
			s = append(s, n+"=err:"+ErrClass(c[0]))
		}
	}
	sort.Strings(s)
	return fmt.Sprint(s)
}

// Result returns (called, err) for a named record.
func (l *Ledger) Result(name string) (bool, error, int64) {
	l.mu.Lock()
	defer l.mu.Unlock()
	for r, n := range l.handed {
		if n == name {
			c := l.calls[r]
			if len(c) == 0 {
				return false, nil, -1
			}
			return true, c[0], r.Offset
		}
	}
	return false, nil, -1
}

func (l *Ledger) Names() []string {
	l.mu.Lock()
	defer l.mu.Unlock()
	var out []string
	for _, n := range l.handed {
		out = append(out, n)
	}
	sort.Strings(out)
	return out
}

// ErrClass shortens an error to a stable class name.
func ErrClass(err error) string {
	if err == nil {
		return "nil"
	}
	s := err.Error()
	if len(s) > 48 {
		s = s[:48]
	}
	return s
}
