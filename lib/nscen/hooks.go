package nscen

import (
	"fmt"
	"sync"

	"github.com/twmb/franz-go/pkg/kgo"

	"verif/lib/netctl"
)

// HookLedger implements the buffered/unbuffered record hooks and counts
// them per record pointer (C14).
type HookLedger struct {
	mu       sync.Mutex
	pBuf     map[*kgo.Record]int
	pUnbuf   map[*kgo.Record][]error
	fBuf     map[*kgo.Record]int
	fUnbuf   map[*kgo.Record]int
	fPolled  map[*kgo.Record]int
	orderBad []string
}

func NewHookLedger() *HookLedger {
	return &HookLedger{pBuf: map[*kgo.Record]int{}, pUnbuf: map[*kgo.Record][]error{}, fBuf: map[*kgo.Record]int{}, fUnbuf: map[*kgo.Record]int{}, fPolled: map[*kgo.Record]int{}}
}

func (h *HookLedger) OnProduceRecordBuffered(r *kgo.Record) {
	h.mu.Lock()
	h.pBuf[r]++
	h.mu.Unlock()
}

func (h *HookLedger) OnProduceRecordUnbuffered(r *kgo.Record, err error) {
	h.mu.Lock()
	if h.pBuf[r] == 0 {
		h.orderBad = append(h.orderBad, fmt.Sprintf("produce record %q unbuffered before buffered", r.Value))
	}
	h.pUnbuf[r] = append(h.pUnbuf[r], err)
	h.mu.Unlock()
}

func (h *HookLedger) OnFetchRecordBuffered(r *kgo.Record) {
	h.mu.Lock()
	h.fBuf[r]++
	h.mu.Unlock()
}

func (h *HookLedger) OnFetchRecordUnbuffered(r *kgo.Record, polled bool) {
	h.mu.Lock()
	if h.fBuf[r] == 0 {
		h.orderBad = append(h.orderBad, fmt.Sprintf("fetch record %s/%d@%d unbuffered before buffered", r.Topic, r.Partition, r.Offset))
	}
	h.fUnbuf[r]++
	if polled {
		h.fPolled[r]++
	}
	h.mu.Unlock()
}

// CheckProduce verifies the produce-side pairing against the promise ledger.
// Must be called when every promise has run.
func (h *HookLedger) CheckProduce(x *netctl.Exec, l *Ledger) {
	h.mu.Lock()
	defer h.mu.Unlock()
	for _, s := range h.orderBad {
		x.Violate("hook-order", "%s", s)
	}
	for r, n := range h.pBuf {
		u := h.pUnbuf[r]
		if n != 1 {
			x.Violate("hook-produce-buffered-count", "record %q passed %d times to OnProduceRecordBuffered", r.Value, n)
		}
		if len(u) != 1 {
			x.Violate("hook-produce-unbuffered-count", "record %q buffered once but passed %d times to OnProduceRecordUnbuffered (%v)", r.Value, len(u), u)
			continue
		}
		l.mu.Lock()
		calls := l.calls[r]
		l.mu.Unlock()
		if len(calls) == 1 && !sameErr(calls[0], u[0]) {
			x.Violate("hook-produce-error-mismatch", "record %q: promise error %v, unbuffered hook error %v", r.Value, calls[0], u[0])
		}
	}
	for r, u := range h.pUnbuf {
		if h.pBuf[r] == 0 {
			x.Violate("hook-produce-unbuffered-only", "record %q passed to OnProduceRecordUnbuffered (%v) but never to OnProduceRecordBuffered", r.Value, u)
		}
	}
}

func sameErr(a, b error) bool {
	if a == nil || b == nil {
		return a == nil && b == nil
	}
	return a == b || a.Error() == b.Error()
}

// CheckFetch verifies that every fetch-buffered record was unbuffered exactly once.
func (h *HookLedger) CheckFetch(x *netctl.Exec) {
	h.mu.Lock()
	defer h.mu.Unlock()
	for _, s := range h.orderBad {
		x.Violate("hook-order", "%s", s)
	}
	for r, n := range h.fBuf {
		if n != 1 {
			x.Violate("hook-fetch-buffered-count", "record %s/%d@%d passed %d times to OnFetchRecordBuffered", r.Topic, r.Partition, r.Offset, n)
		}
		if u := h.fUnbuf[r]; u != 1 {
			x.Violate("hook-fetch-unbuffered-count", "record %s/%d@%d buffered once but unbuffered %d times", r.Topic, r.Partition, r.Offset, u)
		}
	}
	for r := range h.fUnbuf {
		if h.fBuf[r] == 0 {
			x.Violate("hook-fetch-unbuffered-only", "record %s/%d@%d unbuffered but never buffered", r.Topic, r.Partition, r.Offset)
		}
	}
}

// FetchCounts returns (buffered, unbuffered, polled) totals.
func (h *HookLedger) FetchCounts() (int, int, int) {
	h.mu.Lock()
	defer h.mu.Unlock()
	b, u, p := 0, 0, 0
	for _, n := range h.fBuf {
		b += n
	}
	for _, n := range h.fUnbuf {
		u += n
	}
	for _, n := range h.fPolled {
		p += n
	}
	return b, u, p
}
