// Package explore is the shared search core: deviation-bounded, level-by-level
// depth-first exploration of choice sequences. An execution is a pure
// function of a choice prefix (replayed) followed by default choices (index
// 0). Every non-default choice costs a deviation (or a per-alternative cost).
// Executions are run by in-process goroutines or by worker subprocesses of the
// same binary (crash isolation, GOMAXPROCS=1 determinism).
package explore

import (
	"bufio"
	"encoding/json"
	"fmt"
	"io"
	"os"
	"os/exec"
	"strings"
	"sync"
		"time"
)

// Point is one decision point of an execution.
type Point struct {
	Labels []string `json:"l"`           // enabled alternatives; index 0 is the default
	Costs  []int    `json:"c,omitempty"` // per-alternative deviation cost; nil: alt 0 costs 0, others 1
	Chosen int      `json:"x"`
}

type Violation struct {
	Key  string `json:"key"`
	What string `json:"what"`
}

// Job is one execution request.
type Job struct {
	Scenario string   `json:"scenario"`
	Prefix   []int    `json:"prefix"`
	Labels   []string `json:"labels,omitempty"` // label of each prefix choice as recorded by the parent execution
	Cost     int      `json:"cost"`
	Kinds    []string `json:"kinds,omitempty"` // labels of the deviations taken so far
	Picks    []string `json:"picks,omitempty"` // labels of the non-default cost-0 choices taken so far (script / configuration choices)
}

// Result is what one execution reports.
type Result struct {
	Points   []Point        `json:"points"`
	Obs      string         `json:"obs"`   // terminal observation (distinct outcomes are counted)
	Viol     []Violation    `json:"viol,omitempty"`
	Steps    int            `json:"steps"` // transitions taken (events delivered / scheduling steps)
	Capped   bool           `json:"capped,omitempty"`
	Diverged bool           `json:"diverged,omitempty"`
	Crash    string         `json:"crash,omitempty"`
	Retire   bool           `json:"retire,omitempty"` // worker exits after this result (parent restarts it)
	Counters map[string]int `json:"counters,omitempty"`
}

func (p Point) cost(alt int) int {
	if p.Costs != nil {
		return p.Costs[alt]
	}
	if alt == 0 {
		return 0
	}
	return 1
}

// Config controls one exploration.
type Config struct {
	Scenario string
	Budget   int // maximum total deviation cost
	Workers  int
	Deadline time.Time // soft: stop dispatching new jobs after it
	// Allow filters child generation: called for a candidate deviation with
	// the parent job, the point index, the alternative label and the total
	// cost the child would have.
	Allow func(parent Job, point int, label string, cost int) bool
	// Run executes a job in-process. If nil, Subprocess must be set.
	Run func(Job) Result
	// Subprocess, if non-nil, returns the command for a worker process that
	// speaks the line protocol (see ServeWorker).
	Subprocess func() *exec.Cmd
	// Pool, if non-nil, is used instead of starting (and stopping) a pool
	// from Subprocess for this exploration.
	Pool *Pool
	// OnResult is called (serialised) for every finished execution.
	OnResult func(Job, Result)
	MaxExecs int64
	JobTimeout time.Duration // subprocess only: a job exceeding it kills the worker (counted capped)
}

type Stats struct {
	Execs          int64
	Points         int64
	Steps          int64
	LevelCompleted int // highest deviation cost level fully explored (-1: none)
	LevelExecs     []int64
	Cut            bool // deadline or MaxExecs cut a level short
	Diverged       int64
	Capped         int64
	Crashes        int64
}

// Explore runs the search level by level (cost 0, then 1, ...).
func Explore(cfg Config) Stats {
	st := Stats{LevelCompleted: -1, LevelExecs: make([]int64, cfg.Budget+1)}
	levels := make([][]pending, cfg.Budget+1)
	levels[0] = []pending{{root: &Job{Scenario: cfg.Scenario}}}
	if cfg.Workers <= 0 {
		cfg.Workers = 1
	}
	var pool *procPool
	if cfg.Run == nil {
		if cfg.Pool != nil {
			// shared pool: workers are generic (the job names the scenario)
			// and survive from one scenario's exploration to the next
			pool = cfg.Pool.pp
			if cfg.Workers > len(pool.w) {
				cfg.Workers = len(pool.w)
			}
		} else {
			pool = newPool(cfg)
			defer pool.close()
		}
	}
	var mu sync.Mutex
	cond := sync.NewCond(&mu)
	for level := 0; level <= cfg.Budget; level++ {
		if len(levels[level]) == 0 {
			st.LevelCompleted = level
			continue
		}
		// levels[level] is a dynamic queue: zero-cost alternatives found
		// while running this level are appended to it.
		head, active, cut := 0, 0, false
		var wg sync.WaitGroup
		for w := 0; w < cfg.Workers; w++ {
			wg.Add(1)
			go func(w int) {
				defer wg.Done()
				mu.Lock()
				defer mu.Unlock()
				for {
					for head >= len(levels[level]) && active > 0 && !cut {
						cond.Wait()
					}
					if cut || head >= len(levels[level]) {
						cond.Broadcast()
						return
					}
					if (!cfg.Deadline.IsZero() && time.Now().After(cfg.Deadline)) || (cfg.MaxExecs > 0 && st.Execs >= cfg.MaxExecs) {
						cut = true
						cond.Broadcast()
						return
					}
					job := levels[level][head].materialize()
					levels[level][head] = pending{}
					head++
					active++
					mu.Unlock()
					var res Result
					if cfg.Run != nil {
						res = cfg.Run(job)
					} else {
						res = pool.run(w, job)
					}
					mu.Lock()
					active--
					st.Execs++
					st.LevelExecs[level]++
					st.Points += int64(len(res.Points))
					st.Steps += int64(res.Steps)
					if res.Diverged {
						st.Diverged++
					}
					if res.Capped {
						st.Capped++
					}
					if res.Crash != "" {
						st.Crashes++
					}
					if cfg.OnResult != nil {
						cfg.OnResult(job, res)
					}
					if !res.Diverged && res.Crash == "" {
						expand(cfg, job, res, levels)
					}
					cond.Broadcast()
				}
			}(w)
		}
		wg.Wait()
		levels[level] = nil
		if cut {
			st.Cut = true
			break
		}
		st.LevelCompleted = level
	}
	return st
}

// pending is a queued job in compact form: the children of one execution
// share that execution's choice and label vectors and are materialized only
// when dispatched (a family of 10^4 executions with 10^2 alternatives each
// would otherwise hold 10^6 copied prefixes in memory).
type pending struct {
	root   *Job // the initial job
	base   *expBase
	i, alt int
	cost   int
	paid   bool   // the alternative has a positive cost: its label goes to Kinds, else to Picks
	label  string // the alternative's label (interned)
}

// interned labels (labels repeat across executions; expand runs under the explorer's lock)
var (
	labelPool   = map[string]string{}
	labelPoolMu sync.Mutex // several Explore calls may run concurrently (C23's driver)
)

func intern(s string) string {
	labelPoolMu.Lock()
	defer labelPoolMu.Unlock()
	if v, ok := labelPool[s]; ok {
		return v
	}
	s = strings.Clone(s)
	labelPool[s] = s
	return s
}

type expBase struct {
	scenario     string
	choices      []int
	labels       []string
	kinds, picks []string
}

func (p pending) materialize() Job {
	if p.root != nil {
		return *p.root
	}
	b := p.base
	child := Job{Scenario: b.scenario, Cost: p.cost}
	child.Prefix = append(append(make([]int, 0, p.i+1), b.choices[:p.i]...), p.alt)
	child.Labels = append(append(make([]string, 0, p.i+1), b.labels[:p.i]...), p.label)
	if p.paid {
		child.Kinds = append(append([]string{}, b.kinds...), p.label)
		child.Picks = b.picks
	} else {
		child.Kinds = b.kinds
		child.Picks = append(append([]string{}, b.picks...), p.label)
	}
	return child
}

func expand(cfg Config, job Job, res Result, levels [][]pending) {
	choices := make([]int, len(res.Points))
	labels := make([]string, len(res.Points))
	for i, p := range res.Points {
		choices[i] = p.Chosen
		if p.Chosen < len(p.Labels) {
			labels[i] = p.Labels[p.Chosen]
		}
	}
	var base *expBase
	for i := len(job.Prefix); i < len(res.Points); i++ {
		p := res.Points[i]
		for alt := 0; alt < len(p.Labels); alt++ {
			if alt == p.Chosen {
				continue
			}
			c := job.Cost + p.cost(alt)
			if c > cfg.Budget {
				continue
			}
			if cfg.Allow != nil && !cfg.Allow(job, i, p.Labels[alt], c) {
				continue
			}
			if base == nil {
				for k := range labels {
					labels[k] = intern(labels[k])
				}
				base = &expBase{scenario: job.Scenario, choices: choices, labels: labels, kinds: job.Kinds, picks: job.Picks}
			}
			levels[c] = append(levels[c], pending{base: base, i: i, alt: alt, cost: c, paid: p.cost(alt) > 0, label: intern(p.Labels[alt])})
		}
	}
}

// ---------------------------------------------------------------------------
// Worker subprocess protocol: parent writes one JSON Job per line to the
// worker's stdin; the worker answers with one JSON Result per line on fd 3.

type procPool struct {
	cfg Config
	mu  sync.Mutex
	w   []*proc
}

type proc struct {
	cmd *exec.Cmd
	in  io.WriteCloser
	out *bufio.Reader
	rf  *os.File
	tail *tailBuf
}

func newPool(cfg Config) *procPool { return &procPool{cfg: cfg, w: make([]*proc, cfg.Workers)} }

// Pool is a set of worker subprocesses shared by several Explore calls
// (Config.Pool): a check with many scenarios pays the process start-up once.
type Pool struct{ pp *procPool }

// NewPool creates a shared pool; workers are started lazily.
func NewPool(workers int, subprocess func() *exec.Cmd, jobTimeout time.Duration) *Pool {
	if workers <= 0 {
		workers = 1
	}
	return &Pool{pp: newPool(Config{Workers: workers, Subprocess: subprocess, JobTimeout: jobTimeout})}
}

// Close stops the workers.
func (p *Pool) Close() { p.pp.close() }

func (pp *procPool) start() (*proc, error) {
	cmd := pp.cfg.Subprocess()
	rf, wf, err := os.Pipe()
	if err != nil {
		return nil, err
	}
	cmd.ExtraFiles = []*os.File{wf}
	tail := &tailBuf{max: 24 << 10}
	if cmd.Stderr == nil {
		cmd.Stderr = tail // kept for crash reports (panics, race detector output)
	}
	in, err := cmd.StdinPipe()
	if err != nil {
		return nil, err
	}
	if err := cmd.Start(); err != nil {
		return nil, err
	}
	wf.Close()
	return &proc{cmd: cmd, in: in, out: bufio.NewReaderSize(rf, 1<<20), rf: rf, tail: tail}, nil
}

// tailBuf keeps the last max bytes written to it.
type tailBuf struct {
	mu  sync.Mutex
	b   []byte
	max int
}

func (t *tailBuf) Write(p []byte) (int, error) {
	t.mu.Lock()
	t.b = append(t.b, p...)
	if len(t.b) > t.max {
		t.b = append([]byte(nil), t.b[len(t.b)-t.max:]...)
	}
	t.mu.Unlock()
	return len(p), nil
}

func (t *tailBuf) String() string { t.mu.Lock(); defer t.mu.Unlock(); return string(t.b) }

func (p *proc) kill() {
	p.in.Close()
	p.cmd.Process.Kill()
	p.cmd.Wait()
	p.rf.Close()
}

func (pp *procPool) run(w int, job Job) Result {
	p := pp.w[w]
	if p == nil {
		var err error
		p, err = pp.start()
		if err != nil {
			fmt.Fprintf(os.Stderr, "INFRA-ERROR: cannot start worker: %v\n", err)
			os.Exit(2)
		}
		pp.w[w] = p
	}
	b, _ := json.Marshal(job)
	b = append(b, '\n')
	type rr struct {
		line []byte
		err  error
	}
	ch := make(chan rr, 1)
	go func() {
		if _, err := p.in.Write(b); err != nil {
			ch <- rr{nil, err}
			return
		}
		line, err := p.out.ReadBytes('\n')
		ch <- rr{line, err}
	}()
	to := pp.cfg.JobTimeout
	if to == 0 {
		to = 5 * time.Minute
	}
	select {
	case r := <-ch:
		if r.err != nil {
			p.kill()
			pp.w[w] = nil
			return Result{Crash: fmt.Sprintf("worker died: %v\n%s", r.err, p.tail.String())}
		}
		var res Result
		if err := json.Unmarshal(r.line, &res); err != nil {
			p.kill()
			pp.w[w] = nil
			return Result{Crash: fmt.Sprintf("bad worker reply: %v", err)}
		}
		if res.Retire {
			p.kill()
			pp.w[w] = nil
		}
		return res
	case <-time.After(to):
		p.kill()
		pp.w[w] = nil
		<-ch
		return Result{Capped: true, Diverged: true, Obs: "job-timeout"}
	}
}

func (pp *procPool) close() {
	for _, p := range pp.w {
		if p != nil {
			p.in.Close()
			done := make(chan struct{})
			go func() { p.cmd.Wait(); close(done) }()
			select {
			case <-done:
			case <-time.After(5 * time.Second):
				p.cmd.Process.Kill()
				<-done
			}
			p.rf.Close()
		}
	}
}

// IsWorker reports whether this process was started as a worker.
func IsWorker() bool { return os.Getenv("VERIF_WORKER") == "1" }

// ServeWorker reads jobs from stdin and writes results to fd 3 until EOF.
func ServeWorker(run func(Job) Result) {
	out := os.NewFile(3, "results")
	in := bufio.NewReaderSize(os.Stdin, 1<<20)
	for {
		line, err := in.ReadBytes('\n')
		if len(line) > 0 {
			var job Job
			if jerr := json.Unmarshal(line, &job); jerr != nil {
				fmt.Fprintf(os.Stderr, "worker: bad job: %v\n", jerr)
				os.Exit(3)
			}
			res := run(job)
			b, _ := json.Marshal(res)
			out.Write(append(b, '\n'))
		}
		if err != nil {
			return
		}
	}
}

// EmitAndExit is used by a worker whose process can no longer be reused (for
// example a synctest bubble that cannot be left): it reports the result of
// the current job and exits.
func EmitAndExit(res Result) {
	res.Retire = true
	b, _ := json.Marshal(res)
	os.NewFile(3, "results").Write(append(b, '\n'))
	os.Exit(0)
}
