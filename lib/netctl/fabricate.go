package netctl

import (
	"encoding/binary"
	"reflect"

	"github.com/twmb/franz-go/pkg/kbin"
	"github.com/twmb/franz-go/pkg/kmsg"
)

// DecodeRequest decodes a full request frame (size prefix included).
func DecodeRequest(frame []byte) (kmsg.Request, int32, bool) {
	if len(frame) < 14 {
		return nil, 0, false
	}
	key := int16(binary.BigEndian.Uint16(frame[4:]))
	ver := int16(binary.BigEndian.Uint16(frame[6:]))
	corr := int32(binary.BigEndian.Uint32(frame[8:]))
	req := kmsg.RequestForKey(key)
	if req == nil {
		return nil, corr, false
	}
	req.SetVersion(ver)
	r := kbin.Reader{Src: frame[12:]}
	r.NullableString() // client id
	if req.IsFlexible() {
		n := r.Uvarint() // header tags
		for ; n > 0; n-- {
			r.Uvarint()
			r.Span(int(r.Uvarint()))
		}
	}
	if err := req.ReadFrom(r.Src); err != nil {
		return nil, corr, false
	}
	return req, corr, true
}

// DecodeResponse decodes a full response frame for the given request key/version.
func DecodeResponse(frame []byte, key, ver int16) (kmsg.Response, bool) {
	resp := kmsg.ResponseForKey(key)
	if resp == nil || len(frame) < 8 {
		return nil, false
	}
	resp.SetVersion(ver)
	body := frame[8:]
	if resp.IsFlexible() && key != 18 {
		r := kbin.Reader{Src: body}
		n := r.Uvarint()
		for ; n > 0; n-- {
			r.Uvarint()
			r.Span(int(r.Uvarint()))
		}
		body = r.Src
	}
	if err := resp.ReadFrom(body); err != nil {
		return nil, false
	}
	return resp, true
}

// EncodeResponse frames a response for correlation id corr.
func EncodeResponse(resp kmsg.Response, corr int32) []byte {
	b := make([]byte, 8, 128)
	binary.BigEndian.PutUint32(b[4:], uint32(corr))
	if resp.IsFlexible() && resp.Key() != 18 {
		b = append(b, 0)
	}
	b = resp.AppendTo(b)
	binary.BigEndian.PutUint32(b, uint32(len(b)-4))
	return b
}

// FabricateError builds the response frame a broker would send if it failed
// the whole request with code (partition/item level where the response has
// such a level, else top level). code<0 is not used; top-level-only codes for
// session-style errors are requested with FabricateTop.
func FabricateError(reqFrame []byte, code int16) []byte { return fabricate(reqFrame, code, false) }

// FabricateTop sets only the response's top-level error code.
func FabricateTop(reqFrame []byte, code int16) []byte { return fabricate(reqFrame, code, true) }

func fabricate(reqFrame []byte, code int16, top bool) []byte {
	req, corr, ok := DecodeRequest(reqFrame)
	if !ok {
		return nil
	}
	resp := req.ResponseKind()
	resp.SetVersion(req.GetVersion())
	callDefault(reflect.ValueOf(resp))
	rv := reflect.ValueOf(resp).Elem()
	qv := reflect.ValueOf(req).Elem()
	if top {
		if f := rv.FieldByName("ErrorCode"); f.IsValid() {
			f.SetInt(int64(code))
		}
	} else {
		leaf := mirror(qv, rv, code)
		if !leaf {
			if f := rv.FieldByName("ErrorCode"); f.IsValid() {
				f.SetInt(int64(code))
			}
		}
	}
	return EncodeResponse(resp, corr)
}

func callDefault(p reflect.Value) {
	if m := p.MethodByName("Default"); m.IsValid() {
		m.Call(nil)
	}
}

var sliceAlias = map[string]string{"Coordinators": "CoordinatorKeys"}

// mirror copies the item structure of req into resp, setting the deepest
// ErrorCode fields to code. It reports whether any item-level ErrorCode was set.
func mirror(q, r reflect.Value, code int16) bool {
	set := false
	for i := 0; i < r.NumField(); i++ {
		rf := r.Field(i)
		name := r.Type().Field(i).Name
		if rf.Kind() != reflect.Slice || rf.Type().Elem().Kind() != reflect.Struct {
			continue
		}
		qf := q.FieldByName(name)
		if !qf.IsValid() {
			if a, ok := sliceAlias[name]; ok {
				qf = q.FieldByName(a)
			}
		}
		if !qf.IsValid() || qf.Kind() != reflect.Slice {
			continue
		}
		out := reflect.MakeSlice(rf.Type(), 0, qf.Len())
		for j := 0; j < qf.Len(); j++ {
			qe := qf.Index(j)
			re := reflect.New(rf.Type().Elem())
			callDefault(re)
			e := re.Elem()
			sub := false
			if qe.Kind() == reflect.Struct {
				for k := 0; k < e.NumField(); k++ {
					fn := e.Type().Field(k).Name
					if fn == "UnknownTags" {
						continue
					}
					src := qe.FieldByName(fn)
					if src.IsValid() && src.Type() == e.Field(k).Type() && src.Kind() != reflect.Slice {
						e.Field(k).Set(src)
					}
				}
				sub = mirror(qe, e, code)
			} else {
				// scalar item (e.g. []int32 partitions, []string keys)
				for _, fn := range []string{"Partition", "Key", "Group", "Topic"} {
					f := e.FieldByName(fn)
					if f.IsValid() && f.Type() == qe.Type() {
						f.Set(qe)
						break
					}
				}
			}
			if !sub {
				if f := e.FieldByName("ErrorCode"); f.IsValid() {
					f.SetInt(int64(code))
					sub = true
				}
			}
			set = set || sub
			out = reflect.Append(out, e)
		}
		rf.Set(out)
	}
	return set
}
