// Package netctl is engine N: the real kgo client(s) and the real kfake
// cluster run inside one testing/synctest bubble, with a controller that sits
// between them as a frame-level proxy and owns every source of message-level
// nondeterminism: which queued request/response frame is delivered next,
// which application thread is released, when the virtual clock may run, and
// which fault is injected. One execution is a pure function of a choice
// sequence (explore.Job); see DESIGN.md §2.2.
package netctl

import (
	"context"
	"encoding/binary"
	"fmt"
	"io"
	"net"
	"os"
	"regexp"
	"runtime"
	"sort"
	"strings"
	"sync"
	"testing"
	"testing/synctest"
	"time"

	"github.com/twmb/franz-go/pkg/kfake"
	"github.com/twmb/franz-go/pkg/kmsg"

	"verif/lib/explore"
)

// Scenario describes one closed system to explore.
type Scenario struct {
	Name string
	// Setup builds cluster, clients and threads (inside the bubble).
	Setup func(x *Exec)
	// Done is evaluated at every decision point (default: all threads finished).
	Done func(x *Exec) bool
	// Final runs after the explored phase with the proxy in pass-through
	// mode: oracles, then nothing else (cleanups registered by Setup follow).
	Final func(x *Exec)
	// Faults returns the fault alternatives for the head frame of a
	// connection: dir is "req" or "resp"; key is the Kafka request key.
	// Returned labels: "killbefore", "stall", "err:<code>" for requests;
	// "killafter", "rewrite:<code>" for responses.
	Faults func(x *Exec, dir string, key int16, conn *Conn) []string
	// NoTick disables the "tick" deviation (timer beats pending frames).
	NoTick bool
	// Free runs the scenario free: after Setup the proxy passes everything
	// through, Steps do not park, and the controller neither decides anything
	// nor calls synctest.Wait (a Wait is a happens-before edge for the race
	// detector, which is what blinds it in controlled and burst stepping).
	// Used by C41 only: one execution per cost-0 choice combination, judged
	// by the race detector.
	Free bool
	// Slow marks events (by label) of a slow peer: they are ordered AFTER
	// tick, so in the default schedule the clock wins against them and
	// delivering one is a deviation.
	Slow func(label string) bool
	// Idle adds, at every decision point, one alternative "idle:<d>" per
	// duration: the application does nothing for d of virtual time while
	// the network behaves (frames are forwarded immediately, parked threads
	// stay parked). One deviation = one such pause (e.g. longer than a
	// transaction or session timeout), which a chain of ticks cannot express
	// within a small budget because every tick ends at the first observable
	// timer effect.
	Idle []time.Duration
	// Horizon is the virtual-time limit of the explored phase (default 3 min).
	Horizon time.Duration
	// MaxPoints caps decision points (default 600).
	MaxPoints int
	// AllowLeak lists regexps of goroutine top frames allowed to remain at the end.
	AllowLeak []*regexp.Regexp
}

// Conn is one proxied client connection.
type Conn struct {
	Name    string
	Client  string
	Broker  int // index of the broker (by listen port order)
	Class   string
	cli     net.Conn // proxy's end towards the client
	srv     net.Conn // proxy's end towards kfake
	mu      sync.Mutex
	reqQ    []*frame // requests read from the client, not yet delivered
	slots   []*slot  // delivered requests awaiting / holding responses, FIFO
	closed  bool
	stalled bool
	named   bool
	x       *Exec
	addr    string
	toSrv   *wq
	toCli   *wq
}

// wq is an unbounded in-order write queue drained by its own goroutine, so
// that the controller never blocks on a pipe write.
type wq struct {
	mu   sync.Mutex
	q    [][]byte
	kick chan struct{}
	done chan struct{}
}

func newWQ(w io.Writer, onErr func()) *wq {
	q := &wq{kick: make(chan struct{}, 1), done: make(chan struct{})}
	go func() {
		for {
			select {
			case <-q.kick:
			case <-q.done:
				return
			}
			for {
				q.mu.Lock()
				if len(q.q) == 0 {
					q.mu.Unlock()
					break
				}
				b := q.q[0]
				q.q = q.q[1:]
				q.mu.Unlock()
				if _, err := w.Write(b); err != nil {
					onErr()
					return
				}
			}
		}
	}()
	return q
}

func (q *wq) put(b []byte) {
	q.mu.Lock()
	q.q = append(q.q, b)
	q.mu.Unlock()
	select {
	case q.kick <- struct{}{}:
	default:
	}
}

func (q *wq) stop() {
	select {
	case <-q.done:
	default:
		close(q.done)
	}
}

type frame struct {
	b    []byte // full frame including the 4-byte size
	key  int16
	ver  int16
	corr int32
	seq  int64 // global arrival order
	handshake bool
}

type slot struct {
	req     *frame
	resp    []byte // full frame; nil until kfake answered or fabricated
	rewrite int16  // if non-zero the response from kfake is replaced by an error response
	seq     int64  // arrival order of the response
}

// Thread is a scripted application thread.
type Thread struct {
	Name   string
	x      *Exec
	gate   chan struct{}
	mu     sync.Mutex
	parked string // label of the gate it is parked at ("" if running)
	done   bool
	idx    int
}

// Step parks the thread until the controller releases it; label names the
// API call about to be made. In pass-through mode it returns immediately.
func (t *Thread) Step(label string) {
	x := t.x
	x.mu.Lock()
	if x.auto {
		x.mu.Unlock()
		if x.sc.Free {
			// free-running pass: pace the script in virtual time so that
			// timers (heartbeats, metadata refreshes, rebalances) interleave
			// with the calls
			time.Sleep(400 * time.Millisecond)
		}
		return
	}
	t.parked = label
	x.mu.Unlock()
	x.signal()
	<-t.gate
}

// Exec is one execution.
type Exec struct {
	T       *testing.T
	sc      *Scenario
	job     explore.Job
	mu      sync.Mutex
	auto    bool
	pass    bool // frames pass through while the controller idles (threads stay parked)
	wake    chan struct{}
	vnet    kfake.VirtualNetwork
	ports   []int
	conns   []*Conn
	ords    map[string]int
	threads []*Thread
	cleanup []func()
	quiescent []func()
	arrive  int64
	epoch   int64 // decision points taken so far (quiescence epoch of arriving frames)
	res     explore.Result
	obs     []string
	start   time.Time
	Debug   bool
	failDial map[string]bool
	stallClient map[string]bool
	// FrameHook, if set, sees every frame at delivery time (dir "req"/"resp").
	FrameHook func(c *Conn, dir string, key, ver int16, body []byte)
	// RespRewrite, if set (in Setup), sees every decoded broker response of
	// the controlled clients when it arrives at the proxy, in every mode; a
	// non-nil result replaces the response (an environment seam: e.g. report
	// a partition as leaderless in Metadata). Must be deterministic.
	RespRewrite func(c *Conn, key, ver int16, resp kmsg.Response) kmsg.Response
	Data    any // scenario state
}

func (x *Exec) signal() {
	select {
	case x.wake <- struct{}{}:
	default:
	}
}

func (x *Exec) Logf(format string, a ...any) {
	if x.Debug {
		fmt.Fprintf(os.Stderr, "[%8.3fs] "+format+"\n", append([]any{time.Since(x.start).Seconds()}, a...)...)
	}
}

// Violate records an oracle failure.
func (x *Exec) Violate(key, format string, a ...any) {
	x.mu.Lock()
	x.res.Viol = append(x.res.Viol, explore.Violation{Key: key, What: fmt.Sprintf(format, a...)})
	x.mu.Unlock()
}

// Observe adds to the terminal observation of this execution.
func (x *Exec) Observe(format string, a ...any) {
	x.mu.Lock()
	x.obs = append(x.obs, fmt.Sprintf(format, a...))
	x.mu.Unlock()
}

func (x *Exec) Count(k string, n int) {
	x.mu.Lock()
	if x.res.Counters == nil {
		x.res.Counters = map[string]int{}
	}
	x.res.Counters[k] += n
	x.mu.Unlock()
}

// OnCleanup registers a function run (LIFO) after Final.
func (x *Exec) OnCleanup(f func()) { x.cleanup = append(x.cleanup, f) }

// OnQuiescent registers a function run at every quiescent point of a
// controlled (not Free) execution, right after synctest.Wait: no goroutine of
// the bubble is running, so f may read client state (state oracles).
func (x *Exec) OnQuiescent(f func()) {
	x.mu.Lock()
	x.quiescent = append(x.quiescent, f)
	x.mu.Unlock()
}

// Choose is a scenario-owned choice among n alternatives, all of cost 0: the
// explorer enumerates every one of them at every deviation level (used to
// enumerate application scripts / configurations inside ONE scenario, so that
// a family of generated scripts shares a worker pool). Call it from Setup
// only, before any thread is declared, and always in the same order.
func (x *Exec) Choose(what string, n int) int {
	names := make([]string, n)
	for i := range names {
		names[i] = fmt.Sprint(i)
	}
	return x.ChooseOf(what, names)
}

// ChooseOf is Choose with named alternatives (the names appear in schedules
// and violation artefacts as "what=name").
func (x *Exec) ChooseOf(what string, names []string) int {
	n := len(names)
	labels := make([]string, n)
	for i := range labels {
		labels[i] = what + "=" + names[i]
	}
	choice := 0
	pi := len(x.res.Points)
	if pi < len(x.job.Prefix) {
		choice = x.job.Prefix[pi]
		if choice >= n || (pi < len(x.job.Labels) && labels[choice] != x.job.Labels[pi]) {
			x.res.Diverged = true
			choice = 0
		}
	}
	x.res.Points = append(x.res.Points, explore.Point{Labels: labels, Costs: make([]int, n), Chosen: choice})
	x.Logf("choose %d: %s", pi, labels[choice])
	return choice
}

// Elapsed is the virtual time since the execution began.
func (x *Exec) Elapsed() time.Duration { return time.Since(x.start) }

// Cluster creates a kfake cluster listening on the virtual network.
func (x *Exec) Cluster(nbrokers int, opts ...kfake.Opt) *kfake.Cluster {
	ports := make([]int, nbrokers)
	for i := range ports {
		ports[i] = 9092 + len(x.ports) + i
	}
	x.ports = append(x.ports, ports...)
	all := append([]kfake.Opt{kfake.NumBrokers(nbrokers), kfake.Ports(ports...), kfake.ListenFn(x.vnet.Listen)}, opts...)
	c, err := kfake.NewCluster(all...)
	if err != nil {
		panic(fmt.Sprintf("kfake.NewCluster: %v", err))
	}
	x.OnCleanup(c.Close)
	return c
}

// DirectDial dials kfake without the proxy (for uncontrolled helper clients).
func (x *Exec) DirectDial(ctx context.Context, network, addr string) (net.Conn, error) {
	return x.vnet.DialContext(ctx, network, addr)
}

// FailDials makes every later dial of the named client fail (unreachable brokers).
func (x *Exec) FailDials(client string, on bool) {
	x.mu.Lock()
	if x.failDial == nil {
		x.failDial = map[string]bool{}
	}
	x.failDial[client] = on
	x.mu.Unlock()
}

// StallClient freezes (on=true) every current and future connection of the
// named client: frames are neither delivered nor offered as events until the
// client gives the connection up, or pass-through mode begins (slow broker).
func (x *Exec) StallClient(client string, on bool) {
	x.mu.Lock()
	if x.stallClient == nil {
		x.stallClient = map[string]bool{}
	}
	x.stallClient[client] = on
	conns := append([]*Conn(nil), x.conns...)
	x.mu.Unlock()
	for _, c := range conns {
		if c.Client == client {
			c.mu.Lock()
			c.stalled = on
			c.mu.Unlock()
		}
	}
}

// Dialer returns the kgo.Dialer function for a named client.
func (x *Exec) Dialer(client string) func(ctx context.Context, network, addr string) (net.Conn, error) {
	return func(ctx context.Context, network, addr string) (net.Conn, error) {
		x.mu.Lock()
		fail := x.failDial[client]
		x.mu.Unlock()
		if fail {
			return nil, fmt.Errorf("netctl: dial %s refused", addr)
		}
		srv, err := x.vnet.DialContext(ctx, network, addr)
		if err != nil {
			return nil, err
		}
		cliEnd, proxyEnd := net.Pipe()
		_, portS, _ := net.SplitHostPort(addr)
		broker := -1
		for i, p := range x.ports {
			if fmt.Sprint(p) == portS {
				broker = i
			}
		}
		c := &Conn{Client: client, Broker: broker, cli: proxyEnd, srv: srv, x: x, addr: addr}
		x.mu.Lock()
		c.stalled = x.stallClient[client] && !x.auto
		x.mu.Unlock()
		c.toSrv = newWQ(srv, func() { c.close("server-write") })
		c.toCli = newWQ(proxyEnd, func() { c.close("client-write") })
		x.mu.Lock()
		x.conns = append(x.conns, c)
		x.mu.Unlock()
		go c.readClient()
		go c.readServer()
		return cliEnd, nil
	}
}

func readFrame(r io.Reader) ([]byte, error) {
	var sz [4]byte
	if _, err := io.ReadFull(r, sz[:]); err != nil {
		return nil, err
	}
	n := binary.BigEndian.Uint32(sz[:])
	if n > 64<<20 {
		return nil, fmt.Errorf("frame too large: %d", n)
	}
	b := make([]byte, 4+n)
	copy(b, sz[:])
	if _, err := io.ReadFull(r, b[4:]); err != nil {
		return nil, err
	}
	return b, nil
}

func classOf(key int16) string {
	switch key {
	case 0:
		return "produce"
	case 1, 78:
		return "fetch"
	case 11, 14:
		return "group"
	}
	return "gen"
}

func (c *Conn) readClient() {
	x := c.x
	for {
		b, err := readFrame(c.cli)
		if err != nil {
			c.close("client-eof")
			return
		}
		if len(b) < 12 {
			c.close("short-request")
			return
		}
		f := &frame{b: b, key: int16(binary.BigEndian.Uint16(b[4:])), ver: int16(binary.BigEndian.Uint16(b[6:])), corr: int32(binary.BigEndian.Uint32(b[8:]))}
		x.mu.Lock()
		auto := x.auto || x.pass
		handshake := f.key == 18 || f.key == 17 || f.key == 36
		if !c.named && !handshake { // only this goroutine writes named/Class/Name; readers hold c.mu
			k := fmt.Sprintf("%s/b%d/%s", c.Client, c.Broker, classOf(f.key))
			c.mu.Lock()
			c.named = true
			c.Class = classOf(f.key)
			c.Name = fmt.Sprintf("%s#%d", k, x.ords[k])
			c.mu.Unlock()
			x.ords[k]++
		}
		x.arrive++
		f.seq = x.epoch<<24 | x.arrive&0xffffff
		x.mu.Unlock()
		c.mu.Lock()
		if c.closed {
			c.mu.Unlock()
			return
		}
		f.handshake = handshake
		c.reqQ = append(c.reqQ, f)
		c.mu.Unlock()
		if handshake || auto {
			c.pump()
			continue
		}
		x.signal()
	}
}

func (x *Exec) autoFlag() bool { x.mu.Lock(); defer x.mu.Unlock(); return x.auto || x.pass }

// idle models "the application does nothing for d while the network behaves":
// frames are forwarded immediately (parked threads stay parked) and the
// virtual clock runs for d.
func (x *Exec) idle(d time.Duration) {
	x.mu.Lock()
	x.pass = true
	conns := append([]*Conn(nil), x.conns...)
	x.mu.Unlock()
	for _, c := range conns {
		c.pump()
	}
	time.Sleep(d)
	synctest.Wait()
	x.mu.Lock()
	x.pass = false
	x.mu.Unlock()
	synctest.Wait()
}

// pump forwards everything deliverable on this connection (pass-through mode
// and handshake frames).
func (c *Conn) pump() {
	auto := c.x.autoFlag()
	for {
		c.mu.Lock()
		if c.closed || c.stalled { // (Auto() clears stalled; an idle pause does not)
			c.mu.Unlock()
			return
		}
		if len(c.reqQ) > 0 && (auto || c.reqQ[0].handshake) {
			c.mu.Unlock()
			c.deliverReq(0)
			continue
		}
		if len(c.slots) > 0 && c.slots[0].resp != nil && (auto || c.slots[0].req.handshake) {
			c.mu.Unlock()
			c.deliverResp()
			continue
		}
		c.mu.Unlock()
		return
	}
}

func (c *Conn) readServer() {
	x := c.x
	for {
		b, err := readFrame(c.srv)
		if err != nil {
			c.close("server-eof")
			return
		}
		corr := int32(binary.BigEndian.Uint32(b[4:]))
		x.mu.Lock()
		auto := x.auto || x.pass
		x.arrive++
		seq := x.epoch<<24 | x.arrive&0xffffff
		x.mu.Unlock()
		c.mu.Lock()
		var s *slot
		for _, sl := range c.slots {
			if sl.resp == nil && sl.req.corr == corr {
				s = sl
				break
			}
		}
		if s == nil {
			c.mu.Unlock()
			c.close("unmatched-response")
			return
		}
		s.resp, s.seq = b, seq
		if x.RespRewrite != nil && !s.req.handshake {
			// environment seam: the scenario may alter what the broker
			// answered (e.g. report a partition as leaderless), in every mode
			if r, ok := DecodeResponse(b, s.req.key, s.req.ver); ok {
				if nr := x.RespRewrite(c, s.req.key, s.req.ver, r); nr != nil {
					s.resp = EncodeResponse(nr, corr)
				}
			}
		}
		if s.rewrite != 0 {
			if fb := FabricateError(s.req.b, s.rewrite); fb != nil {
				s.resp = fb
			}
		}
		c.mu.Unlock()
		if s.req.handshake || auto {
			c.pump()
			continue
		}
		x.signal()
	}
}

func (c *Conn) close(why string) {
	c.mu.Lock()
	if c.closed {
		c.mu.Unlock()
		return
	}
	c.closed = true
	name := c.Name
	c.mu.Unlock()
	c.cli.Close()
	c.srv.Close()
	c.toSrv.stop()
	c.toCli.stop()
	c.x.Logf("conn %s closed (%s)", name, why)
	c.x.signal()
}

// Kill closes a connection from the environment side.
func (c *Conn) Kill() { c.close("killed") }

// ---------------------------------------------------------------------------

// Thread starts a scripted application thread. The body calls t.Step(label)
// before each API call it wants the explorer to place.
func (x *Exec) Thread(name string, body func(t *Thread)) *Thread {
	t := &Thread{Name: name, x: x, gate: make(chan struct{}), idx: len(x.threads)}
	x.threads = append(x.threads, t)
	go func() {
		body(t)
		x.mu.Lock()
		t.done = true
		t.parked = ""
		x.mu.Unlock()
		x.signal()
	}()
	return t
}

// ThreadsDone reports whether all threads finished.
func (x *Exec) ThreadsDone() bool {
	x.mu.Lock()
	defer x.mu.Unlock()
	for _, t := range x.threads {
		if !t.done {
			return false
		}
	}
	return true
}

func (t *Thread) Done() bool { t.x.mu.Lock(); defer t.x.mu.Unlock(); return t.done }

// Conns returns the live connections.
func (x *Exec) Conns() []*Conn {
	x.mu.Lock()
	defer x.mu.Unlock()
	return append([]*Conn(nil), x.conns...)
}

type event struct {
	label string
	seq   int64
	fire  func()
}

var keyNames = map[int16]string{}

func keyName(k int16) string {
	if n, ok := keyNames[k]; ok {
		return n
	}
	n := kmsg.NameForKey(k)
	if n == "" {
		n = fmt.Sprintf("key%d", k)
	}
	keyNames[k] = n
	return n
}

// enabled computes the enabled events in canonical order, default first.
func (x *Exec) enabled() []event {
	var evs []event
	x.mu.Lock()
	threads := append([]*Thread(nil), x.threads...)
	conns := append([]*Conn(nil), x.conns...)
	x.mu.Unlock()
	for _, t := range threads {
		x.mu.Lock()
		parked, done := t.parked, t.done
		x.mu.Unlock()
		if !done && parked != "" {
			t := t
			evs = append(evs, event{label: "app:" + t.Name + ":" + parked, fire: func() {
				x.mu.Lock()
				t.parked = ""
				x.mu.Unlock()
				t.gate <- struct{}{}
			}})
		}
	}
	var frames []event
	for _, c := range conns {
		c := c
		c.mu.Lock()
		if c.closed || c.stalled || !c.named {
			c.mu.Unlock()
			continue
		}
		if len(c.reqQ) > 0 {
			f := c.reqQ[0]
			kn := keyName(f.key)
			frames = append(frames, event{label: "req:" + c.Name + ":" + kn, seq: f.seq, fire: func() { c.deliverReq(0) }})
			if x.sc.Faults != nil {
				for _, fl := range x.sc.Faults(x, "req", f.key, c) {
					fl := fl
					frames = append(frames, event{label: fl + ":" + c.Name + ":" + kn, seq: f.seq + 1<<40, fire: func() { c.faultReq(fl) }})
				}
			}
		}
		if len(c.slots) > 0 && c.slots[0].resp != nil {
			s := c.slots[0]
			kn := keyName(s.req.key)
			frames = append(frames, event{label: "resp:" + c.Name + ":" + kn, seq: s.seq, fire: func() { c.deliverResp() }})
			if x.sc.Faults != nil {
				for _, fl := range x.sc.Faults(x, "resp", s.req.key, c) {
					fl := fl
					frames = append(frames, event{label: fl + ":" + c.Name + ":" + kn, seq: s.seq + 1<<40, fire: func() { c.faultResp(fl) }})
				}
			}
		}
		c.mu.Unlock()
	}
	// Arrival order across connections, by quiescence epoch (upper bits of
	// seq); frames that arrived during the same epoch were produced by
	// concurrently running goroutines, whose relative order the controller
	// does not own: order those canonically by label instead.
	sort.SliceStable(frames, func(i, j int) bool {
		ei, ej := frames[i].seq>>24, frames[j].seq>>24
		if ei != ej {
			return ei < ej
		}
		if frames[i].label != frames[j].label {
			return frames[i].label < frames[j].label
		}
		return frames[i].seq < frames[j].seq
	})
	evs = append(evs, frames...)
	return evs
}

func (c *Conn) deliverReq(rewrite int16) {
	c.mu.Lock()
	if len(c.reqQ) == 0 || c.closed {
		c.mu.Unlock()
		return
	}
	f := c.reqQ[0]
	c.reqQ = c.reqQ[1:]
	c.slots = append(c.slots, &slot{req: f, rewrite: rewrite})
	c.mu.Unlock()
	// (handshake first: those frames flow while Setup may still be assigning FrameHook)
	if !f.handshake && c.x.FrameHook != nil {
		c.x.FrameHook(c, "req", f.key, f.ver, f.b)
	}
	c.toSrv.put(f.b)
}

func (c *Conn) deliverResp() {
	c.mu.Lock()
	if len(c.slots) == 0 || c.slots[0].resp == nil || c.closed {
		c.mu.Unlock()
		return
	}
	s := c.slots[0]
	c.slots = c.slots[1:]
	c.mu.Unlock()
	if !s.req.handshake && c.x.FrameHook != nil {
		c.x.FrameHook(c, "resp", s.req.key, s.req.ver, s.resp)
	}
	c.toCli.put(s.resp)
}

func (c *Conn) faultReq(fl string) {
	switch {
	case fl == "killbefore":
		c.close("killbefore")
	case fl == "stall":
		c.mu.Lock()
		c.stalled = true
		c.mu.Unlock()
	case strings.HasPrefix(fl, "err:"), strings.HasPrefix(fl, "errtop:"):
		var code int16
		var fb []byte
		c.mu.Lock()
		f := c.reqQ[0]
		c.reqQ = c.reqQ[1:]
		if strings.HasPrefix(fl, "errtop:") {
			fmt.Sscanf(fl, "errtop:%d", &code)
			fb = FabricateTop(f.b, code)
		} else {
			fmt.Sscanf(fl, "err:%d", &code)
			fb = FabricateError(f.b, code)
		}
		if fb == nil {
			c.mu.Unlock()
			panic("netctl: cannot fabricate error response for key " + keyName(f.key))
		}
		c.x.mu.Lock()
		c.x.arrive++
		seq := c.x.epoch<<24 | c.x.arrive&0xffffff
		c.x.mu.Unlock()
		c.slots = append(c.slots, &slot{req: f, resp: fb, seq: seq})
		c.mu.Unlock()
	case strings.HasPrefix(fl, "errafter:"):
		var code int16
		fmt.Sscanf(fl, "errafter:%d", &code)
		c.deliverReq(code)
	default:
		panic("netctl: unknown request fault " + fl)
	}
}

func (c *Conn) faultResp(fl string) {
	switch {
	case fl == "killafter":
		c.close("killafter")
	case strings.HasPrefix(fl, "rewrite:"):
		var code int16
		fmt.Sscanf(fl, "rewrite:%d", &code)
		c.mu.Lock()
		s := c.slots[0]
		if fb := FabricateError(s.req.b, code); fb != nil {
			s.resp = fb
		}
		c.mu.Unlock()
		c.deliverResp()
	default:
		panic("netctl: unknown response fault " + fl)
	}
}

// Auto switches the proxy to pass-through: every queued frame is flushed in
// order and later frames are forwarded immediately; parked threads run free.
func (x *Exec) Auto() {
	x.mu.Lock()
	x.auto = true
	threads := append([]*Thread(nil), x.threads...)
	conns := append([]*Conn(nil), x.conns...)
	x.mu.Unlock()
	for _, c := range conns {
		c.mu.Lock()
		c.stalled = false
		c.mu.Unlock()
	}
	// Flush until stable: delivering requests produces responses.
	for round := 0; round < 1000; round++ {
		synctest.Wait()
		progress := false
		x.mu.Lock()
		conns = append([]*Conn(nil), x.conns...)
		x.mu.Unlock()
		for _, c := range conns {
			c.mu.Lock()
			pending := !c.closed && (len(c.reqQ) > 0 || (len(c.slots) > 0 && c.slots[0].resp != nil))
			c.mu.Unlock()
			if pending {
				c.pump()
				progress = true
			}
		}
		for _, t := range threads {
			x.mu.Lock()
			parked := t.parked != "" && !t.done
			if parked {
				t.parked = ""
			}
			x.mu.Unlock()
			if parked {
				t.gate <- struct{}{}
				progress = true
			}
		}
		if !progress {
			return
		}
	}
}

var bubbleRe = regexp.MustCompile(`(?m)^goroutine (\d+) \[([^\]]*)\]:\n((?:.+\n)+)`)

// Goroutines returns the stacks of goroutines of this bubble other than the caller.
func bubbleGoroutines() []string {
	buf := make([]byte, 1<<20)
	for {
		n := runtime.Stack(buf, true)
		if n < len(buf) {
			buf = buf[:n]
			break
		}
		buf = make([]byte, 2*len(buf))
	}
	var out []string
	first := true
	for _, m := range bubbleRe.FindAllStringSubmatch(string(buf)+"\n", -1) {
		if first { // the calling goroutine is printed first
			first = false
			continue
		}
		if !strings.Contains(m[2], "synctest bubble") || strings.Contains(m[3], "internal/synctest.Run(") || strings.Contains(m[3], "testing/synctest.testingSynctestTest(") {
			continue
		}
		out = append(out, m[2]+"\n"+m[3])
	}
	return out
}

// Run executes one job of the scenario inside a fresh bubble.
func Run(t *testing.T, sc *Scenario, job explore.Job) explore.Result {
	var res explore.Result
	leaked := false
	synctest.Test(t, func(t *testing.T) {
		x := &Exec{T: t, sc: sc, job: job, wake: make(chan struct{}, 1), ords: map[string]int{}, start: time.Now(), Debug: os.Getenv("VERIF_DEBUG") != ""}
		x.run()
		res = x.res
		res.Obs = strings.Join(x.obs, "|")
		// Cleanups, then leak detection.
		for i := len(x.cleanup) - 1; i >= 0; i-- {
			x.cleanup[i]()
		}
		x.mu.Lock()
		conns := append([]*Conn(nil), x.conns...)
		x.mu.Unlock()
		for _, c := range conns {
			c.close("teardown")
		}
		synctest.Wait()
		// Let timers that merely need to expire do so (bounded).
		for i := 0; i < 5; i++ {
			gs := bubbleGoroutines()
			if len(gs) == 0 {
				break
			}
			time.Sleep(time.Second)
			synctest.Wait()
		}
		if gs := bubbleGoroutines(); len(gs) > 0 {
			var bad []string
		next:
			for _, g := range gs {
				for _, re := range sc.AllowLeak {
					if re.MatchString(g) {
						continue next
					}
				}
				bad = append(bad, g)
			}
			if len(bad) > 0 {
				leaked = true
				top := "?"
				lines := strings.Split(bad[0], "\n")
				if len(lines) > 1 {
					top = strings.TrimSpace(lines[1])
				}
				if i := strings.IndexByte(top, '('); i > 0 {
					top = top[:i]
				}
				if !res.Diverged { // a diverged replay is abandoned mid-run with its threads alive: not a verdict
					res.Viol = append(res.Viol, explore.Violation{Key: "goroutine-leak:" + top, What: fmt.Sprintf("%d goroutine(s) of the bubble still running 5 virtual seconds after Close/cleanup:\n%s", len(bad), strings.Join(bad, "\n"))})
				}
			}
		}
		if leaked {
			// The bubble cannot be left with live goroutines: hand the result
			// out and retire this process.
			if explore.IsWorker() {
				explore.EmitAndExit(res)
			}
		}
	})
	return res
}

func (x *Exec) run() {
	sc := x.sc
	horizon := sc.Horizon
	if horizon == 0 {
		horizon = 3 * time.Minute
	}
	maxPoints := sc.MaxPoints
	if maxPoints == 0 {
		maxPoints = 600
	}
	sc.Setup(x)
	if sc.Free {
		x.Auto()
		for !x.ThreadsDone() && x.Elapsed() < horizon {
			time.Sleep(25 * time.Millisecond) // virtual; no synctest.Wait in this phase
		}
		if sc.Final != nil {
			sc.Final(x)
		}
		return
	}
	steps := 0
	for {
		synctest.Wait()
		x.mu.Lock()
		qs := x.quiescent
		x.mu.Unlock()
		for _, f := range qs {
			f()
		}
		done := false
		if sc.Done != nil {
			done = sc.Done(x)
		} else {
			done = x.ThreadsDone()
		}
		if done {
			break
		}
		if x.Elapsed() > horizon {
			x.Observe("horizon")
			x.Count("horizon", 1)
			x.res.Capped = true
			break
		}
		if len(x.res.Points) >= maxPoints || steps > 20*maxPoints {
			x.Observe("maxpoints")
			x.res.Capped = true
			break
		}
		evs := x.enabled()
		if len(evs) == 0 {
			// Nothing deliverable: only time can make progress.
			if !x.tick(horizon) {
				continue
			}
			steps++
			continue
		}
		if Burst {
			// Burst mode (C41, built with -race): release ALL enabled
			// events back to back without waiting for quiescence in between,
			// so their handling overlaps inside the client; the deviation is
			// to hold exactly one of them back for this round.
			var plain []event
			for _, e := range evs {
				if !isFaultLabel(e.label) {
					plain = append(plain, e)
				}
			}
			labels := []string{"all"}
			if len(plain) > 1 {
				for _, e := range plain {
					labels = append(labels, "hold:"+e.label)
				}
			}
			choice := 0
			pi := len(x.res.Points)
			if pi < len(x.job.Prefix) {
				choice = x.job.Prefix[pi]
				if choice >= len(labels) || (pi < len(x.job.Labels) && labels[choice] != x.job.Labels[pi]) {
					x.res.Diverged = true
					break
				}
			}
			x.res.Points = append(x.res.Points, explore.Point{Labels: labels, Chosen: choice})
		x.mu.Lock()
		x.epoch++
		x.mu.Unlock()
			x.Logf("burst %d: %s of %v", pi, labels[choice], labels)
			for i, e := range plain {
				if choice > 0 && i == choice-1 {
					continue
				}
				e.fire()
				steps++
			}
			continue
		}
		// Default order: fast events, then tick, then the events the scenario
		// declares slow (a slow broker: by default its frames lose against the
		// clock, delivering one of them is a deviation).
		order := make([]event, 0, len(evs)+1)
		var slow []event
		for _, e := range evs {
			if sc.Slow != nil && sc.Slow(e.label) {
				slow = append(slow, e)
			} else {
				order = append(order, e)
			}
		}
		if !sc.NoTick || len(slow) > 0 {
			order = append(order, event{label: "tick"})
		}
		order = append(order, slow...)
		for _, d := range sc.Idle {
			d := d
			order = append(order, event{label: "idle:" + d.String(), fire: func() { x.idle(d) }})
		}
		labels := make([]string, 0, len(order))
		for _, e := range order {
			labels = append(labels, e.label)
		}
		choice := 0
		pi := len(x.res.Points)
		if pi < len(x.job.Prefix) {
			choice = x.job.Prefix[pi]
			if choice >= len(labels) || (pi < len(x.job.Labels) && labels[choice] != x.job.Labels[pi]) {
				x.res.Diverged = true
				x.Logf("DIVERGED at point %d: want %v have %v", pi, x.job.Labels[pi], labels)
				break
			}
		}
		x.res.Points = append(x.res.Points, explore.Point{Labels: labels, Chosen: choice})
		x.mu.Lock()
		x.epoch++
		x.mu.Unlock()
		x.Logf("point %d: %s   (of %d: %v)", pi, labels[choice], len(labels), labels)
		steps++
		if order[choice].fire == nil {
			x.tick(horizon)
		} else {
			order[choice].fire()
		}
	}
	x.res.Steps = steps
	x.Auto()
	if sc.Final != nil && !x.res.Diverged {
		sc.Final(x)
	}
}

// Burst switches every execution of this process to burst stepping (see run).
// It is set from the environment (VERIF_BURST=1) so that parent and worker
// processes agree.
var Burst = os.Getenv("VERIF_BURST") == "1"

func isFaultLabel(l string) bool {
	for _, p := range []string{"kill", "err", "rewrite", "stall"} {
		if strings.HasPrefix(l, p) {
			return true
		}
	}
	return false
}

// tick blocks the controller so that the virtual clock can advance to the
// next timer whose firing produces something observable. Returns false if
// the horizon was reached.
func (x *Exec) tick(horizon time.Duration) bool {
	select {
	case <-x.wake: // stale signal from before quiescence
	default:
	}
	remain := horizon - x.Elapsed() + time.Second
	if remain > time.Minute { // a tick with no timer due within a virtual minute is a no-op
		remain = time.Minute
	}
	tm := time.NewTimer(remain)
	defer tm.Stop()
	select {
	case <-x.wake:
		return true
	case <-tm.C:
		return false
	}
}
