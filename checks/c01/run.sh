#!/bin/bash
set -eu
cd "$(dirname "$0")/../.."
. bin/env.sh
go test -c -tags synctests,verif -o "$BUILD/c01.test" ./checks/c01
exec "$BUILD/c01.test" -test.run '^TestC01$' -test.timeout 0
