package c01

import (
	"strings"
	"testing"
	"time"

	"verif/checks/c01/pscen"
	"verif/lib/nrun"
)

func TestC01(t *testing.T) {
	nrun.Main(t, &nrun.Check{
		ID: "C01", TestName: "TestC01", Plans: append(pscen.Plans(), pscen.GenPlans()...),
		QuickTime: 75 * time.Second, ThorTime: 18 * time.Minute,
		// the buffered/unbuffered hook pairing rides on these scenarios but is C14's subject
		Keep: func(_, key string) bool { return !strings.HasPrefix(key, "hook-") },
		Rule: "engine N: every order of application calls, request/response frame deliveries, timer ticks and injected faults (connection kill before/after handling, NOT_LEADER, UNKNOWN_TOPIC, MESSAGE_TOO_LARGE, REQUEST_TIMED_OUT after append, stalled request) within k deviations of the default order, for six hand-written producer scenarios (Flush, AbortBufferedRecords, PurgeTopicsFromClient, context cancel, Close as the concurrent disruptor; a slow old leader), plus the generated family PG: every combination of 5 producer configurations (idempotent, idempotent+linger, acks=1 non-idempotent, acks=0, MaxBufferedRecords(2)) x producing script (three calls over Produce t/0, Produce t/1 with a cancellable context, Produce to an unknown topic, TryProduce, ProduceSync: 5 representatives quick, all 125 thorough) x disrupting script (up to two calls over Flush, AbortBufferedRecords, PurgeTopicsFromClient, cancel, Close-last: 26) x 4 start positions of the disruptor, on the default schedule (thorough: plus every single deviation, time-capped); distinct = distinct terminal outcomes (per-record promise result classes) per scenario",
		Assume: []string{"kfake is the broker", "synctests build of xsync (C31 covers the channel mutexes)", "goroutine micro-interleavings inside one event are the Go runtime's (C30/C03 engine-S harnesses cover the preemption level)"},
	})
}
