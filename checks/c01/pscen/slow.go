package pscen

import (
	"context"
	"strings"
	"sync"
	"time"

	"github.com/twmb/franz-go/pkg/kgo"

	"verif/lib/netctl"
	"verif/lib/nrun"
	"verif/lib/nscen"
)

// P-slowleader: the old leader of t/0 (broker 0) is SLOW: its produce
// responses are ordered after `tick`, so in the default schedule the clock
// beats them (periodic metadata refresh, then the request timeout cuts the
// connection) and delivering one of them is a deviation. The leader of t/0
// moves to broker 1 right after the first Produce request reached broker 0,
// and a second record for t/0 is produced while that request is in flight.
// This puts "the client learns of a leader move while a produce request for
// the partition is in flight on the old leader, and that request then needs a
// retry (cut connection, NOT_LEADER, lost response)" into the default
// schedule and its first-order neighbourhood.
func slowLeader() *netctl.Scenario {
	var once sync.Once
	return &netctl.Scenario{
		Name:    "P-slowleader",
		Faults:  produceFaults,
		Horizon: 4 * time.Minute,
		Slow: func(label string) bool {
			return strings.Contains(label, ":p/b0/produce#") && (strings.HasPrefix(label, "resp:") || strings.HasPrefix(label, "killafter:"))
		},
		Setup: func(x *netctl.Exec) {
			once = sync.Once{}
			c := x.Cluster(2, kfakeSeed()...)
			c.MoveTopicPartition("t", 0, 0)
			c.MoveTopicPartition("t", 1, 1)
			st := &state{led: nscen.NewLedger(), hooks: nscen.NewHookLedger(), flushed: make(chan error, 4)}
			x.Data = st
			st.cl = nscen.NewClient(x, "p", c,
				kgo.RecordPartitioner(kgo.ManualPartitioner()),
				kgo.RecordRetries(6),
				kgo.ProducerLinger(0),
				kgo.MetadataMaxAge(2*time.Second),
				kgo.ProduceRequestTimeout(5*time.Second),
				kgo.RecordDeliveryTimeout(2*time.Minute),
				kgo.WithHooks(st.hooks),
			)
			x.OnCleanup(func() {})
			firstProduceAtB0 := make(chan struct{})
			x.FrameHook = func(conn *netctl.Conn, dir string, key, ver int16, frame []byte) {
				if dir == "req" && key == 0 && conn.Broker == 0 {
					once.Do(func() { close(firstProduceAtB0) })
				}
			}
			rec := func(n, topic string, p int32) *kgo.Record {
				r := &kgo.Record{Topic: topic, Partition: p, Value: []byte(n)}
				st.led.Hand(n, r)
				return r
			}
			bg := context.Background()
			x.Thread("T1", func(t *netctl.Thread) {
				t.Step("produce-r1")
				st.cl.Produce(bg, rec("r1", "t", 0), st.led.Promise())
				t.Step("produce-r2")
				st.cl.Produce(bg, rec("r2", "t", 1), st.led.Promise())
				select {
				case <-firstProduceAtB0:
				case <-time.After(3 * time.Minute):
				}
				t.Step("produce-r4")
				st.cl.Produce(bg, rec("r4", "t", 0), st.led.Promise())
				t.Step("tryproduce-r5")
				st.cl.TryProduce(bg, rec("r5", "t", 1), st.led.Promise())
			})
			x.Thread("ENV", func(t *netctl.Thread) {
				select {
				case <-firstProduceAtB0:
				case <-time.After(3 * time.Minute):
				}
				t.Step("move-t0-to-b1")
				c.MoveTopicPartition("t", 0, 1)
			})
			x.Thread("T2", func(t *netctl.Thread) {
				select {
				case <-firstProduceAtB0:
				case <-time.After(3 * time.Minute):
				}
				t.Step("flush")
				ctx, cancel := context.WithTimeout(bg, 200*time.Second)
				defer cancel()
				err := st.cl.Flush(ctx)
				st.flushed <- err
				if err != nil {
					x.Violate("flush-error", "Flush returned %v", err)
				}
			})
		},
		Done: func(x *netctl.Exec) bool {
			st := x.Data.(*state)
			return x.ThreadsDone() && len(st.led.Outstanding()) == 0
		},
		Final: finalProducer,
	}
}

func init() {
	plans = append(plans, nrun.Plan{Scenario: slowLeader(), QuickBudget: 1, ThoroughBudget: 2})
}
