// Package pscen holds the producer scenario family P (DESIGN.md §4 C01).
package pscen

import (
	"context"
	"time"

	"github.com/twmb/franz-go/pkg/kfake"

	"github.com/twmb/franz-go/pkg/kgo"

	"verif/lib/netctl"
	"verif/lib/nrun"
	"verif/lib/nscen"
)

// Scenario family P (DESIGN.md §4 C01): one idempotent producer, two brokers,
// topic t with partitions led by different brokers, unknown topic u, thread T1
// producing with Produce/TryProduce/ProduceSync, one disruptor thread.

type state struct {
	cl      *kgo.Client
	led     *nscen.Ledger
	hooks   *nscen.HookLedger
	cancel2 context.CancelFunc
	flushed chan error
	closed  bool
	noAck   bool // acks=0: the broker never answers a Produce, so no answer is fabricated either
	outage  bool // family PG env=outage0: t/0 is reported leaderless until the explored phase ends
}

func produceFaults(x *netctl.Exec, dir string, key int16, c *netctl.Conn) []string {
	if st, ok := x.Data.(*state); ok && st.noAck && key == 0 {
		if dir == "req" {
			return []string{"killbefore"}
		}
		return nil
	}
	switch {
	case key == 0 && dir == "req":
		return []string{"killbefore", "err:6", "err:3", "err:10", "errafter:7", "stall"}
	case key == 0 && dir == "resp":
		return []string{"killafter"}
	case (key == 3 || key == 22) && dir == "req":
		return []string{"killbefore"}
	case (key == 3 || key == 22) && dir == "resp":
		return []string{"killafter"}
	}
	return nil
}

func scenario(name string, linger time.Duration, disrupt func(x *netctl.Exec, st *state, t *netctl.Thread)) *netctl.Scenario {
	return &netctl.Scenario{
		Name:    name,
		Faults:  produceFaults,
		Horizon: 4 * time.Minute,
		Setup: func(x *netctl.Exec) {
			c := x.Cluster(2, kfakeSeed()...)
			c.MoveTopicPartition("t", 0, 0)
			c.MoveTopicPartition("t", 1, 1)
			st := &state{led: nscen.NewLedger(), hooks: nscen.NewHookLedger(), flushed: make(chan error, 4)}
			x.Data = st
			st.cl = nscen.NewClient(x, "p", c,
				kgo.RecordPartitioner(kgo.ManualPartitioner()),
				kgo.UnknownTopicRetries(2),
				kgo.RecordRetries(4),
				kgo.ProducerLinger(linger),
				kgo.ProduceRequestTimeout(5*time.Second),
				kgo.RecordDeliveryTimeout(90*time.Second),
				kgo.WithHooks(st.hooks),
			)
			ctx2, cancel2 := context.WithCancel(context.Background())
			st.cancel2 = cancel2
			x.OnCleanup(cancel2)
			rec := func(n, topic string, p int32) *kgo.Record {
				r := &kgo.Record{Topic: topic, Partition: p, Value: []byte(n)}
				st.led.Hand(n, r)
				return r
			}
			x.Thread("T1", func(t *netctl.Thread) {
				t.Step("produce-r1")
				st.cl.Produce(context.Background(), rec("r1", "t", 0), st.led.Promise())
				t.Step("produce-r2")
				st.cl.Produce(ctx2, rec("r2", "t", 1), st.led.Promise())
				t.Step("produce-r3")
				st.cl.Produce(context.Background(), rec("r3", "u", 0), st.led.Promise())
				t.Step("tryproduce-r4")
				st.cl.TryProduce(context.Background(), rec("r4", "t", 0), st.led.Promise())
				t.Step("producesync-r5")
				r5 := rec("r5", "t", 1)
				// ProduceSync installs its own promise; route the result
				// through the ledger so r5 is counted like the others.
				res := st.cl.ProduceSync(context.Background(), r5)
				if len(res) != 1 || res[0].Record != r5 {
					x.Violate("producesync-shape", "ProduceSync returned %d results", len(res))
				} else {
					st.led.Promise()(r5, res[0].Err)
				}
			})
			x.Thread("T2", func(t *netctl.Thread) { disrupt(x, st, t) })
			x.Thread("ENV", func(t *netctl.Thread) {
				t.Step("move-t0-to-b1")
				c.MoveTopicPartition("t", 0, 1)
			})
		},
		Done: func(x *netctl.Exec) bool {
			st := x.Data.(*state)
			return x.ThreadsDone() && len(st.led.Outstanding()) == 0
		},
		Final: finalProducer,
	}
}

// finalProducer is the oracle phase shared by the producer scenarios.
func finalProducer(x *netctl.Exec) {
	st := x.Data.(*state)
	// After the last deviation the environment is well behaved: every
	// promise must run within the virtual horizon.
	deadline := time.Now().Add(3 * time.Minute)
	for len(st.led.Outstanding()) > 0 && time.Now().Before(deadline) {
		time.Sleep(100 * time.Millisecond)
	}
	if out := st.led.Outstanding(); len(out) > 0 {
		x.Violate("promise-never", "records %v not promised 3 virtual minutes into a fault-free suffix", out)
	}
	st.led.Check(x, false)
	if !st.closed {
		if n, b := st.cl.BufferedProduceRecords(), st.cl.BufferedProduceBytes(); len(st.led.Outstanding()) == 0 && (n != 0 || b != 0) {
			x.Violate("buffered-nonzero", "all promises ran but BufferedProduceRecords=%d BufferedProduceBytes=%d", n, b)
		}
		ctx, cancel := context.WithTimeout(context.Background(), 30*time.Second)
		if err := st.cl.Flush(ctx); err != nil && len(st.led.Outstanding()) == 0 {
			x.Violate("flush-stuck", "Flush with nothing buffered returned %v", err)
		}
		cancel()
	}
	select {
	case err := <-st.flushed:
		_ = err
	default:
	}
	st.hooks.CheckProduce(x, st.led)
	x.Observe("%s", st.led.Summary())
}

// Plans returns the C01 producer scenarios (also reused by C14 and C41).
func Plans() []nrun.Plan { return plans }

var plans = []nrun.Plan{
	{Scenario: scenario("P-flush", 0, func(x *netctl.Exec, st *state, t *netctl.Thread) {
		t.Step("flush")
		ctx, cancel := context.WithTimeout(context.Background(), 200*time.Second)
		defer cancel()
		err := st.cl.Flush(ctx)
		st.flushed <- err
		if err != nil && !st.closed {
			x.Violate("flush-error", "Flush returned %v", err)
		}
	}), QuickBudget: 2, QuickFaultOnlyFrom: 2, ThoroughBudget: 3, ThoroughFaultOnlyFrom: 3},
	{Scenario: scenario("P-abort", 0, func(x *netctl.Exec, st *state, t *netctl.Thread) {
		t.Step("abort-buffered")
		ctx, cancel := context.WithTimeout(context.Background(), 200*time.Second)
		defer cancel()
		if err := st.cl.AbortBufferedRecords(ctx); err != nil {
			x.Violate("abort-error", "AbortBufferedRecords returned %v", err)
		}
	}), QuickBudget: 2, QuickFaultOnlyFrom: 2, ThoroughBudget: 3, ThoroughFaultOnlyFrom: 3},
	{Scenario: scenario("P-purge", 5*time.Millisecond, func(x *netctl.Exec, st *state, t *netctl.Thread) {
		t.Step("purge-t")
		st.cl.PurgeTopicsFromClient("t")
	}), QuickBudget: 2, QuickFaultOnlyFrom: 2, ThoroughBudget: 3, ThoroughFaultOnlyFrom: 3},
	{Scenario: scenario("P-cancel", 0, func(x *netctl.Exec, st *state, t *netctl.Thread) {
		t.Step("cancel-r2-ctx")
		st.cancel2()
	}), QuickBudget: 2, QuickFaultOnlyFrom: 2, ThoroughBudget: 3, ThoroughFaultOnlyFrom: 3},
	{Scenario: scenario("P-close", 5*time.Millisecond, func(x *netctl.Exec, st *state, t *netctl.Thread) {
		t.Step("close")
		st.closed = true
		st.cl.Close()
	}), QuickBudget: 2, QuickFaultOnlyFrom: 2, ThoroughBudget: 3, ThoroughFaultOnlyFrom: 3},
}

func kfakeSeed() []kfake.Opt { return []kfake.Opt{kfake.SeedTopics(2, "t")} }
