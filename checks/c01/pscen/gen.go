package pscen

import (
	"context"
	"strings"
	"sync/atomic"
	"time"

	"github.com/twmb/franz-go/pkg/kgo"
	"github.com/twmb/franz-go/pkg/kmsg"

	"verif.local/ev"
	"verif/lib/netctl"
	"verif/lib/nrun"
	"verif/lib/nscen"
)

// Generated family PG: instead of one fixed application script per scenario,
// ONE scenario whose Setup lets the explorer choose (cost 0: every
// combination is executed at every deviation level)
//
//	cfg   the producer configuration,
//	t1    the producing thread's script (three calls),
//	t2    the disrupting thread's script (up to two calls),
//	env   what the environment does: a leader move, or a leaderless partition,
//	gate  after how many of T1's calls T2 starts (T2 is declared first, so on
//	      the default schedule its calls run as soon as the gate opens: the
//	      overlap is in the default schedule, not k deviations away).
//
// The oracles are those of the hand-written P scenarios (ledger: every handed
// record promised exactly once, nothing else promised; gauges zero and Flush
// returning once all promises ran; promises run after Close; hook pairing).

type pcfg struct {
	name string
	opts []kgo.Opt
}

var pcfgs = []pcfg{
	{"idem", nil},
	{"idem-linger", []kgo.Opt{kgo.ProducerLinger(5 * time.Millisecond)}},
	{"acks1", []kgo.Opt{kgo.DisableIdempotentWrite(), kgo.RequiredAcks(kgo.LeaderAck())}},
	{"acks0", []kgo.Opt{kgo.DisableIdempotentWrite(), kgo.RequiredAcks(kgo.NoAck())}},
	{"maxbuf2", []kgo.Opt{kgo.MaxBufferedRecords(2)}},
}

// T1 calls: a Produce(t/0), b Produce(t/1, cancellable ctx), u Produce(u/0:
// unknown topic), y TryProduce(t/0), s ProduceSync(t/1).
const t1ops = "abuys"

// T2 calls: F Flush, A AbortBufferedRecords, P PurgeTopicsFromClient(t),
// C cancel b's context, X Close (only as the last call).
const t2ops = "FAPCX"

func t1scripts(all bool) []string {
	if !all {
		return []string{"abu", "yas", "sba", "aay", "ubs"}
	}
	var out []string
	for _, a := range t1ops {
		for _, b := range t1ops {
			for _, c := range t1ops {
				out = append(out, string([]rune{a, b, c}))
			}
		}
	}
	return out
}

func t2scripts() []string {
	out := []string{"-"}
	for _, a := range t2ops {
		out = append(out, string(a))
	}
	for _, a := range t2ops[:4] {
		for _, b := range t2ops {
			out = append(out, string([]rune{a, b}))
		}
	}
	return out
}

func genScenario() *netctl.Scenario {
	return &netctl.Scenario{
		Name:    "PG",
		Faults:  produceFaults,
		Horizon: 4 * time.Minute,
		Setup: func(x *netctl.Exec) {
			var cfgNames []string
			for _, c := range pcfgs {
				cfgNames = append(cfgNames, c.name)
			}
			t1s, t2s := t1scripts(ev.Thorough()), t2scripts()
			cfg := pcfgs[x.ChooseOf("cfg", cfgNames)]
			t1 := t1s[x.ChooseOf("t1", t1s)]
			t2 := t2s[x.ChooseOf("t2", t2s)]
			gate := x.ChooseOf("gate", []string{"0", "1", "2", "3"})
			// env: "move" = the ENV thread moves t/0's leader (as in the P scenarios);
			// "outage0" = t/0 is leaderless for the whole execution (Metadata reports
			// LEADER_NOT_AVAILABLE, leader -1): records for it stay buffered until the
			// delivery timeout, or until Close / AbortBufferedRecords fails them.
			// "denied-late" = the topic loads normally, then every Metadata answer
			// reports it with TOPIC_AUTHORIZATION_FAILED (an ACL revoked): records
			// produced in that state fail at once and must leave no trace in the
			// buffered gauges. T1 first warms up (ProduceSync t/1, Produce u/0,
			// 1.5 s of think time) so that the chosen script runs in that state.
			env := x.ChooseOf("env", []string{"move", "outage0", "denied-late"})
			outageOver.Store(false)
			deniedFrom.Store(false)
			if env == 2 {
				x.RespRewrite = func(_ *netctl.Conn, key, _ int16, resp kmsg.Response) kmsg.Response {
					m, ok := resp.(*kmsg.MetadataResponse)
					if !ok || key != 3 || outageOver.Load() || !deniedFrom.Load() {
						return nil
					}
					for i := range m.Topics {
						if m.Topics[i].Topic != nil && *m.Topics[i].Topic == "t" {
							m.Topics[i].ErrorCode = 29 // TOPIC_AUTHORIZATION_FAILED
							m.Topics[i].Partitions = nil
						}
					}
					return m
				}
			}
			if env == 1 {
				x.RespRewrite = func(_ *netctl.Conn, key, _ int16, resp kmsg.Response) kmsg.Response {
					m, ok := resp.(*kmsg.MetadataResponse)
					if !ok || key != 3 || outageOver.Load() {
						return nil
					}
					for i := range m.Topics {
						if m.Topics[i].Topic == nil || *m.Topics[i].Topic != "t" {
							continue
						}
						for j := range m.Topics[i].Partitions {
							if p := &m.Topics[i].Partitions[j]; p.Partition == 0 {
								p.ErrorCode, p.Leader = 5, -1 // LEADER_NOT_AVAILABLE
							}
						}
					}
					return m
				}
			}

			c := x.Cluster(2, kfakeSeed()...)
			c.MoveTopicPartition("t", 0, 0)
			c.MoveTopicPartition("t", 1, 1)
			st := &state{led: nscen.NewLedger(), hooks: nscen.NewHookLedger(), flushed: make(chan error, 4)}
			st.noAck = cfg.name == "acks0"
			st.outage = env == 1
			x.Data = st
			opts := []kgo.Opt{
				kgo.RecordPartitioner(kgo.ManualPartitioner()),
				kgo.UnknownTopicRetries(2),
				kgo.RecordRetries(4),
				kgo.ProduceRequestTimeout(5 * time.Second),
				kgo.RecordDeliveryTimeout(90 * time.Second),
				kgo.WithHooks(st.hooks),
			}
			st.cl = nscen.NewClient(x, "p", c, append(opts, cfg.opts...)...)
			ctx2, cancel2 := context.WithCancel(context.Background())
			st.cancel2 = cancel2
			x.OnCleanup(cancel2)
			n := 0
			rec := func(topic string, p int32) *kgo.Record {
				n++
				name := "r" + string(rune('0'+n))
				r := &kgo.Record{Topic: topic, Partition: p, Value: []byte(name)}
				st.led.Hand(name, r)
				return r
			}
			gates := make([]chan struct{}, 4)
			for i := range gates {
				gates[i] = make(chan struct{})
			}
			// T2 first: once its gate is open its calls come before T1's next one.
			x.Thread("T2", func(t *netctl.Thread) {
				<-gates[gate]
				for _, op := range strings.TrimPrefix(t2, "-") {
					switch op {
					case 'F':
						t.Step("flush")
						ctx, cancel := context.WithTimeout(context.Background(), 200*time.Second)
						err := st.cl.Flush(ctx)
						cancel()
						// while the partition is leaderless a record with an unanswered
						// attempt can neither be sent nor failed: Flush legitimately waits
						if err != nil && !st.closed && !(st.outage && !outageOver.Load()) {
							x.Violate("flush-error", "Flush returned %v", err)
						}
					case 'A':
						t.Step("abort-buffered")
						ctx, cancel := context.WithTimeout(context.Background(), 200*time.Second)
						err := st.cl.AbortBufferedRecords(ctx)
						cancel()
						if err != nil && !st.closed && !(st.outage && !outageOver.Load()) {
							x.Violate("abort-error", "AbortBufferedRecords returned %v", err)
						}
					case 'P':
						t.Step("purge-t")
						st.cl.PurgeTopicsFromClient("t")
					case 'C':
						t.Step("cancel-b-ctx")
						st.cancel2()
					case 'X':
						t.Step("close")
						st.closed = true
						st.cl.Close()
					}
				}
			})
			x.Thread("T1", func(t *netctl.Thread) {
				if env == 2 {
					t.Step("warmup-producesync-t1")
					r := rec("t", 1)
					if res := st.cl.ProduceSync(context.Background(), r); len(res) == 1 {
						st.led.Promise()(r, res[0].Err)
					}
					deniedFrom.Store(true)
					t.Step("warmup-produce-u0") // an unknown topic: forces metadata refreshes
					st.cl.Produce(context.Background(), rec("u", 0), st.led.Promise())
					time.Sleep(1500 * time.Millisecond)
				}
				close(gates[0])
				for i, op := range t1 {
					switch op {
					case 'a':
						t.Step("produce-t0")
						st.cl.Produce(context.Background(), rec("t", 0), st.led.Promise())
					case 'b':
						t.Step("produce-t1-ctx")
						st.cl.Produce(ctx2, rec("t", 1), st.led.Promise())
					case 'u':
						t.Step("produce-u0")
						st.cl.Produce(context.Background(), rec("u", 0), st.led.Promise())
					case 'y':
						t.Step("tryproduce-t0")
						st.cl.TryProduce(context.Background(), rec("t", 0), st.led.Promise())
					case 's':
						t.Step("producesync-t1")
						r := rec("t", 1)
						res := st.cl.ProduceSync(context.Background(), r)
						if len(res) != 1 || res[0].Record != r {
							x.Violate("producesync-shape", "ProduceSync returned %d results", len(res))
						} else {
							st.led.Promise()(r, res[0].Err)
						}
					}
					close(gates[i+1])
				}
			})
			if env == 0 {
				x.Thread("ENV", func(t *netctl.Thread) {
					t.Step("move-t0-to-b1")
					c.MoveTopicPartition("t", 0, 1)
				})
			}
		},
		Done: func(x *netctl.Exec) bool {
			st := x.Data.(*state)
			if !x.ThreadsDone() {
				return false
			}
			// during the outage a record with an unanswered attempt legitimately
			// waits for the partition to come back: end the explored phase
			// after 20 virtual seconds instead of running to the horizon
			return len(st.led.Outstanding()) == 0 || (st.outage && x.Elapsed() > 20*time.Second)
		},
		Final: func(x *netctl.Exec) {
			// the well-behaved suffix: the election ends. (A record with an
			// unanswered attempt cannot be failed by the idempotent producer
			// before the partition is back, so "eventually promised" is only
			// owed once the outage is over.)
			outageOver.Store(true)
			finalProducer(x)
		},
	}
}

// outageOver ends the env=outage0 rewrite (one execution at a time per process).
var outageOver atomic.Bool

// deniedFrom starts the env=denied-late rewrite (set by T1 after its warm-up).
var deniedFrom atomic.Bool

// GenPlans returns the generated family: quick = every (cfg, t1 of the five
// representative scripts, t2, gate) on the default schedule; thorough = all
// 125 t1 scripts on the default schedule and every single deviation (time-capped).
func GenPlans() []nrun.Plan {
	return []nrun.Plan{{Scenario: genScenario(), QuickBudget: 0, ThoroughBudget: 1, Weight: 2}}
}
