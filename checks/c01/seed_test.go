package c01

import "github.com/twmb/franz-go/pkg/kfake"

func kfakeSeed() []kfake.Opt { return []kfake.Opt{kfake.SeedTopics(2, "t")} }
