// C26: sticky balancing is optimal and keeps balanced assignments.
//
// The exploration itself runs inside package kgo (hooks/inpkg/c26_kgo_test.go:
// the plan before the cooperative adjustment is not reachable through the
// public API). This binary turns the harness summary into the evidence file
// and the VIOLATION lines.
package main

import (
	"encoding/json"
	"fmt"
	"os"

	"verif.local/ev"

	"verif/checks/c25/balenum"
)

func main() {
	p := os.Getenv("C26_SUMMARY")
	if p == "" {
		ev.InfraError("C26_SUMMARY not set (run through checks/c26/run.sh)")
	}
	b, err := os.ReadFile(p)
	if err != nil {
		ev.InfraError("harness summary missing: %v", err)
	}
	var s struct {
		Evals    int64             `json:"evals"`
		Distinct []uint64          `json:"distinct"`
		PerBal   map[string]int64  `json:"per_balancer"`
		PerSweep map[string]int64  `json:"per_sweep"`
		Bound    string            `json:"bound"`
		Samples  []any             `json:"samples"`
		Findings []balenum.Finding `json:"findings"`
		Extra    map[string]int64  `json:"extra"`
		Wall     float64           `json:"wall_s"`
		Blocks   int               `json:"blocks"`
		Cut      int               `json:"blocks_cut"`
		Dropped  int64             `json:"distinct_dropped"`
	}
	if err := json.Unmarshal(b, &s); err != nil {
		ev.InfraError("harness summary unreadable: %v", err)
	}
	if s.Evals == 0 {
		ev.InfraError("harness ran nothing")
	}
	r := ev.New("C26", "exploration")
	r.Rule("the C25 sticky enumeration (members x subscriptions x partition counts x prior ownership incl. conflicting and stale-generation claims x racks x count-map insertion order) plus the complex-path sweep (4-5 members x 3-4 topics with partition-count mixes like {1,1,4} x every member on every non-empty topic subset x prior = nothing owned | every valid complete assignment, hence every staircase of loads k,k+1,k+2,k+3 that multi-hop steal chains climb), each input run through the sticky engine for sticky and for cooperative-sticky before AdjustCooperative; oracle (i) brute-force search for an improving chain of moves in the member graph, (ii) a valid, complete, optimal same-generation current assignment must be returned unchanged; distinct = distinct (balancer, members, partition counts, subscriptions, resulting plan)")
	r.Assume(
		"the harness rebuilds the []sticky.GroupMember exactly as stickyBalancer.Balance does (copied field by field) to obtain the cooperative plan before AdjustCooperative; for eager sticky the real stickyBalancer.Balance is called",
		"Go map iteration order inside the engine is not controlled: each input is run once per count-map insertion order; the oracles are order-independent",
	)
	r.Evals(s.Evals)
	for _, h := range s.Distinct {
		r.DistinctHash(h)
	}
	r.Set("bound_completed", s.Bound)
	r.Set("harness_wall_s", s.Wall)
	r.Set("blocks", s.Blocks)
	if s.Dropped > 0 {
		r.Set("distinct_not_recorded_over_cap", s.Dropped)
	}
	if s.Cut > 0 {
		r.NotExhaustive(fmt.Sprintf("time slice reached: %d of %d blocks (a block = one members/partition-counts/subscriptions/racks combination with all its priors) were not run; %d inputs were", s.Cut, s.Blocks, s.Evals))
	}
	r.Set("plans_per_balancer", s.PerBal)
	r.Set("plans_per_sweep", s.PerSweep)
	for k, v := range s.Extra {
		r.Set(k, v)
	}
	for _, smp := range s.Samples {
		r.Sample(smp)
	}
	for _, f := range s.Findings {
		r.Violation(f.Key, fmt.Sprintf("%s\n(%d inputs hit this class; smallest shown)", f.What, f.Count), f.Artefact)
	}
	r.Finish()
}
