#!/bin/bash
# C26 sticky balancing is optimal and keeps balanced assignments.
# The sweep runs in package kgo (needs the plan before AdjustCooperative); main aggregates.
# VERIF_REPLAY=<violation artefact> re-runs one failing input instead.
set -eu
cd "$(dirname "$0")/../.."
. bin/env.sh
. checks/c25/balenum/inpkg.sh
inpkg_test_balenum pkg/kgo "$VERIF_ROOT/hooks/inpkg/c26_kgo_test.go" "$BUILD/c26_kgo.test"
if [ -n "${VERIF_REPLAY:-}" ]; then
  exec "$BUILD/c26_kgo.test" -test.run '^TestVerifC26$' -test.timeout 0
fi
go build -o "$BUILD/c26" ./checks/c26
# per-run file: concurrent runs of this check must not clobber each other
export C26_SUMMARY="$BUILD/c26_summary.$$.json"
trap 'rm -f "$C26_SUMMARY"' EXIT
"$BUILD/c26_kgo.test" -test.run '^TestVerifC26$' -test.timeout 0 || { echo "INFRA-ERROR: kgo harness failed" >&2; exit 2; }
"$BUILD/c26"
