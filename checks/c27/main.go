// C27: cooperative rebalances hand off safely and converge.
//
// Model checking over rebalance rounds. A state is (partition counts; per
// member slot: present, subscription, owned partition set, generation). One
// transition is one rebalance round executed on the real code: every present
// member advertises what it owns through CooperativeStickyBalancer's
// JoinGroupMetadata, the leader runs MemberBalancer + BalanceOrError (which is
// sticky.Balance followed by BalancePlan.AdjustCooperative, exactly the call
// sequence of groupConsumer.balanceGroup), the assignments are decoded with
// ParseSyncAssignment, and every member applies the protocol semantics of
// diffAssigned/lastAssigned: it keeps the intersection, revokes what it lost,
// adds what is new, i.e. owns exactly what it was assigned, at the new
// generation. Between rounds the environment may do nothing or make one
// change (member leaves, member joins, member subscribes to a topic, member
// drops a topic while still advertising / after releasing its partitions).
package main

import (
	"encoding/json"
	"fmt"
	"math/bits"
	"os"
	"runtime/pprof"
	"sort"
	"sync"

	"github.com/twmb/franz-go/pkg/kgo"
	"verif.local/ev"

	"verif/checks/c25/balenum"
	"verif/checks/c25/balenum/drive"
)

const maxSlots = 4

type mstate struct {
	Present bool   `json:"present"`
	Subs    uint8  `json:"subs"`
	Owned   uint32 `json:"owned"` // bit f = flat partition f
	Gen     int32  `json:"gen"`   // -1 = never joined
}

type state struct {
	Parts []int32          `json:"parts"`
	M     [maxSlots]mstate `json:"members"`
}

var coop = kgo.CooperativeStickyBalancer()

var slotIDs = [maxSlots]string{"m0", "m1", "m2", "m3"}

func (s *state) numFlat() int {
	n := 0
	for _, p := range s.Parts {
		n += int(p)
	}
	return n
}

// toCase renders the state as the leader-side input of one round. idx maps
// case member index -> slot.
func (s *state) toCase(order int) (c *balenum.Case, idx []int) {
	c = &balenum.Case{Parts: s.Parts, TopicOrder: order}
	for i := range s.M {
		if s.M[i].Present {
			idx = append(idx, i)
			c.IDs = append(c.IDs, slotIDs[i])
			c.Subs = append(c.Subs, s.M[i].Subs)
			c.Gens = append(c.Gens, s.M[i].Gen)
		}
	}
	c.N = len(idx)
	nf := s.numFlat()
	c.Owners = make([][]int, nf)
	for f := 0; f < nf; f++ {
		c.Owners[f] = []int{}
		for ci, slot := range idx {
			if s.M[slot].Owned&(1<<uint(f)) != 0 {
				c.Owners[f] = append(c.Owners[f], ci)
			}
		}
	}
	return c, idx
}

// key is the canonical form: generations only matter through their order
// among members that own something; a member that owns nothing is either
// fresh (-1) or not.
func (s *state) key() uint64 {
	var gens []int32
	for i := range s.M {
		if s.M[i].Present && s.M[i].Owned != 0 {
			gens = append(gens, s.M[i].Gen)
		}
	}
	sort.Slice(gens, func(a, b int) bool { return gens[a] < gens[b] })
	rank := func(g int32) int {
		r := 0
		for i, x := range gens {
			if i > 0 && x != gens[i-1] {
				r++
			}
			if x == g {
				return r
			}
		}
		return 0
	}
	buf := make([]byte, 0, 64)
	for _, p := range s.Parts {
		buf = append(buf, byte(p))
	}
	buf = append(buf, 0xff)
	for i := range s.M {
		m := &s.M[i]
		if !m.Present {
			buf = append(buf, 0xfe)
			continue
		}
		g := byte(0xf0)
		if m.Owned != 0 {
			g = byte(rank(m.Gen))
		} else if m.Gen < 0 {
			g = 0xf1
		}
		buf = append(buf, 1, m.Subs, byte(m.Owned), byte(m.Owned>>8), byte(m.Owned>>16), g)
	}
	return balenum.Hash64(string(buf))
}

func (s *state) clone() *state {
	d := *s
	return &d
}

type roundResult struct {
	next *state
	c    *balenum.Case
	plan balenum.Plan
	v    *balenum.Verdict
}

// round runs one rebalance on the real balancer and applies it.
func round(s *state, order int) roundResult {
	c, idx := s.toCase(order)
	plan, err, panicked := drive.SafeBalance(coop, c)
	if panicked {
		return roundResult{c: c, v: &balenum.Verdict{Key: "round:panic", What: err.Error()}}
	}
	if err != nil {
		return roundResult{c: c, v: &balenum.Verdict{Key: "round:api-error", What: err.Error()}}
	}
	// Basic sanity shared with C25 (double assignment, unsubscribed, unknown
	// partitions); cooperative withholding allowed.
	if v := balenum.CheckValid(c, plan, true); v != nil {
		return roundResult{c: c, plan: plan, v: &balenum.Verdict{Key: "round:invalid-" + v.Key, What: v.What}}
	}
	next := s.clone()
	newGen := int32(0)
	for _, slot := range idx {
		if s.M[slot].Gen > newGen {
			newGen = s.M[slot].Gen
		}
	}
	newGen++
	var v *balenum.Verdict
	for ci, slot := range idx {
		var owned uint32
		for topic, ps := range plan[c.ID(ci)] {
			for t := range s.Parts {
				if balenum.RealTopics[t] == topic {
					for _, p := range ps {
						owned |= 1 << uint(c.Flat(t, p))
					}
				}
			}
		}
		// Safety: a partition handed to ci must not have a current owner
		// other than ci itself.
		for f := 0; f < len(c.Owners); f++ {
			if owned&(1<<uint(f)) == 0 {
				continue
			}
			cur := c.CurrentOwners(f)
			if len(cur) == 0 {
				continue
			}
			mine := false
			for _, o := range cur {
				if o == ci {
					mine = true
				}
			}
			if !mine && v == nil {
				v = &balenum.Verdict{Key: "safety:given-while-current-owner-still-owns", What: fmt.Sprintf("the round gives %s to %s while %s (generation %d, the maximum among claimants) still owns it", c.TPName(f), c.ID(ci), c.ID(cur[0]), c.Gens[cur[0]])}
			}
		}
		next.M[slot].Owned = owned
		next.M[slot].Gen = newGen
	}
	return roundResult{next: next, c: c, plan: plan, v: v}
}

type envStep struct {
	label string
	s     *state
}

func topicMask(s *state, t int) uint32 {
	var m uint32
	off := 0
	for i, p := range s.Parts {
		if i == t {
			for k := 0; k < int(p); k++ {
				m |= 1 << uint(off+k)
			}
		}
		off += int(p)
	}
	return m
}

// envSteps lists every single environment change applicable to s.
func envSteps(s *state, slots int) []envStep {
	var out []envStep
	present := 0
	for i := 0; i < slots; i++ {
		if s.M[i].Present {
			present++
		}
	}
	nt := len(s.Parts)
	for i := 0; i < slots; i++ {
		m := s.M[i]
		if !m.Present {
			for sub := uint8(1); sub < 1<<uint(nt); sub++ {
				n := s.clone()
				n.M[i] = mstate{Present: true, Subs: sub, Gen: balenum.GenFresh}
				out = append(out, envStep{fmt.Sprintf("join m%d subs=%d", i, sub), n})
			}
			continue
		}
		if present > 1 {
			n := s.clone()
			n.M[i] = mstate{}
			out = append(out, envStep{fmt.Sprintf("leave m%d", i), n})
		}
		for t := 0; t < nt; t++ {
			bit := uint8(1) << uint(t)
			if m.Subs&bit == 0 {
				n := s.clone()
				n.M[i].Subs |= bit
				out = append(out, envStep{fmt.Sprintf("m%d subscribes %s", i, balenum.RealTopics[t]), n})
			} else if m.Subs&^bit != 0 {
				n := s.clone()
				n.M[i].Subs &^= bit
				out = append(out, envStep{fmt.Sprintf("m%d drops %s (still advertising its partitions)", i, balenum.RealTopics[t]), n})
				if m.Owned&topicMask(s, t) != 0 {
					n2 := n.clone()
					n2.M[i].Owned &^= topicMask(s, t)
					out = append(out, envStep{fmt.Sprintf("m%d drops %s (partitions released)", i, balenum.RealTopics[t]), n2})
				}
			}
		}
	}
	return out
}

type step struct {
	Input string `json:"input"`
	Plan  string `json:"plan"`
}

type artefact struct {
	State *state   `json:"state"`
	Order int      `json:"topic_order"`
	Path  []string `json:"path_from_start"`
	Steps []step   `json:"rounds"`
	// CleanExample: smallest violating state of the same class in which
	// nobody's claims conflict and everybody is on one generation.
	CleanExample *artefact `json:"conflict_free_example,omitempty"`
}

type explorer struct {
	slots  int
	orders int
	coll   *balenum.Collector
	clean  *balenum.Collector // same keys, restricted to conflict-free same-generation states
}

// isClean: every partition has at most one claimant and all claimants are on
// one generation -- what a group that was never disturbed looks like.
func isClean(s *state) bool {
	var union uint32
	gen, have := int32(0), false
	for i := range s.M {
		if !s.M[i].Present || s.M[i].Owned == 0 {
			continue
		}
		if union&s.M[i].Owned != 0 {
			return false
		}
		union |= s.M[i].Owned
		if have && s.M[i].Gen != gen {
			return false
		}
		gen, have = s.M[i].Gen, true
	}
	return true
}

// chain runs the stable continuation S -> R1 -> R2 -> R3 and applies the
// oracle. It returns R1 (nil if the first round failed) and the number of
// rounds executed.
func mkSteps(rr []roundResult) []step {
	out := make([]step, 0, len(rr))
	for _, r := range rr {
		out = append(out, step{r.c.Describe(), balenum.FormatPlan(r.plan)})
	}
	return out
}

func (e *explorer) chain(s *state, order int, path []string, report bool) (*state, int, *balenum.Verdict, []step) {
	var rr []roundResult
	rounds := 0
	r1 := round(s, order)
	rounds++
	rr = append(rr, r1)
	if r1.v != nil {
		return r1.next, rounds, r1.v, mkSteps(rr)
	}
	r2 := round(r1.next, order)
	rounds++
	rr = append(rr, r2)
	if r2.v != nil {
		return r1.next, rounds, r2.v, mkSteps(rr)
	}
	if v := balenum.CheckValid(r2.c, r2.plan, false); v != nil {
		// Keep going (only on this failing path) to tell "one round late"
		// from "never settles".
		cur, settled := r2, 0
		for k := 3; k <= 8 && settled == 0; k++ {
			nx := round(cur.next, order)
			rounds++
			rr = append(rr, nx)
			if nx.v != nil {
				break
			}
			if balenum.CheckValid(nx.c, nx.plan, false) == nil {
				settled = k
			}
			cur = nx
		}
		if settled == 0 {
			return r1.next, rounds, &balenum.Verdict{Key: "convergence:not-complete-within-8-rounds", What: "after every member revoked what it lost and rejoined, no later round (up to 8) produces a complete assignment: " + v.What}, mkSteps(rr)
		}
		return r1.next, rounds, &balenum.Verdict{Key: "convergence:second-round-incomplete", What: fmt.Sprintf("after every member revoked what it lost and rejoined, the next round still does not produce a complete assignment (%s); the assignment is first complete after round %d", v.What, settled)}, mkSteps(rr)
	}
	r3 := round(r2.next, order)
	rounds++
	rr = append(rr, r3)
	if r3.v != nil {
		return r1.next, rounds, r3.v, mkSteps(rr)
	}
	if balenum.PlanCode(r3.c, r2.plan) != balenum.PlanCode(r3.c, r3.plan) {
		return r1.next, rounds, &balenum.Verdict{Key: "convergence:third-round-changes-the-assignment", What: "the group did not settle within two rebalances: the third round (no change in between) moves partitions: round 2 " + balenum.NormalizedKey(r2.plan) + " round 3 " + balenum.NormalizedKey(r3.plan)}, mkSteps(rr)
	}
	return r1.next, rounds, nil, nil
}

func stateSize(s *state) int {
	c, _ := s.toCase(0)
	return balenum.CaseSize(c)
}

func replay(path string) {
	b, err := os.ReadFile(path)
	if err != nil {
		ev.InfraError("replay: %v", err)
	}
	var f struct {
		Artefact artefact `json:"artefact"`
	}
	if err := json.Unmarshal(b, &f); err != nil || f.Artefact.State == nil {
		ev.InfraError("replay: cannot parse %s: %v", path, err)
	}
	e := &explorer{slots: maxSlots}
	bad := 0
	for i := 0; i < 32; i++ {
		_, _, v, steps := e.chain(f.Artefact.State, f.Artefact.Order, nil, false)
		if v != nil {
			bad++
			if bad == 1 {
				fmt.Printf("VIOLATION reproduced: %s: %s\n", v.Key, v.What)
				for k, s := range steps {
					fmt.Printf("round %d input:\n%s  plan: %s\n", k+1, s.Input, s.Plan)
				}
			}
		}
	}
	fmt.Printf("%d/32 runs violate\n", bad)
	if bad > 0 {
		os.Exit(1)
	}
}

type shardedSet struct {
	mu [64]sync.Mutex
	m  [64]map[uint64]struct{}
}

func newShardedSet() *shardedSet {
	s := &shardedSet{}
	for i := range s.m {
		s.m[i] = map[uint64]struct{}{}
	}
	return s
}

func (s *shardedSet) add(h uint64) bool {
	i := h & 63
	s.mu[i].Lock()
	defer s.mu[i].Unlock()
	if _, ok := s.m[i][h]; ok {
		return false
	}
	s.m[i][h] = struct{}{}
	return true
}

func (s *shardedSet) len() int {
	n := 0
	for i := range s.m {
		n += len(s.m[i])
	}
	return n
}

// inStartSet reports whether a derived state is (canonically) one of the
// enumerated start states, which are explored anyway.
func inStartSet(s *state, startMembers, startTotal, startTotalAtMax int) bool {
	n := 0
	for i := range s.M {
		if s.M[i].Present {
			if i != n || s.M[i].Gen < 0 || s.M[i].Subs == 0 {
				return false
			}
			n++
		}
	}
	if n == 0 || n > startMembers {
		return false
	}
	total := startTotal
	if n == startMembers {
		total = startTotalAtMax
	}
	if s.numFlat() > total {
		return false
	}
	gens := map[int32]bool{}
	for f := 0; f < s.numFlat(); f++ {
		k := 0
		for i := 0; i < n; i++ {
			if s.M[i].Owned&(1<<uint(f)) != 0 {
				k++
			}
		}
		if k > 2 {
			return false
		}
	}
	for i := 0; i < n; i++ {
		if s.M[i].Owned != 0 {
			gens[s.M[i].Gen] = true
		}
	}
	return len(gens) <= 2
}

type derived struct {
	s    *state
	path []string
}

func main() {
	if p := os.Getenv("VERIF_REPLAY"); p != "" {
		replay(p)
		return
	}
	if len(os.Args) == 3 && os.Args[1] == "--replay" {
		replay(os.Args[2])
		return
	}
	if pp := os.Getenv("C27_PPROF"); pp != "" {
		f, _ := os.Create(pp)
		pprof.StartCPUProfile(f)
	}
	r := ev.New("C27", "model_checking")
	thorough := ev.Thorough()
	// bounds
	startMembers, slots, startTotal, startTotalAtMax, orders := 3, 3, 4, 4, 1
	if thorough {
		startMembers, slots, startTotal, startTotalAtMax, orders = 4, 4, 5, 3, 2
	}
	e := &explorer{slots: slots, orders: orders, coll: balenum.NewCollector(), clean: balenum.NewCollector()}
	r.Rule("BFS over rebalance rounds, depth 3. Start states: every (members<=bound, subscriptions = non-empty topic subsets, partition counts, ownership map partition -> nobody | one member | two conflicting members, member generation current | stale). From every visited state the stable continuation S -r-> R1 -r-> R2 -r-> R3 runs on the real balancer; then every single environment change (leave / join with each subscription / subscribe / drop a topic with or without releasing its partitions) is applied to R1 and the resulting states, deduplicated by canonical form (partition counts, per slot presence, subscription, owned set, generation rank), are explored the same way to depth 3. distinct = canonical states explored")
	r.Assume(
		"a member that takes part in a round afterwards owns exactly its assignment at the new generation (diffAssigned + lastAssigned = nowAssigned); members that left own nothing the group knows of",
		"a member that drops a topic keeps advertising the topic's partitions until the next round (lastAssigned is not pruned by the end-of-session revoke) -- both that and the released variant are explored",
		"racks and static membership are not varied here (C25 covers them for single plans)",
		"Go map iteration order inside the sticky engine is not controlled; quick runs each state with one count-map insertion order (chosen by state hash parity), thorough with both",
	)
	r.Set("bound_completed", fmt.Sprintf("start states: members<=%d, topics<=2 with 1..3 partitions, total partitions<=%d (<=%d at %d members), all prior-ownership maps incl. two conflicting claimants and stale generations; member slots=%d; environment: <=1 change between consecutive rounds, 2 changes per trace; rounds per trace=3 plus the 3-round stable continuation from every state; count-map orders per state=%d", startMembers, startTotal, startTotalAtMax, startMembers, slots, orders))

	seen := newShardedSet()
	var frontierMu sync.Mutex
	var frontier []derived
	var states, transitions, traces, envEdges, withheldRounds, inStart int64
	var statMu sync.Mutex

	process := func(s *state, path []string, depth int, key uint64) {
		var lTrans, lTraces, lEnv, lWithheld, lInStart int64
		ords := []int{int(bits.OnesCount64(key) & 1)}
		if e.orders == 2 && len(s.Parts) == 2 {
			ords = []int{0, 1}
		}
		for _, o := range ords {
			r1, rounds, v, steps := e.chain(s, o, path, true)
			lTrans += int64(rounds)
			lTraces++
			if v != nil {
				sc := s.clone()
				pc := append([]string(nil), path...)
				e.coll.Add(v.Key, v.What, stateSize(s)+len(path)*1000000, func() any {
					return artefact{State: sc, Order: o, Path: pc, Steps: steps}
				})
				if isClean(s) {
					e.clean.Add(v.Key, v.What, stateSize(s)+len(path)*1000000, func() any {
						return artefact{State: sc, Order: o, Path: pc, Steps: steps}
					})
				}
			}
			if r1 == nil {
				continue
			}
			// did round 1 withhold anything?
			want, got := 0, 0
			for t := range s.Parts {
				for i := range r1.M {
					if r1.M[i].Present && r1.M[i].Subs&(1<<uint(t)) != 0 {
						want += int(s.Parts[t])
						break
					}
				}
			}
			for i := range r1.M {
				if r1.M[i].Present {
					got += bits.OnesCount32(r1.M[i].Owned)
				}
			}
			if got < want {
				lWithheld++
			}
			if depth < 2 {
				for _, es := range envSteps(r1, e.slots) {
					lEnv++
					if inStartSet(es.s, startMembers, startTotal, startTotalAtMax) {
						lInStart++
						continue
					}
					if seen.add(es.s.key()) {
						frontierMu.Lock()
						frontier = append(frontier, derived{es.s, append(append([]string(nil), path...), fmt.Sprintf("round (order %d); %s", o, es.label))})
						frontierMu.Unlock()
					}
				}
			}
		}
		statMu.Lock()
		states++
		transitions += lTrans + lEnv
		traces += lTraces
		envEdges += lEnv
		withheldRounds += lWithheld
		inStart += lInStart
		statMu.Unlock()
	}

	// depth 0: the start states, streamed from the shared enumeration.
	var blocks []balenum.Block
	for n := 1; n <= startMembers; n++ {
		total := startTotal
		if n == startMembers {
			total = startTotalAtMax
		}
		for _, parts := range balenum.PartConfigs(2, 3, total) {
			for _, subs := range balenum.SubVectors(n, len(parts), false) {
				blocks = append(blocks, balenum.Block{Sweep: "start", N: n, Parts: parts, Subs: subs, Prior: balenum.PriorFull, Orders: 1})
			}
		}
	}
	balenum.TuneGC(256 << 20)
	ch := make(chan *balenum.Block, 64)
	var wg sync.WaitGroup
	var startStates int64
	var sampleOnce sync.Once
	for w := 0; w < ev.Workers(); w++ {
		wg.Add(1)
		go func() {
			defer wg.Done()
			var n int64
			startHashes := balenum.NewHashSet(1 << 16) // distinct_nontrivial is capped; "states" has the full count
			defer func() { startHashes.Each(r.DistinctHash) }()
			for b := range ch {
				b.Each(func(c *balenum.Case) {
					s := &state{Parts: c.Parts}
					for i := 0; i < c.N; i++ {
						s.M[i] = mstate{Present: true, Subs: c.Subs[i], Gen: c.Gens[i]}
					}
					for f, os := range c.Owners {
						for _, o := range os {
							s.M[o].Owned |= 1 << uint(f)
						}
					}
					// canonical duplicates: generations only matter by rank, so
					// "every claimant stale" equals "every claimant current"
					anyCur, anyStale := false, false
					for i := 0; i < c.N; i++ {
						if s.M[i].Owned != 0 {
							if c.Gens[i] == balenum.GenCurrent {
								anyCur = true
							} else {
								anyStale = true
							}
						}
					}
					if anyStale && !anyCur {
						return
					}
					k := s.key()
					n++
					if n == 5000 {
						sampleOnce.Do(func() { r.Sample(map[string]any{"depth": 0, "state": c.Describe()}) })
					}
					startHashes.Add(k)
					process(s, nil, 0, k)
				})
			}
			statMu.Lock()
			startStates += n
			statMu.Unlock()
		}()
	}
	for i := range blocks {
		ch <- &blocks[i]
	}
	close(ch)
	wg.Wait()
	r.Set("start_states", startStates)
	r.Set("distinct_nontrivial_note", "start-state hashes are kept up to 65536 per worker; the number of distinct canonical states explored is `states`")

	// depths 1 and 2: derived states.
	for depth := 1; depth <= 2; depth++ {
		cur := frontier
		frontier = nil
		// deterministic order
		sort.Slice(cur, func(i, j int) bool { return cur[i].s.key() < cur[j].s.key() })
		r.Set(fmt.Sprintf("derived_states_depth_%d", depth), len(cur))
		dch := make(chan derived, 256)
		var dwg sync.WaitGroup
		for w := 0; w < ev.Workers(); w++ {
			dwg.Add(1)
			go func() {
				defer dwg.Done()
				for d := range dch {
					process(d.s, d.path, depth, d.s.key())
				}
			}()
		}
		for i, d := range cur {
			if depth == 1 && i%(len(cur)/3+1) == 0 {
				c, _ := d.s.toCase(0)
				r.Sample(map[string]any{"depth": depth, "path": d.path, "state": c.Describe()})
			}
			dch <- d
		}
		close(dch)
		dwg.Wait()
	}

	r.States(states)
	r.Transitions(transitions)
	r.Traces(traces)
	r.Evals(transitions - envEdges)
	r.Set("balancer_rounds_executed", transitions-envEdges)
	r.Set("environment_steps", envEdges)
	r.Set("first_rounds_that_withheld_a_partition", withheldRounds)
	r.Set("environment_steps_leading_back_into_the_start_set", inStart)
	for i := range seen.m {
		for h := range seen.m[i] {
			r.DistinctHash(h)
		}
	}
	for _, f := range e.coll.Findings() {
		a := f.Artefact.(artefact)
		what := f.What + "\n"
		if len(a.Path) > 0 {
			what += fmt.Sprintf("reached from a start state by: %v\n", a.Path)
		}
		for k, s := range a.Steps {
			what += fmt.Sprintf("round %d input:\n%s  plan: %s\n", k+1, s.Input, s.Plan)
		}
		what += fmt.Sprintf("(%d states hit this class; smallest shown)", f.Count)
		for _, cf := range e.clean.Findings() {
			if cf.Key == f.Key {
				ca := cf.Artefact.(artefact)
				what += fmt.Sprintf("\n%d of them are conflict-free same-generation states; smallest:\n", cf.Count)
				if len(ca.Path) > 0 {
					what += fmt.Sprintf("reached from a start state by: %v\n", ca.Path)
				}
				for k, s := range ca.Steps {
					what += fmt.Sprintf("round %d input:\n%s  plan: %s\n", k+1, s.Input, s.Plan)
				}
				a.CleanExample = &ca
			}
		}
		r.Violation(f.Key, what, a)
	}
	pprof.StopCPUProfile()
	r.Finish()
}
