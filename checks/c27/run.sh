#!/bin/bash
# C27 cooperative rebalances hand off safely and converge (rounds as transitions).
# VERIF_REPLAY=<violation artefact> re-runs one failing trace instead.
set -eu
cd "$(dirname "$0")/../.."
. bin/env.sh
go build -o "$BUILD/c27" ./checks/c27
exec "$BUILD/c27"
