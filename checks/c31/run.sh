#!/bin/bash
set -eu
cd "$(dirname "$0")/../.."
. bin/env.sh
G="$BUILD/c31gen"; mkdir -p "$G"
go build -o "$BUILD/extract" ./cmd/extract
"$BUILD/extract" -src "$REPO/pkg/kgo/consumer.go" -pkg main -out "$G/gate.go" -imports '"math"' \
  -decls "consumer.waitAndAddPoller,consumer.unaddPoller,consumer.allowRebalance,consumer.waitAndAddRebalance,consumer.waitAndAddRebalanceSilent,consumer.waitAndAddRebalanceMaybeSignal,consumer.unaddRebalance"
"$BUILD/extract" -src "$REPO/pkg/kgo/internal/xsync/synctest_mutex.go" -pkg main -out "$G/smx.go" -imports 'sync "verif/lib/vrt/shim/sync"' \
  -decls "type:Mutex,Mutex.init,Mutex.Lock,Mutex.TryLock,Mutex.Unlock,type:RWMutex,RWMutex.init,RWMutex.RLock,RWMutex.TryRLock,RWMutex.RUnlock,RWMutex.Lock,RWMutex.TryLock,RWMutex.Unlock,RWMutex.RLocker,type:rlocker,rlocker.Lock,rlocker.Unlock"
printf '{"Replace":{"%s":"%s","%s":"%s"}}\n' "$VERIF_ROOT/checks/c31/zz_gate.go" "$G/gate.go" "$VERIF_ROOT/checks/c31/zz_smx.go" "$G/smx.go" > "$G/overlay.json"
go build -overlay "$G/overlay.json" -o "$BUILD/c31" ./checks/c31 || { echo "EXTRACTION-ERROR: extracted code no longer compiles" >&2; exit 2; }
exec "$BUILD/c31"
