// C31: the BlockRebalanceOnPoll gate and the channel-based synctest mutexes —
// engine S. run.sh compiles into this package, from the current /repo tree:
//   zz_gate.go  the seven gate methods of consumer.go (extracted by name)
//   zz_smx.go   every declaration of internal/xsync/synctest_mutex.go with its
//               channel syntax rewritten to vrt operations
// Only the struct stubs below (field subset of kgo.consumer / Client / cfg) are
// hand written.
package main

import (
	"context"
	"fmt"
	"os"
	"os/exec"
	"strings"
	"time"

	"verif.local/ev"

	"verif/lib/explore"
	"verif/lib/vrt"
	sync "verif/lib/vrt/shim/sync"
	xsync "verif/lib/vrt/shim/xsync"
)

// ---- stubs for the gate (same field names and types as in pkg/kgo) ----

type cfg struct {
	blockRebalanceOnPoll bool
	onBlocked            func(context.Context, *Client)
}

type Client struct {
	cfg cfg
	ctx context.Context
}

type consumer struct {
	cl            *Client
	pollWaitMu    xsync.Mutex
	pollWaitC     *sync.Cond
	pollWaitState uint64
}

func newConsumer() *consumer {
	c := &consumer{cl: &Client{cfg: cfg{blockRebalanceOnPoll: true}, ctx: context.Background()}}
	c.pollWaitC = sync.NewCond(&c.pollWaitMu)
	return c
}

type gworld struct {
	registered  int // polls between waitAndAddPoller returning and their release
	holding     int // polls that returned records and were not yet allowed
	inRebalance int
	rebalances  int
	polls       int
	blockedCB   int
	multi       bool // several polling goroutines
	rebInCall   map[string]int // rebalancer thread inside waitAndAddRebalance -> its Cond.Wait count at call time
	finals      []func()
}

var g *gworld

const (
	pollNone    = 0 // poll returns nothing: unaddPoller
	pollRecords = 1 // poll returns records: application later calls AllowRebalance
	pollHold    = 2 // poll returns records; the application polls again BEFORE calling AllowRebalance
)

func gatePoller(c *consumer, kinds []int) func() {
	return func() {
		for _, k := range kinds {
			c.waitAndAddPoller()
			g.polls++
			g.registered++
			// "Polls wait while a rebalance is pending": a rebalancer that has
			// PARKED inside its waitAndAddRebalance call (observed through the
			// runtime, not through the gate word) is pending. A poll that is
			// admitted as the FIRST poller (no other poll registered in the gate
			// at admission; admission and this check are one atomic step) while
			// such a rebalancer has not yet entered is a violation.
			if c.pollWaitState&0xffffffff == 1 {
				for name, snap := range g.rebInCall {
					vrt.Assert(vrt.CondWaitsOf(name) == snap, "poll-admitted-while-rebalance-pending",
						"a poll was admitted with no other poll outstanding while rebalancer %s is parked waiting for its turn (rebalances must take priority)", name)
				}
			}
			vrt.Assert(g.inRebalance == 0, "poll-during-rebalance", "a poll was admitted while a rebalance is in its critical section")
			if k == pollNone {
				vrt.Yield("poll-body")
				if g.registered > 0 {
					g.registered--
				}
				c.unaddPoller()
				continue
			}
			g.holding++
			vrt.Yield("process-records")
			vrt.Assert(g.multi || g.inRebalance == 0, "rebalance-during-outstanding-poll", "rebalance entered its critical section while a poll that returned records is outstanding")
			if k == pollHold {
				// "You can poll many times before calling [AllowRebalance]":
				// the records stay outstanding across the following polls.
				continue
			}
			if !g.multi {
				g.holding = 1 // this AllowRebalance releases every earlier held poll of this goroutine too
			}
			// Done with the records: this poller allows rebalances. With ONE
			// polling goroutine that is exactly the documented protocol. With
			// several, AllowRebalance releases every poller by contract ("all
			// pollers are done"), so another poller's records may legitimately be
			// outstanding when a rebalance runs: g.multi switches the exclusion
			// assertion off there and the harness checks deadlock freedom, the
			// admission rule and the gate word only.
			g.holding--
			if !g.multi || g.holding == 0 {
				g.registered = 0
			}
			c.allowRebalance()
		}
		if !g.multi && g.holding > 0 { // held polls at the end of the script: the application allows rebalances now
			vrt.Assert(g.inRebalance == 0, "rebalance-during-outstanding-poll", "rebalance entered its critical section while polls that returned records are outstanding")
			g.holding, g.registered = 0, 0
			c.allowRebalance()
		}
	}
}

func gateRebalancer(c *consumer, n int, silent bool) func() {
	return func() {
		for i := 0; i < n; i++ {
			me := vrt.ThreadName()
			g.rebInCall[me] = vrt.CondWaitsOf(me)
			if silent {
				c.waitAndAddRebalanceSilent()
			} else {
				c.waitAndAddRebalance()
			}
			delete(g.rebInCall, me)
			g.inRebalance++
			g.rebalances++
			vrt.Assert(g.multi || g.holding == 0, "rebalance-during-outstanding-poll", "rebalance critical section entered with %d polls holding records", g.holding)
			vrt.Yield("revoke")
			vrt.Assert(g.multi || g.holding == 0, "rebalance-during-outstanding-poll", "a poll returned records while a rebalance is in its critical section")
			g.inRebalance--
			c.unaddRebalance()
		}
	}
}

func gateHarness(pollers [][]int, rebalancers []int, silent bool, cb bool) func() {
	return func() {
		g = &gworld{rebInCall: map[string]int{}}
		c := newConsumer()
		if cb {
			c.cl.cfg.onBlocked = func(context.Context, *Client) { g.blockedCB++ }
		}
		g.multi = len(pollers) > 1
		for i, k := range pollers {
			vrt.Go(fmt.Sprintf("poller%d", i), gatePoller(c, k))
		}
		for i, n := range rebalancers {
			vrt.Go(fmt.Sprintf("rebalancer%d", i), gateRebalancer(c, n, silent))
		}
		g.finals = append(g.finals, func() {
			vrt.Assert(c.pollWaitState == 0, "gate-state-nonzero", "gate word is %#x at quiescence (pollers=%d rebalances=%d): underflow or leak", c.pollWaitState, c.pollWaitState&0xffffffff, c.pollWaitState>>32)
		})
	}
}

// ---- channel mutex harnesses (types Mutex / RWMutex come from zz_smx.go) ----

type mworld struct {
	writers, readers int
	entered          int
}

var m *mworld

func mutexHarness(nlock int, withTry bool) func() {
	return func() {
		m = &mworld{}
		mu := &Mutex{}
		for i := 0; i < nlock; i++ {
			vrt.Go(fmt.Sprintf("locker%d", i), func() {
				mu.Lock()
				m.writers++
				m.entered++
				vrt.Assert(m.writers == 1, "mutex-two-holders", "two holders of the channel Mutex")
				vrt.Yield("cs")
				vrt.Assert(m.writers == 1, "mutex-two-holders", "two holders of the channel Mutex")
				m.writers--
				mu.Unlock()
			})
		}
		if withTry {
			vrt.Go("trylocker", func() {
				for i := 0; i < 2; i++ {
					if mu.TryLock() {
						m.writers++
						m.entered++
						vrt.Assert(m.writers == 1, "mutex-two-holders", "TryLock succeeded while held")
						vrt.Yield("cs")
						m.writers--
						mu.Unlock()
					}
				}
			})
		}
	}
}

func rwHarness(nw, nr int, try bool) func() {
	return func() {
		m = &mworld{}
		rw := &RWMutex{}
		wcs := func() {
			m.writers++
			m.entered++
			vrt.Assert(m.writers == 1 && m.readers == 0, "rw-writer-not-alone", "writer in with writers=%d readers=%d", m.writers, m.readers)
			vrt.Yield("wcs")
			vrt.Assert(m.writers == 1 && m.readers == 0, "rw-writer-not-alone", "writer in with writers=%d readers=%d", m.writers, m.readers)
			m.writers--
		}
		rcs := func() {
			m.readers++
			m.entered++
			vrt.Assert(m.writers == 0, "rw-reader-with-writer", "reader in while a writer holds")
			vrt.Yield("rcs")
			vrt.Assert(m.writers == 0, "rw-reader-with-writer", "reader in while a writer holds")
			m.readers--
		}
		for i := 0; i < nw; i++ {
			vrt.Go(fmt.Sprintf("writer%d", i), func() { rw.Lock(); wcs(); rw.Unlock() })
		}
		for i := 0; i < nr; i++ {
			vrt.Go(fmt.Sprintf("reader%d", i), func() { rw.RLock(); rcs(); rw.RUnlock() })
		}
		if try {
			vrt.Go("trier", func() {
				if rw.TryLock() {
					wcs()
					rw.Unlock()
				}
				if rw.TryRLock() {
					rcs()
					rw.RUnlock()
				}
			})
		}
	}
}

var harnesses = map[string]func(){}

func init() {
	harnesses["G-1poll-1reb"] = gateHarness([][]int{{pollRecords, pollNone}}, []int{1}, false, true)
	harnesses["G-2poll-1reb"] = gateHarness([][]int{{pollRecords}, {pollNone}}, []int{1}, false, false)
	harnesses["G-1poll-2reb"] = gateHarness([][]int{{pollNone, pollRecords}}, []int{1, 1}, true, false)
	harnesses["G-2poll-2reb"] = gateHarness([][]int{{pollRecords}, {pollRecords}}, []int{1, 1}, false, false)
	// several polls before one AllowRebalance (documented use): an empty poll's
	// release must not let a parked rebalance through while earlier records are held
	harnesses["G-hold-1reb"] = gateHarness([][]int{{pollHold, pollNone, pollHold, pollNone}}, []int{1}, false, false)
	harnesses["G-hold-2reb"] = gateHarness([][]int{{pollHold, pollNone, pollRecords}}, []int{1, 1}, true, false)
	harnesses["M-3lock"] = mutexHarness(3, false)
	harnesses["M-2lock-try"] = mutexHarness(2, true)
	harnesses["RW-1w-2r"] = rwHarness(1, 2, false)
	harnesses["RW-2w-1r"] = rwHarness(2, 1, false)
	harnesses["RW-1w-1r-try"] = rwHarness(1, 1, true)
}

func runJob(job explore.Job) explore.Result {
	h, ok := harnesses[job.Scenario]
	if !ok {
		return explore.Result{Crash: "unknown harness " + job.Scenario}
	}
	g, m = nil, nil
	res := vrt.Run(job.Prefix, 3000, os.Getenv("VERIF_TRACE") != "", h)
	out := explore.Result{Points: res.Points, Steps: res.Steps, Capped: res.Capped, Diverged: res.Diverged}
	if res.Failure == "" && !res.Capped && !res.Diverged && g != nil {
		fin := vrt.Run(nil, 10, false, func() {
			for _, f := range g.finals {
				f()
			}
		})
		if fin.Failure != "" {
			res.Failure, res.FailKey = fin.Failure, fin.FailKey
		}
	}
	if res.Failure != "" {
		out.Viol = append(out.Viol, explore.Violation{Key: res.FailKey, What: res.Failure + "\nschedule: " + strings.Join(res.Trace, " | ")})
	}
	if g != nil {
		out.Obs = fmt.Sprintf("polls=%d rebalances=%d blockedcb=%d", g.polls, g.rebalances, g.blockedCB)
	}
	if m != nil {
		out.Obs = fmt.Sprintf("entered=%d", m.entered)
	}
	return out
}

type plan struct {
	name            string
	quick, thorough int
}

func main() {
	if explore.IsWorker() {
		explore.ServeWorker(runJob)
		return
	}
	if p := os.Getenv("VERIF_REPLAY"); p != "" {
		replay(p)
		return
	}
	plans := []plan{
		{"G-1poll-1reb", 3, 5}, {"G-hold-1reb", 3, 5}, {"G-hold-2reb", 2, 4}, {"G-2poll-1reb", 3, 4}, {"G-1poll-2reb", 3, 4}, {"G-2poll-2reb", 2, 3},
		{"M-3lock", 3, 5}, {"M-2lock-try", 3, 5},
		{"RW-1w-2r", 3, 4}, {"RW-2w-1r", 3, 4}, {"RW-1w-1r-try", 3, 4},
	}
	r := ev.New("C31", "model_checking")
	r.Rule("engine S: every interleaving, up to the stated preemption bound, of pollers (polls returning records followed by AllowRebalance, several polls held before one AllowRebalance, empty polls released by unaddPoller) and rebalancers over the seven gate methods extracted from consumer.go, and of lockers/readers/TryLock callers over the channel Mutex/RWMutex extracted from synctest_mutex.go (channel operations modelled by vrt, every mutex/cond/channel operation a scheduling point); deadlock = no enabled thread with unfinished threads. distinct = distinct outcome tuples per harness")
	r.Assume("vrt primitives model sync.Mutex/Cond and Go channels/select faithfully", "gate struct stubs carry the same fields as kgo.consumer/cfg", "extraction rewrites only concurrency syntax")
	deadline := ev.Deadline(70*time.Second, 15*time.Minute)
	per := map[string]any{}
	only := os.Getenv("VERIF_SCENARIO")
	for i, p := range plans {
		bound := p.quick
		if ev.Thorough() {
			bound = p.thorough
		}
		if only != "" && only != p.name {
			continue
		}
		slice := time.Until(deadline) / time.Duration(len(plans)-i)
		if only != "" {
			slice = time.Until(deadline)
		}
		obs := map[string]struct{}{}
		nv := 0
		var sample any
		st := explore.Explore(explore.Config{
			Scenario: p.name, Budget: bound, Workers: ev.Workers(), Deadline: time.Now().Add(slice),
			Subprocess: func() *exec.Cmd {
				cmd := exec.Command(os.Args[0])
				cmd.Env = append(os.Environ(), "VERIF_WORKER=1", "GOMAXPROCS=2")
				cmd.Stderr = os.Stderr
				return cmd
			},
			OnResult: func(job explore.Job, res explore.Result) {
				r.Evals(1)
				r.Traces(1)
				r.States(int64(len(res.Points)) + 1)
				r.Transitions(int64(res.Steps))
				r.Distinct(p.name + "|" + res.Obs)
				obs[res.Obs] = struct{}{}
				if sample == nil && len(job.Prefix) > 2 {
					sample = map[string]any{"harness": p.name, "schedule_prefix": job.Labels, "outcome": res.Obs}
				}
				if res.Crash != "" {
					res.Viol = append(res.Viol, explore.Violation{Key: "worker-crash", What: res.Crash})
				}
				for _, v := range res.Viol {
					if nv < 5 {
						r.Violation("C31:"+p.name+":"+v.Key, fmt.Sprintf("harness %s: %s", p.name, v.What), map[string]any{"check": "C31", "scenario": p.name, "prefix": job.Prefix})
					}
					nv++
				}
			},
		})
		if sample != nil {
			r.Sample(sample)
		}
		per[p.name] = map[string]any{"preemption_bound": bound, "bound_completed": st.LevelCompleted, "cut_by_time": st.Cut, "executions": st.Execs, "per_level": st.LevelExecs, "distinct_outcomes": len(obs), "capped": st.Capped}
		if st.Cut {
			r.NotExhaustive(fmt.Sprintf("%s: time slice ended inside preemption level %d", p.name, st.LevelCompleted+1))
		}
		fmt.Printf("  %-18s bound=%d completed=%d execs=%d outcomes=%d capped=%d cut=%v\n", p.name, bound, st.LevelCompleted, st.Execs, len(obs), st.Capped, st.Cut)
	}
	r.Set("harnesses", per)
	r.Finish()
}

func replay(path string) {
	b, err := os.ReadFile(path)
	if err != nil {
		ev.InfraError("%v", err)
	}
	var scen string
	var prefix []int
	s := string(b)
	if i := strings.Index(s, `"scenario": "`); i >= 0 {
		scen = s[i+13:]
		scen = scen[:strings.Index(scen, `"`)]
	}
	if i := strings.Index(s, `"prefix": [`); i >= 0 {
		body := s[i+11:]
		body = body[:strings.Index(body, "]")]
		for _, f := range strings.FieldsFunc(body, func(r rune) bool { return r == ',' || r == ' ' || r == '\n' }) {
			var v int
			fmt.Sscan(f, &v)
			prefix = append(prefix, v)
		}
	}
	os.Setenv("VERIF_TRACE", "1")
	res := runJob(explore.Job{Scenario: scen, Prefix: prefix})
	fmt.Printf("replay %s prefix=%v obs=%s\n", scen, prefix, res.Obs)
	for _, v := range res.Viol {
		fmt.Printf("VIOLATION-REPLAYED %s: %s\n", v.Key, v.What)
	}
	if len(res.Viol) > 0 {
		os.Exit(1)
	}
}
