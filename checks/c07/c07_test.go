package c07

import (
	"strings"
	"testing"
	"time"

	"github.com/twmb/franz-go/pkg/kgo"

	"verif/checks/c07/gscen"
	"verif/lib/netctl"
	"verif/lib/nrun"
)

// Scenario family G (DESIGN.md §4 C07): group "g" over topic t (3 partitions),
// members A and B (and C) as separate controlled clients; every
// OnPartitionsAssigned/Revoked/Lost invocation is stamped at its START and at
// its END into one log. Only graceful behaviour: no faults; the alphabet is the
// order of frames across the members' connections, the order of application
// calls, and ticks (made harmless by 5-minute session/rebalance/request
// timeouts against ticks of at most one virtual minute).

type variant struct {
	name     string
	proto    gscen.Proto
	addTopic bool // B AddConsumeTopics("t2") once it owns something; B stays
	addParts bool // ENV grows t to 4 partitions once B owns something, members refresh metadata; B stays
	third    bool // member C joins once B owns something and stays
	early    bool // B's leave is enabled as soon as B's client exists (leave may land inside the join rebalance)
	useClose bool // B leaves with Close instead of LeaveGroup
}

const (
	gateLimit = 3 * time.Minute // virtual; a gate that never opens ends the thread's script
	pollWait  = 430 * time.Millisecond
)

func scenario(v variant) *netctl.Scenario {
	return &netctl.Scenario{
		Name:    v.name,
		Faults:  nil,
		Horizon: 6 * time.Minute,
		Setup: func(x *netctl.Exec) {
			topics := map[string]int32{"t": 3}
			if v.addTopic {
				topics["t2"] = 2
			}
			g := gscen.New(x, v.proto, topics)
			g.RevokeWork = 70 * time.Millisecond
			x.Data = g
			stays := v.addTopic || v.addParts
			owns := func(m string, n int) func() bool { return func() bool { return len(g.Owned(m)) >= n } }

			x.Thread("A", func(t *netctl.Thread) {
				t.Step("join+poll")
				a := g.Join("A", true, []string{"t"}, kgo.DisableAutoCommit())
				g.PollOnce("A", a, 10, pollWait)
				// "A polls again and sees the revocation": released once B is in the picture.
				if !g.WaitUntil(gateLimit, func() bool { return g.Client("B") != nil }) {
					return
				}
				t.Step("poll")
				g.PollOnce("A", a, 10, pollWait)
				if stays {
					return
				}
				// After B has gone: poll until A owns everything again (bounded).
				if !g.WaitUntil(gateLimit, func() bool { return !live(g, "B") }) {
					return
				}
				for i := 0; i < 3 && len(g.Owned("A")) < 3; i++ {
					t.Step("poll")
					g.PollOnce("A", a, 10, pollWait)
				}
			})
			x.Thread("B", func(t *netctl.Thread) {
				// The default schedule is the interesting one: B arrives when A
				// owns the whole topic, so partitions have to move from A to B.
				if !g.WaitUntil(gateLimit, owns("A", 3)) {
					return
				}
				t.Step("join+poll")
				time.Sleep(137 * time.Millisecond) // members' periodic timers must not tie (a tie's firing order is the Go runtime's)
				b := g.Join("B", true, []string{"t"}, kgo.DisableAutoCommit())
				g.PollOnce("B", b, 10, pollWait)
				if !v.early && !g.WaitUntil(gateLimit, owns("B", 1)) {
					return
				}
				switch {
				case v.addTopic:
					t.Step("add-topic-t2")
					b.AddConsumeTopics("t2")
					g.Subscribe("B", "t2")
				case stays:
				case v.third:
					if !g.WaitUntil(gateLimit, owns("C", 1)) {
						return
					}
					fallthrough
				default:
					if v.useClose {
						t.Step("close")
						b.Close()
					} else {
						t.Step("leave")
						b.LeaveGroup()
					}
					g.Gone("B")
				}
			})
			if v.third {
				x.Thread("C", func(t *netctl.Thread) {
					if !g.WaitUntil(gateLimit, owns("B", 1)) {
						return
					}
					t.Step("join+poll")
					time.Sleep(271 * time.Millisecond)
					c := g.Join("C", true, []string{"t"}, kgo.DisableAutoCommit())
					g.PollOnce("C", c, 10, pollWait)
				})
			}
			if v.addParts {
				x.Thread("ENV", func(t *netctl.Thread) {
					if !g.WaitUntil(gateLimit, owns("B", 1)) {
						return
					}
					t.Step("add-partition")
					if err := g.AddPartitions("t", 4); err != nil {
						x.Violate("harness:create-partitions", "%v", err)
						return
					}
					// Default MetadataMaxAge is minutes; the application asks for
					// a refresh so that the liveness bound of Final is meaningful.
					t.Step("refresh-A")
					g.Client("A").ForceMetadataRefresh()
					t.Step("refresh-B")
					g.Client("B").ForceMetadataRefresh()
				})
			}
		},
		Final: func(x *netctl.Exec) {
			g := x.Data.(*gscen.G)
			gscen.WaitThreads(x, 8*time.Minute)
			// Membership and subscriptions are now fixed and the environment is
			// well behaved: the assignment must settle within 2 virtual minutes.
			deadline := time.Now().Add(2 * time.Minute)
			ok, why := g.Converged()
			for !ok && time.Now().Before(deadline) {
				time.Sleep(250 * time.Millisecond)
				ok, why = g.Converged()
			}
			if !ok {
				cbs, _, _ := g.Snapshot()
				x.Violate("not-converged", "live members %v, 2 virtual minutes after the last membership/subscription change: %s; callback log: %s", g.Live(), why, gscen.FormatCBs(cbs, 1<<62))
			}
			cbs, _, _ := g.Snapshot()
			n := 0
			gscen.Owners(cbs, func(key, format string, a ...any) {
				if n == 0 {
					x.Violate(key, format, a...)
				}
				n++
			})
			x.Observe("%s", gscen.Outcome(cbs))
		},
	}
}

func live(g *gscen.G, m string) bool {
	for _, l := range g.Live() {
		if l == m {
			return true
		}
	}
	return false
}

var plans = []nrun.Plan{
	// The three protocols: k=1 quick, k=2 thorough.
	{Scenario: scenario(variant{name: "G-eager", proto: gscen.Eager}), QuickBudget: 1, ThoroughBudget: 2, Weight: 3},
	{Scenario: scenario(variant{name: "G-coop", proto: gscen.Coop, useClose: true}), QuickBudget: 1, ThoroughBudget: 2, Weight: 3},
	{Scenario: scenario(variant{name: "G-848", proto: gscen.Next}), QuickBudget: 1, ThoroughBudget: 2, Weight: 3},
	// Variants: default schedule only in the quick tier, k=1 in the thorough tier.
	{Scenario: scenario(variant{name: "G-eager-topic", proto: gscen.Eager, addTopic: true}), QuickBudget: 0, ThoroughBudget: 1},
	{Scenario: scenario(variant{name: "G-coop-topic", proto: gscen.Coop, addTopic: true}), QuickBudget: 0, ThoroughBudget: 1},
	{Scenario: scenario(variant{name: "G-848-topic", proto: gscen.Next, addTopic: true}), QuickBudget: 0, ThoroughBudget: 1},
	{Scenario: scenario(variant{name: "G-eager-parts", proto: gscen.Eager, addParts: true}), QuickBudget: 0, ThoroughBudget: 1},
	{Scenario: scenario(variant{name: "G-coop-parts", proto: gscen.Coop, addParts: true}), QuickBudget: 0, ThoroughBudget: 1},
	{Scenario: scenario(variant{name: "G-848-parts", proto: gscen.Next, addParts: true}), QuickBudget: 0, ThoroughBudget: 1},
	{Scenario: scenario(variant{name: "G-eager-early", proto: gscen.Eager, early: true, useClose: true}), QuickBudget: 0, ThoroughBudget: 1},
	{Scenario: scenario(variant{name: "G-coop-early", proto: gscen.Coop, early: true}), QuickBudget: 0, ThoroughBudget: 1},
	{Scenario: scenario(variant{name: "G-848-early", proto: gscen.Next, early: true, useClose: true}), QuickBudget: 0, ThoroughBudget: 1},
	{Scenario: scenario(variant{name: "G-eager-3", proto: gscen.Eager, third: true}), QuickBudget: 0, ThoroughBudget: 1},
	{Scenario: scenario(variant{name: "G-coop-3", proto: gscen.Coop, third: true, useClose: true}), QuickBudget: 0, ThoroughBudget: 1},
	{Scenario: scenario(variant{name: "G-848-3", proto: gscen.Next, third: true}), QuickBudget: 0, ThoroughBudget: 1},
}

func TestC07(t *testing.T) {
	if gscen.ServeWorker(t, plans) {
		return
	}
	nrun.Main(t, &nrun.Check{
		ID: "C07", TestName: "TestC07", Plans: plans,
		QuickTime: 80 * time.Second, ThorTime: 18 * time.Minute,
		Rule: strings.Join([]string{
			"engine N, scenario family G: members A, B (C) of group g over topic t (3 partitions) as separate real kgo clients against kfake, one scenario per protocol (eager/range, cooperative-sticky, KIP-848)",
			"script: A joins and owns t; B joins; A polls; B leaves (LeaveGroup or Close); A polls until it owns t again; variants: B AddConsumeTopics(t2), a partition added to t, B leaving inside the join rebalance, a third member",
			"explored: every order of request/response frame deliveries across the members' connections, application calls and timer ticks within k deviations of the default order (no faults: graceful behaviour only)",
			"distinct = distinct callback sequences (member, callback kind, number of partitions) per scenario",
		}, "; "),
		Assume: []string{
			"kfake is the group coordinator",
			"synctests build of xsync",
			"ticks are harmless: session, rebalance and request timeouts are 5 virtual minutes, a tick lasts at most one",
			"a revoke/lost callback takes 70 virtual ms between its START and END stamps",
			"goroutine micro-interleavings inside one event are the Go runtime's",
		},
	})
}
