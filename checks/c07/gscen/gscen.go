// Package gscen is scenario family G (DESIGN.md §4 C07/C08): one kfake
// cluster, group "g", members as separate controlled kgo clients, and one
// in-process log that stamps rebalance callbacks (START and END of every
// invocation), poll starts/returns and delivered OffsetCommit requests with a
// single global sequence number. The C07 and C08 oracles are pure functions of
// that log.
package gscen

import (
	"context"
	"errors"
	"fmt"
	"sort"
	"strings"
	"sync"
	"time"

	"github.com/twmb/franz-go/pkg/kadm"
	"github.com/twmb/franz-go/pkg/kerr"
	"github.com/twmb/franz-go/pkg/kfake"
	"github.com/twmb/franz-go/pkg/kgo"
	"github.com/twmb/franz-go/pkg/kmsg"

	"verif/lib/netctl"
	"verif/lib/nscen"
)

// Proto selects the group protocol of a scenario.
type Proto string

const (
	Eager Proto = "eager" // classic protocol, range balancer
	Coop  Proto = "coop"  // classic protocol, cooperative-sticky balancer
	Next  Proto = "848"   // KIP-848 consumer protocol (server-side assignment)
)

const (
	Group = "g"
	// Large enough that a tick deviation (at most one virtual minute each,
	// two at k=2) can never expire a session, a rebalance or a request.
	LongTimeout = 5 * time.Minute
)

// TP is a topic partition.
type TP struct {
	T string
	P int32
}

func (tp TP) String() string { return fmt.Sprintf("%s/%d", tp.T, tp.P) }

// CB is one stamped callback boundary.
type CB struct {
	Seq    int64
	Member string
	Kind   string // assigned | revoked | lost
	End    bool   // false: the callback was entered; true: it is about to return
	Parts  []TP
}

// Rec is one record returned by a poll.
type Rec struct {
	TP  TP
	Off int64
}

// Poll is one PollRecords call of a member.
type Poll struct {
	Member   string
	Start    int64 // stamped immediately before the call
	Return   int64 // stamped immediately after the call returned; 0 while in flight
	Recs     []Rec
	ErrClass string
}

// Commit is one partition of an OffsetCommit request, stamped when the proxy
// delivered the request to the broker.
type Commit struct {
	Seq    int64
	Member string // client name of the connection
	TP     TP
	Off    int64
	Gen    int32
}

// G is the state of one execution of the family.
type G struct {
	X     *netctl.Exec
	C     *kfake.Cluster
	Proto Proto
	// RevokeWork is the virtual time a revoke/lost callback that names at
	// least one partition spends between its START and END stamps (the
	// application "finishing its work" on what it loses).
	RevokeWork time.Duration
	// InCallback, if set, runs inside every stamped callback right after its
	// START stamp (callbacks that call back into the client).
	InCallback func(member, kind string, cl *kgo.Client, parts []TP)
	// Gen is the state of a generated-family execution (gen.go).
	Gen *genState
	// Deleted names topics the environment deleted.
	Deleted map[string]bool

	mu       sync.Mutex
	seq      int64
	cbs      []CB
	polls    []*Poll
	commits  []Commit
	clients  map[string]*kgo.Client
	subs     map[string]map[string]bool // live member -> subscribed topics
	id2t     map[[16]byte]string
	notify   chan struct{} // closed and replaced at every log append
	quit     chan struct{} // closed at cleanup: gates give up, scripts end
	quitOnce sync.Once
}

// ClusterOpts are the kfake options of the family.
func ClusterOpts(topics map[string]int32) []kfake.Opt {
	opts := []kfake.Opt{
		kfake.GroupMaxSessionTimeout(2 * LongTimeout),
		kfake.BrokerConfigs(map[string]string{
			"group.consumer.heartbeat.interval.ms": "1000",
			"group.consumer.session.timeout.ms":    fmt.Sprint((2 * LongTimeout).Milliseconds()),
		}),
	}
	var names []string
	for t := range topics {
		names = append(names, t)
	}
	sort.Strings(names)
	for _, t := range names {
		opts = append(opts, kfake.SeedTopics(topics[t], t))
	}
	return opts
}

// New creates the cluster (one broker: connection names must not depend on
// which member the balancer happens to favour) and the log.
func New(x *netctl.Exec, proto Proto, topics map[string]int32) *G {
	return NewN(x, proto, topics, 1)
}

// NewN is New with a broker count and extra cluster options. With more than
// one broker every partition is led by broker 0 (connection names must not
// depend on the assignment); the other brokers only matter as coordinators.
func NewN(x *netctl.Exec, proto Proto, topics map[string]int32, brokers int, extra ...kfake.Opt) *G {
	g := &G{X: x, Proto: proto, clients: map[string]*kgo.Client{}, subs: map[string]map[string]bool{}, id2t: map[[16]byte]string{}, notify: make(chan struct{})}
	g.C = x.Cluster(brokers, append(ClusterOpts(topics), extra...)...)
	if brokers > 1 {
		for t, n := range topics {
			for p := int32(0); p < n; p++ {
				g.C.MoveTopicPartition(t, p, 0)
			}
		}
	}
	g.quit = make(chan struct{})
	x.OnCleanup(g.shutdown) // cleanups run LIFO: before the cluster's Close
	for t := range topics {
		if ti := g.C.TopicInfo(t); ti != nil {
			g.id2t[ti.TopicID] = t
		}
	}
	return g
}

type abortThread struct{}

// shutdown ends the scripts: gates give up and every later script action
// aborts its thread. It is (re-)registered as the LAST cleanup whenever a
// member is created, so it runs before any client or the cluster is closed
// (a diverged execution skips Final and goes to cleanup with threads alive).
func (g *G) shutdown() { g.quitOnce.Do(func() { close(g.quit) }) }

func (g *G) dead() bool {
	select {
	case <-g.quit:
		return true
	default:
		return false
	}
}

func (g *G) checkAlive() {
	if g.dead() {
		panic(abortThread{})
	}
}

// Thread starts a scripted thread whose script is abandoned at the first
// action after cleanup began.
func (g *G) Thread(name string, body func(t *netctl.Thread)) {
	g.X.Thread(name, func(t *netctl.Thread) {
		defer func() {
			if r := recover(); r != nil {
				if _, ok := r.(abortThread); !ok {
					panic(r)
				}
			}
		}()
		body(t)
	})
}

// Step is t.Step followed by the liveness check.
func (g *G) Step(t *netctl.Thread, label string) {
	g.checkAlive()
	t.Step(label)
	g.checkAlive()
}

// Sleep is a virtual sleep inside a script action.
func (g *G) Sleep(d time.Duration) {
	select {
	case <-time.After(d):
	case <-g.quit:
	}
	g.checkAlive()
}

// stamp returns the next sequence number and wakes WaitUntil callers; g.mu held.
func (g *G) stamp() int64 {
	g.seq++
	close(g.notify)
	g.notify = make(chan struct{})
	return g.seq
}

// WaitUntil blocks the calling thread (durably: channel wait) until cond
// holds, re-evaluating it after every log append; false after limit of
// virtual time.
func (g *G) WaitUntil(limit time.Duration, cond func() bool) bool {
	tm := time.NewTimer(limit)
	defer tm.Stop()
	for {
		g.mu.Lock()
		ch := g.notify
		g.mu.Unlock()
		if cond() {
			return true
		}
		select {
		case <-ch:
		case <-tm.C:
			return false
		case <-g.quit:
			return false
		}
	}
}

// Owned returns the partitions member owns according to the callback log.
func (g *G) Owned(member string) []TP {
	cbs, _, _ := g.Snapshot()
	var out []TP
	for tp, ms := range Owners(cbs, nil) {
		if _, ok := ms[member]; ok {
			out = append(out, tp)
		}
	}
	sort.Slice(out, func(i, j int) bool { return out[i].T < out[j].T || out[i].T == out[j].T && out[i].P < out[j].P })
	return out
}

// InRevoke reports whether member is currently inside an OnPartitionsRevoked
// (or Lost) callback that names at least one partition.
func (g *G) InRevoke(member string) bool {
	g.mu.Lock()
	defer g.mu.Unlock()
	open := 0
	for _, e := range g.cbs {
		if e.Member != member || e.Kind == "assigned" || len(e.Parts) == 0 {
			continue
		}
		if e.End {
			open--
		} else {
			open++
		}
	}
	return open > 0
}

// Seen reports whether a callback boundary of the given member/kind/phase is in the log.
func (g *G) Seen(member, kind string, end bool) bool {
	g.mu.Lock()
	defer g.mu.Unlock()
	for _, e := range g.cbs {
		if e.Member == member && e.Kind == kind && e.End == end {
			return true
		}
	}
	return false
}

// Stamp returns the next global sequence number.
func (g *G) Stamp() int64 {
	g.mu.Lock()
	defer g.mu.Unlock()
	return g.stamp()
}

func flatten(m map[string][]int32) []TP {
	var out []TP
	for t, ps := range m {
		for _, p := range ps {
			out = append(out, TP{t, p})
		}
	}
	sort.Slice(out, func(i, j int) bool { return out[i].T < out[j].T || out[i].T == out[j].T && out[i].P < out[j].P })
	return out
}

func (g *G) callback(member, kind string, work time.Duration) func(context.Context, *kgo.Client, map[string][]int32) {
	return func(_ context.Context, cl *kgo.Client, m map[string][]int32) {
		parts := flatten(m)
		g.mu.Lock()
		g.cbs = append(g.cbs, CB{Seq: g.stamp(), Member: member, Kind: kind, Parts: parts})
		g.mu.Unlock()
		g.X.Logf("callback %s %s START %v", member, kind, parts)
		if g.InCallback != nil {
			g.InCallback(member, kind, cl, parts)
		}
		if work > 0 && len(parts) > 0 {
			time.Sleep(work)
		}
		g.mu.Lock()
		g.cbs = append(g.cbs, CB{Seq: g.stamp(), Member: member, Kind: kind, End: true, Parts: parts})
		g.mu.Unlock()
		g.X.Logf("callback %s %s END %v", member, kind, parts)
	}
}

// MemberOpts are the group options shared by every member of the family.
func (g *G) MemberOpts(name string, topics []string) []kgo.Opt {
	// Members that finish a rebalance at the same virtual instant would
	// heartbeat at the same instants for ever after, and the firing order of
	// tied timers is the Go runtime's, not the explorer's: give every member
	// its own period (classic protocol; in 848 the broker dictates 1 s and the
	// members' phases differ by their join offsets).
	hb := time.Second
	switch name[0] {
	case 'B':
		hb = 1130 * time.Millisecond
	case 'C':
		hb = 1270 * time.Millisecond
	}
	opts := []kgo.Opt{
		kgo.ConsumerGroup(Group),
		kgo.ConsumeTopics(topics...),
		kgo.SessionTimeout(LongTimeout),
		kgo.RebalanceTimeout(LongTimeout),
		kgo.HeartbeatInterval(hb),
		// Graceful family: a request parked in the proxy across a tick must
		// never be given up by the client.
		kgo.RequestTimeoutOverhead(LongTimeout),
	}
	switch g.Proto {
	case Eager:
		opts = append(opts, kgo.Balancers(kgo.RangeBalancer()))
	case Coop:
		opts = append(opts, kgo.Balancers(kgo.CooperativeStickyBalancer()))
	case Next:
		opts = append(opts, kgo.Balancers(kgo.CooperativeStickyBalancer()),
			kgo.WithContext(context.WithValue(context.Background(), "opt_in_kafka_next_gen_balancer_beta", true)))
	}
	return opts
}

// Join creates member `name` (a controlled client; joining starts at once in
// the client's own goroutines). With callbacks, the three OnPartitions
// callbacks are replaced by stamping ones (C07); without, the client keeps its
// default revoke behaviour (C08).
func (g *G) Join(name string, callbacks bool, topics []string, extra ...kgo.Opt) *kgo.Client {
	opts := g.MemberOpts(name, topics)
	if callbacks {
		opts = append(opts,
			kgo.OnPartitionsAssigned(g.callback(name, "assigned", 0)),
			kgo.OnPartitionsRevoked(g.callback(name, "revoked", g.RevokeWork)),
			kgo.OnPartitionsLost(g.callback(name, "lost", g.RevokeWork)),
		)
	}
	opts = append(opts, extra...)
	g.mu.Lock() // serialises x.OnCleanup inside NewClient between threads
	if g.dead() {
		g.mu.Unlock()
		panic(abortThread{})
	}
	cl := nscen.NewClient(g.X, name, g.C, opts...)
	g.X.OnCleanup(g.shutdown)
	g.clients[name] = cl
	s := map[string]bool{}
	for _, t := range topics {
		s[t] = true
	}
	g.subs[name] = s
	g.mu.Unlock()
	return cl
}

// Subscribe records that a live member added topics (AddConsumeTopics).
func (g *G) Subscribe(name string, topics ...string) {
	g.mu.Lock()
	for _, t := range topics {
		g.subs[name][t] = true
	}
	g.mu.Unlock()
}

// Gone records that a member left (LeaveGroup / Close returned).
func (g *G) Gone(name string) {
	g.mu.Lock()
	delete(g.subs, name)
	g.cbs = append(g.cbs, CB{Seq: g.stamp(), Member: name, Kind: "gone", End: true})
	g.mu.Unlock()
}

// Client returns a member's client.
func (g *G) Client(name string) *kgo.Client {
	g.mu.Lock()
	defer g.mu.Unlock()
	return g.clients[name]
}

// Live returns the names of members that have not left.
func (g *G) Live() []string {
	g.mu.Lock()
	defer g.mu.Unlock()
	var out []string
	for m := range g.subs {
		out = append(out, m)
	}
	sort.Strings(out)
	return out
}

// PollOnce calls PollRecords(ctx, max) with a virtual timeout and stamps
// start and return around it.
func (g *G) PollOnce(member string, cl *kgo.Client, max int, timeout time.Duration) *Poll {
	g.checkAlive()
	p := &Poll{Member: member}
	g.mu.Lock()
	p.Start = g.stamp()
	g.polls = append(g.polls, p)
	g.mu.Unlock()
	ctx, cancel := context.WithTimeout(context.Background(), timeout)
	fs := cl.PollRecords(ctx, max)
	cancel()
	var recs []Rec
	errc := ""
	fs.EachRecord(func(r *kgo.Record) { recs = append(recs, Rec{TP{r.Topic, r.Partition}, r.Offset}) })
	for _, fe := range fs.Errors() {
		if fe.Err != context.DeadlineExceeded && fe.Err != context.Canceled {
			errc = nscen.ErrClass(fe.Err)
		}
	}
	g.mu.Lock()
	p.Recs, p.ErrClass = recs, errc
	p.Return = g.stamp()
	g.mu.Unlock()
	g.X.Logf("poll %s returned %v %s", member, recs, errc)
	return p
}

// HookCommits installs the frame hook that stamps every OffsetCommit request
// at the moment the proxy delivers it to the broker.
func (g *G) HookCommits() {
	g.X.FrameHook = func(c *netctl.Conn, dir string, key, ver int16, frame []byte) {
		if dir != "req" || key != 8 {
			return
		}
		req, _, ok := netctl.DecodeRequest(frame)
		if !ok {
			g.X.Violate("harness:undecodable-commit", "OffsetCommit v%d request on %s could not be decoded", ver, c.Name)
			return
		}
		oc := req.(*kmsg.OffsetCommitRequest)
		g.mu.Lock()
		s := g.stamp()
		for _, t := range oc.Topics {
			name := t.Topic
			if name == "" {
				name = g.id2t[t.TopicID]
			}
			for _, p := range t.Partitions {
				g.commits = append(g.commits, Commit{Seq: s, Member: c.Client, TP: TP{name, p.Partition}, Off: p.Offset, Gen: oc.Generation})
			}
		}
		g.mu.Unlock()
	}
}

// Snapshot returns copies of the logs.
func (g *G) Snapshot() (cbs []CB, polls []Poll, commits []Commit) {
	g.mu.Lock()
	defer g.mu.Unlock()
	cbs = append(cbs, g.cbs...)
	for _, p := range g.polls {
		polls = append(polls, *p)
	}
	commits = append(commits, g.commits...)
	return
}

// Subscribed returns the union of the live members' subscriptions.
func (g *G) Subscribed() []string {
	g.mu.Lock()
	defer g.mu.Unlock()
	set := map[string]bool{}
	for _, s := range g.subs {
		for t := range s {
			set[t] = true
		}
	}
	var out []string
	for t := range set {
		out = append(out, t)
	}
	sort.Strings(out)
	return out
}

// ---------------------------------------------------------------------------
// C07 oracles

// Owners replays the callback log: a member owns a partition from the START
// of the OnPartitionsAssigned that names it to the END of the
// OnPartitionsRevoked/OnPartitionsLost that names it. It reports every
// OnPartitionsAssigned that started while a DIFFERENT member's interval for
// the same partition was still open, and returns the final owner sets.
//
// The log also carries a "gone" entry when a member's LeaveGroup/Close
// returned. If the open interval belongs to a member that has already gone and
// that is not inside a revoke/lost callback naming the partition, the failure
// is a different one - the member left the group without ANY callback ever
// revoking that partition - and is reported under its own key
// (revoke-missing-on-leave) so that it can never mask, or be masked by, a
// real overlap (dup-owner).
func Owners(cbs []CB, violate func(key, format string, a ...any)) map[TP]map[string]int64 {
	owners := map[TP]map[string]int64{} // tp -> member -> seq of the assigned START
	gone := map[string]int64{}
	type mtp struct {
		m  string
		tp TP
	}
	revoking := map[mtp]int{}
	for _, e := range cbs {
		switch {
		case e.Kind == "gone":
			gone[e.Member] = e.Seq
		case (e.Kind == "revoked" || e.Kind == "lost") && !e.End:
			for _, tp := range e.Parts {
				revoking[mtp{e.Member, tp}]++
			}
		case e.Kind == "assigned" && !e.End:
			for _, tp := range e.Parts {
				for other, since := range owners[tp] {
					if other == e.Member {
						continue
					}
					if at, left := gone[other]; left && revoking[mtp{other, tp}] == 0 {
						if violate != nil {
							violate("revoke-missing-on-leave", "member %s left the group (LeaveGroup/Close returned at seq %d) without any OnPartitionsRevoked/OnPartitionsLost naming %v, which it was assigned at seq %d; member %s's OnPartitionsAssigned for it started at seq %d; callback log: %s",
								other, at, tp, since, e.Member, e.Seq, FormatCBs(cbs, e.Seq))
						}
						delete(owners[tp], other)
						continue
					}
					if violate != nil {
						violate("dup-owner", "OnPartitionsAssigned of member %s for %v started (seq %d) while member %s, assigned it at seq %d, has not completed OnPartitionsRevoked/OnPartitionsLost for it; callback log: %s",
							e.Member, tp, e.Seq, other, since, FormatCBs(cbs, e.Seq))
					}
				}
				if owners[tp] == nil {
					owners[tp] = map[string]int64{}
				}
				if _, ok := owners[tp][e.Member]; !ok {
					owners[tp][e.Member] = e.Seq
				}
			}
		case (e.Kind == "revoked" || e.Kind == "lost") && e.End:
			for _, tp := range e.Parts {
				delete(owners[tp], e.Member)
				revoking[mtp{e.Member, tp}]--
			}
		}
	}
	return owners
}

// FormatCBs renders the callback log up to seq.
func FormatCBs(cbs []CB, upto int64) string {
	var b strings.Builder
	for _, e := range cbs {
		if e.Seq > upto {
			break
		}
		ph := "start"
		if e.End {
			ph = "end"
		}
		fmt.Fprintf(&b, "[%d %s %s-%s %v] ", e.Seq, e.Member, e.Kind, ph, e.Parts)
	}
	return b.String()
}

// Converged reports whether every partition of every topic the live members
// subscribe to is owned by exactly one live member (and nothing is owned by a
// member that left), judged from the callback log.
func (g *G) Converged() (bool, string) {
	cbs, _, _ := g.Snapshot()
	owners := Owners(cbs, nil)
	live := map[string]bool{}
	for _, m := range g.Live() {
		live[m] = true
	}
	var bad []string
	for _, t := range g.Subscribed() {
		for _, pi := range g.C.PartitionInfos(t) {
			tp := TP{t, pi.Partition}
			var os []string
			// Members that left are not members: what their callbacks did
			// or did not revoke is the exclusive-ownership oracle's business
			// (dup-owner / revoke-missing-on-leave), not convergence's.
			for m := range owners[tp] {
				if live[m] {
					os = append(os, m)
				}
			}
			sort.Strings(os)
			if len(os) != 1 {
				bad = append(bad, fmt.Sprintf("%v owned by %v", tp, os))
			}
		}
	}
	sort.Strings(bad)
	return len(bad) == 0, strings.Join(bad, "; ")
}

// Outcome is a canonical summary of the callback log (START "+" and END "-"
// of every callback, in global order) that does not depend on
// which concrete partitions a member got (member ids are random in 848).
func Outcome(cbs []CB) string {
	var b strings.Builder
	for _, e := range cbs {
		if e.Kind == "gone" {
			continue
		}
		ph := '+'
		if e.End {
			ph = '-'
		}
		fmt.Fprintf(&b, "%s%c%c%d ", e.Member, ph, e.Kind[0], len(e.Parts))
	}
	return strings.TrimSpace(b.String())
}

// ---------------------------------------------------------------------------
// C08 oracles

// Returned reports how many records of member (any member if "") polls that
// returned have delivered so far.
func (g *G) Returned(member string) int {
	g.mu.Lock()
	defer g.mu.Unlock()
	n := 0
	for _, p := range g.polls {
		if p.Return != 0 && (member == "" || p.Member == member) {
			n += len(p.Recs)
		}
	}
	return n
}

// CheckCommits is oracle (i). For every partition of every OffsetCommit
// request, stamped s when it was delivered to the broker, committing offset o
// of tp on a connection of member m:
//
//	(a) every offset below o (the log starts at 0 and the group starts from
//	    the beginning) was returned by a poll of some member that returned
//	    before s;
//	(b) o <= 1 + the highest offset of tp that m itself returned in a poll
//	    after whose return m started another poll before s. This is what the
//	    client promises for default autocommit: updateUncommitted only moves
//	    `dirty`; `head` is `dirty` promoted at the start of the NEXT poll
//	    (undirtyUncommitted), and the autocommit loop, the default
//	    OnPartitionsRevoked and therefore LeaveGroup/Close all commit `head`.
//
// Soundness of the stamps: a poll start is stamped before the call (hence
// before the promotion, hence before a commit built from it reaches the
// proxy); a poll return is stamped after the call (the records became `dirty`
// before that, and can be promoted only by a later poll of the same thread).
//
// lag=false (configurations that are NOT "default autocommit and default
// revoke", e.g. an application that commits what it polled from its own
// OnPartitionsRevoked) judges only (a), and counts a record as returned once
// the poll that delivered it had STARTED before the delivery: such a commit is
// built from `dirty`, which is set inside the poll, before the harness can
// stamp the return.
func CheckCommits(polls []Poll, commits []Commit, lag bool, violate func(key, format string, a ...any)) {
	type retKey struct {
		tp  TP
		off int64
	}
	firstReturn := map[retKey]int64{} // earliest return stamp of a poll that delivered the record
	for _, p := range polls {
		if p.Return == 0 {
			continue
		}
		at := p.Return
		if !lag {
			at = p.Start
		}
		for _, r := range p.Recs {
			k := retKey{r.TP, r.Off}
			if s, ok := firstReturn[k]; !ok || at < s {
				firstReturn[k] = at
			}
		}
	}
	starts := map[string][]int64{}
	for _, p := range polls {
		starts[p.Member] = append(starts[p.Member], p.Start)
	}
	for _, c := range commits {
		for off := int64(0); off < c.Off; off++ {
			if s, ok := firstReturn[retKey{c.TP, off}]; !ok || s > c.Seq {
				violate("commit-skips-unreturned", "member %s committed offset %d of %v (request delivered at seq %d, generation %d) but record %d of that partition had not been returned by any poll by then (first return stamp: %v); %s",
					c.Member, c.Off, c.TP, c.Seq, c.Gen, off, s, FormatPolls(polls, c.TP, c.Seq))
				break
			}
		}
		if !lag {
			continue
		}
		promoted := int64(0)
		for _, p := range polls {
			if p.Member != c.Member || p.Return == 0 || p.Return > c.Seq {
				continue
			}
			followed := false
			for _, st := range starts[c.Member] {
				if st > p.Return && st < c.Seq {
					followed = true
					break
				}
			}
			if !followed {
				continue
			}
			for _, r := range p.Recs {
				if r.TP == c.TP && r.Off+1 > promoted {
					promoted = r.Off + 1
				}
			}
		}
		if c.Off > promoted {
			violate("commit-covers-last-poll", "member %s committed offset %d of %v (request delivered at seq %d, generation %d) but its polls that were followed by the start of another poll before that only reach offset %d: the commit covers records of a poll the application has not finished; %s",
				c.Member, c.Off, c.TP, c.Seq, c.Gen, promoted, FormatPolls(polls, c.TP, c.Seq))
		}
	}
}

// CheckFinal is oracle (ii): every record below the group's committed offset
// was returned by some poll.
func CheckFinal(polls []Poll, committed map[TP]int64, violate func(key, format string, a ...any)) {
	got := map[TP]map[int64]bool{}
	for _, p := range polls {
		if p.Return == 0 {
			continue
		}
		for _, r := range p.Recs {
			if got[r.TP] == nil {
				got[r.TP] = map[int64]bool{}
			}
			got[r.TP][r.Off] = true
		}
	}
	var tps []TP
	for tp := range committed {
		tps = append(tps, tp)
	}
	sort.Slice(tps, func(i, j int) bool { return tps[i].T < tps[j].T || tps[i].T == tps[j].T && tps[i].P < tps[j].P })
	for _, tp := range tps {
		for off := int64(0); off < committed[tp]; off++ {
			if !got[tp][off] {
				violate("final-commit-skips-record", "the group's committed offset of %v is %d but record %d was never returned to any member; %s", tp, committed[tp], off, FormatPolls(polls, tp, 1<<62))
				break
			}
		}
	}
}

// FormatPolls renders the polls that touched tp (and all poll starts) up to seq.
func FormatPolls(polls []Poll, tp TP, upto int64) string {
	var b strings.Builder
	b.WriteString("polls:")
	for _, p := range polls {
		if p.Start > upto {
			continue
		}
		var offs []int64
		for _, r := range p.Recs {
			if r.TP == tp {
				offs = append(offs, r.Off)
			}
		}
		ret := fmt.Sprint(p.Return)
		if p.Return == 0 || p.Return > upto {
			ret = "-"
			offs = nil
		}
		fmt.Fprintf(&b, " [%s start=%d return=%s %v]", p.Member, p.Start, ret, offs)
	}
	return b.String()
}

// ---------------------------------------------------------------------------
// helpers acting on the cluster from outside the explored clients

// Preload produces n records to every partition of topic with an
// uncontrolled client.
func (g *G) Preload(topic string, partitions int32, n int) {
	h := nscen.Helper(g.X, g.C, kgo.RecordPartitioner(kgo.ManualPartitioner()))
	defer h.Close()
	ctx, cancel := context.WithTimeout(context.Background(), time.Minute)
	defer cancel()
	for i := 0; i < n; i++ {
		var recs []*kgo.Record
		for p := int32(0); p < partitions; p++ {
			recs = append(recs, &kgo.Record{Topic: topic, Partition: p, Value: []byte(fmt.Sprintf("%d-%d", p, i))})
		}
		if err := h.ProduceSync(ctx, recs...).FirstErr(); err != nil {
			panic(fmt.Sprintf("gscen: preload: %v", err))
		}
	}
}

// AddPartitions grows topic to count partitions with a CreatePartitions
// request from an uncontrolled client.
func (g *G) AddPartitions(topic string, count int32) error {
	h := nscen.Helper(g.X, g.C)
	defer h.Close()
	ctx, cancel := context.WithTimeout(context.Background(), time.Minute)
	defer cancel()
	req := kmsg.NewPtrCreatePartitionsRequest()
	req.TimeoutMillis = 5000
	rt := kmsg.NewCreatePartitionsRequestTopic()
	rt.Topic = topic
	rt.Count = count
	req.Topics = append(req.Topics, rt)
	resp, err := req.RequestWith(ctx, h)
	if err != nil {
		return err
	}
	for _, t := range resp.Topics {
		if t.ErrorCode != 0 {
			return fmt.Errorf("CreatePartitions %s: error code %d", t.Topic, t.ErrorCode)
		}
	}
	return nil
}

// FetchCommitted returns the group's committed offsets (OffsetFetch by an
// uncontrolled admin client).
func (g *G) FetchCommitted() (map[TP]int64, error) {
	h := nscen.Helper(g.X, g.C)
	defer h.Close()
	ctx, cancel := context.WithTimeout(context.Background(), time.Minute)
	defer cancel()
	resp, err := kadm.NewClient(h).FetchOffsets(ctx, Group)
	if errors.Is(err, kerr.GroupIDNotFound) { // nothing was ever committed and nobody is left
		return map[TP]int64{}, nil
	}
	if err != nil {
		return nil, err
	}
	out := map[TP]int64{}
	var ferr error
	resp.Each(func(o kadm.OffsetResponse) {
		if o.Err != nil {
			if g.Deleted[o.Topic] { // a deleted topic's offsets are not judged
				return
			}
			ferr = fmt.Errorf("OffsetFetch %s/%d: %v", o.Topic, o.Partition, o.Err)
			return
		}
		if o.At >= 0 {
			out[TP{o.Topic, o.Partition}] = o.At
		}
	})
	return out, ferr
}

// WaitThreads blocks (virtual time) until every scripted thread returned.
func WaitThreads(x *netctl.Exec, limit time.Duration) bool {
	deadline := time.Now().Add(limit)
	for !x.ThreadsDone() {
		if time.Now().After(deadline) {
			return false
		}
		time.Sleep(100 * time.Millisecond)
	}
	return true
}
