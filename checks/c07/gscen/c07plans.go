package gscen

import (
	"strings"
	"time"

	"github.com/twmb/franz-go/pkg/kgo"

	"verif/lib/netctl"
	"verif/lib/nrun"
)

// Scenario family G (DESIGN.md §4 C07): group "g" over topic t (3 partitions),
// members A and B (and C) as separate controlled clients; every
// OnPartitionsAssigned/Revoked/Lost invocation is stamped at its START and at
// its END into one log. Only graceful behaviour: no faults; the alphabet is the
// order of frames across the members' connections, the order of application
// calls, and ticks (made harmless by 5-minute session/rebalance/request
// timeouts against ticks of at most one virtual minute).

type variant07 struct {
	name     string
	proto    Proto
	addTopic bool // B AddConsumeTopics("t2") once it owns something; B stays
	addParts bool // ENV grows t to 4 partitions once B owns something, members refresh metadata; B stays
	third    bool // member C joins once B owns something and stays
	early    bool // B's leave is enabled as soon as B's client exists (leave may land inside the join rebalance)
	useClose bool // B leaves with Close instead of LeaveGroup
	// A.AddConsumeTopics("t2") while A is INSIDE the OnPartitionsRevoked that
	// gives partitions up for B (the callback outlasts a heartbeat): the
	// subscription of the revoking member changes in the revoke window; B stays
	subInRevoke bool
	// KIP-848 with the server-side range assignor, ONE partition and static
	// instance ids ordered so that the joiner B sorts before the owner A: B's
	// join takes everything away from A in one reconciliation; B stays
	steal bool
}

const (
	gateLimit07 = 3 * time.Minute // virtual; a gate that never opens ends the thread's script
	pollWait07  = 430 * time.Millisecond
)

func scenario07(v variant07) *netctl.Scenario {
	return &netctl.Scenario{
		Name:    v.name,
		Faults:  nil,
		Horizon: 6 * time.Minute,
		Setup: func(x *netctl.Exec) {
			nparts := 3
			if v.steal {
				nparts = 1
			}
			topics := map[string]int32{"t": int32(nparts)}
			if v.addTopic || v.subInRevoke {
				topics["t2"] = 2
			}
			g := New(x, v.proto, topics)
			g.RevokeWork = 1300 * time.Millisecond // longer than a heartbeat interval
			x.Data = g
			stays := v.addTopic || v.addParts || v.subInRevoke || v.steal
			mopts := func(name string) []kgo.Opt {
				o := []kgo.Opt{kgo.DisableAutoCommit()}
				if v.steal {
					o = append(o, kgo.Balancers(kgo.RangeBalancer()), kgo.InstanceID(map[string]string{"A": "z-A", "B": "a-B", "C": "m-C"}[name]))
				}
				return o
			}
			owns := func(m string, n int) func() bool { return func() bool { return len(g.Owned(m)) >= n } }

			g.Thread("A", func(t *netctl.Thread) {
				g.Step(t, "join+poll")
				a := g.Join("A", true, []string{"t"}, mopts("A")...)
				g.PollOnce("A", a, 10, pollWait07)
				// "A polls again and sees the revocation": released once B is in the picture.
				if !g.WaitUntil(gateLimit07, func() bool { return g.Client("B") != nil }) {
					return
				}
				g.Step(t, "poll")
				g.PollOnce("A", a, 10, pollWait07)
				if stays {
					return
				}
				// After B has gone: poll until A owns everything again (bounded).
				if !g.WaitUntil(gateLimit07, func() bool { return !liveMember(g, "B") }) {
					return
				}
				for i := 0; i < 3 && len(g.Owned("A")) < 3; i++ {
					g.Step(t, "poll")
					g.PollOnce("A", a, 10, pollWait07)
				}
			})
			g.Thread("B", func(t *netctl.Thread) {
				// The default schedule is the interesting one: B arrives when A
				// owns the whole topic, so partitions have to move from A to B.
				if !g.WaitUntil(gateLimit07, owns("A", nparts)) {
					return
				}
				g.Step(t, "join+poll")
				g.Sleep(137 * time.Millisecond) // members' periodic timers must not tie (a tie's firing order is the Go runtime's)
				b := g.Join("B", true, []string{"t"}, mopts("B")...)
				g.PollOnce("B", b, 10, pollWait07)
				if !v.early && !g.WaitUntil(gateLimit07, owns("B", 1)) {
					return
				}
				switch {
				case v.addTopic:
					g.Step(t, "add-topic-t2")
					b.AddConsumeTopics("t2")
					g.Subscribe("B", "t2")
				case stays:
				case v.third:
					if !g.WaitUntil(gateLimit07, owns("C", 1)) {
						return
					}
					fallthrough
				default:
					if v.useClose {
						g.Step(t, "close")
						b.Close()
					} else {
						g.Step(t, "leave")
						b.LeaveGroup()
					}
					g.Gone("B")
				}
			})
			if v.third {
				g.Thread("C", func(t *netctl.Thread) {
					if !g.WaitUntil(gateLimit07, owns("B", 1)) {
						return
					}
					g.Step(t, "join+poll")
					g.Sleep(271 * time.Millisecond)
					c := g.Join("C", true, []string{"t"}, mopts("C")...)
					g.PollOnce("C", c, 10, pollWait07)
				})
			}
			if v.subInRevoke {
				g.Thread("S", func(t *netctl.Thread) {
					// Plain channel wait, then the step: in the DEFAULT schedule the
					// call lands while A's revoke callback is still running.
					if !g.WaitUntil(gateLimit07, func() bool { return g.Client("B") != nil && g.InRevoke("A") }) {
						return
					}
					g.Step(t, "A-add-topic-t2")
					g.Client("A").AddConsumeTopics("t2")
					g.Subscribe("A", "t2")
				})
			}
			if v.addParts {
				g.Thread("ENV", func(t *netctl.Thread) {
					if !g.WaitUntil(gateLimit07, owns("B", 1)) {
						return
					}
					g.Step(t, "add-partition")
					if err := g.AddPartitions("t", 4); err != nil {
						x.Violate("harness:create-partitions", "%v", err)
						return
					}
					// Default MetadataMaxAge is minutes; the application asks for
					// a refresh so that the liveness bound of Final is meaningful.
					g.Step(t, "refresh-A")
					g.Client("A").ForceMetadataRefresh()
					g.Step(t, "refresh-B")
					g.Client("B").ForceMetadataRefresh()
				})
			}
		},
		Final: func(x *netctl.Exec) {
			g := x.Data.(*G)
			WaitThreads(x, 8*time.Minute)
			// Membership and subscriptions are now fixed and the environment is
			// well behaved: the assignment must settle within 2 virtual minutes.
			deadline := time.Now().Add(2 * time.Minute)
			ok, why := g.Converged()
			for !ok && time.Now().Before(deadline) {
				time.Sleep(250 * time.Millisecond)
				ok, why = g.Converged()
			}
			if !ok {
				cbs, _, _ := g.Snapshot()
				x.Violate("not-converged", "live members %v, 2 virtual minutes after the last membership/subscription change: %s; callback log: %s", g.Live(), why, FormatCBs(cbs, 1<<62))
			}
			cbs, _, _ := g.Snapshot()
			n := 0
			Owners(cbs, func(key, format string, a ...any) {
				if n == 0 {
					x.Violate(key, format, a...)
				}
				n++
			})
			x.Observe("%s", Outcome(cbs))
		},
	}
}

func liveMember(g *G, m string) bool {
	for _, l := range g.Live() {
		if l == m {
			return true
		}
	}
	return false
}

// PlansC07 returns the exploration plans of check C07 (also reused by C41).
func PlansC07() []nrun.Plan { return append(append([]nrun.Plan{}, plansC07...), GenPlansC07()...) }

var plansC07 = []nrun.Plan{
	// The three protocols: k=1 quick, k=3 (time-capped) thorough.
	{Scenario: scenario07(variant07{name: "G-eager", proto: Eager}), QuickBudget: 1, ThoroughBudget: 3, Weight: 4},
	{Scenario: scenario07(variant07{name: "G-coop", proto: Coop, useClose: true}), QuickBudget: 1, ThoroughBudget: 3, Weight: 4},
	{Scenario: scenario07(variant07{name: "G-848", proto: Next}), QuickBudget: 1, ThoroughBudget: 3, Weight: 4},
	// Variants: k=1 quick; k=2 (k=3 for the early-leave ones) thorough, smaller share of the time budget.
	{Scenario: scenario07(variant07{name: "G-eager-early", proto: Eager, early: true, useClose: true}), QuickBudget: 1, ThoroughBudget: 3, Weight: 1},
	{Scenario: scenario07(variant07{name: "G-coop-early", proto: Coop, early: true}), QuickBudget: 1, ThoroughBudget: 3, Weight: 1},
	{Scenario: scenario07(variant07{name: "G-848-early", proto: Next, early: true, useClose: true}), QuickBudget: 1, ThoroughBudget: 3, Weight: 1},
	{Scenario: scenario07(variant07{name: "G-eager-topic", proto: Eager, addTopic: true}), QuickBudget: 1, ThoroughBudget: 2, Weight: 1},
	{Scenario: scenario07(variant07{name: "G-coop-topic", proto: Coop, addTopic: true}), QuickBudget: 1, ThoroughBudget: 2, Weight: 1},
	{Scenario: scenario07(variant07{name: "G-848-topic", proto: Next, addTopic: true}), QuickBudget: 1, ThoroughBudget: 2, Weight: 1},
	{Scenario: scenario07(variant07{name: "G-eager-parts", proto: Eager, addParts: true}), QuickBudget: 1, ThoroughBudget: 2, Weight: 1},
	{Scenario: scenario07(variant07{name: "G-coop-parts", proto: Coop, addParts: true}), QuickBudget: 1, ThoroughBudget: 2, Weight: 1},
	{Scenario: scenario07(variant07{name: "G-848-parts", proto: Next, addParts: true}), QuickBudget: 1, ThoroughBudget: 2, Weight: 1},
	// Subscription change of the revoking member inside its revoke callback.
	{Scenario: scenario07(variant07{name: "G-848-sub-in-revoke", proto: Next, subInRevoke: true}), QuickBudget: 1, ThoroughBudget: 3, Weight: 2},
	{Scenario: scenario07(variant07{name: "G-coop-sub-in-revoke", proto: Coop, subInRevoke: true}), QuickBudget: 1, ThoroughBudget: 2, Weight: 1},
	{Scenario: scenario07(variant07{name: "G-eager-sub-in-revoke", proto: Eager, subInRevoke: true}), QuickBudget: 1, ThoroughBudget: 2, Weight: 1},
	// A join that empties the current owner (848 range assignor, one partition).
	{Scenario: scenario07(variant07{name: "G-848-range-steal", proto: Next, steal: true}), QuickBudget: 1, ThoroughBudget: 3, Weight: 1},
	// Third member: default schedule only in the quick tier, k=2 thorough.
	{Scenario: scenario07(variant07{name: "G-eager-3", proto: Eager, third: true}), QuickBudget: 0, ThoroughBudget: 2, Weight: 2},
	{Scenario: scenario07(variant07{name: "G-coop-3", proto: Coop, third: true, useClose: true}), QuickBudget: 0, ThoroughBudget: 2, Weight: 2},
	{Scenario: scenario07(variant07{name: "G-848-3", proto: Next, third: true}), QuickBudget: 0, ThoroughBudget: 2, Weight: 2},
}

// CheckC07 is the nrun description of check C07.
func CheckC07() *nrun.Check {
	return &nrun.Check{
		ID: "C07", TestName: "TestC07", Plans: PlansC07(),
		QuickTime: 115 * time.Second, ThorTime: 18 * time.Minute,
		Rule: strings.Join([]string{
			"engine N, scenario family G: members A, B (C) of group g over topic t (3 partitions) as separate real kgo clients against kfake, one scenario per protocol (eager/range, cooperative-sticky, KIP-848)",
			"script: A joins and owns t; B joins; A polls; B leaves (LeaveGroup or Close); A polls until it owns t again; variants: B AddConsumeTopics(t2), A AddConsumeTopics(t2) while inside its revoke callback, a partition added to t, B leaving inside the join rebalance, a third member",
			"explored: every order of request/response frame deliveries across the members' connections, application calls and timer ticks within k deviations of the default order (no faults: graceful behaviour only)",
			"distinct = distinct callback sequences (member, START/END, callback kind, number of partitions) per scenario",
		}, "; "),
		Assume: []string{
			"kfake is the group coordinator",
			"synctests build of xsync",
			"ticks are harmless: session, rebalance and request timeouts are 5 virtual minutes, a tick lasts at most one",
			"a revoke/lost callback that names at least one partition takes 1.3 virtual s between its START and END stamps (the application finishing its work)",
			"members heartbeat with distinct periods (1.0/1.13/1.27 s) so that their timers do not tie for ever after a common rebalance",
			"goroutine micro-interleavings inside one event are the Go runtime's",
		},
	}
}
