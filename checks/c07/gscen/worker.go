package gscen

import (
	"os"
	"strconv"
	"testing"

	"verif.local/ev"

	"verif/lib/explore"
	"verif/lib/netctl"
	"verif/lib/nrun"
)

// replayTries bounds how often a worker re-runs a job whose recorded prefix
// diverged. kfake answers the JoinGroup/SyncGroup requests of all members of a
// classic group in Go map iteration order, so the arrival order of those
// responses at the proxy is not a function of the choice sequence; both orders
// are schedules the explorer covers anyway (each is a deviation of the
// other), but a recorded prefix replays only when the same order comes up
// again. nrun's own worker retries twice, which loses a third of the
// cooperative executions; a diverged run stops at the divergence point, so
// retrying is cheap.
const replayTries = 60

// ServeWorker is the worker half of nrun.Main with a higher retry bound; it
// reports false in the parent process (which then calls nrun.Main).
func ServeWorker(t *testing.T, plans []nrun.Plan) bool {
	if !explore.IsWorker() {
		return false
	}
	by := map[string]*netctl.Scenario{}
	for _, p := range plans {
		by[p.Scenario.Name] = p.Scenario
	}
	explore.ServeWorker(func(job explore.Job) explore.Result {
		sc := by[job.Scenario]
		if sc == nil {
			return explore.Result{Crash: "unknown scenario " + job.Scenario}
		}
		res := netctl.Run(t, sc, job)
		for try := 0; res.Diverged && try < replayTries; try++ {
			res = netctl.Run(t, sc, job)
		}
		return res
	})
	return true
}

// CapQuickWorkers lowers the number of worker processes of the quick tier to
// at most n. A quick-tier plan of this family is 25-330 executions of ~10 ms;
// every worker is a fresh process of the test binary started per plan, and on
// a busy machine starting 16 of them per plan costs more wall time than the
// executions themselves (measured: 63 executions in 0.8 s with 4 workers,
// 12 s with 16 under load). The thorough tier keeps the configured count.
func CapQuickWorkers(n int) {
	if !ev.Thorough() && ev.Workers() > n {
		os.Setenv("VERIF_WORKERS", strconv.Itoa(n))
	}
}
