package gscen

import (
	"context"
	"fmt"
	"sort"
	"strings"
	"time"

	"github.com/twmb/franz-go/pkg/kfake"
	"github.com/twmb/franz-go/pkg/kgo"
	"github.com/twmb/franz-go/pkg/kmsg"

	"verif.local/ev"
	"verif/lib/explore"
	"verif/lib/netctl"
	"verif/lib/nrun"
	"verif/lib/nscen"
)

// Generated family GG (C07) / GRG (C08): ONE scenario whose Setup lets the
// explorer choose, at cost 0 (every combination runs at every deviation level),
//
//	cfg      a member configuration (protocol x static membership x
//	         BlockRebalanceOnPoll x autocommit x slow/fast revoke callback x
//	         what the revoke callback calls back into the client x short
//	         timeouts),
//	env      an environment action (CreatePartitions on t, coordinator move,
//	         delete topic t2) and where it lands (after A's join, after B's
//	         join, after B's script),
//	a, b     the scripts of members A and B after their join: every sequence
//	         up to a length over the alphabet below,
//	gate     when B starts: together with A, or after A's i-th call,
//	c        (thorough) a third member joining after B.
//
// Threads are declared ENV, C, B, A, so a gated thread's calls come as soon as
// its gate opens: the overlap is in the default schedule.
//
// Script alphabet (one letter = one gated application call):
//
//	p  PollRecords (430 ms timeout)        t  AddConsumeTopics("t2")
//	z  PauseFetchPartitions(t/0)           f  ForceRebalance
//	a  AllowRebalance (BlockRebalanceOnPoll configurations only)
//	h  think 1.5 s (longer than a heartbeat)
//	r  think longer than the rebalance timeout, s longer than the session
//	   timeout (short-timeout configurations only: 4 s / 7 s)
//	L  LeaveGroup   X  Close   J  join again with a fresh client (after L or X)
//
// What a well-behaved application does under BlockRebalanceOnPoll is part of
// the script semantics, per the option's documentation ("You must always
// AllowRebalances when you are done processing"): L is AllowRebalance +
// LeaveGroup, X is CloseAllowingRebalance, and a script that ends with the
// member alive ends with AllowRebalance.
//
// Reference model (what the scripts asked for), used by the oracles:
//   - live members: joined (or re-joined) and not left/closed since;
//   - subscriptions: t, plus t2 after AddConsumeTopics (from the script or from
//     the revoke callback); a re-joined client starts from t again;
//   - static members (InstanceID) do not leave the group on LeaveGroup/Close
//     (documented), so once one departed without re-joining, convergence is
//     not judged; exclusive ownership always is;
//   - a deleted topic has no partitions to own; its offsets are not judged;
//   - pause, ForceRebalance, AllowRebalance and think change nothing the
//     property speaks about.

type gcfg struct {
	name   string
	proto  Proto
	static bool
	block  bool
	slow   bool // revoke/lost callbacks that name a partition take 1.3 s
	auto   bool // default autocommit (2.3 s) instead of DisableAutoCommit
	short  bool // session 7 s, rebalance 4 s (thinks r and s exist)
	// steal: KIP-848 with the server-side RANGE assignor (the uniform one is
	// sticky and never empties a member on a join), topic t with ONE partition
	// (fewer partitions than members) and static instance ids ordered so that
	// the joiner sorts before the owner: a join takes EVERYTHING away from the
	// current owner in one reconciliation (its new assignment is empty).
	steal bool
	cb    string // log | commit | addtopic | default (no callbacks: default revoke)
}

var gcfgs07 = []gcfg{
	{name: "eager-slow", proto: Eager, slow: true, cb: "log"},
	{name: "coop-slow", proto: Coop, slow: true, cb: "log"},
	{name: "848-slow", proto: Next, slow: true, cb: "log"},
	{name: "848-range-steal-slow", proto: Next, static: true, steal: true, slow: true, cb: "log"},
	{name: "848-range-steal-addtopic", proto: Next, static: true, steal: true, slow: true, cb: "addtopic"},
	{name: "848-addtopic", proto: Next, slow: true, cb: "addtopic"},
	{name: "coop-addtopic", proto: Coop, slow: true, cb: "addtopic"},
	{name: "eager-commit", proto: Eager, slow: true, cb: "commit"},
	{name: "848-commit", proto: Next, slow: true, cb: "commit"},
	{name: "eager-block", proto: Eager, block: true, cb: "log"},
	{name: "coop-block-slow", proto: Coop, block: true, slow: true, cb: "log"},
	{name: "848-block-slow", proto: Next, block: true, slow: true, cb: "log"},
	{name: "eager-static-slow", proto: Eager, static: true, slow: true, cb: "log"},
	{name: "coop-static", proto: Coop, static: true, cb: "log"},
	{name: "848-static-slow", proto: Next, static: true, slow: true, cb: "log"},
	{name: "coop-auto", proto: Coop, auto: true, cb: "log"},
	{name: "eager-short", proto: Eager, short: true, cb: "log"},
	{name: "848-short", proto: Next, short: true, cb: "log"},
}

var gcfgs08 = []gcfg{
	{name: "eager-def", proto: Eager, auto: true, cb: "default"},
	{name: "coop-def", proto: Coop, auto: true, cb: "default"},
	{name: "848-def", proto: Next, auto: true, cb: "default"},
	{name: "eager-def-block", proto: Eager, auto: true, block: true, cb: "default"},
	{name: "coop-def-block", proto: Coop, auto: true, block: true, cb: "default"},
	{name: "848-def-block", proto: Next, auto: true, block: true, cb: "default"},
	{name: "eager-def-static", proto: Eager, auto: true, static: true, cb: "default"},
	{name: "848-def-static", proto: Next, auto: true, static: true, cb: "default"},
	{name: "coop-commit", proto: Coop, slow: true, cb: "commit"},
	{name: "848-commit", proto: Next, slow: true, cb: "commit"},
	{name: "eager-commit", proto: Eager, cb: "commit"},
	{name: "coop-def-short", proto: Coop, auto: true, short: true, cb: "default"},
	{name: "848-def-short", proto: Next, auto: true, short: true, cb: "default"},
}

const (
	genPoll       = 430 * time.Millisecond
	genAutoCommit = 2300 * time.Millisecond
	thinkH        = 1500 * time.Millisecond
	shortReb      = 4 * time.Second
	shortSess     = 7 * time.Second
)

// genScripts enumerates every script of at most maxLen calls over alpha that
// respects liveness: L and X end membership, only J may follow them.
func genScripts(alpha string, maxLen int) []string {
	out := []string{""}
	var rec func(prefix string, live bool)
	rec = func(prefix string, live bool) {
		if len(prefix) == maxLen {
			return
		}
		for _, op := range alpha {
			if live == (op == 'J') {
				continue
			}
			s := prefix + string(op)
			out = append(out, s)
			rec(s, op != 'L' && op != 'X')
		}
	}
	rec("", true)
	return out
}

func scriptNames(ss []string) []string {
	out := make([]string, len(ss))
	for i, s := range ss {
		out[i] = s
		if s == "" {
			out[i] = "-"
		}
	}
	return out
}

func (c gcfg) alphabet(thor bool) string {
	a := "ptf"
	if thor {
		a = "ptzf"
	}
	if c.block {
		a += "a"
	}
	a += "h"
	if c.short {
		a += "rs"
	}
	return a + "LXJ"
}

// gmember is one scripted member (its client changes on J).
type gmember struct {
	base   string // A | B | C
	name   string // client name: A, then A2 after a re-join
	cl     *kgo.Client
	live   bool
	joined int
}

type genState struct {
	g         *G
	cfg       gcfg
	c08       bool
	members   map[string]*gmember
	addedOnce map[string]bool
}

func (st *genState) opts() []kgo.Opt {
	var o []kgo.Opt
	if st.cfg.auto {
		o = append(o, kgo.AutoCommitInterval(genAutoCommit))
	} else {
		o = append(o, kgo.DisableAutoCommit())
	}
	if st.cfg.block {
		o = append(o, kgo.BlockRebalanceOnPoll())
	}
	if st.cfg.steal {
		o = append(o, kgo.Balancers(kgo.RangeBalancer())) // 848: selects the server-side range assignor
	}
	if st.cfg.short {
		o = append(o, kgo.SessionTimeout(shortSess), kgo.RebalanceTimeout(shortReb))
	}
	return o
}

func (st *genState) join(m *gmember, offset time.Duration) {
	g := st.g
	m.joined++
	m.name = m.base
	if m.joined > 1 {
		m.name = fmt.Sprintf("%s%d", m.base, m.joined)
	}
	if offset > 0 {
		g.Sleep(offset)
	}
	o := st.opts()
	if st.cfg.static {
		id := "i" + m.base
		if st.cfg.steal { // later joiners sort earlier: B < C < A
			id = map[string]string{"A": "z-A", "B": "a-B", "C": "m-C"}[m.base]
		}
		o = append(o, kgo.InstanceID(id))
	}
	cl := g.Join(m.name, st.cfg.cb != "default", []string{"t"}, o...)
	g.mu.Lock()
	m.cl, m.live = cl, true
	g.mu.Unlock()
	max := 10
	if st.c08 {
		max = 2
	}
	g.PollOnce(m.name, m.cl, max, genPoll)
}

func (st *genState) run(t *netctl.Thread, m *gmember, script string) {
	g := st.g
	for _, op := range script {
		st.op(t, m, op)
	}
	if st.cfg.block && m.live {
		g.Step(t, "allow-rebalance(end)")
		m.cl.AllowRebalance()
	}
}

func (st *genState) op(t *netctl.Thread, m *gmember, op rune) {
	g := st.g
	switch op {
	case 'p':
		g.Step(t, "poll")
		max := 10
		if st.c08 {
			max = 2
		}
		g.PollOnce(m.name, m.cl, max, genPoll)
	case 't':
		g.Step(t, "add-topic-t2")
		m.cl.AddConsumeTopics("t2")
		g.Subscribe(m.name, "t2")
	case 'z':
		g.Step(t, "pause-t0")
		m.cl.PauseFetchPartitions(map[string][]int32{"t": {0}})
	case 'f':
		g.Step(t, "force-rebalance")
		m.cl.ForceRebalance()
	case 'a':
		g.Step(t, "allow-rebalance")
		m.cl.AllowRebalance()
	case 'h':
		g.Step(t, "think-1.5s")
		g.Sleep(thinkH)
	case 'r':
		g.Step(t, "think>rebalance-timeout")
		g.Sleep(shortReb + time.Second)
	case 's':
		g.Step(t, "think>session-timeout")
		g.Sleep(shortSess + time.Second)
	case 'L':
		g.Step(t, "leave")
		if st.cfg.block {
			m.cl.AllowRebalance()
		}
		m.cl.LeaveGroup()
		st.departed(m)
	case 'X':
		g.Step(t, "close")
		if st.cfg.block {
			m.cl.CloseAllowingRebalance()
		} else {
			m.cl.Close()
		}
		st.departed(m)
	case 'J':
		g.Step(t, "rejoin+poll")
		st.join(m, 0)
	}
}

func (st *genState) departed(m *gmember) {
	st.g.mu.Lock()
	m.live = false
	st.g.mu.Unlock()
	st.g.Gone(m.name)
}

// staticDeparted: a static member that left or closed without re-joining is
// still a member for the broker (documented), so convergence is not judged.
func (st *genState) staticDeparted() bool {
	if !st.cfg.static {
		return false
	}
	st.g.mu.Lock()
	defer st.g.mu.Unlock()
	for _, m := range st.members {
		if m.joined > 0 && !m.live {
			return true
		}
	}
	return false
}

func waitCh(g *G, ch <-chan struct{}) {
	select {
	case <-ch:
	case <-g.quit:
	}
	g.checkAlive()
}

// DeleteTopic deletes a topic with an uncontrolled client.
func (g *G) DeleteTopic(topic string) error {
	h := nscen.Helper(g.X, g.C)
	defer h.Close()
	ctx, cancel := context.WithTimeout(context.Background(), time.Minute)
	defer cancel()
	req := kmsg.NewPtrDeleteTopicsRequest()
	req.TimeoutMillis = 5000
	req.TopicNames = []string{topic}
	rt := kmsg.NewDeleteTopicsRequestTopic()
	rt.Topic = kmsg.StringPtr(topic)
	req.Topics = append(req.Topics, rt)
	resp, err := req.RequestWith(ctx, h)
	if err != nil {
		return err
	}
	for _, t := range resp.Topics {
		if t.ErrorCode != 0 {
			return fmt.Errorf("DeleteTopics %s: error code %d", topic, t.ErrorCode)
		}
	}
	g.mu.Lock()
	if g.Deleted == nil {
		g.Deleted = map[string]bool{}
	}
	g.Deleted[topic] = true
	g.mu.Unlock()
	return nil
}

// MoveCoordinator rehashes kfake's coordinators until the group's moves.
func (g *G) MoveCoordinator() bool {
	old := g.C.CoordinatorFor(Group)
	for i := 0; i < 32; i++ {
		g.C.RehashCoordinators()
		if g.C.CoordinatorFor(Group) != old {
			return true
		}
	}
	return false
}

func genScenario(name string, c08, dev bool) *netctl.Scenario {
	cfgs := gcfgs07
	if c08 {
		cfgs = gcfgs08
	}
	return &netctl.Scenario{
		Name:    name,
		Faults:  nil,
		Horizon: 6 * time.Minute,
		Setup: func(x *netctl.Exec) {
			// size: "quick" and "thor" are the family proper (default schedule);
			// "dev" is the small sub-family the thorough tier explores with one
			// deviation; "one" is what the dev plan runs in the quick tier (a
			// single execution: the quick tier already has the whole family).
			size := "quick"
			if ev.Thorough() {
				size = "thor"
			}
			if dev {
				size = "one"
				if ev.Thorough() {
					size = "dev"
				}
			}
			thor := size == "thor"
			var cfgNames []string
			for _, c := range cfgs {
				cfgNames = append(cfgNames, c.name)
			}
			if size == "one" {
				cfgNames = cfgNames[:1]
			}
			cfg := cfgs[x.ChooseOf("cfg", cfgNames)]
			envNames, envLetters := []string{"-", "add-partition", "move-coordinator", "delete-t2"}, "-PMD"
			if dev {
				envNames, envLetters = envNames[:1], "-"
			}
			if c08 && size != "one" {
				// Record volume: a later wave of records lands while the members
				// are between polls (C08 only: irrelevant to ownership).
				envNames, envLetters = append(envNames, "produce-wave"), envLetters+"W"
			}
			env := envLetters[x.ChooseOf("env", envNames)]
			// Sizes per configuration.
			// quick: A every script of <= 2 calls (no pause), B one of {-, p, t,
			//   L, X}, B's gate one of {with A, after A's join, after A's last
			//   call}; with an environment action A has <= 1 call, B is one of
			//   {-, t, X} and the action lands after B's join or after B's script.
			// thor: pause too; A <= 2 calls x B every script of <= 1 call x every
			//   gate; A's 3-call scripts with a silent B; a third member when A has
			//   <= 1 call and B is silent; environment actions at 3 landing points
			//   with A <= 1 call and B one of {-, p, t, L, X}.
			// dev: A <= 1 call, B one of {-, t, X}, B after A's join, no
			//   environment action.
			envGate := 1
			if env != '-' {
				if thor {
					envGate = x.ChooseOf("envgate", []string{"A-joined", "B-joined", "B-done"})
				} else {
					envGate = 1 + x.ChooseOf("envgate", []string{"B-joined", "B-done"})
				}
			}
			la := 2
			switch {
			case size == "one":
				la = 0
			case dev || env != '-':
				la = 1
			case thor:
				la = 3
			}
			alpha := cfg.alphabet(thor)
			as := genScripts(alpha, la)
			a := as[x.ChooseOf("a", scriptNames(as))]
			var bs []string
			switch {
			case size == "one" || len(a) == 3:
				bs = []string{""}
			case thor && env == '-':
				bs = genScripts(alpha, 1)
			case dev || (env != '-' && !thor):
				bs = []string{"", "t", "X"}
			default:
				bs = []string{"", "p", "t", "L", "X"}
			}
			b := bs[x.ChooseOf("b", scriptNames(bs))]
			gates := []int{-1} // -1: together with A; i: after A's i-th call (0 = its join)
			for i := 0; i <= len(a); i++ {
				if (thor && env == '-' && len(a) < 3) || i == 0 || i == len(a) {
					gates = append(gates, i)
				}
			}
			if dev {
				gates = []int{0}
			} else if env != '-' && !thor {
				gates = gates[1:]
			}
			gateNames := make([]string, len(gates))
			for i, gt := range gates {
				gateNames[i] = fmt.Sprintf("after-A%d", gt)
				if gt < 0 {
					gateNames[i] = "with-A"
				}
			}
			gate := gates[x.ChooseOf("gate", gateNames)]
			third := ""
			if thor && env == '-' && b == "" && len(a) <= 1 {
				third = []string{"", "stay", "X"}[x.ChooseOf("c", []string{"-", "join", "join-close"})]
			}

			var extra []kfake.Opt
			if cfg.short {
				extra = append(extra, kfake.BrokerConfigs(map[string]string{"group.consumer.session.timeout.ms": fmt.Sprint(shortSess.Milliseconds())}))
			}
			nt := int32(3)
			if cfg.steal {
				nt = 1
			}
			g := NewN(x, cfg.proto, map[string]int32{"t": nt, "t2": 2}, 2, extra...)
			x.Data = g
			st := &genState{g: g, cfg: cfg, c08: c08, members: map[string]*gmember{}, addedOnce: map[string]bool{}}
			g.Gen = st
			if cfg.slow {
				g.RevokeWork = 1300 * time.Millisecond
			}
			g.Preload("t", nt, 4)
			g.Preload("t2", 2, 2)
			g.HookCommits()
			switch cfg.cb {
			case "commit":
				g.InCallback = func(member, kind string, cl *kgo.Client, parts []TP) {
					if kind != "revoked" {
						return
					}
					ctx, cancel := context.WithTimeout(context.Background(), 30*time.Second)
					cl.CommitUncommittedOffsets(ctx)
					cancel()
				}
			case "addtopic":
				g.InCallback = func(member, kind string, cl *kgo.Client, parts []TP) {
					if kind != "revoked" || len(parts) == 0 {
						return
					}
					g.mu.Lock()
					first := !st.addedOnce[member]
					st.addedOnce[member] = true
					g.mu.Unlock()
					if first {
						cl.AddConsumeTopics("t2")
						g.Subscribe(member, "t2")
					}
				}
			}
			mA, mB, mC := &gmember{base: "A"}, &gmember{base: "B"}, &gmember{base: "C"}
			st.members["A"], st.members["B"] = mA, mB
			aDone := make([]chan struct{}, len(a)+1)
			for i := range aDone {
				aDone[i] = make(chan struct{})
			}
			bJoined, bDone := make(chan struct{}), make(chan struct{})

			if env != '-' {
				g.Thread("ENV", func(t *netctl.Thread) {
					waitCh(g, []chan struct{}{aDone[0], bJoined, bDone}[envGate])
					switch env {
					case 'P':
						g.Step(t, "add-partition")
						if err := g.AddPartitions("t", 4); err != nil {
							x.Violate("harness:create-partitions", "%v", err)
							return
						}
						for p := nt; p < 4; p++ {
							g.C.MoveTopicPartition("t", p, 0)
						}
						// MetadataMaxAge is minutes: the application asks for a
						// refresh so that the liveness bound of Final is meaningful.
						g.mu.Lock()
						var cls []*kgo.Client
						for _, m := range []*gmember{mA, mB, mC} {
							if m.live && m.cl != nil {
								cls = append(cls, m.cl)
							}
						}
						g.mu.Unlock()
						for _, cl := range cls {
							cl.ForceMetadataRefresh()
						}
					case 'M':
						g.Step(t, "move-coordinator")
						if !g.MoveCoordinator() {
							x.Violate("harness:move-coordinator", "the coordinator of %s did not move", Group)
						}
					case 'D':
						g.Step(t, "delete-t2")
						if err := g.DeleteTopic("t2"); err != nil {
							x.Violate("harness:delete-topic", "%v", err)
						}
					case 'W':
						// More records arrive while the members are between
						// polls: what a client prefetched before is now only
						// part of the log.
						g.Step(t, "produce-wave")
						g.Preload("t", nt, 2)
					}
				})
			}
			if third != "" {
				st.members["C"] = mC
				g.Thread("C", func(t *netctl.Thread) {
					waitCh(g, bJoined)
					g.Step(t, "join+poll")
					st.join(mC, 271*time.Millisecond)
					if third == "X" {
						st.run(t, mC, "X")
					} else {
						st.run(t, mC, "")
					}
				})
			}
			g.Thread("B", func(t *netctl.Thread) {
				defer close(bDone)
				if gate >= 0 {
					waitCh(g, aDone[gate])
				}
				g.Step(t, "join+poll")
				st.join(mB, 137*time.Millisecond)
				close(bJoined)
				st.run(t, mB, b)
			})
			g.Thread("A", func(t *netctl.Thread) {
				g.Step(t, "join+poll")
				st.join(mA, 0)
				close(aDone[0])
				for i, op := range a {
					st.op(t, mA, op)
					close(aDone[i+1])
				}
				st.run(t, mA, "")
			})
		},
		Final: func(x *netctl.Exec) {
			g := x.Data.(*G)
			st := g.Gen
			WaitThreads(x, 8*time.Minute)
			n := map[string]int{}
			once := func(key, format string, a ...any) {
				if n[key] == 0 {
					x.Violate(key, format, a...)
				}
				n[key]++
			}
			if !st.c08 {
				// Let what the scripts started play out before judging: a join's
				// reconciliation takes a few heartbeats plus the slow revoke, and
				// "converged" read off the callback log is trivially true while
				// the old owner has not even been told yet.
				time.Sleep(6 * time.Second)
				if !st.staticDeparted() {
					deadline := time.Now().Add(2 * time.Minute)
					ok, why := g.Converged()
					for !ok && time.Now().Before(deadline) {
						time.Sleep(250 * time.Millisecond)
						ok, why = g.Converged()
					}
					if !ok {
						cbs, _, _ := g.Snapshot()
						x.Violate("not-converged", "live members %v, 2 virtual minutes after the last membership/subscription change: %s; callback log: %s", g.Live(), why, FormatCBs(cbs, 1<<62))
					}
				}
				cbs, _, _ := g.Snapshot()
				Owners(cbs, once)
				x.Observe("%s", Outcome(cbs))
				return
			}
			// The application keeps consuming: every live member polls on until
			// two polls in a row bring nothing (bounded). Whatever the scripts
			// and the rebalances left behind is then polled, promoted and
			// committed, so a commit that jumps over records nobody received
			// (e.g. a discarded prefetch that moved a kept partition's cursor)
			// becomes visible to oracles (i) and (ii) in every execution.
			for _, m := range g.Live() {
				cl := g.Client(m)
				for i, empty := 0, 0; i < 16 && empty < 2; i++ {
					p := g.PollOnce(m, cl, 2, genPoll)
					if st.cfg.block {
						cl.AllowRebalance()
					}
					if len(p.Recs) == 0 {
						empty++
					} else {
						empty = 0
					}
				}
			}
			if st.cfg.auto {
				time.Sleep(2*genAutoCommit + 100*time.Millisecond)
			}
			for _, m := range g.Live() {
				if st.cfg.block {
					g.Client(m).CloseAllowingRebalance()
				} else {
					g.Client(m).Close()
				}
				g.Gone(m)
			}
			_, polls, commits := g.Snapshot()
			CheckCommits(polls, commits, st.cfg.cb == "default" && st.cfg.auto, once)
			final, err := g.FetchCommitted()
			if err != nil {
				x.Violate("harness:offset-fetch", "%v", err)
				return
			}
			CheckFinal(polls, final, once)
			var offs []int
			for _, o := range final {
				offs = append(offs, int(o))
			}
			sort.Ints(offs)
			seen := map[Rec]int{}
			total := 0
			for _, p := range polls {
				for _, r := range p.Recs {
					seen[r]++
					total++
				}
			}
			x.Observe("final=%v returned=%d redelivered=%d commitreqs=%s", offs, total, total-len(seen), bucket(len(commits)))
			x.Count("commit_partitions_checked", len(commits))
		},
	}
}

// genAllow keeps tick deviations out of the short-timeout configurations: a
// request parked in the proxy across a tick there could expire a 7 s session,
// which is not graceful behaviour.
func genAllow(parent explore.Job, point int, label string, cost int) bool {
	if label == "tick" && len(parent.Labels) > 0 && strings.Contains(parent.Labels[0], "short") {
		return false
	}
	return true
}

// GenPlansC07 / GenPlansC08 are the generated families. GG / GRG: every
// (configuration, environment, scripts, gate) on the default schedule (quick
// sizes in the quick tier, the longer scripts and the third member in the
// thorough tier). GG1 / GRG1: thorough tier only (one execution in the quick
// tier), every single deviation over the small sub-family, time-capped.
func GenPlansC07() []nrun.Plan {
	return []nrun.Plan{
		// GG1 first: its unused share (all of it in the quick tier) rolls over to GG.
		{Scenario: genScenario("GG1", false, true), QuickBudget: 0, ThoroughBudget: 1, Weight: 5, Allow: genAllow},
		{Scenario: genScenario("GG", false, false), QuickBudget: 0, ThoroughBudget: 0, Weight: 10},
	}
}

func GenPlansC08() []nrun.Plan {
	return []nrun.Plan{
		{Scenario: genScenario("GRG1", true, true), QuickBudget: 0, ThoroughBudget: 1, Weight: 5, Allow: genAllow},
		{Scenario: genScenario("GRG", true, false), QuickBudget: 0, ThoroughBudget: 0, Weight: 10},
	}
}
