package gscen

import (
	"fmt"
	"sort"
	"strings"
	"time"

	"github.com/twmb/franz-go/pkg/kgo"

	"verif/lib/netctl"
	"verif/lib/nrun"
)

// Scenario family G with records flowing (DESIGN.md §4 C08): topic t, 3
// partitions, 6 records each, pre-loaded; members A and B of group g with
// DEFAULT autocommit (interval 2.3 s) and the default OnPartitionsRevoked;
// members poll with PollRecords(ctx, 2); B closes and a new client B2 of the
// same group joins (restart). Poll starts/returns and every OffsetCommit
// request (at delivery to the broker) are stamped into one sequence.

type variant08 struct {
	name  string
	proto Proto
	third bool // a third member C joins after B and stays
}

const (
	gateLimit08 = 3 * time.Minute
	firstPoll   = 10 * time.Second // a member's first poll waits for assignment + first fetch
	nextPoll    = 1700 * time.Millisecond
	autoCommit  = 2300 * time.Millisecond // no multiple of the 1 s heartbeat within a run: timers must not tie
	process     = 600 * time.Millisecond  // the application "processes" a poll's records before its next call
)

func scenario08(v variant08) *netctl.Scenario {
	return &netctl.Scenario{
		Name:    v.name,
		Faults:  nil,
		Horizon: 5 * time.Minute,
		Setup: func(x *netctl.Exec) {
			g := New(x, v.proto, map[string]int32{"t": 3})
			x.Data = g
			g.Preload("t", 3, 6)
			g.HookCommits()
			opts := []kgo.Opt{kgo.AutoCommitInterval(autoCommit)}

			g.Thread("A", func(t *netctl.Thread) {
				g.Step(t, "join+poll")
				a := g.Join("A", false, []string{"t"}, opts...)
				g.PollOnce("A", a, 2, firstPoll)
				g.Sleep(process)
				for i := 0; i < 3; i++ {
					g.Step(t, "poll")
					g.PollOnce("A", a, 2, nextPoll)
					g.Sleep(process)
				}
				// Two more polls once the restarted member is there.
				if !g.WaitUntil(gateLimit08, func() bool { return g.Client("B2") != nil }) {
					return
				}
				for i := 0; i < 2; i++ {
					g.Step(t, "poll")
					g.PollOnce("A", a, 2, nextPoll)
					g.Sleep(process)
				}
			})
			g.Thread("B", func(t *netctl.Thread) {
				// B arrives when A is consuming (the rebalance lands between A's polls).
				if !g.WaitUntil(gateLimit08, func() bool { return g.Returned("A") >= 4 }) {
					return
				}
				g.Step(t, "join+poll")
				g.Sleep(137 * time.Millisecond) // members' periodic timers must not tie
				b := g.Join("B", false, []string{"t"}, opts...)
				g.PollOnce("B", b, 2, firstPoll)
				g.Sleep(process)
				for i := 0; i < 2; i++ {
					g.Step(t, "poll")
					g.PollOnce("B", b, 2, nextPoll)
					g.Sleep(process)
				}
				g.Step(t, "close")
				b.Close()
				g.Gone("B")
				g.Step(t, "restart+poll")
				g.Sleep(59 * time.Millisecond)
				b2 := g.Join("B2", false, []string{"t"}, opts...)
				g.PollOnce("B2", b2, 2, firstPoll)
				g.Sleep(process)
				for i := 0; i < 2; i++ {
					g.Step(t, "poll")
					g.PollOnce("B2", b2, 2, nextPoll)
					g.Sleep(process)
				}
			})
			if v.third {
				g.Thread("C", func(t *netctl.Thread) {
					if !g.WaitUntil(gateLimit08, func() bool { return g.Returned("B") >= 2 }) {
						return
					}
					g.Step(t, "join+poll")
					g.Sleep(271 * time.Millisecond)
					c := g.Join("C", false, []string{"t"}, opts...)
					g.PollOnce("C", c, 2, firstPoll)
					g.Sleep(process)
					for i := 0; i < 2; i++ {
						g.Step(t, "poll")
						g.PollOnce("C", c, 2, nextPoll)
						g.Sleep(process)
					}
				})
			}
		},
		Final: func(x *netctl.Exec) {
			g := x.Data.(*G)
			WaitThreads(x, 8*time.Minute)
			// Let the autocommit loops run twice more, then close every member
			// (Close commits through the default revoke) and read the group's
			// offsets back.
			time.Sleep(2*autoCommit + 100*time.Millisecond)
			for _, m := range g.Live() {
				g.Client(m).Close()
				g.Gone(m)
			}
			_, polls, commits := g.Snapshot()
			n := map[string]int{}
			once := func(key, format string, a ...any) {
				if n[key] == 0 {
					x.Violate(key, format, a...)
				}
				n[key]++
			}
			CheckCommits(polls, commits, true, once)
			final, err := g.FetchCommitted()
			if err != nil {
				x.Violate("harness:offset-fetch", "%v", err)
				return
			}
			CheckFinal(polls, final, once)

			// Canonical outcome: final offsets (sorted: which partition a member
			// gets is not canonical in 848), records returned, re-deliveries.
			var offs []int
			for _, o := range final {
				offs = append(offs, int(o))
			}
			sort.Ints(offs)
			seen := map[Rec]int{}
			total := 0
			for _, p := range polls {
				for _, r := range p.Recs {
					seen[r]++
					total++
				}
			}
			x.Observe("final=%v returned=%d redelivered=%d commitreqs=%s", offs, total, total-len(seen), bucket(len(commits)))
			x.Count("commit_partitions_checked", len(commits))
		},
	}
}

func bucket(n int) string {
	switch {
	case n == 0:
		return "0"
	case n < 5:
		return "1-4"
	case n < 10:
		return "5-9"
	}
	return fmt.Sprintf("%d+", n/10*10)
}

// PlansC08 returns the exploration plans of check C08 (also reused by C41).
func PlansC08() []nrun.Plan { return append(append([]nrun.Plan{}, plansC08...), GenPlansC08()...) }

var plansC08 = []nrun.Plan{
	{Scenario: scenario08(variant08{name: "GR-eager", proto: Eager}), QuickBudget: 1, ThoroughBudget: 2, Weight: 6},
	{Scenario: scenario08(variant08{name: "GR-coop", proto: Coop}), QuickBudget: 1, ThoroughBudget: 2, Weight: 6},
	{Scenario: scenario08(variant08{name: "GR-848", proto: Next}), QuickBudget: 1, ThoroughBudget: 2, Weight: 6},
	{Scenario: scenario08(variant08{name: "GR-eager-3", proto: Eager, third: true}), QuickBudget: 1, ThoroughBudget: 2, Weight: 2},
	{Scenario: scenario08(variant08{name: "GR-coop-3", proto: Coop, third: true}), QuickBudget: 1, ThoroughBudget: 2, Weight: 2},
	{Scenario: scenario08(variant08{name: "GR-848-3", proto: Next, third: true}), QuickBudget: 1, ThoroughBudget: 2, Weight: 2},
}

// CheckC08 is the nrun description of check C08.
func CheckC08() *nrun.Check {
	return &nrun.Check{
		ID: "C08", TestName: "TestC08", Plans: PlansC08(),
		QuickTime: 115 * time.Second, ThorTime: 18 * time.Minute,
		Rule: strings.Join([]string{
			"engine N, scenario family G with records: topic t (3 partitions x 6 pre-loaded records), members A and B of group g with default autocommit (2.3 s) and default revoke, PollRecords(ctx,2) in steps, B closes and a new client B2 joins (restart); one scenario per protocol (eager/range, cooperative-sticky, KIP-848), thorough adds a third member",
			"explored: every order of request/response frame deliveries across the members' connections (OffsetCommit, Heartbeat, JoinGroup/SyncGroup, Fetch, ...), application calls and timer ticks within k deviations of the default order (no faults)",
			"oracle (i) on every OffsetCommit request delivered to the broker, oracle (ii) on the group's final offsets (OffsetFetch by an admin client)",
			"distinct = distinct (final offsets, records returned, re-deliveries, commit count bucket) per scenario",
		}, "; "),
		Assume: []string{
			"kfake is the group coordinator and the log",
			"synctests build of xsync",
			"ticks are harmless: session, rebalance and request timeouts are 5 virtual minutes",
			"the partitions start at offset 0 and the group has no prior commits (reset to earliest)",
			"members heartbeat with distinct periods (1.0/1.13/1.27 s) so that their timers do not tie for ever after a common rebalance",
			"goroutine micro-interleavings inside one event are the Go runtime's",
		},
	}
}
