package gscen

import (
	"fmt"
	"reflect"
	"strings"
	"sync"
	"unsafe"

	"verif/lib/netctl"
)

// Canonical arrival order (workaround, see the final report of C07/C08: the
// clean fix belongs in lib/netctl).
//
// netctl lists the pending frames of a decision point in ARRIVAL order. Two
// frames that reach the proxy between the same two decision points arrive in
// an order the choice sequence does not determine:
//
//   - kfake answers the JoinGroup (and SyncGroup) requests of all members of a
//     classic group from one loop over a Go map;
//   - members that finish a rebalance at the same virtual instant fire their
//     heartbeat timers (and kgo's fixed 500 ms cooperative fast check) at the
//     same virtual instants, and the firing order of tied timers is the Go
//     runtime's.
//
// A group execution contains a dozen such coin flips, so a recorded prefix
// practically never replays. Scenario.Done is evaluated by netctl at every
// decision point (bubble quiescent) before the enabled set is computed; the
// scenarios of this family use that call to overwrite the private arrival
// stamp of the head-of-line frame of every connection with (decision point at
// which the frame was first seen at the head of its connection, client,
// connection class, ordinal, direction). Frames of one
// connection stay FIFO, frames first seen at different decision points keep
// their relative order, and only the order inside one batch of simultaneous
// arrivals changes: from "whatever the runtime did" to "by connection name".
// Both orders are schedules of the explored space (each is one deviation from
// the other). If netctl's private layout changes, canon turns itself off and
// counts it (counter canon_disabled).
type canon struct {
	mu       sync.Mutex
	rank     map[string]int64
	disabled bool
}

// Done is the Scenario.Done of the family: canonicalise, then "all threads returned".
func (g *G) Done(x *netctl.Exec) bool {
	g.canonicalize(x)
	return x.ThreadsDone()
}

func (g *G) canonicalize(x *netctl.Exec) {
	cn := &g.canon
	cn.mu.Lock()
	defer cn.mu.Unlock()
	if cn.disabled {
		return
	}
	defer func() {
		if r := recover(); r != nil {
			cn.disabled = true
			x.Count("canon_disabled", 1)
			x.Logf("canon disabled: %v", r)
		}
	}()
	if cn.rank == nil {
		cn.rank = map[string]int64{}
	}
	point := int64(reflect.ValueOf(x).Elem().FieldByName("res").FieldByName("Points").Len())
	for _, c := range x.Conns() {
		if c.Name == "" { // only handshake frames so far
			continue
		}
		cv := reflect.ValueOf(c).Elem()
		mu := (*sync.Mutex)(unsafe.Pointer(cv.FieldByName("mu").UnsafeAddr()))
		mu.Lock()
		func() {
			defer mu.Unlock()
			if q := cv.FieldByName("reqQ"); q.Len() > 0 {
				fr := q.Index(0).Elem()
				cn.set(c, "req", point, fr.FieldByName("corr").Int(), fr.FieldByName("seq"))
			}
			if sl := cv.FieldByName("slots"); sl.Len() > 0 {
				s := sl.Index(0).Elem()
				if !s.FieldByName("resp").IsNil() {
					cn.set(c, "resp", point, s.FieldByName("req").Elem().FieldByName("corr").Int(), s.FieldByName("seq"))
				}
			}
		}()
	}
}

func (cn *canon) set(c *netctl.Conn, dir string, point, corr int64, seq reflect.Value) {
	id := fmt.Sprintf("%s|%s|%d", c.Name, dir, corr)
	r, ok := cn.rank[id]
	if !ok {
		r = point<<24 | connCode(c, dir)
		cn.rank[id] = r
	}
	*(*int64)(unsafe.Pointer(seq.UnsafeAddr())) = r
}

// connCode orders connections by client, class, ordinal and direction.
func connCode(c *netctl.Conn, dir string) int64 {
	cl := int64(0)
	for i := 0; i < len(c.Client) && i < 2; i++ { // "A", "B", "B2", "C": two characters are enough
		cl = cl*128 + int64(c.Client[i]&127)
	}
	if len(c.Client) == 1 {
		cl *= 128
	}
	class := map[string]int64{"group": 0, "gen": 1, "fetch": 2, "produce": 3}[c.Class]
	ord := int64(0)
	if i := strings.LastIndexByte(c.Name, '#'); i >= 0 {
		fmt.Sscanf(c.Name[i+1:], "%d", &ord)
	}
	d := int64(0)
	if dir == "resp" {
		d = 1
	}
	// 14 bits client, 2 bits class, 6 bits ordinal, 1 bit direction: below 1<<24.
	return (cl&0x3fff)<<9 | class<<7 | (ord&63)<<1 | d
}
