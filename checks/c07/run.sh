#!/bin/bash
set -eu
cd "$(dirname "$0")/../.."
. bin/env.sh
go test -c -tags synctests,verif -o "$BUILD/c07.test" ./checks/c07
exec "$BUILD/c07.test" -test.run '^TestC07$' -test.timeout 0
