// C12, engine-S part: the share-group acknowledgement core at the granularity of
// every mutex, condition-variable, atomic and channel operation. run.sh
// compiles into this package, from the current tree ($REPO):
//
//	zz_ring.go   pkg/kgo/ring.go (imports redirected to the vrt shims)
//	zz_share.go  shareAckState.tryAck / appendAck, shareCursor.drainAcks /
//	             enqueueGaps, buildAckRanges, coalesceAppendRange,
//	             shareConsumer.subtractPendingAcks / enqueueCallback /
//	             drainCallbacks, Client.FlushAcks (consumer_share.go), with go
//	             statements, channels and select rewritten to vrt operations
//
// The stubs below stand for everything outside that slice (the struct types
// carry only the fields the extracted functions touch; if the tree starts to
// use other fields the build fails with EXTRACTION-ERROR). The "sender" thread
// transcribes what shareAck does around those functions: drain, build, send,
// and on the (successful) response reset renew statuses and enqueue the
// callback with the number of drained entries.
package main

import (
	"context"
	"encoding/json"
	"errors"
	"fmt"
	"os"
	"os/exec"
	"strings"
	"time"

	"verif.local/ev"

	"verif/lib/explore"
	"verif/lib/vrt"
	atomic "verif/lib/vrt/shim/atomic"
	sync "verif/lib/vrt/shim/sync"
	xsync "verif/lib/vrt/shim/xsync"
)

// ------------------------------------------------------------------ stubs

type AckStatus int8

const (
	AckAccept  AckStatus = 1
	AckRelease AckStatus = 2
	AckReject  AckStatus = 3
	AckRenew   AckStatus = 4
)

type ShareAckResult struct {
	Topic     string
	Partition int32
	Err       error
}

type ShareAckResults []ShareAckResult

type shareAckRange struct {
	firstOffset  int64
	lastOffset   int64
	source       *source
	sessionEpoch int32
	ackType      int8
}

type shareAckState struct {
	status        atomic.Int32
	deliveryCount int32
	offset        int64
	slab          *shareAckSlab
}

type shareAckSlab struct {
	ackSource    *source
	cursor       *shareCursor
	sessionEpoch int32
}

type shareCallbackEntry struct {
	results ShareAckResults
	nAcks   int64
}

type shareCursor struct {
	topic     string
	partition int32
	source    atomic.Pointer[source]

	ackMu       xsync.Mutex
	pendingAcks []*shareAckState
	pendingGaps []shareAckRange
	closed      bool
}

type sourceShare struct{ sc *shareConsumer }

type source struct{ share sourceShare }

// The fetch loop is not part of the slice: the sender thread drains on its own
// schedule (as a ShareFetch being built does), so the wake-ups are no-ops.
func (s *source) signalShareAcks()     {}
func (s *source) signalShareAckFlush() {}

type cfg struct {
	shareAckCallback func(*Client, ShareAckResults)
}

type consumer struct{ s *shareConsumer }

type Client struct{ consumer consumer }

func (cl *Client) allSources(fn func(*source)) { fn(hw.src) }

type shareConsumer struct {
	cl  *Client
	cfg *cfg

	ackMu       xsync.Mutex
	ackC        *sync.Cond
	pendingAcks atomic.Int64

	callbackRing ring[shareCallbackEntry]
}

var errShareConsumerLeft = errors.New("share consumer left")

// ------------------------------------------------------------------ harness

type ackCall struct {
	rec      int
	status   AckStatus
	ok       bool
	returned bool
	cbDone   bool // the callback of the request that carried this call's entry has been invoked
}

type request struct {
	entries []*shareAckState
	wire    [][3]int64 // first, last, type
	isRenew bool
	drained int
}

type world struct {
	cl    *Client
	sc    *shareConsumer
	src   *source
	cur   *shareCursor
	recs  []*shareAckState
	calls []*ackCall
	// calls whose entry is queued and not yet drained, per record, in issue
	// order (an entry is the record's state pointer, so per record FIFO is exact)
	queued  [][]*ackCall
	reqs    []*request
	carried [][]*ackCall // per request: the calls whose entries it drained
	cbRun   int
	flushes []string
	finals  []func()
}

var hw *world

func newWorld(nrec int) *world {
	w := &world{}
	w.cl = &Client{}
	w.sc = &shareConsumer{cl: w.cl, cfg: &cfg{}}
	w.sc.ackC = sync.NewCond(&w.sc.ackMu)
	w.cl.consumer.s = w.sc
	w.src = &source{share: sourceShare{sc: w.sc}}
	w.cur = &shareCursor{topic: "t"}
	w.cur.source.Store(w.src)
	slab := &shareAckSlab{ackSource: w.src, cursor: w.cur, sessionEpoch: 1}
	for i := 0; i < nrec; i++ {
		w.recs = append(w.recs, &shareAckState{deliveryCount: 1, offset: int64(3 + i), slab: slab})
	}
	w.queued = make([][]*ackCall, nrec)
	w.sc.cfg.shareAckCallback = func(_ *Client, rs ShareAckResults) {
		// Callbacks are serialised by the ring in request order.
		vrt.Assert(w.cbRun < len(w.carried), "callback-without-request", "callback %d invoked, %d requests were sent", w.cbRun+1, len(w.carried))
		for _, c := range w.carried[w.cbRun] {
			vrt.Assert(!c.cbDone, "callback-twice", "acknowledgement of record %d reported twice", c.rec)
			c.cbDone = true
		}
		w.cbRun++
	}
	return w
}

// ack is Record.Ack: tryAck, then appendAck if the CAS succeeded.
func (w *world) ack(rec int, s AckStatus) {
	c := &ackCall{rec: rec, status: s}
	w.calls = append(w.calls, c)
	st := w.recs[rec]
	if c.ok = st.tryAck(s, false); c.ok {
		w.queued[rec] = append(w.queued[rec], c) // before the append: a drain can only happen after it
		st.appendAck()
	}
	c.returned = true
}

// round is one pass of the sender: drain, build, "send", handle the response.
func (w *world) round() {
	entries, _ := w.cur.drainAcks(false)
	if len(entries) == 0 {
		return
	}
	rq := &request{entries: entries, drained: len(entries)}
	var carried []*ackCall
	for _, e := range entries {
		for rec, st := range w.recs {
			if st == e {
				vrt.Assert(len(w.queued[rec]) > 0, "drained-unknown-entry", "drained an entry of record %d that no Ack call queued", rec)
				carried = append(carried, w.queued[rec][0])
				w.queued[rec] = w.queued[rec][1:]
			}
		}
	}
	ranges, hasRenew := buildAckRanges(entries, nil)
	rq.isRenew = hasRenew
	prevEnd := int64(-1)
	for _, r := range ranges {
		vrt.Assert(r.firstOffset > prevEnd, "request-not-ascending", "batches of one request not ascending / overlapping: %v", ranges)
		prevEnd = r.lastOffset
		rq.wire = append(rq.wire, [3]int64{r.firstOffset, r.lastOffset, int64(r.ackType)})
	}
	w.reqs = append(w.reqs, rq)
	w.carried = append(w.carried, carried)
	// response (success), as in shareAck
	if hasRenew {
		for _, e := range entries {
			e.status.CompareAndSwap(int32(AckRenew), 0)
		}
	}
	w.sc.enqueueCallback(ShareAckResults{{w.cur.topic, w.cur.partition, nil}}, int64(len(entries)))
}

// flush is FlushAcks by a caller that issued (or saw returning) some acks before.
func (w *world) flush() {
	var before []*ackCall
	for _, c := range w.calls {
		if c.returned && c.ok {
			before = append(before, c)
		}
	}
	err := w.cl.FlushAcks(context.Background())
	vrt.Assert(err == nil, "flush-error", "FlushAcks returned %v", err)
	for _, c := range before {
		if !c.cbDone {
			vrt.Fail("flush-returned-early", "FlushAcks returned nil but the callback for the acknowledgement (status %d) of record %d, whose Ack call had returned before FlushAcks was called, has not run (pending counter %d)", c.status, c.rec, w.sc.pendingAcks.Peek())
		}
	}
	w.flushes = append(w.flushes, "ok")
}

func (w *world) finalChecks(nflush int) {
	w.finals = append(w.finals, func() {
		vrt.Assert(w.sc.pendingAcks.Peek() == 0, "pending-nonzero", "pending-ack counter is %d at quiescence", w.sc.pendingAcks.Peek())
		vrt.Assert(len(w.flushes) == nflush, "flush-stuck", "%d of %d FlushAcks calls returned", len(w.flushes), nflush)
		for _, c := range w.calls {
			if c.ok {
				vrt.Assert(c.cbDone, "callback-never", "acknowledgement (status %d) of record %d was never reported", c.status, c.rec)
			}
		}
		// (a) an offset leaves with a final type in at most one request
		for rec, st := range w.recs {
			var finals []int
			for i, rq := range w.reqs {
				for _, b := range rq.wire {
					if b[0] <= st.offset && st.offset <= b[1] && b[2] >= 1 && b[2] <= 3 {
						finals = append(finals, i)
					}
				}
			}
			if len(finals) > 1 {
				// the source's documented window: the first of the two requests
				// was built from a drain that held the record only through the
				// entry of the AckRenew call
				first := w.carried[finals[0]]
				onlyRenew := len(finals) == 2
				for _, c := range first {
					if c.rec == rec && c.status != AckRenew {
						onlyRenew = false
					}
				}
				if onlyRenew {
					vrt.Fail("duplicate-terminal-ack:renew-drain-window", "the terminal acknowledgement of offset %d left in requests %v: the drain of the first held only the AckRenew entry and its build read the terminal status set meanwhile", st.offset, finals)
				}
				vrt.Fail("duplicate-terminal-ack:other", "offset %d left with a final type in requests %v", st.offset, finals)
			}
		}
	})
}

// H-flush: two acking threads (the second one flushes after its Ack, the usual
// pattern), a sender with two free-running rounds and a last one after both.
func hFlush() {
	w := newWorld(2)
	hw = w
	var users vrt.WaitGroup
	users.Add(2)
	vrt.Go("U1", func() { w.ack(0, AckAccept); users.Done() })
	vrt.Go("sender", func() {
		w.round()
		w.round()
		users.Wait()
		w.round()
	})
	vrt.Go("U2F", func() { w.ack(1, AckAccept); users.Done(); w.flush() })
	w.finalChecks(1)
}

// H-window: renew then terminal on one record, a co-batched second record.
func hWindow() {
	w := newWorld(2)
	hw = w
	var users vrt.WaitGroup
	users.Add(2)
	vrt.Go("U1", func() { w.ack(0, AckRenew); w.ack(0, AckAccept); w.ack(0, AckReject); users.Done() })
	vrt.Go("sender", func() {
		w.round()
		w.round()
		users.Wait()
		w.round()
	})
	vrt.Go("U2", func() { w.ack(1, AckRelease); users.Done() })
	w.finalChecks(0)
}

var harnesses = map[string]func(){"S-flush": hFlush, "S-window": hWindow}

func runJob(job explore.Job) explore.Result {
	h, ok := harnesses[job.Scenario]
	if !ok {
		return explore.Result{Crash: "unknown harness " + job.Scenario}
	}
	hw = nil
	res := vrt.Run(job.Prefix, 4000, os.Getenv("VERIF_TRACE") != "", h)
	out := explore.Result{Points: res.Points, Steps: res.Steps, Capped: res.Capped, Diverged: res.Diverged}
	if res.Failure == "" && !res.Capped && !res.Diverged && hw != nil {
		fin := vrt.Run(nil, 10, false, func() {
			for _, f := range hw.finals {
				f()
			}
		})
		if fin.Failure != "" {
			res.Failure, res.FailKey = fin.Failure, fin.FailKey
		}
	}
	if res.Failure != "" {
		out.Viol = append(out.Viol, explore.Violation{Key: res.FailKey, What: res.Failure + "\nschedule: " + strings.Join(res.Trace, " | ")})
	}
	if hw != nil {
		var s []string
		for _, rq := range hw.reqs {
			s = append(s, fmt.Sprint(rq.wire))
		}
		out.Obs = strings.Join(s, ";") + fmt.Sprintf(" cb=%d", hw.cbRun)
	}
	return out
}

type summary struct {
	Execs, Points, Steps int64
	Distinct             int
	Harnesses            map[string]any
	Viol                 []struct {
		Key, What string
		Artefact  any
	}
	NotExhaustive []string
}

// stable classes shared with the other parts of the check
func keyOf(h, k string) string {
	if k == "duplicate-terminal-ack:renew-drain-window" {
		return "C12:duplicate-terminal-ack:renew-drain-window"
	}
	return "C12:S:" + h + ":" + k
}

func main() {
	vrt.FreeSwitchCost = 0 // classic preemption bounding: the harnesses have three threads plus spawned ones
	if explore.IsWorker() {
		explore.ServeWorker(runJob)
		return
	}
	if p := os.Getenv("VERIF_REPLAY"); p != "" {
		replay(p)
		return
	}
	type plan struct {
		name            string
		quick, thorough int
	}
	plans := []plan{{"S-flush", 1, 2}, {"S-window", 1, 2}}
	out := os.Getenv("C12S_OUT")
	sum := summary{Harnesses: map[string]any{}}
	deadline := ev.Deadline(40*time.Second, 6*time.Minute)
	distinct := map[string]struct{}{}
	for i, p := range plans {
		bound := p.quick
		if ev.Thorough() {
			bound = p.thorough
		}
		slice := time.Until(deadline) / time.Duration(len(plans)-i)
		nv := map[string]int{}
		st := explore.Explore(explore.Config{
			Scenario: p.name, Budget: bound, Workers: ev.Workers(), Deadline: time.Now().Add(slice),
			Subprocess: func() *exec.Cmd {
				cmd := exec.Command(os.Args[0])
				cmd.Env = append(os.Environ(), "VERIF_WORKER=1", "GOMAXPROCS=2")
				cmd.Stderr = os.Stderr
				return cmd
			},
			OnResult: func(job explore.Job, res explore.Result) {
				distinct[p.name+"|"+res.Obs] = struct{}{}
				if res.Crash != "" {
					res.Viol = append(res.Viol, explore.Violation{Key: "worker-crash", What: res.Crash})
				}
				for _, v := range res.Viol {
					if nv[v.Key] == 0 {
						sum.Viol = append(sum.Viol, struct {
							Key, What string
							Artefact  any
						}{keyOf(p.name, v.Key), "engine S harness " + p.name + ": " + v.What, map[string]any{"check": "C12-S", "part": "S", "scenario": p.name, "prefix": job.Prefix}})
					}
					nv[v.Key]++
				}
			},
		})
		sum.Execs += st.Execs
		sum.Points += st.Points
		sum.Steps += st.Steps
		sum.Harnesses[p.name] = map[string]any{"preemption_bound": bound, "bound_completed": st.LevelCompleted, "cut_by_time": st.Cut, "executions": st.Execs, "per_level": st.LevelExecs, "violating_executions": nv}
		if st.Cut {
			sum.NotExhaustive = append(sum.NotExhaustive, fmt.Sprintf("S:%s: time slice ended inside preemption level %d", p.name, st.LevelCompleted+1))
		}
		fmt.Printf("  S:%-10s bound=%d completed=%d execs=%d cut=%v violations=%v\n", p.name, bound, st.LevelCompleted, st.Execs, st.Cut, nv)
	}
	sum.Distinct = len(distinct)
	b, _ := json.MarshalIndent(sum, "", " ")
	if out == "" {
		fmt.Println(string(b))
		return
	}
	if err := os.WriteFile(out, b, 0o644); err != nil {
		ev.InfraError("%v", err)
	}
}

func replay(path string) {
	b, err := os.ReadFile(path)
	if err != nil {
		ev.InfraError("%v", err)
	}
	var a struct {
		Artefact struct {
			Scenario string `json:"scenario"`
			Prefix   []int  `json:"prefix"`
		} `json:"artefact"`
	}
	json.Unmarshal(b, &a)
	os.Setenv("VERIF_TRACE", "1")
	res := runJob(explore.Job{Scenario: a.Artefact.Scenario, Prefix: a.Artefact.Prefix})
	fmt.Printf("replay %s prefix=%v obs=%s\n", a.Artefact.Scenario, a.Artefact.Prefix, res.Obs)
	for _, v := range res.Viol {
		fmt.Printf("VIOLATION-REPLAYED %s: %s\n", v.Key, v.What)
	}
	if len(res.Viol) > 0 {
		os.Exit(1)
	}
}
