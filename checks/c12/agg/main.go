// Command agg merges the parts of check C12 into one evidence file.
//
// usage: agg <evidence/C12.json written by the engine-N binary> <summary of the in-package harness>
//
// nrun.Main writes the evidence of part N and exits, so the merge happens here:
// a fresh ev.Run gets N's numbers, N's violations (re-read from the artefacts
// N wrote, so that they keep their replay files) and known findings, then the
// counts of parts Q / Q2 under q_* / q2_* keys and their violations. Everything
// goes through ev.Violation, so the known-findings file applies to all parts.
package main

import (
	"encoding/json"
	"fmt"
	"os"
	"path/filepath"
	"sort"

	"verif.local/ev"
)

type nEvidence struct {
	Tier        string         `json:"tier"`
	Coverage    map[string]any `json:"coverage"`
	Assumptions []string       `json:"assumptions"`
	WallS       float64        `json:"wall_s"`
	Violations  int            `json:"violations"`
}

type qViol struct {
	Key      string `json:"key"`
	What     string `json:"what"`
	Count    int64  `json:"count"`
	Artefact any    `json:"artefact"`
}

type qSummary struct {
	Tier        string           `json:"tier"`
	Evaluations int64            `json:"q_evaluations"`
	Distinct    int64            `json:"q_distinct"`
	Capped      bool             `json:"q_distinct_capped"`
	Counters    map[string]int64 `json:"counters"`
	Spaces      []any            `json:"spaces"`
	Q2          map[string]any   `json:"q2"`
	Samples     []any            `json:"samples"`
	Violations  []qViol          `json:"violations"`
	WallS       float64          `json:"wall_s"`
}

func num(v any) int64 {
	f, _ := v.(float64)
	return int64(f)
}

func main() {
	if len(os.Args) != 3 {
		ev.InfraError("usage: agg <N evidence> <Q summary>")
	}
	var n nEvidence
	var q qSummary
	nb, err := os.ReadFile(os.Args[1])
	if err != nil {
		ev.InfraError("read N evidence: %v", err)
	}
	if err := json.Unmarshal(nb, &n); err != nil {
		ev.InfraError("parse N evidence: %v", err)
	}
	qb, err := os.ReadFile(os.Args[2])
	if err != nil {
		ev.InfraError("read Q summary: %v", err)
	}
	if err := json.Unmarshal(qb, &q); err != nil {
		ev.InfraError("parse Q summary: %v", err)
	}
	if n.Tier != ev.Tier() || (q.Tier != "" && q.Tier != ev.Tier()) {
		ev.InfraError("parts ran in different tiers: N=%s Q=%s now=%s", n.Tier, q.Tier, ev.Tier())
	}

	// N's violation artefacts (at most 20 are written) must be read before the
	// new run re-creates them.
	type nViol struct {
		Key      string `json:"key"`
		What     string `json:"what"`
		Artefact any    `json:"artefact"`
	}
	var nv []nViol
	for i := 1; i <= n.Violations && i <= 20; i++ {
		b, err := os.ReadFile(filepath.Join(ev.Root(), "violations", "C12", fmt.Sprintf("%s-%d.json", ev.Tier(), i)))
		if err != nil {
			ev.InfraError("N reported %d violations but artefact %d is unreadable: %v", n.Violations, i, err)
		}
		var v nViol
		if err := json.Unmarshal(b, &v); err != nil {
			ev.InfraError("N violation artefact %d: %v", i, err)
		}
		nv = append(nv, v)
	}

	r := ev.New("C12", "model_checking")
	cov := n.Coverage
	rule, _ := cov["rule"].(string)
	r.Rule(rule + " || part Q (in-package, pkg/kgo): every list of pending entries in insertion order (offsets 0..5, each offset at most twice, status 0/accept/release/reject/renew per record) with every ordered set of at most two disjoint gap ranges inside offsets 0..7 avoiding the entries (type gap or release), queued with appendAck/enqueueGaps, drained with drainAllShareAcks, built with buildAckRanges and turned into wire batches as shareAck does; a second space assigns every (source, session epoch) stamp out of 2x2 to each record and gap and goes through filterStaleEntries; reference = offset->type table; distinct = distinct wire outputs || part Q2: every merge of the user-side steps (tryAck CAS, appendAck) of scripts of up to N Ack calls over two records with the sender-side steps (drain, build+send, response handling) of two rounds; reference = status machine of the docs; distinct = distinct request histories")
	r.Assume(n.Assumptions...)
	r.Assume("part Q/Q2: the harness builds shareConsumer/source/shareCursor/shareAckSlab values by hand (no client), the fetch loop is never started", "part Q2: the response step transcribes shareAck's success path (renew statuses reset, pending counter decremented by the number of drained entries)")
	r.Evals(num(cov["evaluations"]))
	r.States(num(cov["states"]))
	r.Transitions(num(cov["transitions"]))
	r.Traces(num(cov["traces_validated_against_impl"]))
	nd := num(cov["distinct_nontrivial"])
	for i := int64(0); i < nd; i++ { // N reports a count of distinct terminal observations, not the keys
		r.Distinct(fmt.Sprintf("N-outcome-%d", i))
	}
	skip := map[string]bool{"evaluations": true, "states": true, "transitions": true, "traces_validated_against_impl": true, "distinct_nontrivial": true,
		"rule": true, "samples": true, "exhaustive": true, "not_exhaustive_because": true, "known_findings_reproduced": true}
	ks := make([]string, 0, len(cov))
	for k := range cov {
		ks = append(ks, k)
	}
	sort.Strings(ks)
	for _, k := range ks {
		if !skip[k] {
			r.Set(k, cov[k])
		}
	}
	if ss, ok := cov["samples"].([]any); ok {
		for i, s := range ss {
			if i < 3 {
				r.Sample(s)
			}
		}
	}
	for _, s := range q.Samples {
		r.Sample(s)
	}
	if why, ok := cov["not_exhaustive_because"].([]any); ok {
		for _, w := range why {
			r.NotExhaustive(fmt.Sprint(w))
		}
	} else if ex, ok := cov["exhaustive"].(bool); ok && !ex {
		r.NotExhaustive("part N reported a cut enumeration")
	}
	r.Set("n_wall_s", n.WallS)
	r.Set("n_distinct_outcomes", nd)
	r.Set("q_evaluations", q.Evaluations)
	r.Set("q_distinct", q.Distinct)
	r.Set("q_distinct_capped", q.Capped)
	r.Set("q_spaces", q.Spaces)
	r.Set("q_counters", q.Counters)
	r.Set("q_wall_s", q.WallS)
	r.Set("q_bound_completed", "all spaces listed in q_spaces enumerated completely")
	for k, v := range q.Q2 {
		r.Set("q2_"+k, v)
	}

	// Known findings N reproduced, then N's violations in their original order
	// (same file names as N wrote), then Q / Q2.
	if kn, ok := cov["known_findings_reproduced"].([]any); ok {
		for _, k := range kn {
			r.Violation(fmt.Sprint(k), "reproduced by part N", nil)
		}
	}
	// One report per class: N reports every violating execution (dozens for
	// one defect); the first artefact of each key is kept as the replay file.
	// The files N wrote are removed first so that none is left stale.
	for i := 1; i <= 20; i++ {
		os.Remove(filepath.Join(ev.Root(), "violations", "C12", fmt.Sprintf("%s-%d.json", ev.Tier(), i)))
	}
	seen := map[string]int{}
	var order []string
	first := map[string]nViol{}
	for _, v := range nv {
		if seen[v.Key] == 0 {
			order = append(order, v.Key)
			first[v.Key] = v
		}
		seen[v.Key]++
	}
	r.Set("n_violating_executions_reported", n.Violations)
	for _, k := range order {
		v := first[k]
		more := ""
		if seen[k] > 1 || n.Violations > len(nv) {
			more = fmt.Sprintf(" (first of %d reports with this key among the %d artefacts part N kept; part N counted %d violating executions in total)", seen[k], len(nv), n.Violations)
		}
		r.Violation(v.Key, v.What+more, v.Artefact)
	}
	for _, v := range q.Violations {
		r.Violation(v.Key, fmt.Sprintf("%s (%d cases of the enumeration; the artefact is the smallest)", v.What, v.Count), v.Artefact)
	}
	r.Finish()
}
