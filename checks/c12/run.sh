#!/bin/bash
# C12: share-group acknowledgements are single, ordered and honoured.
# Three binaries, ONE evidence file (/verif/evidence/C12.json):
#   Q + Q2  in-package harness in pkg/kgo (hooks/inpkg/c12_kgo_test.go) -> $C12Q_OUT
#   S       engine-S harness (checks/c12/s) over the acknowledgement core extracted from
#           $REPO/pkg/kgo/consumer_share.go and ring.go -> $C12S_OUT
#   N       engine-N test binary (checks/c12, scenarios in checks/c12/sscen); nrun writes
#           the evidence after merging both summaries (nrun.MergeSummary in Check.Extra)
# Replay: checks/c12/run.sh --replay /verif/violations/C12/<file>.json
set -u
cd "$(dirname "$0")/../.."
. bin/env.sh
fail() { echo "INFRA-ERROR: $*" >&2; exit 2; }
inpkg_test pkg/kgo "$VERIF_ROOT/hooks/inpkg/c12_kgo_test.go" "$BUILD/c12_q.test" || fail "build of the in-package harness failed"
go test -c -tags synctests,verif -o "$BUILD/c12.test" ./checks/c12 || fail "build of the engine-N binary failed"
# engine S: extract the acknowledgement core from the tree being checked
G="$BUILD/c12gen"; mkdir -p "$G"
go build -o "$BUILD/extract" ./cmd/extract || fail "build of cmd/extract failed"
bin/extract_imports.sh "$REPO/pkg/kgo/ring.go" "$G/ring.go" main || exit 2
"$BUILD/extract" -src "$REPO/pkg/kgo/consumer_share.go" -pkg main -out "$G/share.go" -imports '"cmp";"context";"slices"' \
  -decls "shareAckState.tryAck,shareAckState.appendAck,shareCursor.drainAcks,shareCursor.enqueueGaps,buildAckRanges,coalesceAppendRange,shareConsumer.subtractPendingAcks,shareConsumer.enqueueCallback,shareConsumer.drainCallbacks,Client.FlushAcks" || exit 2
printf '{"Replace":{"%s":"%s","%s":"%s"}}\n' "$VERIF_ROOT/checks/c12/s/zz_ring.go" "$G/ring.go" "$VERIF_ROOT/checks/c12/s/zz_share.go" "$G/share.go" > "$G/overlay.json"
go build -overlay "$G/overlay.json" -o "$BUILD/c12s" ./checks/c12/s || { echo "EXTRACTION-ERROR: the extracted acknowledgement core no longer compiles against the stubs of checks/c12/s" >&2; exit 2; }
if [ "${1:-}" = "--replay" ]; then
  art="$(readlink -f "$2")"
  if grep -q '"part": *"S"' "$art"; then
    VERIF_REPLAY="$art" exec "$BUILD/c12s"
  fi
  if grep -q '"part": *"Q' "$art"; then
    C12_REPLAY="$art" exec "$BUILD/c12_q.test" -test.run '^TestVerifC12$' -test.timeout 0
  fi
  VERIF_REPLAY="$art" exec "$BUILD/c12.test" -test.run '^TestC12$' -test.timeout 0
fi
export C12Q_OUT="$BUILD/c12_q.json"
rm -f "$C12Q_OUT"
"$BUILD/c12_q.test" -test.run '^TestVerifC12$' -test.timeout 0
rc=$?
[ $rc -eq 0 ] && [ -s "$C12Q_OUT" ] || fail "in-package harness exited $rc"
export C12S_OUT="$BUILD/c12_s.json"
rm -f "$C12S_OUT"
"$BUILD/c12s"
rc=$?
[ $rc -eq 0 ] && [ -s "$C12S_OUT" ] || fail "engine-S harness exited $rc"
exec "$BUILD/c12.test" -test.run '^TestC12$' -test.timeout 0
