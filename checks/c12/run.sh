#!/bin/bash
# C12: share-group acknowledgements are single, ordered and honoured.
# Three parts, ONE evidence file (/verif/evidence/C12.json, written last by the aggregator):
#   Q + Q2  in-package harness in pkg/kgo (hooks/inpkg/c12_kgo_test.go) -> $BUILD/c12_q.json
#   N       engine-N test binary (checks/c12/c12_test.go); nrun writes evidence/C12.json
#   agg     checks/c12/agg: re-reports N's numbers and violations and adds Q/Q2 through lib/ev
# Replay: checks/c12/run.sh --replay /verif/violations/C12/<file>.json
set -u
cd "$(dirname "$0")/../.."
. bin/env.sh
fail() { echo "INFRA-ERROR: $*" >&2; exit 2; }
inpkg_test pkg/kgo "$VERIF_ROOT/hooks/inpkg/c12_kgo_test.go" "$BUILD/c12_q.test" || fail "build of the in-package harness failed"
go test -c -tags synctests,verif -o "$BUILD/c12.test" ./checks/c12 || fail "build of the engine-N binary failed"
go build -o "$BUILD/c12_agg" ./checks/c12/agg || fail "build of the aggregator failed"
if [ "${1:-}" = "--replay" ]; then
  art="$(readlink -f "$2")"
  if grep -q '"part": *"Q' "$art"; then
    C12_REPLAY="$art" exec "$BUILD/c12_q.test" -test.run '^TestVerifC12$' -test.timeout 0
  fi
  VERIF_REPLAY="$art" exec "$BUILD/c12.test" -test.run '^TestC12$' -test.timeout 0
fi
rm -f "$BUILD/c12_q.json" "$VERIF_ROOT/evidence/C12.json" "$VERIF_ROOT/violations/C12/$VERIF_TIER"-*.json
echo "== C12 part Q/Q2 (range builder and ack path, in-package)"
C12_OUT="$BUILD/c12_q.json" "$BUILD/c12_q.test" -test.run '^TestVerifC12$' -test.timeout 0
rc=$?
[ $rc -eq 0 ] && [ -s "$BUILD/c12_q.json" ] || fail "in-package harness exited $rc"
echo "== C12 part N (end to end)"
"$BUILD/c12.test" -test.run '^TestC12$' -test.timeout 0 | sed -u 's/^/  N| /'
rc=${PIPESTATUS[0]}
[ $rc -le 1 ] && [ -s "$VERIF_ROOT/evidence/C12.json" ] || fail "engine-N binary exited $rc"
echo "== C12 aggregate"
exec "$BUILD/c12_agg" "$VERIF_ROOT/evidence/C12.json" "$BUILD/c12_q.json"
