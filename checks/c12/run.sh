#!/bin/bash
# C12: share-group acknowledgements are single, ordered and honoured.
# Two binaries, ONE evidence file (/verif/evidence/C12.json):
#   Q + Q2  in-package harness in pkg/kgo (hooks/inpkg/c12_kgo_test.go) -> $C12Q_OUT
#   N       engine-N test binary (checks/c12, scenarios in checks/c12/sscen); nrun writes
#           the evidence after merging the Q summary (nrun.MergeSummary in Check.Extra)
# Replay: checks/c12/run.sh --replay /verif/violations/C12/<file>.json
set -u
cd "$(dirname "$0")/../.."
. bin/env.sh
fail() { echo "INFRA-ERROR: $*" >&2; exit 2; }
inpkg_test pkg/kgo "$VERIF_ROOT/hooks/inpkg/c12_kgo_test.go" "$BUILD/c12_q.test" || fail "build of the in-package harness failed"
go test -c -tags synctests,verif -o "$BUILD/c12.test" ./checks/c12 || fail "build of the engine-N binary failed"
if [ "${1:-}" = "--replay" ]; then
  art="$(readlink -f "$2")"
  if grep -q '"part": *"Q' "$art"; then
    C12_REPLAY="$art" exec "$BUILD/c12_q.test" -test.run '^TestVerifC12$' -test.timeout 0
  fi
  VERIF_REPLAY="$art" exec "$BUILD/c12.test" -test.run '^TestC12$' -test.timeout 0
fi
export C12Q_OUT="$BUILD/c12_q.json"
rm -f "$C12Q_OUT"
"$BUILD/c12_q.test" -test.run '^TestVerifC12$' -test.timeout 0
rc=$?
[ $rc -eq 0 ] && [ -s "$C12Q_OUT" ] || fail "in-package harness exited $rc"
exec "$BUILD/c12.test" -test.run '^TestC12$' -test.timeout 0
