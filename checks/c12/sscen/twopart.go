package sscen

// Two partitions on two brokers ("2p2b"): one member holds unacknowledged
// records of p0 (leader b0) and p1 (leader b1) from ONE poll; p0's leadership
// moves to b1 and the client migrates p0's cursor to the source for b1. Then,
// in one application step, a record of p1 is renewed and the records of p0 get
// terminal acks: the next drain on b1's source holds a live renew (which forces
// the standalone renew ShareAcknowledge and a rebuilt ShareFetch) together with
// acks the stale filter drops (acquired on b0). After an idle period the
// remaining p1 records are acknowledged and FlushAcks is called: it may return
// only after those acknowledgements were answered and reported.

import (
	"context"
	"fmt"
	"sync/atomic"
	"time"

	"github.com/twmb/franz-go/pkg/kadm"
	"github.com/twmb/franz-go/pkg/kfake"
	"github.com/twmb/franz-go/pkg/kgo"
	"github.com/twmb/franz-go/pkg/kmsg"

	"verif/lib/netctl"
	"verif/lib/nrun"
	"verif/lib/nscen"
)

type variant2p struct {
	name     string
	renewIdx int             // which p1 record of the poll is renewed
	moved    []kgo.AckStatus // terminal acks on the records of the moved partition p0
	markAll  bool            // second phase: MarkAcks(AckAccept) without records instead of per-record accepts
}

type bufHook struct {
	n    atomic.Int64
	want int64
	done chan struct{}
}

func (h *bufHook) OnFetchRecordBuffered(*kgo.Record) {
	if h.n.Add(1) == h.want {
		close(h.done)
	}
}

func load2p(x *netctl.Exec, c *kfake.Cluster) {
	h := nscen.Helper(x, c, kgo.RecordPartitioner(kgo.ManualPartitioner()), kgo.ClientID("loader"))
	defer h.Close()
	ctx, cancel := context.WithTimeout(context.Background(), 60*time.Second)
	defer cancel()
	if _, err := kadm.NewClient(h).CreateTopic(ctx, 2, 1, nil, topic); err != nil {
		panic("c12 load2p: create topic: " + err.Error())
	}
	c.MoveTopicPartition(topic, 0, 0)
	c.MoveTopicPartition(topic, 1, 1)
	req := kmsg.NewPtrIncrementalAlterConfigsRequest()
	res := kmsg.NewIncrementalAlterConfigsRequestResource()
	res.ResourceType = kmsg.ConfigResourceTypeGroupConfig
	res.ResourceName = group
	cfg := kmsg.NewIncrementalAlterConfigsRequestResourceConfig()
	cfg.Name = "share.auto.offset.reset"
	cfg.Value = kmsg.StringPtr("earliest")
	res.Configs = append(res.Configs, cfg)
	req.Resources = append(req.Resources, res)
	if resp, err := req.RequestWith(ctx, h); err != nil || resp.Resources[0].ErrorCode != 0 {
		panic(fmt.Sprintf("c12 load2p: group config: %v", err))
	}
	for p := int32(0); p < 2; p++ {
		for i := 0; i < 3; i++ {
			r := &kgo.Record{Topic: topic, Partition: p, Key: []byte(fmt.Sprintf("k%d", i)), Value: []byte(fmt.Sprintf("p%dv%d", p, i))}
			if err := h.ProduceSync(ctx, r).FirstErr(); err != nil {
				panic("c12 load2p: produce: " + err.Error())
			}
		}
	}
}

func scenario2p(v variant2p) *netctl.Scenario {
	return &netctl.Scenario{
		Name:    v.name,
		Faults:  shareFaults,
		Horizon: 4 * time.Minute,
		Setup: func(x *netctl.Exec) {
			c := x.Cluster(2, kfake.BrokerConfigs(map[string]string{
				"group.share.record.lock.duration.ms": "15000",
			}))
			st := &state{x: x, members: map[string]*member{}, confirmed: map[int64]int{}, holes: map[int64]bool{}, present: map[int64]bool{}}
			load2p(x, c)
			x.FrameHook = st.hook
			st.mu.Lock()
			m := st.member("A")
			st.mu.Unlock()
			bh := &bufHook{want: 6, done: make(chan struct{})}
			m.cl = nscen.NewClient(x, "A", c,
				kgo.ConsumeTopics(topic),
				kgo.ShareGroup(group),
				kgo.ShareAckCallback(st.callback("A")),
				kgo.FetchMaxWait(500*time.Millisecond),
				kgo.WithHooks(bh),
			)
			a := &app{st: st, m: m, x: x}
			x.Thread("A", func(t *netctl.Thread) {
				// one poll must return both partitions: wait until both sources buffered
				select {
				case <-bh.done:
				case <-time.After(60 * time.Second):
				}
				t.Step("poll1")
				ctx, cancel := context.WithTimeout(context.Background(), 40*time.Second)
				ps := a.poll(ctx, -1)
				cancel()
				var p0, p1 []*polled
				for _, p := range ps {
					if p.off >= 1000 {
						p1 = append(p1, p)
					} else {
						p0 = append(p0, p)
					}
				}
				t.Step("move-p0-to-b1")
				c.MoveTopicPartition(topic, 0, 1)
				t.Step("idle-migrate") // the client learns the move from b0's next ShareFetch answer
				time.Sleep(2 * time.Second)
				t.Step("ack1") // renew on the unmoved partition, terminal acks on the moved one: one drain
				if v.renewIdx < len(p1) {
					a.ack(p1[v.renewIdx], kgo.AckRenew)
				}
				for i, p := range p0 {
					a.ack(p, v.moved[i%len(v.moved)])
				}
				t.Step("idle-drain")
				time.Sleep(1500 * time.Millisecond)
				t.Step("ack2")
				if v.markAll {
					a.markAll(kgo.AckAccept)
				} else {
					for _, p := range p1 {
						a.ack(p, kgo.AckAccept)
					}
				}
				t.Step("flush")
				a.flush()
				t.Step("close")
				a.close()
			})
			x.Data = &run{st: st, c: c, v: variant{name: v.name}}
		},
		Final: func(x *netctl.Exec) { final(x) },
	}
}

var variants2p = []variant2p{
	{name: "N-2p2b-renew-accept", renewIdx: 0, moved: []kgo.AckStatus{kgo.AckAccept}},
	{name: "N-2p2b-renew-mixed-markall", renewIdx: 1, moved: []kgo.AckStatus{kgo.AckRelease, kgo.AckReject, kgo.AckAccept}, markAll: true},
}

func plans2p() []nrun.Plan {
	var ps []nrun.Plan
	for _, v := range variants2p {
		ps = append(ps, nrun.Plan{Scenario: scenario2p(v), QuickBudget: 1, ThoroughBudget: 2, ThoroughFaultOnlyFrom: 2, Weight: 2})
	}
	return ps
}
