// Package sscen holds the engine-N scenarios of check C12 (share-group
// acknowledgements end to end); checks/c12/c12_test.go runs them.
package sscen

// C12 part N: share-group acknowledgements end to end (engine N).
//
// One or two share-group members (real kgo clients) consume one partition with
// eight offsets from kfake through the netctl proxy. The oracle works from
// (1) the ShareFetch / ShareAcknowledge frames DELIVERED to kfake and the
// responses DELIVERED to the client, decoded in the frame hook, (2) what the
// application did (PollRecords results, Record.Ack / MarkAcks / FlushAcks /
// Close calls) and (3) the ShareAckCallback invocations.

import (
	"context"
	"fmt"
	"sort"
	"strings"
	"sync"
	"time"

	"github.com/twmb/franz-go/pkg/kadm"
	"github.com/twmb/franz-go/pkg/kfake"
	"github.com/twmb/franz-go/pkg/kgo"
	"github.com/twmb/franz-go/pkg/kmsg"

	"verif/lib/netctl"
	"verif/lib/nrun"
	"verif/lib/nscen"
)

const (
	topic = "t"
	group = "sg"

	keyNotAscending = "gap-after-entries-not-ascending" // mapped to the stable class of DESIGN section 5 item 2
	keyAckErrorLost = "kfake-piggyback-ack-error-lost"  // mapped to C12:kfake:piggyback-ack-error-lost-on-parked-fetch
)

type batch struct {
	First, Last int64
	Types       []int8
}

// gk is the key of an offset in the per-offset tables: the offset itself on
// partition 0 (all single-partition scenarios), partition*1000+offset otherwise
// (so "1002" in a message of the two-partition scenarios is offset 2 of p1).
func gk(part int32, off int64) int64 { return int64(part)*1000 + off }

func (b batch) String() string { return fmt.Sprintf("[%d,%d]%v", b.First, b.Last, b.Types) }

// ackReq is one request delivered to kfake that carried acknowledgements.
type ackReq struct {
	member    string
	broker    int
	key       int16
	part      int32
	epoch     int32
	at        int // logical time of delivery to kfake
	batches   []batch
	userAck   bool // any batch with a type other than 0 (gap)
	responded bool // response delivered to the client
	ok        bool // ... and it reported success for the partition
	respAt    int
	retrans   bool // identical re-send of a request whose response never arrived
	invalid   bool // batches malformed, overlapping or not ascending: a broker must answer with an error
}

type pending struct {
	key  int16
	at   int
	acks []*ackReq // one per partition that carried acknowledgement batches
}

type polled struct {
	rec      *kgo.Record
	off      int64
	dcount   int32
	pollIdx  int
	explicit kgo.AckStatus // first terminal status the application set
	renewed  bool
	maybe    kgo.AckStatus // MarkAcks() ran while a renew of this record was or was not yet confirmed: it may or may not have taken this status
	issuedAt int           // logical time the (first) ack of this record was issued by the application; 0 = not yet
}

type member struct {
	name      string
	cl        *kgo.Client
	polls     int // PollRecords calls begun
	closing   bool
	records   []*polled
	deliv     map[int64]int // offset -> acquisitions delivered to this client
	finals    map[int64]int // offset -> final (0,1,2,3) acks delivered to kfake (logical)
	reqs      []*ackReq
	pend      map[string]map[int32]*pending
	cbRun     int // callback invocations
	cbNil     int // nil results for the partition
	cbErr     int // non-nil results
	cbErrAt   int // logical time of the last error result
	cbErrs    []string
	okAll     int // acknowledgement-carrying responses delivered that reported success (gap-only ones included)
	okResps   int // user-ack-bearing responses delivered that reported success
	userResps int // user-ack-bearing responses delivered
	flushes   []string
}

type state struct {
	mu        sync.Mutex
	x         *netctl.Exec
	clock     int
	members   map[string]*member
	order     []string
	holes     map[int64]bool
	present   map[int64]bool
	confirmed map[int64]int // offset -> logical time an accept/reject was answered with success
	retrans   int
	notes     []string
}

func (st *state) tick() int { st.clock++; return st.clock }

func (st *state) member(name string) *member {
	m := st.members[name]
	if m == nil {
		m = &member{name: name, deliv: map[int64]int{}, finals: map[int64]int{}, pend: map[string]map[int32]*pending{}}
		st.members[name] = m
		st.order = append(st.order, name)
	}
	return m
}

func corrOfReq(frame []byte) int32 {
	return int32(uint32(frame[8])<<24 | uint32(frame[9])<<16 | uint32(frame[10])<<8 | uint32(frame[11]))
}
func corrOfResp(frame []byte) int32 {
	return int32(uint32(frame[4])<<24 | uint32(frame[5])<<16 | uint32(frame[6])<<8 | uint32(frame[7]))
}

func sameBatches(a, b []batch) bool {
	if len(a) != len(b) {
		return false
	}
	for i := range a {
		if a[i].First != b[i].First || a[i].Last != b[i].Last || fmt.Sprint(a[i].Types) != fmt.Sprint(b[i].Types) {
			return false
		}
	}
	return true
}

// allowedTypes: which final types the application's behaviour permits for an
// acknowledgement of off by m (union over all deliveries of off to m).
func (st *state) allowedTypes(m *member, off int64) map[int8]bool {
	al := map[int8]bool{}
	if st.holes[off] {
		al[0] = true
		return al
	}
	n := 0
	for _, p := range m.records {
		if p.off != off {
			continue
		}
		n++
		if p.maybe != 0 {
			al[int8(p.maybe)] = true
		}
		switch {
		case p.explicit != 0:
			al[int8(p.explicit)] = true
		default:
			if m.polls > p.pollIdx {
				al[int8(kgo.AckAccept)] = true // docs: auto-accepted when you poll
			}
			if m.closing {
				al[int8(kgo.AckRelease)] = true // docs: released on leave / close
			}
		}
	}
	if m.deliv[off] > n && m.closing {
		al[int8(kgo.AckRelease)] = true // fetched but never polled: released by close
	}
	return al
}

func (st *state) onAckReq(m *member, c *netctl.Conn, key int16, part int32, epoch int32, isRenew bool, bs []batch) *ackReq {
	x := st.x
	r := &ackReq{member: m.name, broker: c.Broker, key: key, part: part, epoch: epoch, at: st.tick(), batches: bs}
	// (d) ascending and disjoint within the request
	asc, valid := true, true
	cover := map[int64]int{}
	for i, b := range bs {
		if b.First > b.Last || len(b.Types) == 0 || (len(b.Types) > 1 && int64(len(b.Types)) != b.Last-b.First+1) {
			valid = false
		}
		if i > 0 && b.First <= bs[i-1].Last {
			asc = false
		}
		for o := b.First; o <= b.Last && o < b.First+64; o++ {
			cover[o]++
		}
		for _, t := range b.Types {
			if t != 0 {
				r.userAck = true
			}
			if t == 4 && !isRenew {
				x.Violate("renew-without-flag", "%s sent a renew acknowledgement in a request without IsRenewAck: %v", m.name, bs)
			}
		}
	}
	dupInReq := false
	for _, n := range cover {
		if n > 1 {
			dupInReq = true
		}
	}
	r.invalid = !valid || dupInReq || !asc
	switch {
	case !valid:
		x.Violate("batch-malformed", "%s key %d: malformed acknowledgement batch in %v", m.name, key, bs)
	case dupInReq:
		x.Violate("offset-twice-in-request", "%s key %d: an offset is acknowledged by two batches of one request: %v", m.name, key, bs)
	case !asc:
		x.Violate(keyNotAscending, "%s key %d epoch %d: acknowledgement batches of the partition are not ascending: %v (each offset once; sorting by first offset would make the request valid); kfake and Kafka answer INVALID_REQUEST for the partition", m.name, key, epoch, bs)
	}
	// identical re-send after a lost response (transport retry of ShareAcknowledge)
	if key == 79 {
		for _, old := range m.reqs {
			if old.key == 79 && old.part == part && !old.responded && old.broker == r.broker && sameBatches(old.batches, bs) {
				r.retrans = true
				st.retrans++
			}
		}
	}
	m.reqs = append(m.reqs, r)
	if r.retrans {
		return r
	}
	// (a) at most one final acknowledgement per delivery, (c) with the type the application chose
	for _, b := range bs {
		for o := b.First; o <= b.Last && o < b.First+64; o++ {
			t := b.Types[0]
			if len(b.Types) > 1 {
				t = b.Types[o-b.First]
			}
			if t == 4 {
				continue
			}
			o := gk(part, o)
			m.finals[o]++
			if m.finals[o] > m.deliv[o] {
				x.Violate("final-ack-twice", "%s acknowledged offset %d with a final type %d times but it was delivered to it %d times (request key %d epoch %d %v)", m.name, o, m.finals[o], m.deliv[o], key, epoch, bs)
			}
			if al := st.allowedTypes(m, o); !al[t] {
				x.Violate("final-ack-type", "%s acknowledged offset %d with type %d; the application's calls allow %v (request key %d %v)", m.name, o, t, keys(al), key, bs)
			}
		}
	}
	return r
}

func keys(m map[int8]bool) []int {
	var k []int
	for t := range m {
		k = append(k, int(t))
	}
	sort.Ints(k)
	return k
}

// onAckResps handles the response to one wire request that carried
// acknowledgements for one or more partitions (one ackReq each). The client
// invokes the callback once per request, so userResps counts the request once.
func (st *state) onAckResps(m *member, acks []*ackReq, top int16, perr map[int32]int16) {
	user := false
	for _, r := range acks {
		code, found := perr[r.part]
		if st.onAckResp(m, r, top, code, found) {
			user = true
		}
	}
	if user {
		m.userResps++
	}
}

// onAckResp reports whether the partition's batches carried a user acknowledgement.
func (st *state) onAckResp(m *member, r *ackReq, top int16, partErr int16, found bool) bool {
	r.responded = true
	r.respAt = st.tick()
	r.ok = top == 0 && found && partErr == 0
	if r.ok && r.invalid {
		// kfake's validateOneAckBatch rejects such a list (as Kafka does); an
		// answer without an error code means the verdict got lost on the way.
		st.x.Violate(keyAckErrorLost, "%s: request key %d with acknowledgement batches %v (overlapping or not ascending: the broker rejects them and applies nothing) was answered WITHOUT an acknowledgement error; the client reports success to the ShareAckCallback and the records come back later", m.name, r.key, r.batches)
		r.ok = false // do not treat the records as confirmed: the consequence is the same finding
		m.okAll++
		return r.userAck
	}
	if r.ok {
		m.okAll++ // gap-only requests get a (nil) callback result as well
	}
	if !r.userAck || !r.ok {
		return r.userAck
	}
	m.okResps++
	for _, b := range r.batches {
		for o := b.First; o <= b.Last && o < b.First+64; o++ {
			t := b.Types[0]
			if len(b.Types) > 1 {
				t = b.Types[o-b.First]
			}
			if k := gk(r.part, o); (t == 1 || t == 3) && st.confirmed[k] == 0 {
				st.confirmed[k] = r.respAt
			}
		}
	}
	return true
}

func (st *state) hook(c *netctl.Conn, dir string, key, ver int16, frame []byte) {
	if key != 78 && key != 79 {
		return
	}
	st.mu.Lock()
	defer st.mu.Unlock()
	x := st.x
	m := st.member(c.Client)
	if m.pend[c.Name] == nil {
		m.pend[c.Name] = map[int32]*pending{}
	}
	if dir == "req" {
		kreq, corr, ok := netctl.DecodeRequest(frame)
		if !ok {
			x.Violate("harness:decode", "undecodable request key %d", key)
			return
		}
		p := &pending{key: key, at: st.tick()}
		m.pend[c.Name][corr] = p
		type partBatches struct {
			part int32
			bs   []batch
		}
		var byPart []partBatches
		var epoch int32
		var isRenew bool
		switch r := kreq.(type) {
		case *kmsg.ShareFetchRequest:
			epoch, isRenew = r.ShareSessionEpoch, r.IsRenewAck
			for _, t := range r.Topics {
				for _, pt := range t.Partitions {
					var bs []batch
					for _, b := range pt.AcknowledgementBatches {
						bs = append(bs, batch{b.FirstOffset, b.LastOffset, append([]int8(nil), b.AcknowledgeTypes...)})
					}
					if len(bs) > 0 {
						byPart = append(byPart, partBatches{pt.Partition, bs})
					}
				}
			}
		case *kmsg.ShareAcknowledgeRequest:
			epoch, isRenew = r.ShareSessionEpoch, r.IsRenewAck
			for _, t := range r.Topics {
				for _, pt := range t.Partitions {
					var bs []batch
					for _, b := range pt.AcknowledgementBatches {
						bs = append(bs, batch{b.FirstOffset, b.LastOffset, append([]int8(nil), b.AcknowledgeTypes...)})
					}
					if len(bs) > 0 {
						byPart = append(byPart, partBatches{pt.Partition, bs})
					}
				}
			}
		}
		for _, pb := range byPart {
			p.acks = append(p.acks, st.onAckReq(m, c, key, pb.part, epoch, isRenew, pb.bs))
		}
		return
	}
	corr := corrOfResp(frame)
	p := m.pend[c.Name][corr]
	if p == nil {
		return // fabricated answer to a request kfake never saw
	}
	delete(m.pend[c.Name], corr)
	kresp, ok := netctl.DecodeResponse(frame, key, ver)
	if !ok {
		x.Violate("harness:decode", "undecodable response key %d", key)
		return
	}
	switch r := kresp.(type) {
	case *kmsg.ShareFetchResponse:
		if x.Debug {
			for _, t := range r.Topics {
				for _, pt := range t.Partitions {
					x.Logf("  ShareFetch response to %s: top=%d partition %d err=%d ackerr=%d acquired=%v bytes=%d", m.name, r.ErrorCode, pt.Partition, pt.ErrorCode, pt.AcknowledgeErrorCode, pt.AcquiredRecords, len(pt.Records))
				}
			}
		}
		perr := map[int32]int16{} // the client keeps the first entry of a partition and ignores duplicates
		for _, t := range r.Topics {
			for _, pt := range t.Partitions {
				if _, dup := perr[pt.Partition]; !dup {
					perr[pt.Partition] = pt.AcknowledgeErrorCode
				}
				for _, ar := range pt.AcquiredRecords {
					for o := ar.FirstOffset; o <= ar.LastOffset && o < ar.FirstOffset+64; o++ {
						o := gk(pt.Partition, o)
						m.deliv[o]++
						if at := st.confirmed[o]; at != 0 && p.at > at {
							x.Violate("confirmed-record-redelivered", "offset %d was acquired again (delivery count %d, member %s) by a ShareFetch that reached the broker after its accept/reject had been answered without error", o, ar.DeliveryCount, m.name)
						}
					}
				}
			}
		}
		st.onAckResps(m, p.acks, r.ErrorCode, perr)
	case *kmsg.ShareAcknowledgeResponse:
		perr := map[int32]int16{}
		for _, t := range r.Topics {
			for _, pt := range t.Partitions {
				if _, dup := perr[pt.Partition]; !dup {
					perr[pt.Partition] = pt.ErrorCode
				}
			}
		}
		st.onAckResps(m, p.acks, r.ErrorCode, perr)
	}
}

// callback is the ShareAckCallback of member name.
func (st *state) callback(name string) func(*kgo.Client, kgo.ShareAckResults) {
	return func(_ *kgo.Client, rs kgo.ShareAckResults) {
		// A user callback takes time: FlushAcks must still wait for its end
		// (virtual millisecond; everything else runs to quiescence meanwhile).
		time.Sleep(time.Millisecond)
		st.mu.Lock()
		defer st.mu.Unlock()
		m := st.member(name)
		m.cbRun++
		now := st.tick()
		for _, r := range rs {
			if r.Err == nil {
				m.cbNil++
			} else {
				m.cbErr++
				m.cbErrAt = now
				m.cbErrs = append(m.cbErrs, nscen.ErrClass(r.Err))
			}
		}
		if m.cbNil > m.okAll {
			st.x.Violate("callback-nil-without-broker-success", "%s: %d nil results reported by ShareAckCallback but only %d acknowledgement-carrying responses reported success", name, m.cbNil, m.okAll)
		}
	}
}

// ---- application side -------------------------------------------------------

type app struct {
	st *state
	m  *member
	x  *netctl.Exec
}

func (a *app) poll(ctx context.Context, max int) []*polled {
	a.st.mu.Lock()
	a.m.polls++
	idx := a.m.polls
	// docs: records of the previous poll without a terminal ack are accepted now
	now := a.st.tick()
	for _, p := range a.m.records {
		if p.pollIdx == idx-1 && p.explicit == 0 && p.issuedAt == 0 {
			p.issuedAt = now
		}
	}
	a.st.mu.Unlock()
	fs := a.m.cl.PollRecords(ctx, max)
	var out []*polled
	a.st.mu.Lock()
	defer a.st.mu.Unlock()
	fs.EachRecord(func(r *kgo.Record) {
		p := &polled{rec: r, off: gk(r.Partition, r.Offset), dcount: r.DeliveryCount(), pollIdx: idx}
		if p.dcount < 1 {
			a.x.Violate("delivery-count", "%s polled offset %d with DeliveryCount %d", a.m.name, r.Offset, p.dcount)
		}
		if at := a.st.confirmed[gk(r.Partition, r.Offset)]; at != 0 {
			// The record may have been fetched before the confirmation; only a
			// delivery count above every earlier one proves a new acquisition.
			for _, q := range a.m.records {
				if q.off == gk(r.Partition, r.Offset) && (q.explicit == kgo.AckAccept || q.explicit == kgo.AckReject) && p.dcount > q.dcount {
					a.x.Violate("confirmed-record-redelivered", "%s polled offset %d again (delivery count %d) after its accept/reject was answered without error", a.m.name, r.Offset, p.dcount)
				}
			}
		}
		a.m.records = append(a.m.records, p)
		out = append(out, p)
	})
	return out
}

func (a *app) ack(p *polled, s kgo.AckStatus) {
	a.st.mu.Lock()
	if s == kgo.AckRenew {
		if p.explicit == 0 {
			p.renewed = true
		}
	} else if p.explicit == 0 {
		p.explicit = s
	}
	if p.issuedAt == 0 {
		p.issuedAt = a.st.tick()
	}
	a.st.mu.Unlock()
	p.rec.Ack(s)
}

func (a *app) markAll(s kgo.AckStatus) {
	a.st.mu.Lock()
	now := a.st.tick()
	for _, p := range a.m.records {
		if p.pollIdx == a.m.polls && p.explicit == 0 && p.renewed {
			// A confirmed renew puts the record back to "undecided", which
			// MarkAcks() then marks; an unconfirmed one is left alone.
			p.maybe = s
		}
		if p.pollIdx == a.m.polls && p.explicit == 0 && !p.renewed {
			p.explicit = s
			if p.issuedAt == 0 {
				p.issuedAt = now
			}
		}
	}
	a.st.mu.Unlock()
	a.m.cl.MarkAcks(s)
}

func (a *app) mark(s kgo.AckStatus, ps ...*polled) {
	var rs []*kgo.Record
	a.st.mu.Lock()
	now := a.st.tick()
	for _, p := range ps {
		if p.explicit == 0 {
			p.explicit = s
		}
		if p.issuedAt == 0 {
			p.issuedAt = now
		}
		rs = append(rs, p.rec)
	}
	a.st.mu.Unlock()
	if len(rs) > 0 {
		a.m.cl.MarkAcks(s, rs...)
	}
}

// flush calls FlushAcks and checks (e): when it returns nil, every
// acknowledgement issued before the call has been answered (or was reported as
// failed through the callback) and the callback of every answered
// acknowledgement request has run.
func (a *app) flush() {
	a.st.mu.Lock()
	callAt := a.st.tick()
	a.st.mu.Unlock()
	ctx, cancel := context.WithTimeout(context.Background(), 90*time.Second)
	err := a.m.cl.FlushAcks(ctx)
	cancel()
	a.st.mu.Lock()
	defer a.st.mu.Unlock()
	m := a.m
	if err != nil {
		m.flushes = append(m.flushes, "flush="+nscen.ErrClass(err))
		return
	}
	m.flushes = append(m.flushes, "flush=ok")
	if m.cbRun < m.userResps {
		a.x.Violate("flush-before-callback", "%s: FlushAcks returned nil after %d callback invocations although %d acknowledgement responses had been delivered", m.name, m.cbRun, m.userResps)
	}
	for _, p := range m.records {
		if p.issuedAt == 0 || p.issuedAt > callAt {
			continue
		}
		done := false
		for _, r := range m.reqs {
			if !r.responded || r.at < p.issuedAt {
				continue
			}
			for _, b := range r.batches {
				if k := gk(r.part, 0); k+b.First <= p.off && p.off <= k+b.Last && p.off/1000 == int64(r.part) {
					done = true
				}
			}
		}
		if !done && m.cbErrAt > p.issuedAt {
			done = true // reported as failed through the callback
		}
		if !done {
			a.x.Violate("flush-returned-early", "%s: FlushAcks returned nil but the acknowledgement of offset %d issued before it has neither been answered by the broker nor been reported through the callback", m.name, p.off)
		}
	}
}

func (a *app) close() {
	a.st.mu.Lock()
	a.m.closing = true
	now := a.st.tick()
	for _, p := range a.m.records {
		if p.explicit == 0 && p.issuedAt == 0 {
			p.issuedAt = now
		}
	}
	a.st.mu.Unlock()
	a.m.cl.Close()
}

// ---- scenario ---------------------------------------------------------------

type variant struct {
	name      string
	compacted bool
	two       bool   // second member B joins after A's first poll and leaves
	moveAt    string // "", "poll1", "ack1b": leader move becomes enabled after that step of A
	piggy     bool   // no renew and no FlushAcks after the first poll: the acknowledgements ride on the next ShareFetch
	pollMax   int
}

func shareFaults(x *netctl.Exec, dir string, key int16, c *netctl.Conn) []string {
	switch {
	case (key == 78 || key == 79) && dir == "req":
		return []string{"killbefore", "errtop:122", "errtop:123"}
	case key == 79 && dir == "resp":
		return []string{"killafter"}
	}
	return nil
}

// load creates the topic, sets share.auto.offset.reset=earliest for the group
// and pre-loads the partition; returns which offsets hold a record.
func load(x *netctl.Exec, c *kfake.Cluster, v variant) (present, holes map[int64]bool) {
	present, holes = map[int64]bool{}, map[int64]bool{}
	h := nscen.Helper(x, c, kgo.RecordPartitioner(kgo.ManualPartitioner()), kgo.ProducerLinger(50*time.Millisecond), kgo.ClientID("loader"))
	defer h.Close()
	ctx, cancel := context.WithTimeout(context.Background(), 60*time.Second)
	defer cancel()
	cfgs := map[string]*string{}
	if v.compacted {
		cfgs["cleanup.policy"] = kmsg.StringPtr("compact")
	}
	if _, err := kadm.NewClient(h).CreateTopic(ctx, 1, 1, cfgs, topic); err != nil {
		panic("c12 load: create topic: " + err.Error())
	}
	c.MoveTopicPartition(topic, 0, 0)
	req := kmsg.NewPtrIncrementalAlterConfigsRequest()
	res := kmsg.NewIncrementalAlterConfigsRequestResource()
	res.ResourceType = kmsg.ConfigResourceTypeGroupConfig
	res.ResourceName = group
	cfg := kmsg.NewIncrementalAlterConfigsRequestResourceConfig()
	cfg.Name = "share.auto.offset.reset"
	cfg.Value = kmsg.StringPtr("earliest")
	res.Configs = append(res.Configs, cfg)
	req.Resources = append(req.Resources, res)
	if resp, err := req.RequestWith(ctx, h); err != nil || resp.Resources[0].ErrorCode != 0 {
		panic(fmt.Sprintf("c12 load: group config: %v", err))
	}
	rec := func(k string, i int) *kgo.Record {
		return &kgo.Record{Topic: topic, Partition: 0, Key: []byte(k), Value: []byte(fmt.Sprintf("v%d", i))}
	}
	must := func(rs ...*kgo.Record) {
		if err := h.ProduceSync(ctx, rs...).FirstErr(); err != nil {
			panic("c12 load: produce: " + err.Error())
		}
	}
	if !v.compacted {
		for i := 0; i < 8; i++ {
			must(rec(fmt.Sprintf("k%d", i), i))
		}
	} else {
		// batch 1: offsets 0..4 (k1,k2 superseded below), batch 2: offsets 5,6,
		// batch 3 (active segment): offset 7. After compaction batch 1 keeps
		// offsets 0,3,4 and still spans 0..4: offsets 1,2 are holes INSIDE a
		// batch, which kfake acquires and the client must acknowledge as gaps.
		must(rec("k0", 0), rec("k1", 1), rec("k2", 2), rec("k3", 3), rec("k4", 4))
		must(rec("k1", 5), rec("k2", 6))
		must(rec("k5", 7))
		c.Compact()
	}
	for _, r := range nscen.ReadRaw(x, c, topic, 0) {
		present[r.Offset] = true
	}
	for o := int64(0); o < 8; o++ {
		if !present[o] {
			holes[o] = true
		}
	}
	want := 8
	if v.compacted {
		want = 6
		if !holes[1] || !holes[2] {
			x.Violate("harness:compaction", "expected holes at offsets 1,2 after compaction, log holds %v", present)
		}
	}
	if len(present) != want {
		x.Violate("harness:load", "expected %d records in the log, found %v", want, present)
	}
	return
}

func find(ps []*polled, off int64) *polled {
	for _, p := range ps {
		if p.off == off {
			return p
		}
	}
	return nil
}

func scenario(v variant) *netctl.Scenario {
	return &netctl.Scenario{
		Name:    v.name,
		Faults:  shareFaults,
		Horizon: 4 * time.Minute,
		Setup: func(x *netctl.Exec) {
			c := x.Cluster(2, kfake.BrokerConfigs(map[string]string{
				"group.share.record.lock.duration.ms": "15000",
			}))
			st := &state{x: x, members: map[string]*member{}, confirmed: map[int64]int{}}
			st.present, st.holes = load(x, c, v)
			x.FrameHook = st.hook
			newMember := func(name string, wait time.Duration) *app {
				st.mu.Lock()
				m := st.member(name)
				st.mu.Unlock()
				m.cl = nscen.NewClient(x, name, c,
					kgo.ConsumeTopics(topic),
					kgo.ShareGroup(group),
					kgo.ShareAckCallback(st.callback(name)),
					kgo.FetchMaxWait(wait),
				)
				return &app{st: st, m: m, x: x}
			}
			a := newMember("A", 500*time.Millisecond)
			afterPoll1 := make(chan struct{})
			afterAck1b := make(chan struct{})
			aDone := make(chan struct{})
			// B is declared first: once it may join, its steps are taken as soon as
			// they are enabled, so the two members overlap on the default schedule.
			if v.two {
				x.Thread("B", func(t *netctl.Thread) {
					// B joins after A's first poll (its fetch long-poll is 700 ms, A's
					// 500 ms, so the two clients' fetch timers stay off each other's grid).
					<-afterPoll1
					t.Step("b-join")
					b := newMember("B", 700*time.Millisecond)
					t.Step("b-poll")
					ctx, cancel := context.WithTimeout(context.Background(), 4*time.Second)
					pb := b.poll(ctx, -1)
					cancel()
					t.Step("b-mark-all")
					_ = pb
					b.markAll(kgo.AckAccept) // MarkAcks without records: everything of the last poll not yet marked
					t.Step("b-close")
					b.close()
				})
			}
			x.Thread("A", func(t *netctl.Thread) {
				defer close(aDone)
				t.Step("poll1")
				ctx, cancel := context.WithTimeout(context.Background(), 40*time.Second)
				p1 := a.poll(ctx, v.pollMax)
				cancel()
				close(afterPoll1)
				t.Step("ack1")
				// lowest: accept, second: release, third: reject (plain) / renew, fourth: renew
				var renewed []*polled
				for i, p := range p1 {
					if v.piggy {
						a.ack(p, []kgo.AckStatus{kgo.AckAccept, kgo.AckReject, kgo.AckAccept, kgo.AckReject}[i%4])
						continue
					}
					switch i {
					case 0:
						a.ack(p, kgo.AckAccept)
					case 1:
						a.ack(p, kgo.AckRelease)
					case 2:
						if len(p1) > 3 {
							a.ack(p, kgo.AckReject)
						} else {
							a.ack(p, kgo.AckRenew)
							renewed = append(renewed, p)
						}
					case 3:
						a.ack(p, kgo.AckRenew)
						renewed = append(renewed, p)
					}
				}
				if !v.piggy {
					t.Step("flush1")
					a.flush()
				}
				t.Step("ack1b")
				for _, p := range renewed {
					a.ack(p, kgo.AckReject) // renew then terminal
				}
				if len(p1) > 0 {
					a.ack(p1[0], kgo.AckRelease) // terminal after terminal: must be ignored
				}
				close(afterAck1b)
				t.Step("poll2")
				ctx, cancel = context.WithTimeout(context.Background(), 10*time.Second)
				p2 := a.poll(ctx, v.pollMax)
				cancel()
				t.Step("mark2")
				if len(p2) > 0 { // renew immediately followed by the terminal: two queue entries of one record in one drain
					a.ack(p2[0], kgo.AckRenew)
					a.ack(p2[0], kgo.AckAccept)
				}
				if len(p2) > 1 {
					a.mark(kgo.AckReject, p2[1])
				}
				if len(p2) > 2 { // renew with no terminal ack: left to poll3's auto-accept while the renew is still unconfirmed
					a.ack(p2[2], kgo.AckRenew)
				}
				t.Step("poll3") // leaves the rest of poll2 to the auto-accept
				ctx, cancel = context.WithTimeout(context.Background(), 3*time.Second)
				a.poll(ctx, v.pollMax)
				cancel()
				t.Step("close") // whatever poll3 returned is released
				a.close()
			})
			if v.moveAt != "" {
				x.Thread("ENV", func(t *netctl.Thread) {
					switch v.moveAt {
					case "poll1":
						<-afterPoll1
					case "ack1b":
						<-afterAck1b
					}
					t.Step("move-leader-to-b1")
					c.MoveTopicPartition(topic, 0, 1)
				})
			}
			x.Data = &run{st: st, c: c, v: v}
		},
		Final: func(x *netctl.Exec) { final(x) },
	}
}

type run struct {
	st *state
	c  *kfake.Cluster
	v  variant
}

func final(x *netctl.Exec) {
	rn := x.Data.(*run)
	st := rn.st
	// Let callbacks of the close path finish.
	time.Sleep(200 * time.Millisecond)

	// Verifier: a fresh, uncontrolled member consumes whatever the group still
	// hands out (waits past the acquisition lock duration): nothing whose
	// accept/reject was answered without error may come back.
	ver := nscen.Helper(x, rn.c, kgo.ConsumeTopics(topic), kgo.ShareGroup(group), kgo.ClientID("verifier"), kgo.FetchMaxWait(500*time.Millisecond))
	got := map[int64]int32{}
	deadline := time.Now().Add(25 * time.Second)
	for time.Now().Before(deadline) {
		ctx, cancel := context.WithTimeout(context.Background(), 2*time.Second)
		fs := ver.PollRecords(ctx, -1)
		cancel()
		fs.EachRecord(func(r *kgo.Record) {
			got[gk(r.Partition, r.Offset)] = r.DeliveryCount()
			r.Ack(kgo.AckAccept)
		})
	}
	ver.Close()

	st.mu.Lock()
	defer st.mu.Unlock()
	for o, dc := range got {
		if st.confirmed[o] != 0 {
			x.Violate("confirmed-record-redelivered", "offset %d (delivery count %d) was delivered to a later member although its accept/reject had been answered without error and reported to the callback", o, dc)
		}
	}
	var parts []string
	for _, name := range st.order {
		m := st.members[name]
		// (c) liveness: with no failed acknowledgement reported, every delivery
		// the application saw has had its final acknowledgement sent.
		count := map[int64]int{}
		for _, p := range m.records {
			count[p.off]++
		}
		if m.cbErr == 0 {
			for o, n := range count {
				if m.finals[o] < n {
					x.Violate("ack-never-sent", "%s polled offset %d %d time(s) and no acknowledgement failure was reported, but only %d final acknowledgement(s) of it reached the broker by the time Close returned", name, o, n, m.finals[o])
				}
			}
		}
		if m.cbRun < m.userResps {
			x.Violate("callback-missing", "%s: %d acknowledgement responses delivered, %d callback invocations", name, m.userResps, m.cbRun)
		}
		var offs []string
		for _, p := range m.records {
			offs = append(offs, fmt.Sprintf("%d/%d", p.off, p.dcount))
		}
		var wire []string
		for _, r := range m.reqs {
			s := fmt.Sprintf("%d:", r.key)
			if r.part != 0 {
				s += fmt.Sprintf("p%d", r.part)
			}
			for _, b := range r.batches {
				s += b.String()
			}
			switch {
			case r.retrans:
				s += "=resend"
			case !r.responded:
				s += "=lost"
			case r.ok:
				s += "=ok"
			default:
				s += "=err"
			}
			wire = append(wire, s)
		}
		errs := append([]string(nil), m.cbErrs...)
		sort.Strings(errs)
		parts = append(parts, fmt.Sprintf("%s{polled %s wire %s cbnil=%d cberr=%v %s}", name, strings.Join(offs, ","), strings.Join(wire, " "), m.cbNil, errs, strings.Join(m.flushes, ",")))
	}
	var vg []string
	for o, dc := range got {
		vg = append(vg, fmt.Sprintf("%d/%d", o, dc))
	}
	sort.Strings(vg)
	if st.retrans > 0 {
		x.Count("ack_request_resent_after_lost_response", st.retrans)
	}
	x.Observe("%s verifier=%v", strings.Join(parts, " "), vg)
}

var variants = []variant{
	{name: "N-plain", pollMax: 4},
	{name: "N-compact", compacted: true, pollMax: 3},
	{name: "N-plain-move1", pollMax: 4, moveAt: "poll1"},
	{name: "N-compact-move2", compacted: true, pollMax: 3, moveAt: "ack1b"},
	{name: "N-compact-piggy", compacted: true, pollMax: 3, piggy: true},
	{name: "N-two", pollMax: 4, two: true},
	{name: "N-two-compact", compacted: true, pollMax: 3, two: true},
}

// Plans returns the C12 scenarios. Quick: every single deviation on all seven
// scenarios. Thorough: single member without leader move: every pair of
// deviations and every triple of faults; with a leader move or two members:
// every pair whose second deviation is a fault (after a fault).
func Plans() (ps []nrun.Plan) {
	defer func() { ps = append(ps, plans2p()...) }()
	for _, v := range variants {
		p := nrun.Plan{Scenario: scenario(v), QuickBudget: 1, ThoroughBudget: 2, Weight: 1}
		switch {
		case v.two:
			p.ThoroughFaultOnlyFrom = 2
			p.Weight = 2
		case v.moveAt != "":
			p.ThoroughFaultOnlyFrom = 2
			p.Weight = 2
		default:
			p.ThoroughBudget, p.ThoroughFaultOnlyFrom = 3, 3
			p.Weight = 3
		}
		ps = append(ps, p)
	}
	return ps
}

// KeyOf maps a scenario violation to its stable class.
func KeyOf(scenario, key string) string {
	if key == keyNotAscending {
		return "C12:buildAckRanges:gap-after-entries-not-ascending"
	}
	if key == keyAckErrorLost {
		return "C12:kfake:piggyback-ack-error-lost-on-parked-fetch"
	}
	return "C12:" + scenario + ":" + key
}
