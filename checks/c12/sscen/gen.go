package sscen

// Generated family "G": exhaustive enumeration of application ACK SCRIPTS.
//
// The hand-written scenarios explore schedules around one fixed script; the
// oracles are generic, so here the script itself is the enumerated input. One
// member, one partition with eight offsets: PollRecords(3), per-record
// actions, optional flush, PollRecords(3), per-record actions, optional flush,
// a third poll (auto-accept of what poll 2 left) and Close (release).
//
// A script is named by a compact encoding (also the scenario name, so that
// VERIF_SCENARIO=<name> re-runs exactly it):
//
//	G:<p|c>:<n|f|m>:<3 action letters of poll 1>:<3 action letters of poll 2>[:<3 action letters of poll 3>:<0|t|l>]
//
//	p plain partition, c compacted partition (offsets 1,2 are holes in a batch)
//	n no FlushAcks (the acks ride on the next ShareFetch / the ack timer)
//	f FlushAcks after the acks of each poll
//	m MarkAcks(AckAccept) without records, then FlushAcks, after each poll
//	actions: - nothing   a accept   r release   j reject   n renew
//	         A renew then accept   J renew then reject   x accept then release (ignored)
//	idle before Close: 0 none, t 3 s (longer than the 1 s ack timer and the 500 ms
//	fetch long-poll: pending acks, renews included, must ride on a ShareFetch
//	or a standalone ShareAcknowledge), l 22 s (longer than the 15 s record lock
//	plus kfake's 5 s sweep). The suffix is omitted when poll 3 gets no action
//	and there is no idle period.
//
// The whole family is ONE exploration: decision point 0 of every execution is
// "which script" with all scripts as zero-cost alternatives (so the explorer's
// worker pool runs them in parallel, in the fixed order of Names); the points
// after it are the ordinary netctl points of that script's execution.

import (
	"context"
	"fmt"
	"os"
	"strings"
	"testing"
	"time"

	"github.com/twmb/franz-go/pkg/kfake"
	"github.com/twmb/franz-go/pkg/kgo"

	"verif/lib/explore"
	"verif/lib/netctl"
	"verif/lib/nscen"
)

const genActions = "-arjnAJx"

type genScript struct {
	compacted bool
	flush     byte // n f m
	p1, p2    string
	p3        string // "" = "---"
	idle      byte   // 0 (also the zero value) t l
}

func (g genScript) norm() genScript {
	if g.p3 == "" {
		g.p3 = "---"
	}
	if g.idle == 0 {
		g.idle = '0'
	}
	return g
}

func (g genScript) idleFor() time.Duration {
	switch g.norm().idle {
	case 't':
		return 3 * time.Second
	case 'l':
		return 22 * time.Second
	}
	return 0
}

func (g genScript) name() string {
	part := "p"
	if g.compacted {
		part = "c"
	}
	g = g.norm()
	if g.p3 == "---" && g.idle == '0' {
		return fmt.Sprintf("G:%s:%c:%s:%s", part, g.flush, g.p1, g.p2)
	}
	return fmt.Sprintf("G:%s:%c:%s:%s:%s:%c", part, g.flush, g.p1, g.p2, g.p3, g.idle)
}

func parseGen(name string) (genScript, bool) {
	f := strings.Split(name, ":")
	if len(f) == 5 {
		f = append(f, "---", "0")
	}
	if len(f) != 7 || f[0] != "G" || len(f[1]) != 1 || len(f[2]) != 1 || len(f[3]) != 3 || len(f[4]) != 3 || len(f[5]) != 3 || len(f[6]) != 1 {
		return genScript{}, false
	}
	if !strings.Contains("pc", f[1]) || !strings.Contains("nfm", f[2]) || !strings.Contains("0tl", f[6]) {
		return genScript{}, false
	}
	for _, c := range f[3] + f[4] + f[5] {
		if !strings.ContainsRune(genActions, c) {
			return genScript{}, false
		}
	}
	return genScript{compacted: f[1] == "c", flush: f[2][0], p1: f[3], p2: f[4], p3: f[5], idle: f[6][0]}, true
}

// IsGenName reports whether a scenario name belongs to the generated family.
func IsGenName(s string) bool { _, ok := parseGen(s); return ok }

const (
	genFixedP1 = "xn-" // poll 1 while poll 2 is enumerated: ignored second terminal, renew left alone, nothing
	genFixedP2 = "n-j" // poll 2 while poll 1 is enumerated: renew left to poll 3's auto-accept, nothing, reject
)

// GenFamily describes one sub-family for the evidence.
type GenFamily struct {
	Name  string
	Count int
	Names []string
}

// GenNames returns the scripts in their fixed enumeration order (round robin
// over the sub-families) and the sub-families. Plain partition: for each flush mode all 512
// assignments for poll 1 (poll 2 fixed), all 512 for poll 2 (poll 1 fixed),
// and every pair (action on record i of poll 1, action on record j of poll 2)
// with nothing on the other records. Compacted partition: the pair family and
// the "same action on all three records" diagonal only.
func GenNames() ([]string, []GenFamily) {
	if only := os.Getenv("VERIF_SCENARIO"); only != "" {
		if IsGenName(only) {
			return []string{only}, []GenFamily{{"single", 1, []string{only}}}
		}
		if only != "G" { // VERIF_SCENARIO=G: the whole family and nothing else
			return nil, nil
		}
	}
	var names []string
	var fams []GenFamily
	seen := map[string]bool{}
	add := func(fam *GenFamily, g genScript) {
		n := g.name()
		if !seen[n] {
			seen[n] = true
			fam.Names = append(fam.Names, n)
			fam.Count++
		}
	}
	all3 := func(f func(s string)) {
		for _, a := range genActions {
			for _, b := range genActions {
				for _, c := range genActions {
					f(string([]rune{a, b, c}))
				}
			}
		}
	}
	pairs := func(f func(p1, p2 string)) {
		for i := 0; i < 3; i++ {
			for _, a := range genActions {
				for j := 0; j < 3; j++ {
					for _, b := range genActions {
						p1, p2 := []byte("---"), []byte("---")
						p1[i], p2[j] = byte(a), byte(b)
						f(string(p1), string(p2))
					}
				}
			}
		}
	}
	for _, compacted := range []bool{false, true} {
		part := "plain"
		if compacted {
			part = "compacted"
		}
		for _, fl := range []byte("nfm") {
			fp := GenFamily{Name: fmt.Sprintf("%s/flush=%c/pairs", part, fl)}
			pairs(func(p1, p2 string) { add(&fp, genScript{compacted: compacted, flush: fl, p1: p1, p2: p2}) })
			fams = append(fams, fp)
			// third poll and idle period before Close: the same action on all of
			// poll 3's records, every idle period (polls 1 and 2 fixed)
			ft := GenFamily{Name: fmt.Sprintf("%s/flush=%c/poll3-uniform-x-idle", part, fl)}
			for _, idle := range []byte("0tl") {
				for _, a := range genActions {
					add(&ft, genScript{compacted, fl, genFixedP1, genFixedP2, strings.Repeat(string(a), 3), idle})
				}
			}
			fams = append(fams, ft)
			if !compacted {
				// one action on one record of poll 3, every idle period, nothing else acknowledged
				f3 := GenFamily{Name: fmt.Sprintf("%s/flush=%c/poll3-single-x-idle", part, fl)}
				for _, idle := range []byte("0tl") {
					for i := 0; i < 3; i++ {
						for _, a := range genActions {
							p3 := []byte("---")
							p3[i] = byte(a)
							add(&f3, genScript{compacted, fl, "---", "---", string(p3), idle})
						}
					}
				}
				fams = append(fams, f3)
				if fl != 'm' {
					// every pair (action on record i of poll 2, action on record j of poll 3), idle t
					f23 := GenFamily{Name: fmt.Sprintf("%s/flush=%c/pairs-poll2-poll3-idle=t", part, fl)}
					pairs(func(p2, p3 string) { add(&f23, genScript{compacted, fl, "---", p2, p3, 't'}) })
					fams = append(fams, f23)
				}
			}
			if compacted {
				fd := GenFamily{Name: fmt.Sprintf("%s/flush=%c/diagonal", part, fl)}
				for _, a := range genActions {
					for _, b := range genActions {
						add(&fd, genScript{compacted: compacted, flush: fl, p1: strings.Repeat(string(a), 3), p2: strings.Repeat(string(b), 3)})
					}
				}
				fams = append(fams, fd)
				continue
			}
			f1 := GenFamily{Name: fmt.Sprintf("%s/flush=%c/all-of-poll1", part, fl)}
			all3(func(s string) { add(&f1, genScript{compacted: compacted, flush: fl, p1: s, p2: genFixedP2}) })
			fams = append(fams, f1)
			f2 := GenFamily{Name: fmt.Sprintf("%s/flush=%c/all-of-poll2", part, fl)}
			all3(func(s string) { add(&f2, genScript{compacted: compacted, flush: fl, p1: genFixedP1, p2: s}) })
			fams = append(fams, f2)
		}
	}
	// Fixed order: round robin over the sub-families, so that a time slice
	// that ends early has still taken scripts of every family.
	for i := 0; ; i++ {
		more := false
		for _, f := range fams {
			if i < len(f.Names) {
				names = append(names, f.Names[i])
				more = true
			}
		}
		if !more {
			break
		}
	}
	return names, fams
}

// GenDeviate reports whether single schedule deviations are explored around a
// script in the thorough tier: the same action on all three records of one
// poll with the fixed other poll, plain partition, every flush mode (48), plus
// the uniform actions on poll 3 with the 3 s idle period and no flush (8).
func GenDeviate(name string) bool {
	g, ok := parseGen(name)
	if !ok || g.compacted {
		return false
	}
	uniform := func(s string) bool { return s[0] == s[1] && s[1] == s[2] }
	if g.p3 != "---" || g.idle != '0' {
		return g.flush == 'n' && g.idle == 't' && uniform(g.p3) && g.p1 == genFixedP1 && g.p2 == genFixedP2
	}
	return (uniform(g.p1) && g.p2 == genFixedP2) || (uniform(g.p2) && g.p1 == genFixedP1)
}

func (a *app) act(p *polled, action byte) {
	switch action {
	case 'a':
		a.ack(p, kgo.AckAccept)
	case 'r':
		a.ack(p, kgo.AckRelease)
	case 'j':
		a.ack(p, kgo.AckReject)
	case 'n':
		a.ack(p, kgo.AckRenew)
	case 'A':
		a.ack(p, kgo.AckRenew)
		a.ack(p, kgo.AckAccept)
	case 'J':
		a.ack(p, kgo.AckRenew)
		a.ack(p, kgo.AckReject)
	case 'x':
		a.ack(p, kgo.AckAccept)
		a.ack(p, kgo.AckRelease) // terminal after terminal: ignored
	}
}

func genScenario(g genScript) *netctl.Scenario {
	g = g.norm()
	v := variant{name: g.name(), compacted: g.compacted, pollMax: 3}
	return &netctl.Scenario{
		Name:    v.name,
		Faults:  shareFaults,
		Horizon: 4 * time.Minute,
		Setup: func(x *netctl.Exec) {
			c := x.Cluster(2, kfake.BrokerConfigs(map[string]string{
				"group.share.record.lock.duration.ms": "15000",
			}))
			st := &state{x: x, members: map[string]*member{}, confirmed: map[int64]int{}}
			st.present, st.holes = load(x, c, v)
			x.FrameHook = st.hook
			st.mu.Lock()
			m := st.member("A")
			st.mu.Unlock()
			m.cl = nscen.NewClient(x, "A", c,
				kgo.ConsumeTopics(topic),
				kgo.ShareGroup(group),
				kgo.ShareAckCallback(st.callback("A")),
				kgo.FetchMaxWait(500*time.Millisecond),
			)
			a := &app{st: st, m: m, x: x}
			round := func(t *netctl.Thread, n int, actions string, wait time.Duration) {
				t.Step(fmt.Sprintf("poll%d", n))
				ctx, cancel := context.WithTimeout(context.Background(), wait)
				ps := a.poll(ctx, 3)
				cancel()
				t.Step(fmt.Sprintf("ack%d", n))
				for i, p := range ps {
					if i < len(actions) {
						a.act(p, actions[i])
					}
				}
				switch g.flush {
				case 'f':
					t.Step(fmt.Sprintf("flush%d", n))
					a.flush()
				case 'm':
					t.Step(fmt.Sprintf("markall-flush%d", n))
					a.markAll(kgo.AckAccept)
					a.flush()
				}
			}
			x.Thread("A", func(t *netctl.Thread) {
				round(t, 1, g.p1, 40*time.Second)
				round(t, 2, g.p2, 10*time.Second)
				// poll 3: what poll 2 left unacknowledged is accepted here
				round(t, 3, g.p3, 3*time.Second)
				if d := g.idleFor(); d > 0 {
					t.Step("idle") // the application does nothing; frames and timers go on
					time.Sleep(d)
				}
				t.Step("close") // what is still unacknowledged is released
				a.close()
			})
			x.Data = &run{st: st, c: c, v: v}
		},
		Final: func(x *netctl.Exec) { final(x) },
	}
}

// GenScenario returns the scenario of a generated name (nil if it is none).
func GenScenario(name string) *netctl.Scenario {
	g, ok := parseGen(name)
	if !ok {
		return nil
	}
	return genScenario(g)
}

// GenRunJob executes one job of the family exploration in a worker: point 0
// selects the script (Prefix[0] = index into GenNames, Labels[0] = its name),
// the rest of the prefix is the netctl choice sequence of that script.
func GenRunJob(t *testing.T, job explore.Job) explore.Result {
	names, _ := GenNames()
	if len(names) == 0 {
		return explore.Result{Crash: "generated family is empty"}
	}
	idx := 0
	if len(job.Prefix) > 0 {
		idx = job.Prefix[0]
	}
	if idx >= len(names) || (len(job.Labels) > 0 && job.Labels[0] != "" && job.Labels[0] != names[idx]) {
		return explore.Result{Crash: fmt.Sprintf("script index %d does not match the family of this binary", idx)}
	}
	sc := GenScenario(names[idx])
	sub := explore.Job{Scenario: sc.Name, Cost: job.Cost, Kinds: job.Kinds}
	if len(job.Prefix) > 1 {
		sub.Prefix = job.Prefix[1:]
	}
	if len(job.Labels) > 1 {
		sub.Labels = job.Labels[1:]
	}
	res := netctl.Run(t, sc, sub)
	for try := 0; res.Diverged && try < 2; try++ {
		res = netctl.Run(t, sc, sub)
	}
	p0 := explore.Point{Chosen: idx}
	if len(job.Prefix) == 0 {
		p0.Labels = names
		p0.Costs = make([]int, len(names))
	} // else: expand() never looks at the alternatives of a point inside the prefix
	res.Points = append([]explore.Point{p0}, res.Points...)
	return res
}
