package c12

// C12: share-group acknowledgements are single, ordered and honoured.
// Part N (engine N, scenarios in ./sscen) runs here; the summaries of parts Q/Q2
// (in-package harness hooks/inpkg/c12_kgo_test.go) and S (./s, engine S over the
// extracted acknowledgement core), both run first by run.sh, are merged into the
// same evidence file just before it is written.

import (
	"encoding/json"
	"fmt"
	"os"
	"os/exec"
	"path/filepath"
	"runtime"
	"strings"
	"testing"
	"time"

	"verif.local/ev"

	"verif/checks/c12/sscen"
	"verif/lib/explore"
	"verif/lib/netctl"
	"verif/lib/nrun"
)

func mergeQ(r *ev.Run) {
	runGenerated(r)
	path := os.Getenv("C12Q_OUT")
	if path == "" {
		if os.Getenv("VERIF_SCENARIO") != "" {
			return // single-scenario debugging run of part N
		}
		ev.InfraError("C12Q_OUT not set: run checks/c12/run.sh (parts Q/Q2 run first)")
	}
	nrun.MergeSummary(r, path, "q")
	spath := os.Getenv("C12S_OUT")
	if spath == "" {
		ev.InfraError("C12S_OUT not set: run checks/c12/run.sh (part S runs before part N)")
	}
	nrun.MergeSummary(r, spath, "s")
	keepArtefacts(path, "q")
	keepArtefacts(spath, "s")
	b, err := os.ReadFile(path)
	if err != nil {
		ev.InfraError("summary of part Q: %v", err)
	}
	var s struct {
		Tier     string
		Samples  []any
		Coverage map[string]any
	}
	if err := json.Unmarshal(b, &s); err != nil {
		ev.InfraError("summary of part Q: %v", err)
	}
	if s.Tier != ev.Tier() {
		ev.InfraError("part Q ran in tier %q, part N in %q", s.Tier, ev.Tier())
	}
	for k, v := range s.Coverage {
		r.Set(k, v)
	}
	for _, x := range s.Samples {
		r.Sample(x)
	}
	r.Assume("part S: struct types are stubs carrying only the fields the extracted functions use; the sender thread transcribes shareAck's drain/build/send/response steps (success path); the fetch loop's wake-ups are no-ops (the sender drains on its own schedule)")
	r.Assume("parts Q/Q2: the harness builds shareConsumer/source/shareCursor/shareAckSlab values by hand (no client); the fetch loop is never started", "part Q2: the sender's response step transcribes shareAck's success path (renew statuses reset, pending counter decremented by the number of drained entries)")
}

// keepArtefacts writes the artefacts of a part's findings to
// violations/C12/<tier>-<part><n>.json as well: ev keeps only the first 20
// artefacts of a run, and on a tree with a defect part N alone reports more
// violating executions than that. (Known findings included: the files are what
// checks/c12/run.sh --replay takes.)
func keepArtefacts(path, part string) {
	b, err := os.ReadFile(path)
	if err != nil {
		return
	}
	var s struct {
		Viol []struct {
			Key, What string
			Artefact  any
		}
	}
	if json.Unmarshal(b, &s) != nil {
		return
	}
	dir := filepath.Join(ev.Root(), "violations", "C12")
	os.MkdirAll(dir, 0o755)
	for i, v := range s.Viol {
		out, _ := json.MarshalIndent(map[string]any{"property": "C12", "key": v.Key, "what": v.What, "artefact": v.Artefact}, "", " ")
		f := filepath.Join(dir, fmt.Sprintf("%s-%s%d.json", ev.Tier(), part, i+1))
		if os.WriteFile(f, out, 0o644) == nil {
			fmt.Printf("  part %s finding %s: artefact %s\n", strings.ToUpper(part), v.Key, f)
		}
	}
}

// runGenerated explores the generated family of ack scripts (sscen/gen.go):
// every script on the default schedule (thorough: plus every single deviation
// around a representative subset), in the fixed order of sscen.GenNames, with
// worker subprocesses of this binary (C12_GEN=1).
func runGenerated(r *ev.Run) {
	names, fams := sscen.GenNames()
	if len(names) == 0 {
		return
	}
	budget := 0
	if ev.Thorough() {
		budget = 1
	}
	limit := ev.Deadline(70*time.Second, 9*time.Minute)
	if d, err := time.ParseDuration(os.Getenv("C12_GEN_TIME")); err == nil {
		limit = time.Now().Add(d)
	}
	start := time.Now()
	var scripts, deviated, execs int64
	done := map[string]bool{}
	obs := map[string]struct{}{}
	nviol := 0
	var firstSamples []any
	nameOf := func(job explore.Job) string {
		if len(job.Prefix) == 0 {
			return names[0]
		}
		return names[job.Prefix[0]]
	}
	st := explore.Explore(explore.Config{
		Scenario: "G", Budget: budget, Workers: ev.Workers(), Deadline: limit, JobTimeout: 3 * time.Minute,
		Subprocess: func() *exec.Cmd {
			cmd := exec.Command(os.Args[0], "-test.run", "^TestC12$", "-test.timeout", "0")
			cmd.Env = append(os.Environ(), "VERIF_WORKER=1", "C12_GEN=1", "GOMAXPROCS=1", "GODEBUG=randautoseed=0")
			if os.Getenv("VERIF_DEBUG") != "" {
				cmd.Stderr = os.Stderr
			}
			return cmd
		},
		Allow: func(parent explore.Job, point int, label string, cost int) bool {
			if cost == 0 {
				return point == 0 // the script choice
			}
			return point > 0 && sscen.GenDeviate(nameOf(parent))
		},
		OnResult: func(job explore.Job, res explore.Result) {
			name := nameOf(job)
			execs++
			if job.Cost == 0 {
				scripts++
				done[name] = true
			} else {
				deviated++
			}
			r.Evals(1)
			r.Traces(1)
			r.States(int64(len(res.Points)))
			r.Transitions(int64(res.Steps))
			r.Distinct("G|" + res.Obs)
			obs[res.Obs] = struct{}{}
			if len(firstSamples) < 2 && job.Cost == 0 {
				firstSamples = append(firstSamples, map[string]any{"scenario": name, "points": len(res.Points) - 1, "obs": res.Obs})
			}
			for k, v := range res.Counters {
				r.Add("counter_"+k, int64(v))
			}
			if res.Crash != "" {
				res.Viol = append(res.Viol, explore.Violation{Key: "worker-crash", What: res.Crash})
			}
			if res.Diverged {
				r.Add("g_diverged", 1)
			}
			for _, v := range res.Viol {
				if nviol < 60 {
					var prefix []int
					var labels []string
					if len(job.Prefix) > 1 {
						prefix, labels = job.Prefix[1:], job.Labels[1:]
					}
					r.Violation(sscen.KeyOf("G", v.Key), fmt.Sprintf("generated script %s, deviations %v: %s", name, job.Kinds, v.What),
						map[string]any{"check": "C12", "scenario": name, "prefix": prefix, "labels": labels, "violation": v})
				}
				nviol++
			}
		},
	})
	for _, s := range firstSamples {
		r.Sample(s)
	}
	// per sub-family: how many of its scripts ran
	famDone := []map[string]any{}
	for _, f := range fams {
		n := 0
		for _, nm := range f.Names {
			if done[nm] {
				n++
			}
		}
		famDone = append(famDone, map[string]any{"family": f.Name, "scripts": f.Count, "executed": n})
	}
	r.Set("g_scripts_total", len(names))
	r.Set("g_scripts_executed", scripts)
	r.Set("g_deviation_executions", deviated)
	r.Set("g_families", famDone)
	r.Set("g_distinct_outcomes", len(obs))
	r.Set("g_budget", budget)
	r.Set("g_violating_executions", nviol)
	r.Set("g_wall_s", time.Since(start).Seconds())
	if st.Cut || int(scripts) < len(names) {
		r.NotExhaustive(fmt.Sprintf("generated ack scripts: time slice ended after %d of %d scripts on the default schedule (fixed enumeration order; %d single-deviation executions)", scripts, len(names), deviated))
	}
	fmt.Printf("  %-28s scripts=%d/%d deviation-execs=%d outcomes=%d diverged=%d cut=%v violating=%d %.1fs\n", "G (generated ack scripts)", scripts, len(names), deviated, len(obs), st.Diverged, st.Cut, nviol, time.Since(start).Seconds())
}

// replayGenerated re-runs the artefact of a generated script in-process.
func replayGenerated(t *testing.T, path string) bool {
	b, err := os.ReadFile(path)
	if err != nil {
		return false
	}
	var a struct {
		Artefact struct {
			Scenario string   `json:"scenario"`
			Prefix   []int    `json:"prefix"`
			Labels   []string `json:"labels"`
		} `json:"artefact"`
	}
	if json.Unmarshal(b, &a) != nil || !sscen.IsGenName(a.Artefact.Scenario) {
		return false
	}
	runtime.GOMAXPROCS(1)
	sc := sscen.GenScenario(a.Artefact.Scenario)
	res := netctl.Run(t, sc, explore.Job{Scenario: sc.Name, Prefix: a.Artefact.Prefix, Labels: a.Artefact.Labels})
	var lab []string
	for _, pt := range res.Points {
		lab = append(lab, pt.Labels[pt.Chosen])
	}
	fmt.Printf("replay %s: points=%d diverged=%v\nschedule: %s\nobs: %s\n", sc.Name, len(res.Points), res.Diverged, strings.Join(lab, " "), res.Obs)
	for _, v := range res.Viol {
		fmt.Printf("VIOLATION-REPLAYED %s: %s\n", v.Key, v.What)
	}
	if len(res.Viol) > 0 {
		os.Exit(1)
	}
	os.Exit(0)
	return true
}

func TestC12(t *testing.T) {
	if explore.IsWorker() && os.Getenv("C12_GEN") == "1" {
		explore.ServeWorker(func(job explore.Job) explore.Result { return sscen.GenRunJob(t, job) })
		return
	}
	if p := os.Getenv("VERIF_REPLAY"); p != "" && !explore.IsWorker() && replayGenerated(t, p) {
		return
	}
	nrun.Main(t, &nrun.Check{
		ID: "C12", TestName: "TestC12", Plans: sscen.Plans(), KeyOf: sscen.KeyOf, Extra: mergeQ,
		QuickTime: 65 * time.Second, ThorTime: 16 * time.Minute,
		Rule: "part N (engine N): every order of application calls (PollRecords with a record limit, Record.Ack accept/release/reject/renew, renew-then-terminal, terminal-after-terminal, MarkAcks, FlushAcks, unacknowledged records left to the next poll and to Close), ShareFetch/ShareAcknowledge/heartbeat frame deliveries, timer ticks and injected faults (connection killed before a ShareFetch/ShareAcknowledge reaches the broker, SHARE_SESSION_NOT_FOUND / INVALID_SHARE_SESSION_EPOCH answers, connection killed after the broker handled a ShareAcknowledge) within k deviations of the default order, for one member on a plain and on a compacted partition (holes inside an acquired range), with a leader move, with a second member joining and leaving, and with two partitions on two brokers where one partition moves between the poll and a drain that holds a live renew next to acks the stale filter drops; distinct = distinct terminal observations (records polled per member with delivery counts, acknowledgement batches seen by the broker with their outcome, callback results, what a later member still receives)" +
			" || part N generated family G: every ack script PollRecords(3)/actions/flush three times, idle {none, 3 s, 22 s > record lock}, Close with per-record actions {nothing, accept, release, reject, renew, renew+accept, renew+reject, accept+release(ignored)} and flush modes {none, FlushAcks, MarkAcks()+FlushAcks}: all 512 assignments to poll 1 (poll 2 fixed), all 512 to poll 2 (poll 1 fixed), all pairs across the two polls, on the plain partition, pairs and uniform polls on the compacted one, plus poll-3 actions (uniform, single record, pairs with poll 2) crossed with the idle periods (7422 scripts), each on the default schedule, thorough plus every single deviation around 56 of them; distinct = distinct terminal observations" +
			" || part Q (in-package, pkg/kgo): every list of pending entries in insertion order (offsets 0..5, each offset at most twice, status unset/accept/release/reject/renew per record) with every ordered set of at most two disjoint gap ranges inside offsets 0..7 avoiding the entries (type gap or release), queued with appendAck/enqueueGaps, drained with drainAllShareAcks, built with buildAckRanges and turned into wire batches as shareAck does; a second space assigns every (source, session epoch) stamp out of 2x2 to each record and gap and goes through filterStaleEntries; reference = offset->type table; distinct = distinct wire outputs" +
			" || part Q2: every merge of the user-side steps (tryAck CAS, appendAck) of every script of up to 3 (thorough 4) Ack calls over two records with the sender-side steps (drain, build+send, response handling) of two rounds; reference = the status machine of the docs; distinct = distinct request histories" +
			" || part S (engine S): tryAck, appendAck, drainAcks, buildAckRanges, subtractPendingAcks, enqueueCallback, drainCallbacks, FlushAcks and ring.go extracted from the tree, every mutex/cond/atomic/channel operation a scheduling point, all schedules up to preemption bound 1 (thorough 2) of two harnesses: two acking threads of which one calls FlushAcks after its Ack plus a sender with three drain/build/send/response rounds (FlushAcks may return only after the callbacks of all acks whose Ack call had returned before; counter zero and every ack reported at quiescence; no deadlock), and renew/accept/reject on one record plus a second record (each offset leaves with a final type in at most one request)",
		Assume: []string{"kfake is the broker (acquisition, validation of acknowledgement batches, session handling)", "synctests build of xsync for part N", "goroutine micro-interleavings inside one event are the Go runtime's (part Q2 enumerates the internal steps of the acknowledgement path at CAS / append / drain / build / response granularity; interleavings INSIDE appendAck are not explored)", "an identical re-send of a ShareAcknowledge whose response never arrived (transport retry) is the same acknowledgement, not a second one; such re-sends are counted in counter_ack_request_resent_after_lost_response"},
	})
}
