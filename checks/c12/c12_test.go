package c12

// C12: share-group acknowledgements are single, ordered and honoured.
// Part N (engine N, scenarios in ./sscen) runs here; the summaries of parts Q/Q2
// (in-package harness hooks/inpkg/c12_kgo_test.go) and S (./s, engine S over the
// extracted acknowledgement core), both run first by run.sh, are merged into the
// same evidence file just before it is written.

import (
	"encoding/json"
	"fmt"
	"os"
	"path/filepath"
	"strings"
	"testing"
	"time"

	"verif.local/ev"

	"verif/checks/c12/sscen"
	"verif/lib/nrun"
)

func mergeQ(r *ev.Run) {
	path := os.Getenv("C12Q_OUT")
	if path == "" {
		if os.Getenv("VERIF_SCENARIO") != "" {
			return // single-scenario debugging run of part N
		}
		ev.InfraError("C12Q_OUT not set: run checks/c12/run.sh (parts Q/Q2 run first)")
	}
	nrun.MergeSummary(r, path, "q")
	spath := os.Getenv("C12S_OUT")
	if spath == "" {
		ev.InfraError("C12S_OUT not set: run checks/c12/run.sh (part S runs before part N)")
	}
	nrun.MergeSummary(r, spath, "s")
	keepArtefacts(path, "q")
	keepArtefacts(spath, "s")
	b, err := os.ReadFile(path)
	if err != nil {
		ev.InfraError("summary of part Q: %v", err)
	}
	var s struct {
		Tier     string
		Samples  []any
		Coverage map[string]any
	}
	if err := json.Unmarshal(b, &s); err != nil {
		ev.InfraError("summary of part Q: %v", err)
	}
	if s.Tier != ev.Tier() {
		ev.InfraError("part Q ran in tier %q, part N in %q", s.Tier, ev.Tier())
	}
	for k, v := range s.Coverage {
		r.Set(k, v)
	}
	for _, x := range s.Samples {
		r.Sample(x)
	}
	r.Assume("part S: struct types are stubs carrying only the fields the extracted functions use; the sender thread transcribes shareAck's drain/build/send/response steps (success path); the fetch loop's wake-ups are no-ops (the sender drains on its own schedule)")
	r.Assume("parts Q/Q2: the harness builds shareConsumer/source/shareCursor/shareAckSlab values by hand (no client); the fetch loop is never started", "part Q2: the sender's response step transcribes shareAck's success path (renew statuses reset, pending counter decremented by the number of drained entries)")
}

// keepArtefacts writes the artefacts of a part's findings to
// violations/C12/<tier>-<part><n>.json as well: ev keeps only the first 20
// artefacts of a run, and on a tree with a defect part N alone reports more
// violating executions than that. (Known findings included: the files are what
// checks/c12/run.sh --replay takes.)
func keepArtefacts(path, part string) {
	b, err := os.ReadFile(path)
	if err != nil {
		return
	}
	var s struct {
		Viol []struct {
			Key, What string
			Artefact  any
		}
	}
	if json.Unmarshal(b, &s) != nil {
		return
	}
	dir := filepath.Join(ev.Root(), "violations", "C12")
	os.MkdirAll(dir, 0o755)
	for i, v := range s.Viol {
		out, _ := json.MarshalIndent(map[string]any{"property": "C12", "key": v.Key, "what": v.What, "artefact": v.Artefact}, "", " ")
		f := filepath.Join(dir, fmt.Sprintf("%s-%s%d.json", ev.Tier(), part, i+1))
		if os.WriteFile(f, out, 0o644) == nil {
			fmt.Printf("  part %s finding %s: artefact %s\n", strings.ToUpper(part), v.Key, f)
		}
	}
}

func TestC12(t *testing.T) {
	nrun.Main(t, &nrun.Check{
		ID: "C12", TestName: "TestC12", Plans: sscen.Plans(), KeyOf: sscen.KeyOf, Extra: mergeQ,
		QuickTime: 65 * time.Second, ThorTime: 16 * time.Minute,
		Rule: "part N (engine N): every order of application calls (PollRecords with a record limit, Record.Ack accept/release/reject/renew, renew-then-terminal, terminal-after-terminal, MarkAcks, FlushAcks, unacknowledged records left to the next poll and to Close), ShareFetch/ShareAcknowledge/heartbeat frame deliveries, timer ticks and injected faults (connection killed before a ShareFetch/ShareAcknowledge reaches the broker, SHARE_SESSION_NOT_FOUND / INVALID_SHARE_SESSION_EPOCH answers, connection killed after the broker handled a ShareAcknowledge) within k deviations of the default order, for one member on a plain and on a compacted partition (holes inside an acquired range), with a leader move, and with a second member joining and leaving; distinct = distinct terminal observations (records polled per member with delivery counts, acknowledgement batches seen by the broker with their outcome, callback results, what a later member still receives)" +
			" || part Q (in-package, pkg/kgo): every list of pending entries in insertion order (offsets 0..5, each offset at most twice, status unset/accept/release/reject/renew per record) with every ordered set of at most two disjoint gap ranges inside offsets 0..7 avoiding the entries (type gap or release), queued with appendAck/enqueueGaps, drained with drainAllShareAcks, built with buildAckRanges and turned into wire batches as shareAck does; a second space assigns every (source, session epoch) stamp out of 2x2 to each record and gap and goes through filterStaleEntries; reference = offset->type table; distinct = distinct wire outputs" +
			" || part Q2: every merge of the user-side steps (tryAck CAS, appendAck) of every script of up to 3 (thorough 4) Ack calls over two records with the sender-side steps (drain, build+send, response handling) of two rounds; reference = the status machine of the docs; distinct = distinct request histories" +
			" || part S (engine S): tryAck, appendAck, drainAcks, buildAckRanges, subtractPendingAcks, enqueueCallback, drainCallbacks, FlushAcks and ring.go extracted from the tree, every mutex/cond/atomic/channel operation a scheduling point, all schedules up to preemption bound 1 (thorough 2) of two harnesses: two acking threads of which one calls FlushAcks after its Ack plus a sender with three drain/build/send/response rounds (FlushAcks may return only after the callbacks of all acks whose Ack call had returned before; counter zero and every ack reported at quiescence; no deadlock), and renew/accept/reject on one record plus a second record (each offset leaves with a final type in at most one request)",
		Assume: []string{"kfake is the broker (acquisition, validation of acknowledgement batches, session handling)", "synctests build of xsync for part N", "goroutine micro-interleavings inside one event are the Go runtime's (part Q2 enumerates the internal steps of the acknowledgement path at CAS / append / drain / build / response granularity; interleavings INSIDE appendAck are not explored)", "an identical re-send of a ShareAcknowledge whose response never arrived (transport retry) is the same acknowledgement, not a second one; such re-sends are counted in counter_ack_request_resent_after_lost_response"},
	})
}
