package main

import (
	"fmt"
	"sync"

	"verif.local/ev"
	"verif/checks/c06/reflog"
	"verif/checks/c06/reflog/codecs"
)

// A kind is one shape of a top-level unit (record batch v2, message v0/v1 or a
// compressed wrapper) that can be instantiated at any base offset.
type kind struct {
	name  string
	magic int8
	span  int64 // number of offsets the unit covers
	pid   int64
	txn   bool // transactional DATA batch
	ctrl  int  // -1 not a control batch, 0 abort marker, 1 commit marker
	codec string
	sets  uint8
	build func(base int64) []byte

	mu    sync.Mutex
	cache map[int64][]byte
}

const (
	setS    uint8 = 1 << iota // single-unit responses (every kind)
	setM                      // multi-unit catalogue, both tiers (none + one codec per kind)
	setM0                     // three-unit catalogue (thorough)
	setFull                   // two-unit catalogue with every codec (thorough)
)

func (k *kind) at(base int64) []byte {
	k.mu.Lock()
	defer k.mu.Unlock()
	if b, ok := k.cache[base]; ok {
		return b
	}
	if k.cache == nil {
		k.cache = map[int64][]byte{}
	}
	b := k.build(base)
	k.cache[base] = b
	return b
}

type codecV struct {
	name string
	wire int8 // codec number in the attributes
	comp int8 // codecs.Compress selector
}

var (
	cNone   = codecV{"none", 0, 0}
	cGzip   = codecV{"gzip", 1, 1}
	cSnappy = codecV{"snappy", 2, 2}
	cXerial = codecV{"snappy-xerial", 2, codecs.CodecSnappyXerial}
	cLZ4    = codecV{"lz4", 3, 3}
	cZstd   = codecV{"zstd", 4, 4}
)

func (c codecV) compress() reflog.CompressFunc {
	return func(_ int8, src []byte) ([]byte, error) {
		out, err := codecs.Compress(c.comp, src)
		if err != nil {
			return nil, err
		}
		back, err := codecs.Decompress(c.wire, out)
		if err != nil || string(back) != string(src) {
			return nil, fmt.Errorf("codec %s does not round trip: %v", c.name, err)
		}
		return out, nil
	}
}

func must(b []byte, err error) []byte {
	if err != nil {
		ev.InfraError("building an input: %v", err)
	}
	return b
}

// ---- record contents (distinct feature mixes; null vs empty, headers, varint widths)

var big70 = func() []byte {
	b := make([]byte, 70)
	for i := range b {
		b[i] = byte('a' + i%23)
	}
	return b
}()

func recA(d int32) reflog.RecSpec {
	return reflog.RecSpec{OffsetDelta: d, TimestampDelta: 0, Key: []byte("k1"), Value: []byte("v1")}
}
func recB(d int32) reflog.RecSpec {
	return reflog.RecSpec{OffsetDelta: d, TimestampDelta: 7, Key: nil, Value: []byte{},
		Headers: []reflog.Header{{Key: "h", Value: []byte("x")}, {Key: "n", Value: nil}}}
}
func recC(d int32) reflog.RecSpec {
	return reflog.RecSpec{OffsetDelta: d, TimestampDelta: -3, Key: []byte{}, Value: nil,
		Headers: []reflog.Header{{Key: "", Value: []byte{}}}}
}
func recBig(d int32) reflog.RecSpec {
	return reflog.RecSpec{OffsetDelta: d, TimestampDelta: 300, Key: []byte("kk"), Value: big70,
		Headers: []reflog.Header{{Key: "hdr", Value: []byte("val")}}}
}

// timestamp deltas are varlongs: beyond the int32 range in both directions
func recWidePos(d int32) reflog.RecSpec {
	return reflog.RecSpec{OffsetDelta: d, TimestampDelta: 1<<31 + 5, Key: []byte("kw"), Value: []byte("vw")}
}
func recWideNeg(d int32) reflog.RecSpec {
	return reflog.RecSpec{OffsetDelta: d, TimestampDelta: -(1 << 31) - 7, Key: []byte("kn"), Value: []byte("vn")}
}

type shape struct {
	name string
	recs []reflog.RecSpec
	lod  int32
}

var (
	sh1     = shape{"1rec", []reflog.RecSpec{recA(0)}, 0}
	sh2     = shape{"2rec", []reflog.RecSpec{recA(0), recB(1)}, 1}
	shLOD   = shape{"2rec-lod-beyond", []reflog.RecSpec{recA(0), recC(1)}, 3}
	shMid   = shape{"2rec-missing-middle", []reflog.RecSpec{recB(0), recA(2)}, 2}
	shEmpty = shape{"empty-compacted", nil, 1}
	shFirst = shape{"2rec-first-gone", []reflog.RecSpec{recA(1), recB(2)}, 2}
	shBig   = shape{"2rec-big", []reflog.RecSpec{recBig(0), recC(1)}, 1}
	shWide  = shape{"2rec-ts-delta-beyond-int32", []reflog.RecSpec{recWidePos(0), recWideNeg(1)}, 1}
)

type txnType struct {
	name  string
	pid   int64
	epoch int16
	seq   int32
	txn   bool
}

var (
	ttPlain = txnType{"plain", -1, -1, -1, false}
	ttIdem1 = txnType{"idem-p1", 1, 4, 10, false}
	ttTxn1  = txnType{"txn-p1", 1, 4, 10, true}
	ttTxn2  = txnType{"txn-p2", 2, 6, 20, true}
)

const baseTS = int64(1_600_000_000_000)

func v2data(tt txnType, sh shape, cd codecV, logAppend bool, sets uint8) *kind {
	name := fmt.Sprintf("v2/%s/%s/%s", tt.name, sh.name, cd.name)
	tsType := reflog.CreateTime
	if logAppend {
		name += "/logappend"
		tsType = reflog.LogAppendTime
	}
	return &kind{name: name, magic: 2, span: int64(sh.lod) + 1, pid: tt.pid, txn: tt.txn, ctrl: -1, codec: cd.name, sets: sets,
		build: func(base int64) []byte {
			return must(reflog.EncodeBatch(reflog.BatchSpec{
				BaseOffset: base, LeaderEpoch: 3, Codec: cd.wire, TimestampType: tsType,
				Transactional: tt.txn, LastOffsetDelta: sh.lod,
				BaseTimestamp: baseTS, MaxTimestamp: baseTS + 999,
				ProducerID: tt.pid, ProducerEpoch: tt.epoch, BaseSequence: tt.seq,
				Records: sh.recs,
			}, cd.compress()))
		}}
}

func v2control(pid int64, typ int16, sets uint8) *kind {
	n := "commit"
	if typ == reflog.ControlAbort {
		n = "abort"
	}
	epoch := int16(4)
	if pid == 2 {
		epoch = 6
	}
	return &kind{name: fmt.Sprintf("v2/control-%s-p%d", n, pid), magic: 2, span: 1, pid: pid, ctrl: int(typ), codec: "none", sets: sets,
		build: func(base int64) []byte {
			return must(reflog.EncodeBatch(reflog.BatchSpec{
				BaseOffset: base, LeaderEpoch: 3, Transactional: true, Control: true,
				BaseTimestamp: baseTS + 50, MaxTimestamp: baseTS + 50,
				ProducerID: pid, ProducerEpoch: epoch, BaseSequence: -1,
				Records: []reflog.RecSpec{reflog.ControlRecord(typ, 11)},
			}, nil))
		}}
}

func msgPlain(magic int8, variant string, key, val []byte, logAppend bool, sets uint8) *kind {
	name := fmt.Sprintf("v%d/plain/%s", magic, variant)
	tsType := reflog.CreateTime
	if logAppend {
		name += "/logappend"
		tsType = reflog.LogAppendTime
	}
	return &kind{name: name, magic: magic, span: 1, pid: -1, ctrl: -1, codec: "none", sets: sets,
		build: func(base int64) []byte {
			return reflog.EncodeMessage(reflog.MsgSpec{Magic: magic, Offset: base, TimestampType: tsType, Timestamp: baseTS + 5, Key: key, Value: val})
		}}
}

// wrapper kinds. innerOffs are the offsets the inner messages occupy RELATIVE
// to the unit's base offset; mode says how they are stored.
const (
	storeAbsolute = iota // inner offsets absolute (the magic 0 rule; also legal in magic 1 where the rebase is then a no-op)
	storeRelative        // inner offsets relative to the first offset of the ORIGINAL set (magic 1 rule)
)

func msgWrapper(magic int8, variant string, innerOffs []int64, store int, cd codecV, logAppend bool, sets uint8) *kind {
	name := fmt.Sprintf("v%d/wrapper/%s/%s", magic, variant, cd.name)
	tsType := reflog.CreateTime
	if logAppend {
		name += "/logappend"
		tsType = reflog.LogAppendTime
	}
	last := innerOffs[len(innerOffs)-1]
	return &kind{name: name, magic: magic, span: last + 1, pid: -1, ctrl: -1, codec: cd.name, sets: sets,
		build: func(base int64) []byte {
			var inner []reflog.MsgSpec
			for i, o := range innerOffs {
				off := o
				if store == storeAbsolute {
					off = base + o
				}
				m := reflog.MsgSpec{Magic: magic, Offset: off, Timestamp: baseTS + 10 + int64(i), Key: []byte{'k', byte('0' + i)}, Value: []byte{'v', byte('0' + i)}}
				if i == 1 {
					m.Key = nil
				}
				inner = append(inner, m)
			}
			// wrapper: offset of the last inner message; CreateTime wrappers
			// carry the max inner timestamp, LogAppendTime wrappers the
			// broker's append time.
			w := reflog.MsgSpec{Magic: magic, Offset: base + last, Codec: cd.wire, TimestampType: tsType, Timestamp: baseTS + 10 + int64(len(innerOffs)-1)}
			if logAppend {
				w.Timestamp = baseTS + 500
			}
			return must(reflog.EncodeWrapper(w, inner, cd.compress()))
		}}
}

func buildCatalog() []*kind {
	var ks []*kind
	add := func(k *kind) { ks = append(ks, k) }

	allCodecs := []codecV{cNone, cGzip, cSnappy, cXerial, cLZ4, cZstd}
	// the one extra codec a kind gets in the multi-unit catalogue M, rotated
	// so that every codec appears
	rot := []codecV{cGzip, cSnappy, cLZ4, cZstd, cXerial}
	ri := 0

	for _, tt := range []txnType{ttPlain, ttIdem1, ttTxn1, ttTxn2} {
		multi := tt.name != "plain"
		for _, sh := range []shape{sh1, sh2, shLOD, shMid, shFirst, shBig} {
			inM := multi && sh.name != shFirst.name && sh.name != shBig.name
			var mc codecV
			if inM {
				mc = rot[ri%len(rot)]
				ri++
			}
			for _, cd := range allCodecs {
				sets := setS
				if inM {
					sets |= setFull
					if cd == cNone {
						sets |= setM | setM0
					}
					if cd == mc {
						sets |= setM
					}
				}
				add(v2data(tt, sh, cd, false, sets))
			}
		}
		// empty compacted batches are always written uncompressed by the cleaner
		sets := setS
		if multi {
			sets |= setM | setM0 | setFull
		}
		add(v2data(tt, shEmpty, cNone, false, sets))
	}
	for _, cd := range allCodecs {
		add(v2data(ttPlain, sh2, cd, true, setS))
	}
	add(v2data(ttPlain, shWide, cNone, false, setS))
	add(v2data(ttTxn1, shWide, cGzip, false, setS))
	add(v2data(ttPlain, shWide, cNone, true, setS))
	add(v2data(ttTxn1, shLOD, cNone, true, setS))
	for _, pid := range []int64{1, 2} {
		for _, typ := range []int16{reflog.ControlCommit, reflog.ControlAbort} {
			add(v2control(pid, typ, setS|setM|setM0|setFull))
		}
	}

	// magic 0
	add(msgPlain(0, "kv", []byte("k"), []byte("v0"), false, setS|setM|setM0|setFull))
	add(msgPlain(0, "nullkey", nil, []byte("v0"), false, setS))
	add(msgPlain(0, "tombstone", []byte("k"), nil, false, setS))
	add(msgPlain(0, "empty", []byte{}, []byte{}, false, setS))
	for _, cd := range []codecV{cGzip, cSnappy, cXerial} {
		s2 := setS | setFull
		if cd == cGzip {
			s2 |= setM
		}
		if cd == cSnappy {
			s2 |= setM0
		}
		add(msgWrapper(0, "abs2", []int64{0, 1}, storeAbsolute, cd, false, s2))
		add(msgWrapper(0, "abs-gap", []int64{0, 2}, storeAbsolute, cd, false, setS|setFull))
		add(msgWrapper(0, "abs-single", []int64{0}, storeAbsolute, cd, false, setS))
	}

	// magic 1
	add(msgPlain(1, "kv", []byte("k"), []byte("v1"), false, setS|setM|setM0|setFull))
	add(msgPlain(1, "kv", []byte("k"), []byte("v1"), true, setS|setFull))
	add(msgPlain(1, "nullkey", nil, []byte("v1"), false, setS))
	add(msgPlain(1, "tombstone", []byte("k"), nil, false, setS))
	for _, cd := range []codecV{cGzip, cSnappy, cXerial, cLZ4} {
		m := uint8(0)
		if cd == cSnappy {
			m = setM | setM0
		}
		l := uint8(0)
		if cd == cLZ4 {
			l = setM | setM0
		}
		add(msgWrapper(1, "rel2", []int64{0, 1}, storeRelative, cd, false, setS|setFull|m))
		add(msgWrapper(1, "rel-gap", []int64{0, 2}, storeRelative, cd, false, setS|setFull|l))
		add(msgWrapper(1, "rel-first-gone", []int64{1, 2}, storeRelative, cd, false, setS|setFull|m))
		add(msgWrapper(1, "abs2", []int64{0, 1}, storeAbsolute, cd, false, setS|setFull))
		add(msgWrapper(1, "rel-single", []int64{0}, storeRelative, cd, false, setS))
		add(msgWrapper(1, "rel2", []int64{0, 1}, storeRelative, cd, true, setS))
	}
	return ks
}

func pick(ks []*kind, set uint8) []*kind {
	var out []*kind
	for _, k := range ks {
		if k.sets&set != 0 {
			out = append(out, k)
		}
	}
	return out
}
