// C06: ProcessFetchPartition (pkg/kgo/source.go) against a reference decoder
// of the Kafka log formats (package reflog). Bounded exhaustive exploration of
// partition responses; see meta.json / the Rule text for the enumeration.
package main

import (
	"bytes"
	"encoding/hex"
	"encoding/json"
	"fmt"
	"math"
	"os"
	"runtime/pprof"
	"sort"
	"strings"
	"sync"
	"sync/atomic"
	"time"

	"github.com/twmb/franz-go/pkg/kgo"
	"github.com/twmb/franz-go/pkg/kmsg"

	"verif.local/ev"
	"verif/checks/c06/reflog"
	"verif/checks/c06/reflog/codecs"
)

var refOpts = reflog.Options{Decompress: codecs.Decompress}

// ------------------------------------------------------------------ responses

type response struct {
	name  string
	kinds []*kind
	bases []int64
	data  []byte
	ends  []int // byte offset of the end of every unit
	first int64 // first offset covered
	last  int64 // last offset covered
}

func mkResponse(start int64, gap int64, ks ...*kind) *response {
	r := &response{first: start}
	base := start
	var names []string
	for i, k := range ks {
		if i > 0 {
			base += gap
		}
		r.kinds = append(r.kinds, k)
		r.bases = append(r.bases, base)
		r.data = append(r.data, k.at(base)...)
		r.ends = append(r.ends, len(r.data))
		names = append(names, k.name)
		base += k.span
	}
	r.last = base - 1
	r.name = fmt.Sprintf("%s @%d", strings.Join(names, " + "), start)
	if gap != 0 {
		r.name += fmt.Sprintf(" gap%d", gap)
	}
	return r
}

// ---------------------------------------------------------- aborted-list lists

type txnInfo struct {
	pid, first, end int64
	hasData         bool
	firstOfPid      bool
	outcome         int // 0 aborted, 1 committed, 2 open at the end of the response
}

func (r *response) txns() []*txnInfo {
	var out []*txnInfo
	open := map[int64]*txnInfo{}
	seen := map[int64]bool{}
	for i, k := range r.kinds {
		base := r.bases[i]
		switch {
		case k.txn:
			if open[k.pid] == nil {
				t := &txnInfo{pid: k.pid, first: base, end: math.MaxInt64, hasData: true, firstOfPid: !seen[k.pid], outcome: 2}
				open[k.pid] = t
				out = append(out, t)
			}
			seen[k.pid] = true
		case k.ctrl >= 0:
			t := open[k.pid]
			if t == nil {
				// the transaction's data lies before the response (or was compacted away)
				t = &txnInfo{pid: k.pid, first: r.first - 2, firstOfPid: !seen[k.pid]}
				out = append(out, t)
			}
			t.end = base
			t.outcome = k.ctrl
			delete(open, k.pid)
			seen[k.pid] = true
		}
	}
	return out
}

// abortedLists enumerates every aborted-transactions list a broker could attach
// to the response for a fetch at offset R, in every order: the required entries
// (one per transaction that ends in an ABORT marker at or after R), each
// transaction still open at the end of the response either aborted (marker
// beyond the response) or not, first offsets exact or - for a producer's first
// transaction, which may have begun before the response - earlier, plus one
// irrelevant entry {none, unknown producer, same producer far beyond the
// response}. The first list returned is the canonical one (everything aborted,
// exact offsets, ascending).
func (r *response) abortedLists(R int64) [][]reflog.Aborted {
	ts := r.txns()
	var opens []*txnInfo
	for _, t := range ts {
		if t.outcome == 2 {
			opens = append(opens, t)
		}
	}
	pidX := int64(1)
	for _, k := range r.kinds {
		if k.txn || k.ctrl >= 0 {
			pidX = k.pid
			break
		}
	}
	seen := map[string]bool{}
	var out [][]reflog.Aborted
	emit := func(l []reflog.Aborted) {
		key := fmt.Sprint(l)
		if !seen[key] {
			seen[key] = true
			out = append(out, append([]reflog.Aborted(nil), l...))
		}
	}
	for mask := (1 << len(opens)) - 1; mask >= 0; mask-- {
		for earlier := 0; earlier < 2; earlier++ {
			var entries []reflog.Aborted
			usedEarlier := false
			for _, t := range ts {
				ab := t.outcome == 0 && (t.hasData || t.firstOfPid)
				if t.outcome == 2 {
					for i, o := range opens {
						if o == t && mask&(1<<i) != 0 {
							ab = true
						}
					}
				}
				if !ab || t.end < R {
					continue
				}
				f := t.first
				if earlier == 1 && t.hasData && t.firstOfPid {
					f -= 3
					usedEarlier = true
				}
				entries = append(entries, reflog.Aborted{ProducerID: t.pid, FirstOffset: f})
			}
			if earlier == 1 && !usedEarlier {
				continue
			}
			for extra := 0; extra < 3; extra++ {
				l := append([]reflog.Aborted(nil), entries...)
				switch extra {
				case 1:
					l = append(l, reflog.Aborted{ProducerID: 9, FirstOffset: r.first})
				case 2:
					l = append(l, reflog.Aborted{ProducerID: pidX, FirstOffset: r.last + 50})
				}
				permute(l, 0, emit)
			}
		}
	}
	return out
}

func permute(l []reflog.Aborted, i int, emit func([]reflog.Aborted)) {
	if i >= len(l)-1 {
		emit(l)
		return
	}
	for j := i; j < len(l); j++ {
		l[i], l[j] = l[j], l[i]
		permute(l, i+1, emit)
		l[i], l[j] = l[j], l[i]
	}
}

// ------------------------------------------------------------ implementation

type view struct {
	R          int64
	rc         bool
	keep       bool
	list       []reflog.Aborted
	disableCRC bool
}

type implOut struct {
	recs  []*kgo.Record
	next  int64
	err   error
	panic string
}

func toKmsg(l []reflog.Aborted) []kmsg.FetchResponseTopicPartitionAbortedTransaction {
	if l == nil {
		return nil
	}
	out := make([]kmsg.FetchResponseTopicPartitionAbortedTransaction, len(l))
	for i, a := range l {
		out[i].ProducerID = a.ProducerID
		out[i].FirstOffset = a.FirstOffset
	}
	return out
}

func runImpl(in []byte, v *view, kl []kmsg.FetchResponseTopicPartitionAbortedTransaction, dec kgo.Decompressor) (out implOut) {
	defer func() {
		if p := recover(); p != nil {
			out.panic = fmt.Sprint(p)
		}
	}()
	rp := kmsg.FetchResponseTopicPartition{
		Partition:           3,
		HighWatermark:       1 << 40,
		LastStableOffset:    1 << 40,
		AbortedTransactions: kl,
		RecordBatches:       in,
	}
	o := kgo.ProcessFetchPartitionOpts{
		KeepControlRecords:   v.keep,
		DisableCRCValidation: v.disableCRC,
		Offset:               v.R,
		IsolationLevel:       kgo.ReadUncommitted(),
		Topic:                "t",
		Partition:            3,
	}
	if v.rc {
		o.IsolationLevel = kgo.ReadCommitted()
	}
	fp, next := kgo.ProcessFetchPartition(o, &rp, dec, nil)
	out.recs, out.next, out.err = fp.Records, next, fp.Err
	return out
}

// ------------------------------------------------------------------- oracle

type mismatch struct {
	key  string
	what string
}

var (
	nilnessDiffs   atomic.Int64 // null vs empty key/value/header value differences (compared leniently)
	errOnWellForm  atomic.Int64 // fp.Err set although the input is a (possibly truncated) well-formed log
	errOnWellFormS atomic.Value
)

func recTag(r *reflog.Record, wrapper bool) string {
	s := fmt.Sprintf("v%d", r.Magic)
	if wrapper {
		s += ":wrapper"
	}
	return s
}

// compareStrong is the oracle for well-formed (possibly truncated, possibly
// garbage-tailed) inputs.
func compareStrong(got *implOut, ref *reflog.Result, v *view) []mismatch {
	if got.panic != "" {
		return []mismatch{{"panic", "panic: " + got.panic}}
	}
	want, wantNext := reflog.Visible(ref.Units, reflog.View{Offset: v.R, ReadCommitted: v.rc, Aborted: v.list, KeepControl: v.keep})
	var ms []mismatch
	add := func(key, f string, a ...any) { ms = append(ms, mismatch{key, fmt.Sprintf(f, a...)}) }

	// where does each reference record live
	find := func(off int64) (*reflog.Record, *reflog.Unit, int) {
		for i := range ref.Units {
			for j := range ref.Units[i].Records {
				if ref.Units[i].Records[j].Offset == off {
					return &ref.Units[i].Records[j], &ref.Units[i], i
				}
			}
		}
		return nil, nil, -1
	}
	where := func(off int64) (r *reflog.Record, u *reflog.Unit, aborted bool) {
		r, u, i := find(off)
		if r != nil && v.rc {
			aborted = reflog.AbortedUnits(ref.Units, v.list)[i]
		}
		return r, u, aborted
	}
	wrapperOf := func(r *reflog.Record) bool {
		_, u, _ := find(r.Offset)
		return u != nil && u.Wrapper
	}

	// 1. the offset sequence
	sameOffsets := len(got.recs) == len(want)
	if sameOffsets {
		for i := range want {
			if got.recs[i].Offset != want[i].Offset {
				sameOffsets = false
				break
			}
		}
	}
	if !sameOffsets {
		wantSet := map[int64]bool{}
		for _, w := range want {
			wantSet[w.Offset] = true
		}
		gotSet := map[int64]bool{}
		for _, g := range got.recs {
			gotSet[g.Offset] = true
		}
		reported := false
		for _, g := range got.recs {
			if wantSet[g.Offset] {
				continue
			}
			reported = true
			rr, u, ab := where(g.Offset)
			switch {
			case rr == nil:
				add("extra-record:offset-holds-no-record", "returned a record at offset %d where the log holds none (mislabelled offset)", g.Offset)
			case g.Offset < v.R:
				add("extra-record:below-requested-offset:"+recTag(rr, u.Wrapper), "returned offset %d below the requested offset %d", g.Offset, v.R)
			case rr.Control:
				add("extra-record:control-record", "returned control record at offset %d although KeepControlRecords is off", g.Offset)
			case ab:
				add("extra-record:aborted-transaction", "read_committed returned offset %d of an aborted transaction of producer %d (aborted list %v)", g.Offset, rr.ProducerID, v.list)
			default:
				add("extra-record:other", "returned unexpected offset %d", g.Offset)
			}
			break
		}
		for _, w := range want {
			if gotSet[w.Offset] {
				continue
			}
			reported = true
			key := "missing-record:" + recTag(w, wrapperOf(w))
			if w.Control {
				key = "missing-record:control-record"
			} else if w.Transactional && v.rc {
				key = "missing-record:committed-transaction"
			}
			add(key, "did not return the record at offset %d (requested offset %d)", w.Offset, v.R)
			break
		}
		if !reported {
			add("record-order", "returned offsets %v, want %v", offsetsOfGot(got.recs), offsetsOfWant(want))
		}
	} else {
		// 2. field by field
		for i, w := range want {
			g := got.recs[i]
			tag := recTag(w, wrapperOf(w))
			if w.TimestampType == reflog.LogAppendTime {
				tag += ":logappendtime"
			}
			if w.Magic == 0 {
				// magic 0 has no timestamp: accept the zero time or -1 ms (lenient)
				if !(g.Timestamp.IsZero() || g.Timestamp.UnixMilli() == -1) {
					add("field:timestamp:"+tag, "offset %d: timestamp %v on a magic 0 message", w.Offset, g.Timestamp)
				}
			} else if g.Timestamp.UnixMilli() != w.Timestamp {
				add("field:timestamp:"+tag, "offset %d: timestamp %d ms, want %d ms", w.Offset, g.Timestamp.UnixMilli(), w.Timestamp)
			}
			if g.Attrs.TimestampType() != w.TimestampType {
				add("field:timestamp-type:"+tag, "offset %d: timestamp type %d, want %d", w.Offset, g.Attrs.TimestampType(), w.TimestampType)
			}
			if !bytes.Equal(g.Key, w.Key) {
				add("field:key:"+tag, "offset %d: key %q, want %q", w.Offset, g.Key, w.Key)
			}
			if !bytes.Equal(g.Value, w.Value) {
				add("field:value:"+tag, "offset %d: value %q, want %q", w.Offset, g.Value, w.Value)
			}
			if (g.Key == nil) != (w.Key == nil) || (g.Value == nil) != (w.Value == nil) {
				nilnessDiffs.Add(1)
			}
			if len(g.Headers) != len(w.Headers) {
				add("field:headers:"+tag, "offset %d: %d headers, want %d", w.Offset, len(g.Headers), len(w.Headers))
			} else {
				for j := range w.Headers {
					if g.Headers[j].Key != w.Headers[j].Key || !bytes.Equal(g.Headers[j].Value, w.Headers[j].Value) {
						add("field:headers:"+tag, "offset %d: header %d is %q=%q, want %q=%q", w.Offset, j, g.Headers[j].Key, g.Headers[j].Value, w.Headers[j].Key, w.Headers[j].Value)
						break
					}
					if (g.Headers[j].Value == nil) != (w.Headers[j].Value == nil) {
						nilnessDiffs.Add(1)
					}
				}
			}
			if int8(g.Attrs.CompressionType()) != w.Codec {
				add("field:attrs-compression:"+tag, "offset %d: compression type %d, want %d", w.Offset, g.Attrs.CompressionType(), w.Codec)
			}
			if g.Attrs.IsTransactional() != w.Transactional {
				add("field:attrs-transactional:"+tag, "offset %d: transactional %v, want %v", w.Offset, g.Attrs.IsTransactional(), w.Transactional)
			}
			if g.Attrs.IsControl() != w.Control {
				add("field:attrs-control:"+tag, "offset %d: control %v, want %v", w.Offset, g.Attrs.IsControl(), w.Control)
			}
			if g.ProducerID != w.ProducerID {
				add("field:producer-id:"+tag, "offset %d: producer id %d, want %d", w.Offset, g.ProducerID, w.ProducerID)
			}
			if g.ProducerEpoch != w.ProducerEpoch {
				add("field:producer-epoch:"+tag, "offset %d: producer epoch %d, want %d", w.Offset, g.ProducerEpoch, w.ProducerEpoch)
			}
			if g.LeaderEpoch != w.LeaderEpoch {
				add("field:leader-epoch:"+tag, "offset %d: leader epoch %d, want %d", w.Offset, g.LeaderEpoch, w.LeaderEpoch)
			}
		}
	}

	// 3. the next offset: the end of the last fully decoded unit, never below R
	if got.next > wantNext {
		key := "next-offset:beyond-last-complete-unit"
		if ref.Tail == reflog.TailTruncated {
			key += ":truncated-tail"
		} else if ref.Tail == reflog.TailCorrupt {
			key += ":corrupt-tail"
		}
		add(key, "next offset %d passes the end of the last fully decoded unit (%d); offsets in between may hold unreturned records", got.next, wantNext)
	} else if got.next < wantNext {
		add("next-offset:behind-last-complete-unit", "next offset %d is before the end of the last fully decoded unit (%d) (KAFKA-5443: the consumer would refetch / stall)", got.next, wantNext)
	}

	if got.err != nil && ref.Tail != reflog.TailCorrupt {
		if errOnWellForm.Add(1) == 1 {
			errOnWellFormS.Store(got.err.Error())
		}
	}
	return ms
}

func offsetsOfGot(rs []*kgo.Record) []int64 {
	var o []int64
	for _, r := range rs {
		o = append(o, r.Offset)
	}
	return o
}

func offsetsOfWant(rs []*reflog.Record) []int64 {
	var o []int64
	for _, r := range rs {
		o = append(o, r.Offset)
	}
	return o
}

// compareWeak is the oracle for arbitrary bytes.
func compareWeak(got *implOut, v *view) []mismatch {
	if got.panic != "" {
		return []mismatch{{"panic", "panic: " + got.panic}}
	}
	var ms []mismatch
	prev := int64(math.MinInt64)
	for i, g := range got.recs {
		if g.Offset < v.R {
			ms = append(ms, mismatch{"arbitrary:record-below-requested-offset", fmt.Sprintf("record %d has offset %d below the requested offset %d", i, g.Offset, v.R)})
			break
		}
		if i > 0 && g.Offset <= prev {
			ms = append(ms, mismatch{"arbitrary:offsets-not-increasing", fmt.Sprintf("record %d has offset %d after %d", i, g.Offset, prev)})
			break
		}
		prev = g.Offset
	}
	if got.next < v.R {
		ms = append(ms, mismatch{"arbitrary:next-offset-below-requested", fmt.Sprintf("next offset %d below the requested offset %d", got.next, v.R)})
	}
	return ms
}

// ------------------------------------------------------- violation collection

type artefact struct {
	Sweep        string           `json:"sweep"`
	Response     string           `json:"response"`
	Oracle       string           `json:"oracle"` // strong | weak
	InputHex     string           `json:"input_hex"`
	Mutation     string           `json:"mutation,omitempty"`
	Offset       int64            `json:"requested_offset"`
	ReadCommit   bool             `json:"read_committed"`
	Aborted      []reflog.Aborted `json:"aborted_transactions"`
	KeepControl  bool             `json:"keep_control_records"`
	DisableCRC   bool             `json:"disable_crc_validation"`
	GotOffsets   []int64          `json:"got_offsets"`
	GotNext      int64            `json:"got_next_offset"`
	GotErr       string           `json:"got_err,omitempty"`
	WantOffsets  []int64          `json:"want_offsets,omitempty"`
	WantNext     int64            `json:"want_next_offset,omitempty"`
	RefTail      string           `json:"reference_tail,omitempty"`
	RefTailErr   string           `json:"reference_tail_err,omitempty"`
	Occurrences  int64            `json:"occurrences_of_this_class,omitempty"`
	OtherClasses []string         `json:"classes_seen_on_this_input,omitempty"`
}

type violClass struct {
	count int64
	what  string
	art   artefact
	rank  string
}

var (
	violMu sync.Mutex
	viols  = map[string]*violClass{}
)

func report(ms []mismatch, sweep string, resp string, oracle string, in []byte, mutation string, v *view, got *implOut, ref *reflog.Result) {
	art := artefact{Sweep: sweep, Response: resp, Oracle: oracle, InputHex: hex.EncodeToString(in), Mutation: mutation,
		Offset: v.R, ReadCommit: v.rc, Aborted: append([]reflog.Aborted(nil), v.list...), KeepControl: v.keep, DisableCRC: v.disableCRC,
		GotOffsets: offsetsOfGot(got.recs), GotNext: got.next}
	if got.err != nil {
		art.GotErr = got.err.Error()
	}
	if ref != nil {
		want, wantNext := reflog.Visible(ref.Units, reflog.View{Offset: v.R, ReadCommitted: v.rc, Aborted: v.list, KeepControl: v.keep})
		art.WantOffsets, art.WantNext, art.RefTail = offsetsOfWant(want), wantNext, ref.Tail.String()
		if ref.TailErr != nil {
			art.RefTailErr = ref.TailErr.Error()
		}
	}
	for _, m := range ms {
		art.OtherClasses = append(art.OtherClasses, m.key)
	}
	// smallest input first, then fewest options, then name: a stable minimum
	rank := fmt.Sprintf("%06d/%02d/%v%v%v/%s/%d/%s", len(in), len(v.list), v.rc, v.keep, v.disableCRC, resp, v.R, mutation)
	violMu.Lock()
	defer violMu.Unlock()
	for _, m := range ms {
		c := viols[m.key]
		if c == nil {
			c = &violClass{rank: "~"}
			viols[m.key] = c
		}
		c.count++
		if rank < c.rank {
			c.rank, c.what, c.art = rank, m.what, art
		}
	}
}

// ------------------------------------------------------------------ sweeps

type worker struct {
	skippedZstd int64
	dec         kgo.Decompressor
	evals       int64
	distinct    map[uint64]struct{}
	buf         []byte
}

func (w *worker) flush(r *ev.Run) {
	if w.skippedZstd > 0 {
		r.Add("substitutions_skipped_zstd_frame_header_crc_off", w.skippedZstd)
		w.skippedZstd = 0
	}
	r.Evals(w.evals)
	w.evals = 0
	for h := range w.distinct {
		r.DistinctHash(h)
	}
	w.distinct = map[uint64]struct{}{}
}

func mix(h uint64, v uint64) uint64 {
	h ^= v + 0x9e3779b97f4a7c15 + (h << 6) + (h >> 2)
	h *= 0xff51afd7ed558ccd
	return h ^ (h >> 33)
}

func strHash(s string) uint64 {
	h := uint64(1469598103934665603)
	for i := 0; i < len(s); i++ {
		h = (h ^ uint64(s[i])) * 1099511628211
	}
	return h
}

func b2u(b bool) uint64 {
	if b {
		return 1
	}
	return 0
}

// note records one outcome class of a response as a distinct non-trivial case:
// (response, number of complete units, requested offset, isolation, keep,
// number of returned records, next offset).
func (w *worker) note(rh uint64, complete int, v *view, got *implOut) {
	h := mix(rh, uint64(complete))
	h = mix(h, uint64(v.R))
	h = mix(h, b2u(v.rc)<<1|b2u(v.keep))
	h = mix(h, uint64(len(got.recs)))
	h = mix(h, uint64(got.next))
	w.distinct[h] = struct{}{}
}

// exploreResponse runs the semantic x truncation sweep on one response.
//
// fullCross: every cut x every view. Otherwise every view is crossed with the
// "key cuts" only (each unit end, one byte before it, and the full input) and
// every other cut gets the base views (all requested offsets x keep on/off x
// {read_uncommitted, read_committed with the canonical list and its reverse}).
func exploreResponse(w *worker, sweep string, resp *response, fullCross bool) {
	rh := strHash(resp.name)
	type lv struct {
		l    []reflog.Aborted
		kl   []kmsg.FetchResponseTopicPartitionAbortedTransaction
		base bool
	}
	lo := resp.first - 1
	if lo < 0 {
		lo = 0
	}
	type rviews struct {
		R     int64
		lists []lv
	}
	var rvs []rviews
	for R := lo; R <= resp.last+1; R++ {
		ls := resp.abortedLists(R)
		rv := rviews{R: R}
		for i, l := range ls {
			rv.lists = append(rv.lists, lv{l, toKmsg(l), i == 0})
		}
		// canonical reversed is also a base view
		if len(ls[0]) > 1 {
			rev := append([]reflog.Aborted(nil), ls[0]...)
			for i, j := 0, len(rev)-1; i < j; i, j = i+1, j-1 {
				rev[i], rev[j] = rev[j], rev[i]
			}
			for i := range rv.lists {
				if fmt.Sprint(rv.lists[i].l) == fmt.Sprint(rev) {
					rv.lists[i].base = true
				}
			}
		}
		rvs = append(rvs, rv)
	}
	keyCut := map[int]bool{len(resp.data): true}
	for _, e := range resp.ends {
		keyCut[e] = true
		keyCut[e-1] = true
	}

	for cut := 0; cut <= len(resp.data); cut++ {
		in := resp.data[:cut:cut]
		ref := reflog.Decode(in, refOpts)
		if ref.Tail == reflog.TailCorrupt {
			ev.InfraError("reference decoder rejects a prefix (%d bytes) of generated response %s: %v", cut, resp.name, ref.TailErr)
		}
		if cut == len(resp.data) && (ref.Tail != reflog.TailNone || len(ref.Units) != len(resp.kinds)) {
			ev.InfraError("reference decoder does not decode generated response %s: %d units, tail %v %v", resp.name, len(ref.Units), ref.Tail, ref.TailErr)
		}
		all := fullCross || keyCut[cut]
		for ri := range rvs {
			rv := &rvs[ri]
			for _, keep := range []bool{false, true} {
				for _, rc := range []bool{false, true} {
					for li := range rv.lists {
						l := &rv.lists[li]
						if !all && !l.base {
							continue
						}
						if !rc && !l.base && !keyCut[cut] {
							continue // read_uncommitted ignores the list: all lists only at the key cuts
						}
						v := view{R: rv.R, rc: rc, keep: keep, list: l.l}
						got := runImpl(in, &v, l.kl, w.dec)
						w.evals++
						if ms := compareStrong(&got, &ref, &v); len(ms) > 0 {
							report(ms, sweep, resp.name, "strong", in, fmt.Sprintf("truncated to %d of %d bytes", cut, len(resp.data)), &v, &got, &ref)
						}
						if keyCut[cut] && li == 0 {
							w.note(rh, len(ref.Units), &v, &got)
						}
					}
				}
			}
		}
	}
}

// canonicalView: requested offset = first offset, read_committed with the
// canonical aborted list, control records kept.
func canonicalView(resp *response) (view, []kmsg.FetchResponseTopicPartitionAbortedTransaction) {
	l := resp.abortedLists(resp.first)[0]
	return view{R: resp.first, rc: true, keep: true, list: l}, toKmsg(l)
}

// exploreAppended: for one response and one cut, every byte string of length
// 1..maxLen appended to the prefix; strong oracle (reference decodes the same
// bytes).
func exploreAppended(w *worker, resp *response, cut int, maxLen int) {
	v, kl := canonicalView(resp)
	rh := mix(strHash(resp.name), 0xa99e)
	prefix := resp.data[:cut]
	check := func(in []byte) {
		ref := reflog.Decode(in, refOpts)
		got := runImpl(in, &v, kl, w.dec)
		w.evals++
		if len(ref.Units) == 0 && ref.Tail == reflog.TailTruncated && got.panic == "" && got.err == nil && len(got.recs) == 0 && got.next == v.R {
			return // fast path: nothing decodable, nothing returned, offset unmoved (what compareStrong would conclude)
		}
		if ms := compareStrong(&got, &ref, &v); len(ms) > 0 {
			report(ms, "appended-bytes", resp.name, "strong", in, fmt.Sprintf("prefix of %d bytes + %d arbitrary bytes", cut, len(in)-cut), &v, &got, &ref)
		}
		if ref.Tail == reflog.TailCorrupt || got.err != nil {
			// non-trivial: the garbage completed a unit by length
			h := mix(rh, uint64(cut))
			h = mix(h, uint64(len(in)-cut))
			h = mix(h, b2u(got.err != nil)<<1|b2u(ref.Tail == reflog.TailCorrupt))
			w.distinct[h] = struct{}{}
		}
	}
	for a := 0; a < 256; a++ {
		w.buf = append(append(w.buf[:0], prefix...), byte(a))
		check(w.buf)
	}
	if maxLen < 2 {
		return
	}
	for a := 0; a < 256; a++ {
		for b := 0; b < 256; b++ {
			w.buf = append(append(w.buf[:0], prefix...), byte(a), byte(b))
			check(w.buf)
		}
	}
}

var subst = []byte{0x00, 0x01, 0x7f, 0x80, 0xff}

// zstdHeader reports whether pos lies in the first 14 bytes of a zstd-compressed
// records section (magic, frame header descriptor, window descriptor, frame
// content size). With CRC validation disabled a corrupted zstd frame header
// makes the decoder allocate up to the client's 2 GiB decompression limit -
// seconds and gigabytes per input, not a panic and not part of this property -
// so those (position, CRC-off) combinations are skipped and counted.
func zstdHeader(resp *response, pos int) bool {
	start := 0
	for i, k := range resp.kinds {
		if k.codec == "zstd" && pos >= start+61 && pos < start+61+14 {
			return true
		}
		start = resp.ends[i]
	}
	return false
}

// exploreSubstituted: every single-byte substitution at every position; weak
// oracle; CRC validation on and off.
func exploreSubstituted(w *worker, resp *response, views []view) {
	rh := mix(strHash(resp.name), 0x5b57)
	kls := make([][]kmsg.FetchResponseTopicPartitionAbortedTransaction, len(views))
	for i := range views {
		kls[i] = toKmsg(views[i].list)
	}
	for pos := 0; pos < len(resp.data); pos++ {
		for _, s := range subst {
			if resp.data[pos] == s {
				continue
			}
			mut := fmt.Sprintf("byte %d: %02x -> %02x", pos, resp.data[pos], s)
			for vi := range views {
				v := &views[vi]
				if v.disableCRC && zstdHeader(resp, pos) {
					w.skippedZstd++
					continue
				}
				in := append([]byte(nil), resp.data...) // fresh: returned records alias the input
				in[pos] = s
				t0 := time.Now()
				got := runImpl(in, v, kls[vi], w.dec)
				if d := time.Since(t0); d > 20*time.Millisecond && os.Getenv("C06_DEBUG") != "" {
					fmt.Fprintf(os.Stderr, "slow %v %s %s crcoff=%v err=%v\n", d, resp.name, mut, v.disableCRC, got.err)
				}
				w.evals++
				if ms := compareWeak(&got, v); len(ms) > 0 {
					report(ms, "substituted-byte", resp.name, "weak", in, mut, v, &got, nil)
				}
				if vi == 0 || v.disableCRC {
					h := mix(rh, uint64(pos)<<8|uint64(s))
					h = mix(h, b2u(v.disableCRC)<<2|b2u(got.err != nil)<<1|b2u(len(got.recs) > 0))
					h = mix(h, uint64(got.next))
					w.distinct[h] = struct{}{}
				}
			}
		}
	}
}

// substViews: mode 0 = one view pair (pairs in thorough), 1 = quick singles, 2 = thorough singles.
func substViews(resp *response, mode int) []view {
	l := resp.abortedLists(resp.first)[0]
	var vs []view
	Rs := []int64{resp.first}
	switch mode {
	case 1:
		Rs = []int64{resp.first, resp.first + 1}
	case 2:
		Rs = []int64{resp.first, resp.first + 1, resp.last, resp.last + 1, resp.first - 1}
	}
	seen := map[int64]bool{}
	for _, R := range Rs {
		if seen[R] || R < 0 {
			continue
		}
		seen[R] = true
		for _, crcOff := range []bool{false, true} {
			for _, rc := range []bool{false, true} {
				for _, keep := range []bool{false, true} {
					if mode == 0 && !(rc && keep) {
						continue
					}
					if mode == 1 && rc != keep {
						continue
					}
					vs = append(vs, view{R: R, rc: rc, keep: keep, list: l, disableCRC: crcOff})
				}
			}
		}
	}
	return vs
}

// ------------------------------------------------------------------ driver

type job func(w *worker)

func runJobs(r *ev.Run, name string, jobs []job, deadline time.Time) {
	if sel := os.Getenv("C06_SWEEPS"); sel != "" && !strings.Contains(sel, name[5:6]) {
		r.NotExhaustive(name + ": deselected by C06_SWEEPS (debugging)")
		return
	}
	start := time.Now()
	var next atomic.Int64
	var skipped atomic.Int64
	var wg sync.WaitGroup
	for i := 0; i < ev.Workers(); i++ {
		wg.Add(1)
		go func() {
			defer wg.Done()
			w := &worker{dec: kgo.DefaultDecompressor(), distinct: map[uint64]struct{}{}}
			for {
				i := int(next.Add(1)) - 1
				if i >= len(jobs) {
					break
				}
				if time.Now().After(deadline) {
					skipped.Add(1)
					continue
				}
				jobs[i](w)
				w.flush(r)
			}
		}()
	}
	wg.Wait()
	if n := skipped.Load(); n > 0 {
		r.NotExhaustive(fmt.Sprintf("%s: soft deadline reached, %d of %d jobs skipped", name, n, len(jobs)))
	}
	r.Set("jobs_"+name, len(jobs))
	r.Set("seconds_"+name, math.Round(time.Since(start).Seconds()*10)/10)
}

func main() {
	if len(os.Args) == 3 && os.Args[1] == "--replay" {
		os.Exit(replay(os.Args[2]))
	}
	if pf := os.Getenv("C06_CPUPROFILE"); pf != "" {
		f, _ := os.Create(pf)
		pprof.StartCPUProfile(f)
		defer pprof.StopCPUProfile()
	}
	r := ev.New("C06", "exploration")
	thorough := ev.Thorough()
	deadline := ev.Deadline(150*time.Second, 19*time.Minute)

	cat := buildCatalog()
	S, M, M0, Full := pick(cat, setS), pick(cat, setM), pick(cat, setM0), pick(cat, setFull)
	r.Set("kinds_single", len(S))
	r.Set("kinds_multi", len(M))
	r.Set("kinds_triples", len(M0))
	r.Set("kinds_pairs_all_codecs", len(Full))

	r.Rule("Responses are built by the harness's own encoder (package reflog) from a catalogue of unit kinds: record batch v2 " +
		"{plain, idempotent p1, transactional p1/p2} x {1 record, 2 records, lastOffsetDelta beyond the records, missing middle offset, first record gone, " +
		"70-byte value, empty compacted batch}, control batches {commit, abort} x {p1, p2}, message v0 {plain (null/empty key and value), gzip/snappy/xerial " +
		"wrapper with absolute inner offsets, with a gap, single}, message v1 {plain CreateTime/LogAppendTime, gzip/snappy/xerial/lz4 wrapper with relative inner " +
		"offsets (contiguous, gap, first inner gone, single), absolute inner offsets, LogAppendTime wrapper}; codecs none/gzip/snappy(raw and xerial)/lz4/zstd. " +
		"Sweep 1 (strong oracle): every single-unit response at start offsets 0 and 5, every ordered pair of the multi-unit catalogue (none + one codec per kind) " +
		"[thorough: also every ordered triple of the uncompressed+wrapper catalogue and every ordered pair of the all-codec catalogue with inter-unit gap 0 and 2], " +
		"x truncation of the records bytes at EVERY byte boundary x requested offset in [first-1,last+1] x KeepControlRecords x isolation level x every permutation " +
		"of every broker-consistent aborted list (+ one irrelevant entry). Singles [thorough: and the pairs of the multi-unit catalogue]: full cross product; other responses: all views at the key cuts " +
		"(unit ends, one byte before, full length) and the base views (every requested offset x keep x {read_uncommitted, read_committed with the canonical list and its reverse}) at every other byte. Sweep 2 (strong oracle): every byte string of length 1..2 appended to every byte-prefix " +
		"of single-unit responses (two-byte strings: a stated subset of kinds, see appended_two_byte_strings). Sweep 3 (weak oracle: no panic, offsets strictly increasing and >= requested, next offset >= requested): " +
		"every substitution from {00,01,7f,80,ff} at every byte of every single-unit response [thorough: and every pair of the triples catalogue], CRC validation on and off. " +
		"distinct_nontrivial counts distinct (response, complete units, view, outcome) classes at the key cuts plus distinct outcomes of the arbitrary-byte sweeps.")
	r.Assume("the harness's reference decoder/encoder (package reflog) implements the Kafka message format documentation (record batch v2, message v0/v1, KIP-32 wrapper rules)",
		"klauspost/compress, pierrec/lz4 and stdlib gzip round-trip correctly (checked for every generated payload)",
		"aborted lists are limited to what a broker can send: entries only for transactions whose abort marker is at or after the requested offset",
		"null vs empty keys/values/header values are compared leniently (counted in nil_vs_empty_differences); a magic 0 record may carry the zero time or -1 ms",
		"reference next offset = end of the last fully decoded unit (v2: baseOffset+lastOffsetDelta+1), never below the requested offset")

	// ---- sweep 1: semantic x truncation
	var jobs []job
	var nResp int
	addResp := func(sweep string, full bool, resp *response) {
		nResp++
		jobs = append(jobs, func(w *worker) { exploreResponse(w, sweep, resp, full) })
	}
	for _, k := range S {
		addResp("single", true, mkResponse(5, 0, k))
		addResp("single", true, mkResponse(0, 0, k))
	}
	for _, a := range M {
		for _, b := range M {
			addResp("pair", thorough, mkResponse(5, 0, a, b))
		}
	}
	r.Set("responses_single", 2*len(S))
	r.Set("responses_pair", len(M)*len(M))
	if thorough {
		for _, gap := range []int64{0, 2} {
			for _, a := range Full {
				for _, b := range Full {
					if gap == 0 && a.sets&setM != 0 && b.sets&setM != 0 {
						continue // already covered with the full cross product
					}
					addResp("pair-all-codecs", false, mkResponse(5, gap, a, b))
				}
			}
		}
		for _, a := range M0 {
			for _, b := range M0 {
				for _, c := range M0 {
					addResp("triple", false, mkResponse(5, 0, a, b, c))
				}
			}
		}
		r.Set("responses_pair_all_codecs", 2*len(Full)*len(Full))
		r.Set("responses_triple", len(M0)*len(M0)*len(M0))
	}
	runJobs(r, "sweep1_semantic_x_truncation", jobs, deadline)

	// ---- sweep 3 before sweep 2 (cheap, more valuable)
	jobs = nil
	for _, k := range S {
		resp := mkResponse(5, 0, k)
		jobs = append(jobs, func(w *worker) {
			t0 := time.Now()
			exploreSubstituted(w, resp, substViews(resp, map[bool]int{false: 1, true: 2}[thorough]))
			if os.Getenv("C06_DEBUG") != "" {
				fmt.Fprintf(os.Stderr, "subst %-60s %6.2fs\n", resp.name, time.Since(t0).Seconds())
			}
		})
	}
	if thorough {
		for _, a := range M0 {
			for _, b := range M0 {
				resp := mkResponse(5, 0, a, b)
				jobs = append(jobs, func(w *worker) { exploreSubstituted(w, resp, substViews(resp, 0)) })
			}
		}
	}
	runJobs(r, "sweep3_substituted_bytes", jobs, deadline)

	// ---- sweep 2: appended bytes
	jobs = nil
	for _, k := range S {
		resp := mkResponse(5, 0, k)
		maxLen := 1
		if (thorough && k.sets&setFull != 0) || (k.sets&setM0 != 0 && k.pid != 2 && !strings.Contains(k.name, "idem") && !strings.Contains(k.name, "lz4")) {
			maxLen = 2
		}
		for cut := 0; cut <= len(resp.data); cut++ {
			cut := cut
			jobs = append(jobs, func(w *worker) { exploreAppended(w, resp, cut, maxLen) })
		}
	}
	r.Set("appended_two_byte_strings", map[bool]string{false: "single-unit kinds of the triples catalogue with producer 1 / no producer (11 kinds); one-byte strings: every kind",
		true: "single-unit kinds of the all-codec pair catalogue (104 kinds); one-byte strings: every kind"}[thorough])
	runJobs(r, "sweep2_appended_bytes", jobs, deadline)

	r.Set("bound_completed", map[string]any{"units_per_response": map[bool]int{false: 2, true: 3}[thorough], "truncation": "every byte boundary",
		"appended_bytes_max": 2, "substitution_values": "00,01,7f,80,ff"})
	r.Set("nil_vs_empty_differences", nilnessDiffs.Load())
	r.Set("errors_on_wellformed_inputs", errOnWellForm.Load())
	if s, ok := errOnWellFormS.Load().(string); ok {
		r.Set("errors_on_wellformed_inputs_first", s)
	}
	for _, name := range []string{S[0].name, M[len(M)/2].name} {
		for _, k := range cat {
			if k.name == name {
				resp := mkResponse(5, 0, k)
				r.Sample(map[string]any{"response": resp.name, "hex": hex.EncodeToString(resp.data), "aborted_lists_at_first": resp.abortedLists(resp.first)})
			}
		}
	}
	{
		var a, b *kind
		for _, k := range M {
			if k.txn && k.pid == 1 && a == nil {
				a = k
			}
			if k.ctrl == 0 && k.pid == 1 {
				b = k
			}
		}
		resp := mkResponse(5, 0, a, b)
		r.Sample(map[string]any{"response": resp.name, "hex": hex.EncodeToString(resp.data), "aborted_lists_at_first": resp.abortedLists(resp.first)})
	}

	// ---- violations, one per class, smallest input
	keys := make([]string, 0, len(viols))
	for k := range viols {
		keys = append(keys, k)
	}
	sort.Strings(keys)
	for _, k := range keys {
		c := viols[k]
		c.art.Occurrences = c.count
		r.Violation(k, fmt.Sprintf("%s\n[%d inputs in this class; smallest: %s, %s, requested offset %d, read_committed=%v aborted=%v keep_control=%v disable_crc=%v]\ninput=%s",
			c.what, c.count, c.art.Response, c.art.Mutation, c.art.Offset, c.art.ReadCommit, c.art.Aborted, c.art.KeepControl, c.art.DisableCRC, c.art.InputHex), c.art)
	}
	code := r.Write()
	pprof.StopCPUProfile()
	os.Exit(code)
}

// ------------------------------------------------------------------- replay

func replay(path string) int {
	b, err := os.ReadFile(path)
	if err != nil {
		fmt.Fprintln(os.Stderr, err)
		return 2
	}
	var f struct {
		Key      string   `json:"key"`
		Artefact artefact `json:"artefact"`
	}
	if err := json.Unmarshal(b, &f); err != nil {
		fmt.Fprintln(os.Stderr, err)
		return 2
	}
	a := f.Artefact
	in, err := hex.DecodeString(a.InputHex)
	if err != nil {
		fmt.Fprintln(os.Stderr, err)
		return 2
	}
	v := view{R: a.Offset, rc: a.ReadCommit, keep: a.KeepControl, list: a.Aborted, disableCRC: a.DisableCRC}
	got := runImpl(in, &v, toKmsg(a.Aborted), kgo.DefaultDecompressor())
	fmt.Printf("input (%d bytes): %s\nview: %+v\n", len(in), a.InputHex, v)
	fmt.Printf("implementation: offsets=%v next=%d err=%v panic=%q\n", offsetsOfGot(got.recs), got.next, got.err, got.panic)
	var ms []mismatch
	if a.Oracle == "weak" {
		ms = compareWeak(&got, &v)
	} else {
		ref := reflog.Decode(in, refOpts)
		want, wantNext := reflog.Visible(ref.Units, reflog.View{Offset: v.R, ReadCommitted: v.rc, Aborted: v.list, KeepControl: v.keep})
		fmt.Printf("reference:      offsets=%v next=%d units=%d tail=%v (%v)\n", offsetsOfWant(want), wantNext, len(ref.Units), ref.Tail, ref.TailErr)
		ms = compareStrong(&got, &ref, &v)
	}
	if len(ms) == 0 {
		fmt.Println("verdict: HELD")
		return 0
	}
	for _, m := range ms {
		fmt.Printf("verdict: VIOLATION key=%s: %s\n", m.key, m.what)
	}
	return 1
}
