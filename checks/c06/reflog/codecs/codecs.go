// Package codecs implements the Kafka compression codecs for package reflog
// directly on the stdlib gzip, klauspost/compress (snappy via s2, zstd) and
// pierrec/lz4 modules, without going through franz-go's compressor or
// decompressor. Safe for concurrent use.
//
// Note for importers: /verif/go.mod lists klauspost/compress and pierrec/lz4
// as indirect requirements; `go build -mod=mod` rewrites go.mod to make them
// direct. Build with a private copy of the modfile (see checks/c06/run.sh) to
// leave the shared go.mod untouched.
package codecs

import (
	"bytes"
	"compress/gzip"
	"encoding/binary"
	"errors"
	"fmt"
	"io"
	"sync"

	"github.com/klauspost/compress/s2"
	"github.com/klauspost/compress/zstd"
	"github.com/pierrec/lz4/v4"
)

// CodecSnappyXerial is a pseudo codec number for Compress only: snappy (codec
// 2 on the wire) in the xerial block framing the Java client writes.
const CodecSnappyXerial int8 = 2 | 0x40

// MaxDecompressed bounds what Decompress is willing to inflate.
const MaxDecompressed = 64 << 20

var (
	zencOnce sync.Once
	zenc     *zstd.Encoder
	zdecOnce sync.Once
	zdec     *zstd.Decoder
)

// Compress deflates src with Kafka codec number codec (1 gzip, 2 snappy raw
// block, CodecSnappyXerial, 3 lz4 frame, 4 zstd). The result is never nil.
func Compress(codec int8, src []byte) ([]byte, error) {
	var out bytes.Buffer
	switch codec {
	case 1:
		w := gzip.NewWriter(&out)
		w.Write(src)
		if err := w.Close(); err != nil {
			return nil, err
		}
	case 2:
		out.Write(s2.EncodeSnappy(nil, src))
	case CodecSnappyXerial:
		out.Write([]byte{0x82, 'S', 'N', 'A', 'P', 'P', 'Y', 0, 0, 0, 0, 1, 0, 0, 0, 1})
		// two chunks when possible, to exercise chunk concatenation
		chunks := [][]byte{src}
		if len(src) > 1 {
			chunks = [][]byte{src[:len(src)/2], src[len(src)/2:]}
		}
		for _, c := range chunks {
			enc := s2.EncodeSnappy(nil, c)
			var l [4]byte
			binary.BigEndian.PutUint32(l[:], uint32(len(enc)))
			out.Write(l[:])
			out.Write(enc)
		}
	case 3:
		w := lz4.NewWriter(&out)
		// 64 KiB blocks, like the Java client (the library default of 4 MiB
		// makes every reader allocate 4 MiB buffers)
		if err := w.Apply(lz4.BlockSizeOption(lz4.Block64Kb)); err != nil {
			return nil, err
		}
		w.Write(src)
		if err := w.Close(); err != nil {
			return nil, err
		}
	case 4:
		zencOnce.Do(func() {
			zenc, _ = zstd.NewWriter(nil, zstd.WithEncoderConcurrency(1))
		})
		out.Write(zenc.EncodeAll(src, nil))
	default:
		return nil, fmt.Errorf("unknown codec %d", codec)
	}
	b := out.Bytes()
	if b == nil {
		b = []byte{}
	}
	return b, nil
}

var xerialMagic = []byte{0x82, 'S', 'N', 'A', 'P', 'P', 'Y', 0}

// Decompress inflates src (snappy: raw block or xerial framing).
func Decompress(codec int8, src []byte) ([]byte, error) {
	switch codec {
	case 1:
		r, err := gzip.NewReader(bytes.NewReader(src))
		if err != nil {
			return nil, err
		}
		return readBounded(r)
	case 2:
		if len(src) >= 16 && bytes.HasPrefix(src, xerialMagic) {
			var out []byte
			b := src[16:]
			for len(b) > 0 {
				if len(b) < 4 {
					return nil, errors.New("xerial: short chunk header")
				}
				n := int(int32(binary.BigEndian.Uint32(b)))
				b = b[4:]
				if n < 0 || n > len(b) {
					return nil, errors.New("xerial: short chunk")
				}
				if l, err := s2.DecodedLen(b[:n]); err != nil || l > MaxDecompressed-len(out) {
					return nil, errors.New("xerial: bad chunk length")
				}
				dec, err := s2.Decode(nil, b[:n])
				if err != nil {
					return nil, err
				}
				out = append(out, dec...)
				b = b[n:]
			}
			return out, nil
		}
		if l, err := s2.DecodedLen(src); err != nil || l > MaxDecompressed {
			return nil, errors.New("snappy: bad length")
		}
		return s2.Decode(nil, src)
	case 3:
		return readBounded(lz4.NewReader(bytes.NewReader(src)))
	case 4:
		zdecOnce.Do(func() {
			zdec, _ = zstd.NewReader(nil, zstd.WithDecoderConcurrency(1), zstd.WithDecoderMaxMemory(MaxDecompressed))
		})
		return zdec.DecodeAll(src, nil)
	}
	return nil, fmt.Errorf("unknown codec %d", codec)
}

func readBounded(r io.Reader) ([]byte, error) {
	b, err := io.ReadAll(io.LimitReader(r, MaxDecompressed+1))
	if err != nil {
		return nil, err
	}
	if len(b) > MaxDecompressed {
		return nil, errors.New("decompressed data too large")
	}
	return b, nil
}
