package reflog

import "math"

// Aborted is one entry of a fetch response's aborted-transactions list.
type Aborted struct {
	ProducerID  int64
	FirstOffset int64
}

// View is what a consumer asked for.
type View struct {
	Offset        int64 // requested offset: records below it are not returned
	ReadCommitted bool
	Aborted       []Aborted // any order
	KeepControl   bool
}

// AbortedUnits reports, per unit, whether it is a data batch of an aborted
// transaction under the reference semantics: an entry (producer, firstOffset)
// aborts every transactional data batch of that producer whose base offset is
// in [firstOffset, offset of that producer's next ABORT marker at or after
// firstOffset] (unbounded if the response holds no such marker). The order of
// the entries is irrelevant by construction.
func AbortedUnits(units []Unit, aborted []Aborted) []bool {
	out := make([]bool, len(units))
	for _, a := range aborted {
		end := int64(math.MaxInt64)
		for i := range units {
			u := &units[i]
			if u.IsAbortMarker() && u.ProducerID == a.ProducerID && u.Offset >= a.FirstOffset {
				end = u.Offset
				break
			}
		}
		for i := range units {
			u := &units[i]
			if u.Magic == 2 && u.Transactional && !u.Control && u.ProducerID == a.ProducerID &&
				u.Offset >= a.FirstOffset && u.Offset <= end {
				out[i] = true
			}
		}
	}
	return out
}

// Visible returns the records of the decoded units a consumer with view v must
// be handed, in order, and the offset it must ask for next: the end of the
// last fully decoded unit (never below the requested offset).
func Visible(units []Unit, v View) (recs []*Record, next int64) {
	var ab []bool
	if v.ReadCommitted {
		ab = AbortedUnits(units, v.Aborted)
	}
	next = v.Offset
	for i := range units {
		u := &units[i]
		for j := range u.Records {
			r := &u.Records[j]
			if r.Offset < v.Offset {
				continue
			}
			if r.Control {
				if v.KeepControl {
					recs = append(recs, r)
				}
				continue
			}
			if ab != nil && ab[i] {
				continue
			}
			recs = append(recs, r)
		}
		if n := u.NextOffset(); n > next {
			next = n
		}
	}
	return recs, next
}
