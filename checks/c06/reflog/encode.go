package reflog

import (
	"encoding/binary"
	"fmt"
	"hash/crc32"
)

// CompressFunc deflates src with the given Kafka codec number.
type CompressFunc func(codec int8, src []byte) ([]byte, error)

// RecSpec describes one record of a magic 2 batch to encode.
type RecSpec struct {
	Attributes     int8
	TimestampDelta int64
	OffsetDelta    int32
	Key, Value     []byte // nil = null
	Headers        []Header
}

// BatchSpec describes a magic 2 record batch to encode. NumRecords is written
// as len(Records) unless NumRecordsOverride is set.
type BatchSpec struct {
	BaseOffset      int64
	LeaderEpoch     int32
	Codec           int8
	TimestampType   int8
	Transactional   bool
	Control         bool
	LastOffsetDelta int32
	BaseTimestamp   int64
	MaxTimestamp    int64
	ProducerID      int64
	ProducerEpoch   int16
	BaseSequence    int32
	Records         []RecSpec

	NumRecordsOverride *int32
}

// Attributes returns the int16 attributes of the batch.
func (b *BatchSpec) Attributes() int16 {
	a := int16(b.Codec & 0x7)
	if b.TimestampType == LogAppendTime {
		a |= 0x08
	}
	if b.Transactional {
		a |= 0x10
	}
	if b.Control {
		a |= 0x20
	}
	return a
}

func putVarint(dst []byte, v int32) []byte {
	u := uint32(v<<1) ^ uint32(v>>31)
	for u >= 0x80 {
		dst = append(dst, byte(u)|0x80)
		u >>= 7
	}
	return append(dst, byte(u))
}

func putVarlong(dst []byte, v int64) []byte {
	u := uint64(v<<1) ^ uint64(v>>63)
	for u >= 0x80 {
		dst = append(dst, byte(u)|0x80)
		u >>= 7
	}
	return append(dst, byte(u))
}

func putVarbytes(dst, b []byte) []byte {
	if b == nil {
		return putVarint(dst, -1)
	}
	dst = putVarint(dst, int32(len(b)))
	return append(dst, b...)
}

// EncodeRecord encodes one record including its length prefix.
func EncodeRecord(r RecSpec) []byte {
	body := []byte{byte(r.Attributes)}
	body = putVarlong(body, r.TimestampDelta)
	body = putVarint(body, r.OffsetDelta)
	body = putVarbytes(body, r.Key)
	body = putVarbytes(body, r.Value)
	body = putVarint(body, int32(len(r.Headers)))
	for _, h := range r.Headers {
		body = putVarbytes(body, []byte(h.Key))
		body = putVarbytes(body, h.Value)
	}
	out := putVarint(nil, int32(len(body)))
	return append(out, body...)
}

// EncodeBatch encodes a record batch (magic 2) with a correct length and crc.
func EncodeBatch(b BatchSpec, compress CompressFunc) ([]byte, error) {
	var recs []byte
	for _, r := range b.Records {
		recs = append(recs, EncodeRecord(r)...)
	}
	if b.Codec != CodecNone {
		if compress == nil {
			return nil, fmt.Errorf("codec %d and no compressor", b.Codec)
		}
		var err error
		if recs, err = compress(b.Codec, recs); err != nil {
			return nil, err
		}
	}
	n := int32(len(b.Records))
	if b.NumRecordsOverride != nil {
		n = *b.NumRecordsOverride
	}
	out := make([]byte, batchHeaderLen, batchHeaderLen+len(recs))
	be := binary.BigEndian
	be.PutUint64(out[0:], uint64(b.BaseOffset))
	be.PutUint32(out[8:], uint32(batchHeaderLen-12+len(recs)))
	be.PutUint32(out[12:], uint32(b.LeaderEpoch))
	out[16] = 2
	be.PutUint16(out[21:], uint16(b.Attributes()))
	be.PutUint32(out[23:], uint32(b.LastOffsetDelta))
	be.PutUint64(out[27:], uint64(b.BaseTimestamp))
	be.PutUint64(out[35:], uint64(b.MaxTimestamp))
	be.PutUint64(out[43:], uint64(b.ProducerID))
	be.PutUint16(out[51:], uint16(b.ProducerEpoch))
	be.PutUint32(out[53:], uint32(b.BaseSequence))
	be.PutUint32(out[57:], uint32(n))
	out = append(out, recs...)
	be.PutUint32(out[17:], crc32.Checksum(out[21:], castagnoli))
	return out, nil
}

// ControlRecord returns the single record of a control batch: key (version 0,
// type), value (version 0, coordinator epoch).
func ControlRecord(typ int16, coordinatorEpoch int32) RecSpec {
	key := make([]byte, 4)
	binary.BigEndian.PutUint16(key[2:], uint16(typ))
	val := make([]byte, 6)
	binary.BigEndian.PutUint32(val[2:], uint32(coordinatorEpoch))
	return RecSpec{Key: key, Value: val}
}

// MsgSpec describes one magic 0 / magic 1 message-set entry.
type MsgSpec struct {
	Magic         int8
	Offset        int64
	Codec         int8   // only meaningful on wrappers
	TimestampType int8   // magic 1
	Timestamp     int64  // magic 1
	Key, Value    []byte // nil = null
}

func putInt32bytes(dst, b []byte) []byte {
	var l [4]byte
	if b == nil {
		binary.BigEndian.PutUint32(l[:], 0xffffffff)
		return append(dst, l[:]...)
	}
	binary.BigEndian.PutUint32(l[:], uint32(len(b)))
	return append(append(dst, l[:]...), b...)
}

// EncodeMessage encodes one message-set entry (offset, size, crc, magic,
// attributes, [timestamp], key, value).
func EncodeMessage(m MsgSpec) []byte {
	out := make([]byte, 16, 64)
	attrs := m.Codec & 0x7
	if m.Magic == 1 && m.TimestampType == LogAppendTime {
		attrs |= 0x08
	}
	out = append(out, byte(m.Magic), byte(attrs))
	if m.Magic == 1 {
		var ts [8]byte
		binary.BigEndian.PutUint64(ts[:], uint64(m.Timestamp))
		out = append(out, ts[:]...)
	}
	out = putInt32bytes(out, m.Key)
	out = putInt32bytes(out, m.Value)
	binary.BigEndian.PutUint64(out[0:], uint64(m.Offset))
	binary.BigEndian.PutUint32(out[8:], uint32(len(out)-12))
	binary.BigEndian.PutUint32(out[12:], crc32.ChecksumIEEE(out[16:]))
	return out
}

// EncodeWrapper encodes a compressed wrapper message whose value is the
// compressed concatenation of the inner messages. The inner offsets are
// written exactly as given (the caller chooses absolute or relative).
func EncodeWrapper(w MsgSpec, inner []MsgSpec, compress CompressFunc) ([]byte, error) {
	if w.Codec == CodecNone || compress == nil {
		return nil, fmt.Errorf("wrapper needs a codec and a compressor")
	}
	var set []byte
	for _, im := range inner {
		im.Codec = CodecNone
		set = append(set, EncodeMessage(im)...)
	}
	val, err := compress(w.Codec, set)
	if err != nil {
		return nil, err
	}
	w.Value = val
	return EncodeMessage(w), nil
}
