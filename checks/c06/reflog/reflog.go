// Package reflog is a small, boring reference decoder and encoder of the three
// Kafka log formats, written from the format specification
// (https://kafka.apache.org/documentation/#messageformat and KIP-32/KIP-98):
//
//   - record batch v2 (magic 2),
//   - message set v0 (magic 0) and v1 (magic 1), including compressed wrapper
//     messages (v0 wrappers hold ABSOLUTE inner offsets; v1 wrappers hold
//     RELATIVE inner offsets and carry the absolute offset of the LAST inner
//     message; a v1 wrapper with timestamp type LogAppendTime overrides the
//     inner timestamps).
//
// It deliberately does not import franz-go (kgo / kmsg): it is the oracle that
// franz-go's fetch parsing (C06) and produce encoding (C18) are compared with.
//
// Compression is pluggable (Options.Decompress / the compress argument of the
// encoders) so this package only needs the standard library; the sibling
// package reflog/codecs provides implementations of all Kafka codecs on top of
// the stdlib gzip, klauspost/compress and pierrec/lz4 modules.
package reflog

import (
	"encoding/binary"
	"errors"
	"fmt"
	"hash/crc32"
	"math"
)

// Codec numbers as stored in the attributes (low 3 bits).
const (
	CodecNone   int8 = 0
	CodecGzip   int8 = 1
	CodecSnappy int8 = 2
	CodecLZ4    int8 = 3
	CodecZstd   int8 = 4
)

// Timestamp types.
const (
	CreateTime    int8 = 0
	LogAppendTime int8 = 1
	NoTimestamp   int8 = -1 // magic 0 has no timestamp at all
)

// Control record types (record key: int16 version, int16 type).
const (
	ControlAbort  int16 = 0
	ControlCommit int16 = 1
)

var castagnoli = crc32.MakeTable(crc32.Castagnoli)

// Header is a record header. A nil Value is the null value.
type Header struct {
	Key   string
	Value []byte
}

// Record is one logical record with everything a consumer can learn about it.
type Record struct {
	Offset        int64
	Timestamp     int64  // milliseconds; -1 for magic 0
	TimestampType int8   // CreateTime, LogAppendTime, NoTimestamp (magic 0)
	Key           []byte // nil = null
	Value         []byte // nil = null
	Headers       []Header

	Magic         int8
	Codec         int8 // codec of the containing batch / wrapper message
	Transactional bool
	Control       bool
	ControlType   int16 // ControlAbort / ControlCommit for control records, else -1
	ProducerID    int64 // -1 for magic 0/1
	ProducerEpoch int16 // -1 for magic 0/1
	LeaderEpoch   int32 // partitionLeaderEpoch of the batch; -1 for magic 0/1
	RecordAttrs   int8  // per-record attributes byte (magic 2, currently unused by Kafka)
	Sequence      int32 // baseSequence + offsetDelta for magic 2 (wraps at MaxInt32), else -1
}

// Unit is one top-level element of a partition's records bytes: a record batch
// (magic 2) or one message-set entry (magic 0/1, possibly a compressed wrapper).
type Unit struct {
	Magic      int8
	Start, End int   // byte range [Start, End) in the decoded input
	Offset     int64 // baseOffset (magic 2) or the entry's offset (magic 0/1; the wrapper's offset)
	LastOffset int64 // last offset the unit covers (magic 2: baseOffset+lastOffsetDelta)

	Attributes    int16
	Codec         int8
	TimestampType int8
	Transactional bool
	Control       bool
	Wrapper       bool // magic 0/1 compressed wrapper

	// magic 2 header fields
	LeaderEpoch     int32
	CRC             uint32
	LastOffsetDelta int32
	BaseTimestamp   int64
	MaxTimestamp    int64
	ProducerID      int64
	ProducerEpoch   int16
	BaseSequence    int32
	NumRecords      int32

	// magic 0/1 outer message timestamp (magic 1)
	Timestamp int64

	Records []Record
}

// NextOffset is the first offset after the unit.
func (u *Unit) NextOffset() int64 { return u.LastOffset + 1 }

// IsAbortMarker reports whether the unit is a control batch whose (first)
// record is an ABORT marker.
func (u *Unit) IsAbortMarker() bool {
	return u.Magic == 2 && u.Control && len(u.Records) > 0 && u.Records[0].ControlType == ControlAbort
}

// Tail says how decoding ended.
type Tail int

const (
	TailNone      Tail = iota // input fully consumed by complete units
	TailTruncated             // the last unit is incomplete (fewer bytes than its header / declared length)
	TailCorrupt               // the next unit is complete by length but malformed (crc, lengths, ...)
)

func (t Tail) String() string {
	switch t {
	case TailNone:
		return "none"
	case TailTruncated:
		return "truncated"
	}
	return "corrupt"
}

// Result of Decode.
type Result struct {
	Units    []Unit
	Consumed int // bytes covered by Units
	Tail     Tail
	TailErr  error // why the tail was not decoded (nil for TailNone)
}

// Options of Decode.
type Options struct {
	// Decompress inflates a compressed records section / wrapper value. If
	// nil, any compressed unit is reported as corrupt.
	Decompress func(codec int8, src []byte) ([]byte, error)
	// SkipCRC disables crc verification.
	SkipCRC bool
}

// Decode decodes as many complete, well-formed units as b starts with.
func Decode(b []byte, o Options) Result {
	var res Result
	pos := 0
	for pos < len(b) {
		in := b[pos:]
		if len(in) < 12 {
			res.Tail, res.TailErr = TailTruncated, errors.New("fewer than 12 bytes of offset+length")
			break
		}
		size := int32(binary.BigEndian.Uint32(in[8:]))
		if size < 0 {
			res.Tail, res.TailErr = TailCorrupt, fmt.Errorf("negative length %d", size)
			break
		}
		total := 12 + int(size)
		if len(in) < total {
			res.Tail, res.TailErr = TailTruncated, fmt.Errorf("unit declares %d bytes, %d present", total, len(in))
			break
		}
		if size < 5 {
			res.Tail, res.TailErr = TailCorrupt, fmt.Errorf("length %d too small to hold a magic byte", size)
			break
		}
		var u Unit
		var err error
		switch magic := int8(in[16]); magic {
		case 0, 1:
			u, err = decodeOuterMessage(in[:total], o)
		case 2:
			u, err = decodeBatch(in[:total], o)
		default:
			err = fmt.Errorf("unknown magic %d", magic)
		}
		if err != nil {
			res.Tail, res.TailErr = TailCorrupt, err
			break
		}
		u.Start, u.End = pos, pos+total
		res.Units = append(res.Units, u)
		pos += total
		res.Consumed = pos
	}
	return res
}

// ---------------------------------------------------------------- magic 2

const batchHeaderLen = 61 // through the records count

func decodeBatch(in []byte, o Options) (Unit, error) {
	var u Unit
	if len(in) < batchHeaderLen {
		return u, fmt.Errorf("record batch of %d bytes is shorter than its %d byte header", len(in), batchHeaderLen)
	}
	u.Magic = 2
	u.Offset = int64(binary.BigEndian.Uint64(in[0:]))
	// in[8:12] batchLength was validated by the caller
	u.LeaderEpoch = int32(binary.BigEndian.Uint32(in[12:]))
	// in[16] magic
	u.CRC = binary.BigEndian.Uint32(in[17:])
	if !o.SkipCRC {
		if c := crc32.Checksum(in[21:], castagnoli); c != u.CRC {
			return u, fmt.Errorf("record batch crc32c %08x, computed %08x", u.CRC, c)
		}
	}
	u.Attributes = int16(binary.BigEndian.Uint16(in[21:]))
	u.Codec = int8(u.Attributes & 0x7)
	u.TimestampType = int8(u.Attributes >> 3 & 1)
	u.Transactional = u.Attributes&0x10 != 0
	u.Control = u.Attributes&0x20 != 0
	u.LastOffsetDelta = int32(binary.BigEndian.Uint32(in[23:]))
	u.BaseTimestamp = int64(binary.BigEndian.Uint64(in[27:]))
	u.MaxTimestamp = int64(binary.BigEndian.Uint64(in[35:]))
	u.ProducerID = int64(binary.BigEndian.Uint64(in[43:]))
	u.ProducerEpoch = int16(binary.BigEndian.Uint16(in[51:]))
	u.BaseSequence = int32(binary.BigEndian.Uint32(in[53:]))
	u.NumRecords = int32(binary.BigEndian.Uint32(in[57:]))
	if u.NumRecords < 0 {
		return u, fmt.Errorf("negative record count %d", u.NumRecords)
	}
	if u.LastOffsetDelta < 0 {
		return u, fmt.Errorf("negative lastOffsetDelta %d", u.LastOffsetDelta)
	}
	u.LastOffset = u.Offset + int64(u.LastOffsetDelta)

	raw := in[batchHeaderLen:]
	if u.Codec != CodecNone {
		if o.Decompress == nil {
			return u, errors.New("compressed batch and no decompressor")
		}
		var err error
		if raw, err = o.Decompress(u.Codec, raw); err != nil {
			return u, fmt.Errorf("decompress codec %d: %w", u.Codec, err)
		}
	}
	prevDelta := int64(-1)
	for i := int32(0); i < u.NumRecords; i++ {
		l, n := varint(raw)
		if n == 0 || l < 0 || int64(len(raw)-n) < l {
			return u, fmt.Errorf("record %d: bad length", i)
		}
		body := raw[n : n+int(l)]
		raw = raw[n+int(l):]
		r, delta, err := decodeRecordBody(body)
		if err != nil {
			return u, fmt.Errorf("record %d: %w", i, err)
		}
		if int64(delta) <= prevDelta || delta > u.LastOffsetDelta {
			return u, fmt.Errorf("record %d: offset delta %d not increasing / beyond lastOffsetDelta %d", i, delta, u.LastOffsetDelta)
		}
		prevDelta = int64(delta)
		r.Offset = u.Offset + int64(delta)
		if u.TimestampType == LogAppendTime {
			r.Timestamp = u.MaxTimestamp
		} else {
			r.Timestamp += u.BaseTimestamp // decodeRecordBody stored the delta
		}
		r.TimestampType = u.TimestampType
		r.Magic = 2
		r.Codec = u.Codec
		r.Transactional = u.Transactional
		r.Control = u.Control
		r.ControlType = -1
		if u.Control && len(r.Key) >= 4 {
			r.ControlType = int16(binary.BigEndian.Uint16(r.Key[2:]))
		}
		r.ProducerID = u.ProducerID
		r.ProducerEpoch = u.ProducerEpoch
		r.LeaderEpoch = u.LeaderEpoch
		r.Sequence = -1
		if u.BaseSequence >= 0 {
			r.Sequence = int32((int64(u.BaseSequence) + int64(delta)) % (int64(math.MaxInt32) + 1))
		}
		u.Records = append(u.Records, r)
	}
	if len(raw) != 0 {
		return u, fmt.Errorf("%d bytes left after %d records", len(raw), u.NumRecords)
	}
	return u, nil
}

// decodeRecordBody decodes a record after its length prefix; Timestamp holds
// the timestamp DELTA on return.
func decodeRecordBody(b []byte) (r Record, offsetDelta int32, err error) {
	bad := func(what string) (Record, int32, error) { return Record{}, 0, errors.New(what) }
	if len(b) < 1 {
		return bad("no attributes")
	}
	r.RecordAttrs = int8(b[0])
	b = b[1:]
	ts, n := varlong(b)
	if n == 0 {
		return bad("bad timestamp delta")
	}
	b = b[n:]
	r.Timestamp = ts
	od, n := varint(b)
	if n == 0 {
		return bad("bad offset delta")
	}
	b = b[n:]
	if od < 0 || od > math.MaxInt32 {
		return bad("offset delta out of range")
	}
	offsetDelta = int32(od)
	var ok bool
	if r.Key, b, ok = varbytes(b); !ok {
		return bad("bad key")
	}
	if r.Value, b, ok = varbytes(b); !ok {
		return bad("bad value")
	}
	nh, n := varint(b)
	if n == 0 || nh < 0 {
		return bad("bad header count")
	}
	b = b[n:]
	for i := int64(0); i < nh; i++ {
		var k, v []byte
		if k, b, ok = varbytes(b); !ok || k == nil {
			return bad("bad header key")
		}
		if v, b, ok = varbytes(b); !ok {
			return bad("bad header value")
		}
		r.Headers = append(r.Headers, Header{Key: string(k), Value: v})
	}
	if len(b) != 0 {
		return bad("record length does not match its content")
	}
	return r, offsetDelta, nil
}

// varint reads a zigzag varint of at most 32 bits (5 bytes).
func varint(b []byte) (int64, int) {
	v, n := uvar(b, 5)
	if n == 0 || v > math.MaxUint32 {
		return 0, 0
	}
	u := uint32(v)
	return int64(int32(u>>1) ^ -int32(u&1)), n
}

// varlong reads a zigzag varint of at most 64 bits (10 bytes).
func varlong(b []byte) (int64, int) {
	v, n := uvar(b, 10)
	if n == 0 {
		return 0, 0
	}
	return int64(v>>1) ^ -int64(v&1), n
}

func uvar(b []byte, max int) (uint64, int) {
	var v uint64
	for i := 0; i < len(b) && i < max; i++ {
		c := b[i]
		if i == 9 && c > 1 {
			return 0, 0
		}
		v |= uint64(c&0x7f) << (7 * uint(i))
		if c&0x80 == 0 {
			return v, i + 1
		}
	}
	return 0, 0
}

// varbytes reads varint-length-prefixed bytes; length -1 is null (nil).
func varbytes(b []byte) (val, rest []byte, ok bool) {
	l, n := varint(b)
	if n == 0 || l < -1 {
		return nil, nil, false
	}
	b = b[n:]
	if l == -1 {
		return nil, b, true
	}
	if int64(len(b)) < l {
		return nil, nil, false
	}
	return b[:l:l], b[l:], true
}

// -------------------------------------------------------------- magic 0 / 1

type rawMessage struct {
	offset    int64
	magic     int8
	attrs     int8
	timestamp int64
	key, val  []byte
}

// decodeRawMessage decodes exactly one message-set entry occupying all of in.
func decodeRawMessage(in []byte, o Options) (rawMessage, error) {
	var m rawMessage
	if len(in) < 12+4+1+1 {
		return m, errors.New("message too short")
	}
	m.offset = int64(binary.BigEndian.Uint64(in))
	if size := int32(binary.BigEndian.Uint32(in[8:])); int(size) != len(in)-12 {
		return m, fmt.Errorf("message size %d, %d bytes present", size, len(in)-12)
	}
	crc := binary.BigEndian.Uint32(in[12:])
	if !o.SkipCRC {
		if c := crc32.ChecksumIEEE(in[16:]); c != crc {
			return m, fmt.Errorf("message crc32 %08x, computed %08x", crc, c)
		}
	}
	m.magic = int8(in[16])
	m.attrs = int8(in[17])
	b := in[18:]
	switch m.magic {
	case 0:
		m.timestamp = -1
		if m.attrs&^0x07 != 0 {
			return m, fmt.Errorf("magic 0 attributes %#x use undefined bits", uint8(m.attrs))
		}
	case 1:
		if len(b) < 8 {
			return m, errors.New("no room for the timestamp")
		}
		m.timestamp = int64(binary.BigEndian.Uint64(b))
		b = b[8:]
		if m.attrs&^0x0f != 0 {
			return m, fmt.Errorf("magic 1 attributes %#x use undefined bits", uint8(m.attrs))
		}
	default:
		return m, fmt.Errorf("magic %d is not a message-set magic", m.magic)
	}
	var ok bool
	if m.key, b, ok = int32bytes(b); !ok {
		return m, errors.New("bad key")
	}
	if m.val, b, ok = int32bytes(b); !ok {
		return m, errors.New("bad value")
	}
	if len(b) != 0 {
		return m, errors.New("message size does not match its content")
	}
	return m, nil
}

func int32bytes(b []byte) (val, rest []byte, ok bool) {
	if len(b) < 4 {
		return nil, nil, false
	}
	l := int32(binary.BigEndian.Uint32(b))
	b = b[4:]
	if l == -1 {
		return nil, b, true
	}
	if l < 0 || len(b) < int(l) {
		return nil, nil, false
	}
	return b[:l:l], b[l:], true
}

func (m *rawMessage) record(codec int8) Record {
	r := Record{
		Offset: m.offset, Timestamp: m.timestamp, Key: m.key, Value: m.val,
		Magic: m.magic, Codec: codec, ControlType: -1,
		ProducerID: -1, ProducerEpoch: -1, LeaderEpoch: -1, Sequence: -1,
	}
	if m.magic == 0 {
		r.TimestampType = NoTimestamp
		r.Timestamp = -1
	} else {
		r.TimestampType = m.attrs >> 3 & 1
	}
	return r
}

func decodeOuterMessage(in []byte, o Options) (Unit, error) {
	var u Unit
	m, err := decodeRawMessage(in, o)
	if err != nil {
		return u, err
	}
	u.Magic = m.magic
	u.Offset = m.offset
	u.LastOffset = m.offset
	u.Attributes = int16(m.attrs)
	u.Codec = m.attrs & 0x7
	u.Timestamp = m.timestamp
	u.LeaderEpoch, u.ProducerID, u.ProducerEpoch, u.BaseSequence = -1, -1, -1, -1
	if m.magic == 0 {
		u.TimestampType = NoTimestamp
	} else {
		u.TimestampType = m.attrs >> 3 & 1
	}
	if u.Codec == CodecNone {
		u.NumRecords = 1
		u.Records = []Record{m.record(CodecNone)}
		return u, nil
	}

	// Compressed wrapper: the value is a message set.
	u.Wrapper = true
	if u.Codec == CodecZstd {
		return u, errors.New("zstd requires record batches (magic 2)")
	}
	if m.val == nil {
		return u, errors.New("compressed wrapper with a null value")
	}
	if o.Decompress == nil {
		return u, errors.New("compressed wrapper and no decompressor")
	}
	inner, err := o.Decompress(u.Codec, m.val)
	if err != nil {
		return u, fmt.Errorf("decompress codec %d: %w", u.Codec, err)
	}
	var msgs []rawMessage
	for len(inner) > 0 {
		if len(inner) < 12 {
			return u, errors.New("inner message set ends inside a message header")
		}
		size := int32(binary.BigEndian.Uint32(inner[8:]))
		if size < 0 || len(inner) < 12+int(size) {
			return u, errors.New("inner message set ends inside a message")
		}
		im, err := decodeRawMessage(inner[:12+int(size)], o)
		if err != nil {
			return u, fmt.Errorf("inner message %d: %w", len(msgs), err)
		}
		if im.magic != m.magic {
			return u, fmt.Errorf("inner magic %d inside a magic %d wrapper", im.magic, m.magic)
		}
		if im.attrs&0x7 != 0 {
			return u, errors.New("nested compression")
		}
		msgs = append(msgs, im)
		inner = inner[12+int(size):]
	}
	if len(msgs) == 0 {
		return u, errors.New("compressed wrapper without inner messages")
	}
	last := msgs[len(msgs)-1].offset
	var base int64
	if m.magic == 1 {
		// Relative inner offsets; the wrapper's offset is the absolute
		// offset of the last inner message.
		if m.offset < last {
			return u, fmt.Errorf("wrapper offset %d below the last inner offset %d", m.offset, last)
		}
		base = m.offset - last
	} else if last != m.offset {
		// Absolute inner offsets; the wrapper carries the last one.
		return u, fmt.Errorf("magic 0 wrapper offset %d differs from its last inner offset %d", m.offset, last)
	}
	prev := int64(math.MinInt64)
	for i := range msgs {
		r := msgs[i].record(u.Codec)
		r.Offset += base
		if i > 0 && r.Offset <= prev {
			return u, errors.New("inner offsets not increasing")
		}
		prev = r.Offset
		if m.magic == 1 {
			// KIP-32: the wrapper's timestamp type applies to the inner
			// messages, and with LogAppendTime so does its timestamp.
			r.TimestampType = u.TimestampType
			if u.TimestampType == LogAppendTime {
				r.Timestamp = m.timestamp
			}
		}
		u.Records = append(u.Records, r)
	}
	u.NumRecords = int32(len(msgs))
	return u, nil
}
