#!/bin/bash
# C06 Fetch response parsing matches the Kafka log format.
# usage: run.sh [--replay <violation.json>]
set -eu
cd "$(dirname "$0")/../.."
. bin/env.sh
# reflog/codecs imports klauspost/compress and pierrec/lz4 directly; they are
# "// indirect" in the shared go.mod and `go build -mod=mod` would rewrite it.
# Build against a private copy of the (possibly VERIF_REPO-adjusted) modfile.
cp "$VERIF_MODFILE" "$BUILD/c06.mod"
cp "${VERIF_MODFILE%.mod}.sum" "$BUILD/c06.sum"
go build -modfile="$BUILD/c06.mod" -o "$BUILD/c06" ./checks/c06
# drop this tier's stale violation artefacts of earlier runs (ev numbers them from 1)
[ "$#" -eq 0 ] && rm -f "$VERIF_ROOT/violations/C06/$VERIF_TIER"-*.json
exec "$BUILD/c06" "$@"
