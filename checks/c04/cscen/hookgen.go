package cscen

import (
	"context"
	"fmt"
	"time"

	"github.com/twmb/franz-go/pkg/kgo"

	"verif.local/ev"
	"verif/lib/netctl"
	"verif/lib/nrun"
	"verif/lib/nscen"
)

// Generated family HG (C14 only: its oracle is the fetch half of the
// buffered/unbuffered hook pairing, not C04's record oracles). One scenario
// whose Setup lets the explorer choose (cost 0)
//
//	cfg   hook speed {fast, slow: OnFetchRecordUnbuffered takes 30 ms of virtual
//	      time per record} x placement {two brokers, one broker},
//	t1    the polling thread's script over PollFetches, PollRecords(1),
//	      PollRecords(3),
//	d     the disrupting thread's script: up to two calls over SetOffsets (seek
//	      back / forward), RemoveConsumePartitions(t/1), AddConsumePartitions(t/1),
//	      PurgeTopicsFromConsuming(t), PauseFetchPartitions(t/0), a second
//	      concurrent PollFetches, Close (last only),
//	at    where D starts: after T1's g-th poll returned, or WHILE the hook
//	      dispatch of T1's g-th poll is running (first OnFetchRecordUnbuffered
//	      call seen during that poll); with "+fresh" D first appends one record
//	      to each partition and works 10 ms, so that fresh fetches are buffered
//	      (and then discarded by a seek / remove / purge / close).
//
// With the slow hook "another call arrives while a dispatch is running" is on
// the default schedule. Oracle (Final): after the scripts the application
// resumes what it paused and polls until two polls in a row are empty; then the
// gauges must be zero; after Close (and time for the slow hooks to finish)
// every record seen by OnFetchRecordBuffered was seen exactly once by
// OnFetchRecordUnbuffered, nothing else was unbuffered, gauges zero.

// gateHook wraps the ledger: it reports dispatch activity to the scenario and
// makes the unbuffered hook slow.
type gateHook struct {
	*nscen.HookLedger
	st   *state
	slow time.Duration
}

func (h *gateHook) OnFetchRecordUnbuffered(r *kgo.Record, polled bool) {
	st := h.st
	st.mu.Lock()
	if st.curPoll > 0 {
		if st.dispatchSeen == nil {
			st.dispatchSeen = map[int]bool{}
		}
		if !st.dispatchSeen[st.curPoll] {
			st.dispatchSeen[st.curPoll] = true
			st.cond.Broadcast()
		}
	}
	st.mu.Unlock()
	if h.slow > 0 {
		time.Sleep(h.slow)
	}
	h.HookLedger.OnFetchRecordUnbuffered(r, polled)
}

type hcfg struct {
	name string
	v    variant
}

var hcfgs = []hcfg{
	{"slow-2brokers", variant{hookGate: true, slowHook: 30 * time.Millisecond}},
	{"fast-2brokers", variant{hookGate: true}},
	{"slow-1broker", variant{hookGate: true, slowHook: 30 * time.Millisecond, oneSource: true}},
	{"fast-1broker", variant{hookGate: true, oneSource: true}},
}

// D calls: S SetOffsets back to 0 (both partitions), F SetOffsets forward to 8,
// R RemoveConsumePartitions(t/1), A AddConsumePartitions(t/1 at 0),
// P PurgeTopicsFromConsuming(t), a PauseFetchPartitions(t/0), 2 a concurrent
// PollFetches (1 s), X Close (only as the last call).
const hops = "SFRAPa2X"

func hscripts() []string {
	out := []string{"-"}
	for _, a := range hops {
		out = append(out, string(a))
	}
	for _, a := range hops[:len(hops)-1] {
		for _, b := range hops {
			out = append(out, string([]rune{a, b}))
		}
	}
	return out
}

type hat struct {
	in    bool // during the dispatch of poll g (else: after poll g returned)
	g     int
	fresh bool
}

func (a hat) String() string {
	s := fmt.Sprintf("ret%d", a.g)
	if a.in {
		s = fmt.Sprintf("in%d", a.g)
	}
	if a.fresh {
		s += "+fresh"
	}
	return s
}

func hats(thorough bool) []hat {
	if !thorough {
		return []hat{{true, 1, true}, {false, 1, false}, {true, 2, true}, {false, 2, true}}
	}
	var out []hat
	for _, fresh := range []bool{true, false} {
		out = append(out, hat{true, 1, fresh}, hat{true, 2, fresh}, hat{false, 0, fresh}, hat{false, 1, fresh}, hat{false, 2, fresh})
	}
	return out
}

func ht1scripts(thorough bool) []string {
	if !thorough {
		return []string{"00", "01", "13", "30"}
	}
	var out []string
	for _, a := range "013" {
		for _, b := range "013" {
			out = append(out, string([]rune{a, b}))
		}
	}
	for _, a := range "01" {
		for _, b := range "01" {
			for _, c := range "01" {
				out = append(out, string([]rune{a, b, c}))
			}
		}
	}
	return out
}

// hdo runs one disruptor call of the hook family.
func (st *state) hdo(t *netctl.Thread, op rune) {
	both := func(o int64) map[string]map[int32]kgo.EpochOffset {
		return map[string]map[int32]kgo.EpochOffset{topic: {0: {Epoch: -1, Offset: o}, 1: {Epoch: -1, Offset: o}}}
	}
	switch op {
	case 'S':
		t.Step("setoffsets-0")
		st.cl.SetOffsets(both(0))
	case 'F':
		t.Step("setoffsets-8")
		st.cl.SetOffsets(both(8))
	case 'R':
		t.Step("remove-t1")
		st.cl.RemoveConsumePartitions(map[string][]int32{topic: {1}})
	case 'A':
		t.Step("add-t1")
		st.cl.AddConsumePartitions(map[string]map[int32]kgo.Offset{topic: {1: kgo.NewOffset().At(0)}})
	case 'P':
		t.Step("purge-consuming")
		st.cl.PurgeTopicsFromConsuming(topic)
	case 'a':
		t.Step("pause-t0")
		st.cl.PauseFetchPartitions(map[string][]int32{topic: {0}})
		st.mu.Lock()
		st.pausedSince[0][0] = st.seqNow()
		st.mu.Unlock()
	case '2':
		t.Step("second-pollfetches")
		ctx, cancel := context.WithTimeout(context.Background(), time.Second)
		st.cl.PollFetches(ctx)
		cancel()
	case 'X':
		t.Step("close")
		st.mu.Lock()
		st.closedSeen = true
		st.mu.Unlock()
		st.cl.Close()
	}
}

func hookGenScenario() *netctl.Scenario {
	return &netctl.Scenario{
		Name:      "HG",
		Faults:    fetchFaults,
		Horizon:   3 * time.Minute,
		MaxPoints: 400,
		Setup: func(x *netctl.Exec) {
			thorough := ev.Thorough()
			var cfgNames, atNames []string
			for _, c := range hcfgs {
				cfgNames = append(cfgNames, c.name)
			}
			ats := hats(thorough)
			for _, a := range ats {
				atNames = append(atNames, a.String())
			}
			t1s, ds := ht1scripts(thorough), hscripts()
			cfg := hcfgs[x.ChooseOf("cfg", cfgNames)]
			t1 := t1s[x.ChooseOf("t1", t1s)]
			d := ds[x.ChooseOf("d", ds)]
			at := ats[x.ChooseOf("at", atNames)]

			v := cfg.v
			v.name = "HG"
			st := newState(x, &v)
			work := func(dur time.Duration) bool { // false: the execution is being torn down
				tm := time.NewTimer(dur)
				defer tm.Stop()
				select {
				case <-tm.C:
					return true
				case <-st.stop:
					return false
				}
			}
			// D first: once its gate is open its calls come before T1's next one.
			x.Thread("D", func(t *netctl.Thread) {
				if d == "-" {
					return
				}
				st.mu.Lock()
				for !st.t1done && ((at.in && !st.dispatchSeen[at.g]) || (!at.in && st.pollsDone < at.g)) {
					st.cond.Wait()
				}
				st.mu.Unlock()
				if at.fresh {
					t.Step("append-both")
					st.appendAfterMove(0)
					st.appendAfterMove(1)
					if !work(10 * time.Millisecond) {
						return
					}
				}
				for _, op := range d {
					st.hdo(t, op)
				}
			})
			x.Thread("T1", func(t *netctl.Thread) {
				defer func() {
					st.mu.Lock()
					st.t1done = true
					st.cond.Broadcast()
					st.mu.Unlock()
				}()
				for i, op := range t1 {
					n := int(op - '0')
					if n == 0 {
						t.Step("pollfetches")
					} else {
						t.Step(fmt.Sprintf("pollrecords-%d", n))
					}
					st.mu.Lock()
					st.curPoll = i + 1
					st.mu.Unlock()
					fs := st.hpoll(n, 2*time.Second)
					st.mu.Lock()
					st.curPoll = 0
					st.pollsDone++
					if fs.IsClientClosed() {
						st.closedSeen = true
					}
					closed := st.closedSeen
					st.cond.Broadcast()
					st.mu.Unlock()
					if closed {
						return
					}
				}
			})
		},
		Final: finalHooks,
	}
}

// hpoll polls without judging the records (the hook family's subject is the
// hook pairing; seeks legitimately re-deliver and skip records).
func (st *state) hpoll(n int, timeout time.Duration) kgo.Fetches {
	ctx, cancel := context.WithTimeout(context.Background(), timeout)
	defer cancel()
	if n == 0 {
		return st.cl.PollFetches(ctx)
	}
	return st.cl.PollRecords(ctx, n)
}

func finalHooks(x *netctl.Exec) {
	st := x.Data.(*state)
	deadline := time.Now().Add(2 * time.Minute)
	for !x.ThreadsDone() && time.Now().Before(deadline) {
		time.Sleep(50 * time.Millisecond)
	}
	if !x.ThreadsDone() {
		x.Violate("harness:threads-stuck", "application threads still running 2 virtual minutes into pass-through")
		return
	}
	st.mu.Lock()
	closed := st.closedSeen
	st.mu.Unlock()
	polls, empty := 0, 0
	if !closed {
		st.resumeStillPaused()
		// Nothing is produced any more: poll until two polls in a row are empty.
		for ; polls < 40 && empty < 2; polls++ {
			if st.hpoll(0, 600*time.Millisecond).NumRecords() == 0 {
				empty++
			} else {
				empty = 0
			}
		}
		if empty < 2 {
			x.Violate("harness:never-quiet", "polls kept returning records although nothing is produced")
		} else if n, b := st.cl.BufferedFetchRecords(), st.cl.BufferedFetchBytes(); n != 0 || b != 0 {
			x.Violate("hook-buffered-nonzero", "two empty polls in a row, nothing is produced, but BufferedFetchRecords=%d BufferedFetchBytes=%d", n, b)
		}
		st.cl.Close()
	}
	// Dispatches of discarded fetches run asynchronously and the hook may be
	// slow: give them time (at most ~30 records x 30 ms each).
	time.Sleep(3 * time.Second)
	st.hooks.CheckFetch(x)
	if n, b := st.cl.BufferedFetchRecords(), st.cl.BufferedFetchBytes(); n != 0 || b != 0 {
		x.Violate("hook-buffered-nonzero-closed", "client closed but BufferedFetchRecords=%d BufferedFetchBytes=%d", n, b)
	}
	nb, nu, np := st.hooks.FetchCounts()
	x.Observe("buffered=%d unbuffered=%d polled=%d closed-by-script=%v drainpolls=%d", nb, nu, np, closed, polls)
}

// HookGenPlans returns the C14-only generated family HG. Quick: 4
// configurations x 4 polling scripts x 65 disruptor scripts x 4 start
// positions on the default schedule; thorough: 4 x 17 x 65 x 10, then every
// single deviation (time-capped).
func HookGenPlans() []nrun.Plan {
	return []nrun.Plan{{Scenario: hookGenScenario(), QuickBudget: 0, ThoroughBudget: 1, Weight: 3}}
}
