package cscen

import (
	"fmt"
	"strings"
	"time"

	"github.com/twmb/franz-go/pkg/kgo"
	"github.com/twmb/franz-go/pkg/kmsg"

	"verif.local/ev"
	"verif/lib/netctl"
	"verif/lib/nrun"
)

// Generated family DG: instead of one fixed application script per scenario,
// ONE scenario whose Setup lets the explorer choose (cost 0: every combination
// is executed at every deviation level)
//
//	cfg    the consumer configuration and partition placement,
//	think  the application's processing time around each poll,
//	t1     the polling thread's script: L calls over PollRecords(1),
//	       PollRecords(3), PollFetches,
//	d      the disrupting thread's script: up to two calls over the consumer
//	       API the property names (PauseFetchPartitions/ResumeFetchPartitions
//	       of t/0, PauseFetchTopics/ResumeFetchTopics of t) and environment
//	       actions (leader move of t/1 + append, leader-epoch bump of t/0,
//	       all fetch connections dropped, fetch sessions evicted), each
//	       bound to a gate g = "after the g-th call of T1" (g=0: before the
//	       first). D is declared first, so on the default schedule its calls
//	       run as soon as their gate opens.
//
// SetOffsets and AddConsumePartitions/RemoveConsumePartitions are not in the
// alphabet: the property speaks of "its start position" only and gives no
// meaning to a repositioned or re-added partition. The preferred-replica
// redirect stays with the hand-written D-prefer scenario (kfake cannot
// nominate a follower; the injection there is tied to one placement).
//
// Reference model: the pre-loaded log plus every record appended by an
// environment action, filtered by the configuration's isolation level and
// start offsets; a partition is paused from the return of a Pause call
// covering it to the call of the matching Resume (partition-level and
// topic-level pauses are independent, as the doc comments say); whatever is
// still paused when the scripts end is resumed by the application before the
// completeness deadline starts. Oracles: those of the hand-written scenarios.

type gcfg struct {
	name string
	v    variant
	opts []kgo.Opt
}

var gcfgs = []gcfg{
	{name: "ru"},
	{name: "rc-split", v: variant{rc: true, partBytes: 200}},
	{name: "mcf1", opts: []kgo.Opt{kgo.MaxConcurrentFetches(1)}},
	{name: "onesrc", v: variant{oneSource: true}},
	{name: "parts-split-keeperr", v: variant{starts: map[int32]int64{0: 2, 1: 6}, partBytes: 200}, opts: []kgo.Opt{kgo.KeepRetryableFetchErrors()}},
	// thorough only:
	{name: "meta2s", v: variant{metaAge: 2 * time.Second}},
	{name: "onesrc-split-rc", v: variant{oneSource: true, rc: true, partBytes: 200}},
}

type think struct {
	name      string
	pre, post time.Duration // before / after the gate of the call opens
}

var thinks = []think{
	{name: "none"},
	{name: "post700ms", post: 700 * time.Millisecond},   // longer than FetchMaxWait
	{name: "pre700ms", pre: 700 * time.Millisecond},     // the disruptor comes right before the next poll
	{name: "post2500ms", post: 2500 * time.Millisecond}, // longer than the fetch request timeout and cfg meta2s's refresh period
}

// D calls: a PauseFetchPartitions(t/0), A ResumeFetchPartitions(t/0),
// t PauseFetchTopics(t), T ResumeFetchTopics(t), m leader move of t/1 to the
// other broker + one append, e leader-epoch bump of t/0 (same leader, nothing
// appended), x every fetch connection of the consumer dropped, s the next
// incremental Fetch on each broker answered FETCH_SESSION_ID_NOT_FOUND.
const dops = "aAtTmexs"

type dcall struct {
	op   byte
	gate int
}

func dname(cs []dcall) string {
	if len(cs) == 0 {
		return "-"
	}
	var s []string
	for _, c := range cs {
		s = append(s, fmt.Sprintf("%c@%d", c.op, c.gate))
	}
	return strings.Join(s, ",")
}

// dscripts enumerates every disruptor script of at most two calls over ops,
// gates 0..l (second call at the same gate or a later one).
func dscripts(ops string, l int) (names []string, out [][]dcall) {
	add := func(cs ...dcall) {
		names = append(names, dname(cs))
		out = append(out, cs)
	}
	add()
	for i := 0; i < len(ops); i++ {
		for g := 0; g <= l; g++ {
			add(dcall{ops[i], g})
		}
	}
	for i := 0; i < len(ops); i++ {
		for j := 0; j < len(ops); j++ {
			for g1 := 0; g1 <= l; g1++ {
				for g2 := g1; g2 <= l; g2++ {
					add(dcall{ops[i], g1}, dcall{ops[j], g2})
				}
			}
		}
	}
	return
}

func t1scripts(thorough bool) []string {
	if !thorough {
		return []string{"11", "10", "01", "00"}
	}
	out := []string{"130", "313", "031"}
	for _, a := range "10" {
		for _, b := range "10" {
			for _, c := range "10" {
				out = append(out, string([]rune{a, b, c}))
			}
		}
	}
	return out
}

func (st *state) seqNow() int64 { st.seq++; return st.seq }

// do runs one disruptor call.
func (st *state) do(t *netctl.Thread, op byte) {
	x, c := st.x, st.c
	switch op {
	case 'a':
		t.Step("pause-t0")
		st.cl.PauseFetchPartitions(map[string][]int32{topic: {0}})
		st.mu.Lock()
		st.pausedSince[0][0] = st.seqNow()
		st.mu.Unlock()
	case 'A':
		t.Step("resume-t0")
		st.mu.Lock()
		st.pausedSince[0][0] = 0
		st.mu.Unlock()
		st.cl.ResumeFetchPartitions(map[string][]int32{topic: {0}})
	case 't':
		t.Step("pause-topic")
		st.cl.PauseFetchTopics(topic)
		st.mu.Lock()
		s := st.seqNow()
		st.pausedSince[0][1], st.pausedSince[1][1] = s, s
		st.mu.Unlock()
	case 'T':
		t.Step("resume-topic")
		st.mu.Lock()
		st.pausedSince[0][1], st.pausedSince[1][1] = 0, 0
		st.mu.Unlock()
		st.cl.ResumeFetchTopics(topic)
	case 'm':
		t.Step("move-t1")
		to := 1 - c.LeaderFor(topic, 1)
		c.MoveTopicPartition(topic, 1, to)
		st.appendAfterMove(1)
	case 'e':
		t.Step("bump-epoch-t0")
		c.MoveTopicPartition(topic, 0, c.LeaderFor(topic, 0)) // same leader, epoch+1, nothing appended
	case 'x':
		t.Step("drop-fetch-conns")
		for _, conn := range x.Conns() {
			if conn.Client == "c" && conn.Class == "fetch" {
				conn.Kill()
			}
		}
	case 's':
		t.Step("evict-fetch-sessions")
		st.mu.Lock()
		st.evict = map[int32]bool{0: true, 1: true}
		st.mu.Unlock()
	}
}

// installEvict lets the 's' call evict the consumer's fetch sessions: the next
// incremental Fetch request on each broker is answered
// FETCH_SESSION_ID_NOT_FOUND (only the controlled consumer fetches after Setup).
func installEvict(st *state) {
	st.c.ControlKey(1, func(kreq kmsg.Request) (kmsg.Response, error, bool) {
		st.c.KeepControl()
		req := kreq.(*kmsg.FetchRequest)
		node := st.c.CurrentNode()
		st.mu.Lock()
		hit := st.evict[node] && req.SessionEpoch > 0
		if hit {
			delete(st.evict, node)
		}
		st.mu.Unlock()
		if !hit {
			return nil, nil, false
		}
		resp := req.ResponseKind().(*kmsg.FetchResponse)
		resp.ErrorCode = 70
		st.x.Count("sessions-evicted", 1)
		return resp, nil, true
	})
}

// resumeStillPaused is what the application does when its scripts are over:
// it resumes exactly what it left paused (nothing in hand-written scenarios).
func (st *state) resumeStillPaused() {
	st.mu.Lock()
	part := st.pausedSince[0][0] != 0
	top := st.pausedSince[0][1] != 0 || st.pausedSince[1][1] != 0
	st.pausedSince = [2][2]int64{}
	st.mu.Unlock()
	if part {
		st.cl.ResumeFetchPartitions(map[string][]int32{topic: {0}})
	}
	if top {
		st.cl.ResumeFetchTopics(topic)
	}
}

func genScenario() *netctl.Scenario {
	return &netctl.Scenario{
		Name:      "DG",
		Faults:    fetchFaults,
		Horizon:   3 * time.Minute,
		MaxPoints: 400,
		Setup: func(x *netctl.Exec) {
			thorough := ev.Thorough()
			cfgs, ths, ops, l := gcfgs[:5], thinks[:2], dops, 2
			if thorough {
				cfgs, ths, l = gcfgs, thinks[1:], 3
			}
			var cfgNames, thNames []string
			for _, c := range cfgs {
				cfgNames = append(cfgNames, c.name)
			}
			for _, t := range ths {
				thNames = append(thNames, t.name)
			}
			t1s := t1scripts(thorough)
			dNames, ds := dscripts(ops, l)
			cfg := cfgs[x.ChooseOf("cfg", cfgNames)]
			th := ths[x.ChooseOf("think", thNames)]
			t1 := t1s[x.ChooseOf("t1", t1s)]
			d := ds[x.ChooseOf("d", dNames)]

			v := cfg.v
			v.name = "DG"
			st := newState(x, &v, cfg.opts...)
			installEvict(st)

			gates := make([]chan struct{}, l+1)
			for i := range gates {
				gates[i] = make(chan struct{})
			}
			open := func(i int) {
				select {
				case <-gates[i]:
				default:
					close(gates[i])
				}
			}
			work := func(dur time.Duration) bool { // false: the execution is being torn down
				if dur <= 0 {
					return true
				}
				tm := time.NewTimer(dur)
				defer tm.Stop()
				select {
				case <-tm.C:
					return true
				case <-st.stop:
					return false
				}
			}
			// D first: once a gate is open its calls come before T1's next one.
			x.Thread("D", func(t *netctl.Thread) {
				for _, c := range d {
					select {
					case <-gates[c.gate]:
					case <-st.stop:
						return
					}
					st.do(t, c.op)
				}
			})
			x.Thread("T1", func(t *netctl.Thread) {
				defer func() {
					for i := range gates {
						open(i)
					}
				}()
				open(0)
				for i, op := range t1 {
					n := int(op - '0')
					if n == 0 {
						t.Step("pollfetches")
					} else {
						t.Step(fmt.Sprintf("pollrecords-%d", n))
					}
					st.doPoll("T1", n, 2*time.Second)
					st.mu.Lock()
					closed := st.closedSeen
					st.mu.Unlock()
					if closed || !work(th.pre) {
						return
					}
					open(i + 1)
					if !work(th.post) {
						return
					}
				}
			})
		},
		Final: finalConsumer,
	}
}

// GenPlans returns the generated family. Quick: 5 configurations x 2 think
// options x 4 polling scripts x 409 disruptor scripts on the default schedule;
// thorough: 7 x 3 x 11 x 673 on the default schedule, then every single
// deviation (time-capped).
func GenPlans() []nrun.Plan {
	return []nrun.Plan{{Scenario: genScenario(), QuickBudget: 0, ThoroughBudget: 1, Weight: 6}}
}
