// Package cscen holds the direct-consumer scenario family D (DESIGN.md §4 C04);
// C14 (fetch hooks) and C41 reuse the scenarios through Plans.
package cscen

import (
	"context"
	"errors"
	"fmt"
	"os"
	"sort"
	"strings"
	"sync"
	"time"

	"github.com/twmb/franz-go/pkg/kfake"
	"github.com/twmb/franz-go/pkg/kgo"
	"github.com/twmb/franz-go/pkg/kmsg"

	"verif/lib/explore"
	"verif/lib/netctl"
	"verif/lib/nrun"
	"verif/lib/nscen"
)

// Scenario family D (DESIGN.md §4 C04): one direct (group-less) consumer, two
// brokers, topic t with two partitions led by different brokers and pre-loaded
// (plain records, one committed and one aborted transaction, so commit/abort
// markers and aborted data sit in the log). T1 polls with PollRecords(1|3) and
// PollFetches, T2 pauses and resumes t/0, ENV moves the leader of t/1 (variant:
// redirects t/1 to a follower through PreferredReadReplica).

const (
	topic      = "t"
	pollBudget = 12
)

// variant describes one scenario of the family.
type variant struct {
	name      string
	cycle     []int           // PollRecords limits, cycled; 0 = PollFetches
	rc        bool            // read_committed
	starts    map[int32]int64 // explicit ConsumePartitions start offsets (nil: ConsumeTopics from the start)
	partBytes int32           // FetchMaxPartitionBytes (0: default)
	prefer    bool            // ENV = preferred-replica change instead of a leader move
	idleMove  bool            // ENV = leader move with no append in the new leader epoch
	oneSource bool            // both partitions start on broker 0; ENV moves t/1 to broker 1
	early     bool            // ENV starts when the first Fetch request was delivered and moves the partition of the OTHER broker onto that broker
	order     string          // thread declaration order
	pauseAt   int             // T2 starts after this many T1 polls returned
	resumeAt  int             // T2 calls Resume only after this many T1 polls returned
	t1Delay   time.Duration   // T1 works this long (virtual) before its first poll
	pollGap   time.Duration   // T1 processes for this long (virtual) after every poll
	metaAge   time.Duration   // MetadataMaxAge (0: 10 min, i.e. no periodic refresh inside an execution)
	envAt     int             // ENV starts after this many T1 polls returned
	full2     bool            // thorough tier: any second deviation (default: the second deviation must be a fault)
	hookGate  bool            // hook family: wrap the HookLedger so that "a dispatch of poll g is running" can gate a thread
	slowHook  time.Duration   // hook family: OnFetchRecordUnbuffered takes this long (virtual) per record
	weight    float64
}

type poll struct {
	who        string
	n          int
	start, end int64 // global sequence numbers
	got        [2]int
	errs       []string
}

type state struct {
	v     *variant
	c     *kfake.Cluster
	cl    *kgo.Client
	hooks *nscen.HookLedger
	x     *netctl.Exec

	raw      [2][]nscen.LogRecord
	kind     [2]map[int64]string // offset -> "data" | "control" | "aborted" (aborted only under read_committed) | "before-start"
	value    [2]map[int64]string
	expected [2]map[int64]bool

	mu         sync.Mutex
	seq        int64
	pauseRet   int64 // sequence number taken after PauseFetchPartitions returned (0: not yet)
	resumeCall int64 // sequence number taken before ResumeFetchPartitions was called (0: not yet)
	last       [2]int64
	seen       [2]map[int64]int
	polls      []poll
	pollsDone  int
	t1done     bool
	cond       *sync.Cond
	// Generated scripts: pausedSince[p][k] is the sequence number taken after
	// the pause of partition p returned (k=0 PauseFetchPartitions, k=1
	// PauseFetchTopics); it is zeroed BEFORE the matching Resume is called.
	pausedSince [2][2]int64
	evict       map[int32]bool // brokers whose next incremental Fetch is answered FETCH_SESSION_ID_NOT_FOUND
	pausedPoll  int            // polls that ran entirely inside the paused window
	preferOn    bool
	stop        chan struct{} // closed at cleanup: T1 stops working
	closedSeen  bool          // a poll reported ErrClientClosed
	firstFetch  int           // broker index of the first delivered Fetch request (-1: none yet)
	topicID     [16]byte
	lastFetch   time.Time // virtual instant of the last delivered Fetch request
	sameTick    int       // consecutive Fetch requests delivered within 1 ms of the previous one
	moved       string
	// Hook family: the poll T1 is inside (0: none) and the polls during which
	// an OnFetchRecordUnbuffered call was seen.
	curPoll      int
	dispatchSeen map[int]bool
}

func (st *state) missing() (out []string) {
	st.mu.Lock()
	defer st.mu.Unlock()
	for p := 0; p < 2; p++ {
		var offs []int64
		for o := range st.expected[p] {
			if st.seen[p][o] == 0 {
				offs = append(offs, o)
			}
		}
		sort.Slice(offs, func(i, j int) bool { return offs[i] < offs[j] })
		for _, o := range offs {
			out = append(out, fmt.Sprintf("t/%d@%d", p, o))
		}
	}
	return out
}

// waitPolls blocks until T1 finished n polls (or finished altogether).
func (st *state) waitPolls(n int) {
	st.mu.Lock()
	for st.pollsDone < n && !st.t1done {
		st.cond.Wait()
	}
	st.mu.Unlock()
}

// doPoll runs one poll and applies the per-record oracles. Polls are strictly
// sequential (T1, then Final), so "across all polls" is a total order.
func (st *state) doPoll(who string, n int, timeout time.Duration) (nrecs int) {
	x := st.x
	ctx, cancel := context.WithTimeout(context.Background(), timeout)
	defer cancel()
	st.mu.Lock()
	st.seq++
	pl := poll{who: who, n: n, start: st.seq}
	st.mu.Unlock()

	var fs kgo.Fetches
	if n == 0 {
		fs = st.cl.PollFetches(ctx)
	} else {
		fs = st.cl.PollRecords(ctx, n)
	}

	st.mu.Lock()
	defer st.mu.Unlock()
	if fs.IsClientClosed() {
		st.closedSeen = true
	}
	st.seq++
	pl.end = st.seq
	// Paused window: the poll began after PauseFetchPartitions returned and
	// ended before ResumeFetchPartitions was called.
	inPause := st.pauseRet != 0 && pl.start > st.pauseRet && st.resumeCall == 0
	// Generated scripts: partition p was paused for the whole poll if a pause
	// (of either kind) that returned before the poll began has not been
	// followed by the call of its Resume by the time the poll returned.
	var genPaused [2]string
	for p := 0; p < 2; p++ {
		for k, kind := range []string{"PauseFetchPartitions", "PauseFetchTopics"} {
			if ps := st.pausedSince[p][k]; ps != 0 && pl.start > ps {
				genPaused[p] = kind
			}
		}
	}
	if inPause || genPaused[0] != "" || genPaused[1] != "" {
		st.pausedPoll++
	}
	for _, f := range fs {
		for _, ft := range f.Topics {
			for _, fp := range ft.Partitions {
				if fp.Err != nil {
					switch {
					case errors.Is(fp.Err, context.DeadlineExceeded), errors.Is(fp.Err, context.Canceled):
					default:
						pl.errs = append(pl.errs, fmt.Sprintf("%s/%d:%s", ft.Topic, fp.Partition, nscen.ErrClass(fp.Err)))
					}
				}
				if len(fp.Records) == 0 {
					continue
				}
				if ft.Topic != topic || fp.Partition < 0 || fp.Partition > 1 {
					x.Violate("foreign-partition", "poll returned records of %s/%d", ft.Topic, fp.Partition)
					continue
				}
				p := fp.Partition
				for _, r := range fp.Records {
					nrecs++
					pl.got[p]++
					if r.Topic != topic || r.Partition != p {
						x.Violate("record-partition-mismatch", "record %s/%d@%d inside fetch partition %s/%d", r.Topic, r.Partition, r.Offset, ft.Topic, p)
					}
					if inPause && p == 0 {
						x.Violate("paused-returned", "poll #%d (%s, n=%d) began after PauseFetchPartitions(t/0) returned and ended before ResumeFetchPartitions was called, yet returned t/0@%d", len(st.polls)+1, who, n, r.Offset)
					}
					if genPaused[p] != "" {
						x.Violate("paused-returned", "poll #%d (%s, n=%d) began after %s covering t/%d returned and ended before the matching Resume was called, yet returned t/%d@%d", len(st.polls)+1, who, n, genPaused[p], p, p, r.Offset)
					}
					o := r.Offset
					switch {
					case st.seen[p][o] > 0:
						x.Violate("duplicate", "t/%d@%d (%q) returned again by poll #%d (%s, n=%d); last returned offset was %d", p, o, r.Value, len(st.polls)+1, who, n, st.last[p])
					case o <= st.last[p]:
						x.Violate("out-of-order", "t/%d@%d returned by poll #%d (%s, n=%d) after offset %d", p, o, len(st.polls)+1, who, n, st.last[p])
					}
					st.seen[p][o]++
					if o > st.last[p] {
						st.last[p] = o
					}
					if !st.expected[p][o] {
						k := st.kind[p][o]
						if k == "" {
							k = "unknown-offset"
						}
						x.Violate("returned-"+k, "t/%d@%d (%q) returned by poll #%d but is %s (start %d, read_committed=%v)", p, o, r.Value, len(st.polls)+1, k, st.startOf(p), st.v.rc)
					} else if want := st.value[p][o]; want != string(r.Value) {
						x.Violate("wrong-value", "t/%d@%d returned with value %q, log has %q", p, o, r.Value, want)
					}
				}
			}
		}
	}
	st.polls = append(st.polls, pl)
	return nrecs
}

// appendAfterMove produces one plain record to t/1 through a fresh
// uncontrolled client (which learns the new leader from its first metadata
// response) and adds it to the expected set.
func (st *state) appendAfterMove(p int32) {
	x := st.x
	t0 := x.Elapsed()
	h := nscen.Helper(x, st.c, kgo.RecordPartitioner(kgo.ManualPartitioner()), kgo.ProducerBatchCompression(kgo.NoCompression()), kgo.ProducerLinger(0))
	defer h.Close()
	ctx, cancel := context.WithTimeout(context.Background(), time.Minute)
	defer cancel()
	r := &kgo.Record{Topic: topic, Partition: p, Value: []byte(fmt.Sprintf("p%d-postmove", p))}
	if err := h.ProduceSync(ctx, r).FirstErr(); err != nil {
		x.Violate("harness:append", "append after move: %v", err)
		return
	}
	st.mu.Lock()
	st.expected[p][r.Offset] = true
	st.kind[p][r.Offset] = "data"
	st.value[p][r.Offset] = string(r.Value)
	st.mu.Unlock()
	if d := x.Elapsed() - t0; d != 0 {
		x.Count("append-took-virtual-time", 1)
	}
}

func (st *state) startOf(p int32) int64 {
	if st.v.starts == nil {
		return 0
	}
	return st.v.starts[p]
}

func (st *state) complete() bool { return len(st.missing()) == 0 }

// preload writes the fixed log with an uncontrolled client and closes it.
func preload(x *netctl.Exec, c *kfake.Cluster) {
	ctx, cancel := context.WithTimeout(context.Background(), 2*time.Minute)
	defer cancel()
	plain := nscen.Helper(x, c, kgo.RecordPartitioner(kgo.ManualPartitioner()), kgo.ProducerBatchCompression(kgo.NoCompression()))
	txn := nscen.Helper(x, c, kgo.RecordPartitioner(kgo.ManualPartitioner()), kgo.ProducerBatchCompression(kgo.NoCompression()),
		kgo.TransactionalID("c04-loader"), kgo.TransactionTimeout(time.Minute))
	defer plain.Close()
	defer txn.Close()
	idx := [2]int{}
	mk := func(p int32, kind string) *kgo.Record {
		r := &kgo.Record{Topic: topic, Partition: p, Value: []byte(fmt.Sprintf("p%d-%d-%s", p, idx[p], kind))}
		idx[p]++
		return r
	}
	must := func(what string, err error) {
		if err != nil {
			x.Violate("harness:preload", "%s: %v", what, err)
		}
	}
	one := func() { // one batch per record
		for p := int32(0); p < 2; p++ {
			must("produce", plain.ProduceSync(ctx, mk(p, "plain")).FirstErr())
		}
	}
	one()
	must("begin", txn.BeginTransaction())
	must("produce-txn", txn.ProduceSync(ctx, mk(0, "committed"), mk(0, "committed"), mk(1, "committed"), mk(1, "committed")).FirstErr())
	must("commit", txn.EndTransaction(ctx, kgo.TryCommit))
	one()
	must("begin", txn.BeginTransaction())
	must("produce-txn", txn.ProduceSync(ctx, mk(0, "aborted"), mk(0, "aborted"), mk(1, "aborted"), mk(1, "aborted")).FirstErr())
	must("abort", txn.EndTransaction(ctx, kgo.TryAbort))
	one()
}

func fetchFaults(x *netctl.Exec, dir string, key int16, c *netctl.Conn) []string {
	if c.Client != "c" {
		return nil
	}
	switch {
	case key == 1 && dir == "req":
		return []string{"killbefore", "errtop:70", "errtop:71", "err:6", "err:78", "stall"}
	case key == 1 && dir == "resp":
		return []string{"killafter", "rewrite:0"} // rewrite:0 = broker handled the request, client sees an empty response
	case key == 3 && dir == "req":
		return []string{"killbefore"}
	case key == 3 && dir == "resp":
		return []string{"killafter"}
	}
	return nil
}

// newState builds what every scenario of the family shares: the cluster with
// the pre-loaded log, the reference sets read back from it, the controlled
// consumer configured from v (plus extra options) and the frame hook.
func newState(x *netctl.Exec, v *variant, extra ...kgo.Opt) *state {
	c := x.Cluster(2, kfake.SeedTopics(2, topic))
	c.MoveTopicPartition(topic, 0, 0)
	if v.oneSource {
		c.MoveTopicPartition(topic, 1, 0)
	} else {
		c.MoveTopicPartition(topic, 1, 1)
	}
	preload(x, c)
	st := &state{v: v, c: c, x: x, hooks: nscen.NewHookLedger(), firstFetch: -1}
	if ti := c.TopicInfo(topic); ti != nil {
		st.topicID = ti.TopicID
	}
	st.cond = sync.NewCond(&st.mu)
	x.Data = st
	for p := int32(0); p < 2; p++ {
		st.raw[p] = nscen.ReadRaw(x, c, topic, p)
		st.kind[p], st.value[p], st.expected[p], st.seen[p] = map[int64]string{}, map[int64]string{}, map[int64]bool{}, map[int64]int{}
		st.last[p] = -1
		visible, open := nscen.Committed(st.raw[p])
		if len(open) > 0 {
			x.Violate("harness:preload", "t/%d has open transactions after preload", p)
		}
		vis := map[int64]bool{}
		for _, r := range visible {
			vis[r.Offset] = true
		}
		ndata, nctl, nab := 0, 0, 0
		for _, r := range st.raw[p] {
			st.value[p][r.Offset] = r.Value
			switch {
			case r.Control:
				st.kind[p][r.Offset] = "control"
				nctl++
			case v.rc && !vis[r.Offset]:
				st.kind[p][r.Offset] = "aborted"
				nab++
			case r.Offset < st.startOf(p):
				st.kind[p][r.Offset] = "before-start"
			default:
				st.kind[p][r.Offset] = "data"
				st.expected[p][r.Offset] = true
				ndata++
			}
			if !r.Control && !vis[r.Offset] && !v.rc {
				nab++
			}
		}
		if nctl != 2 || nab == 0 || ndata == 0 {
			x.Violate("harness:preload", "t/%d: unexpected log shape: %d control, %d aborted, %d expected", p, nctl, nab, ndata)
		}
	}
	var hook kgo.Hook = st.hooks
	if v.hookGate {
		hook = &gateHook{HookLedger: st.hooks, st: st, slow: v.slowHook}
	}
	opts := []kgo.Opt{
		kgo.FetchMaxWait(500 * time.Millisecond),
		kgo.WithHooks(hook),
	}
	if v.starts != nil {
		parts := map[int32]kgo.Offset{}
		for p, o := range v.starts {
			parts[p] = kgo.NewOffset().At(o)
		}
		opts = append(opts, kgo.ConsumePartitions(map[string]map[int32]kgo.Offset{topic: parts}))
	} else {
		opts = append(opts, kgo.ConsumeTopics(topic), kgo.ConsumeResetOffset(kgo.NewOffset().AtStart()))
	}
	if v.rc {
		opts = append(opts, kgo.FetchIsolationLevel(kgo.ReadCommitted()))
	}
	if v.partBytes > 0 {
		opts = append(opts, kgo.FetchMaxPartitionBytes(v.partBytes))
	}
	if v.metaAge > 0 {
		opts = append(opts, kgo.MetadataMaxAge(v.metaAge))
	}
	if v.prefer {
		opts = append(opts, kgo.Rack("krack"))
		installPrefer(st)
	}
	if os.Getenv("VERIF_DEBUG") != "" && os.Getenv("VERIF_KGOLOG") != "" {
		opts = append(opts, kgo.WithLogger(kgo.BasicLogger(os.Stderr, kgo.LogLevelDebug, func() string {
			return fmt.Sprintf("[%8.3fs]   kgo: ", x.Elapsed().Seconds())
		})))
	}
	st.cl = nscen.NewClient(x, "c", c, append(opts, extra...)...)
	st.stop = make(chan struct{})
	x.OnCleanup(func() { close(st.stop) })
	x.FrameHook = func(conn *netctl.Conn, dir string, key, ver int16, frame []byte) {
		if conn.Client == "c" && dir == "req" && key == 1 {
			now := time.Now()
			st.mu.Lock()
			if st.firstFetch < 0 {
				st.firstFetch = conn.Broker
				st.cond.Broadcast()
			}
			if now.Sub(st.lastFetch) <= time.Millisecond {
				st.sameTick++
			} else {
				st.sameTick = 0
			}
			st.lastFetch = now
			slow := st.sameTick >= 20
			st.mu.Unlock()
			// The proxy delivers in zero virtual time. A client that
			// re-issues fetches with no pacing while it waits for a timer
			// (a partition answering NOT_LEADER next to a healthy one,
			// with the metadata refresh in its retry backoff) would then
			// spin forever at one virtual instant. After 20 back-to-back
			// fetch round trips every further one costs 1 ms of latency.
			if slow {
				x.Count("fetch-spin-latency", 1)
				time.Sleep(time.Millisecond)
			}
		}
	}
	return st
}

func scenario(v *variant) *netctl.Scenario {
	return &netctl.Scenario{
		Name:      v.name,
		Faults:    fetchFaults,
		Horizon:   3 * time.Minute,
		MaxPoints: 400,
		Setup: func(x *netctl.Exec) {
			st := newState(x, v)
			c := st.c

			t1 := func(t *netctl.Thread) {
				defer func() {
					st.mu.Lock()
					st.t1done = true
					st.cond.Broadcast()
					st.mu.Unlock()
				}()
				work := func(d time.Duration) bool { // false: the execution is being torn down
					if d <= 0 {
						return true
					}
					tm := time.NewTimer(d)
					defer tm.Stop()
					select {
					case <-tm.C:
						return true
					case <-st.stop:
						return false
					}
				}
				if !work(v.t1Delay) {
					return
				}
				for i := 0; i < pollBudget && !st.complete(); i++ {
					n := v.cycle[i%len(v.cycle)]
					if n == 0 {
						t.Step("pollfetches")
					} else {
						t.Step(fmt.Sprintf("pollrecords-%d", n))
					}
					st.doPoll("T1", n, 2*time.Second)
					st.mu.Lock()
					st.pollsDone++
					st.cond.Broadcast()
					st.mu.Unlock()
					st.mu.Lock()
					closed := st.closedSeen
					st.mu.Unlock()
					if closed || (!st.complete() && !work(v.pollGap)) {
						return
					}
				}
			}
			t2 := func(t *netctl.Thread) {
				st.waitPolls(v.pauseAt)
				t.Step("pause-t0")
				st.cl.PauseFetchPartitions(map[string][]int32{topic: {0}})
				st.mu.Lock()
				st.seq++
				st.pauseRet = st.seq
				st.mu.Unlock()
				st.waitPolls(v.resumeAt)
				t.Step("resume-t0")
				st.mu.Lock()
				st.seq++
				st.resumeCall = st.seq
				st.mu.Unlock()
				st.cl.ResumeFetchPartitions(map[string][]int32{topic: {0}})
			}
			env := func(t *netctl.Thread) {
				if v.early {
					st.mu.Lock()
					for st.firstFetch < 0 && !st.t1done {
						st.cond.Wait()
					}
					to := int32(st.firstFetch)
					st.mu.Unlock()
					if to < 0 {
						return
					}
					// Partition p starts on broker p: move the partition whose
					// first Fetch request is still on its way.
					t.Step("move-other")
					c.MoveTopicPartition(topic, 1-to, to)
					st.mu.Lock()
					st.moved = fmt.Sprintf("t/%d->b%d", 1-to, to)
					st.mu.Unlock()
					st.appendAfterMove(1 - to)
					return
				}
				st.waitPolls(v.envAt)
				switch {
				case v.prefer:
					t.Step("prefer-t1-on-b0")
					c.SetFollowers(topic, 1, []int32{0})
					st.mu.Lock()
					st.preferOn = true
					st.mu.Unlock()
					st.appendAfterMove(1) // to be read from the follower
				case v.oneSource:
					t.Step("move-t1-to-b1")
					c.MoveTopicPartition(topic, 1, 1)
					st.appendAfterMove(1)
				case v.idleMove:
					t.Step("move-t1-to-b0")
					c.MoveTopicPartition(topic, 1, 0)
				default:
					// Leader move followed by one record in the new leader epoch
					// (uncontrolled producer, no virtual time passes): the usual
					// shape of a leader change.
					t.Step("move-t1-to-b0")
					c.MoveTopicPartition(topic, 1, 0)
					st.appendAfterMove(1)
				}
			}
			for _, name := range strings.Split(v.order, ",") {
				switch name {
				case "T1":
					x.Thread("T1", t1)
				case "T2":
					x.Thread("T2", t2)
				case "ENV":
					x.Thread("ENV", env)
				}
			}
		},
		Final: finalConsumer,
	}
}

// finalConsumer is the Final phase of every scenario of the family.
func finalConsumer(x *netctl.Exec) {
	st := x.Data.(*state)
	// Pass-through: T1 runs its remaining polls freely; polls stay
	// sequential, so wait for it (bounded by pollBudget x 2 s).
	deadline := time.Now().Add(2 * time.Minute)
	for !x.ThreadsDone() && time.Now().Before(deadline) {
		time.Sleep(50 * time.Millisecond)
	}
	if !x.ThreadsDone() {
		x.Violate("harness:threads-stuck", "application threads still running 2 virtual minutes into pass-through")
		return
	}
	t1polls := len(st.polls)
	// Generated scripts may end with something still paused: the
	// application resumes exactly that before it expects the rest.
	st.resumeStillPaused()
	// Completeness: the environment is well behaved from here on.
	for !st.complete() && time.Now().Before(deadline) {
		st.doPoll("final", 0, 2*time.Second)
	}
	if miss := st.missing(); len(miss) > 0 {
		x.Violate("missing-records", "not returned within 2 virtual minutes of a fault-free suffix: %v (returned so far: t/0 up to %d, t/1 up to %d)", miss, st.last[0], st.last[1])
	}
	// Nothing else exists in the log: three more long-poll periods
	// must return nothing (late duplicates would show up here).
	extra := 0
	for i := 0; i < 3; i++ {
		extra += st.doPoll("extra", 0, 600*time.Millisecond)
	}
	if len(st.missing()) == 0 && extra == 0 {
		if n, b := st.cl.BufferedFetchRecords(), st.cl.BufferedFetchBytes(); n != 0 || b != 0 {
			x.Violate("hook-buffered-nonzero", "everything was polled, nothing is buffered, but BufferedFetchRecords=%d BufferedFetchBytes=%d", n, b)
		}
	}
	st.cl.Close()
	st.hooks.CheckFetch(x)
	if n, b := st.cl.BufferedFetchRecords(), st.cl.BufferedFetchBytes(); n != 0 || b != 0 {
		x.Violate("hook-buffered-nonzero-closed", "client closed but BufferedFetchRecords=%d BufferedFetchBytes=%d", n, b)
	}
	// Terminal outcome: what each T1 poll returned, how many polls the
	// completion needed, error classes surfaced.
	var sb strings.Builder
	for i, pl := range st.polls {
		if i >= t1polls {
			break
		}
		fmt.Fprintf(&sb, "%d:%d/%d ", pl.n, pl.got[0], pl.got[1])
	}
	errs := map[string]bool{}
	for _, pl := range st.polls {
		for _, e := range pl.errs {
			errs[e] = true
		}
	}
	var es []string
	for e := range errs {
		es = append(es, e)
	}
	sort.Strings(es)
	fin := 0
	for _, pl := range st.polls[t1polls:] {
		if pl.who == "final" {
			fin++
		}
	}
	x.Observe("%sfinal=%d inpause=%d moved=%s errs=%v", sb.String(), fin, st.pausedPoll, st.moved, es)
}

// installPrefer makes broker 1 (leader of t/1) answer the consumer's fetches
// with PreferredReadReplica=0 for t/1 once the ENV thread enabled it: kfake
// serves fetches on followers (SetFollowers) but never nominates one itself
// (01_fetch.go ignores the request's Rack). Session-establishing requests
// (epoch 0) are left to kfake so that the consumer keeps a fetch session; the
// intercepted request does not advance kfake's session epoch, so the next
// request on that session is answered INVALID_FETCH_SESSION_EPOCH by kfake
// (a legal broker answer the client must absorb).
func installPrefer(st *state) {
	st.c.ControlKey(1, func(kreq kmsg.Request) (kmsg.Response, error, bool) {
		st.c.KeepControl()
		st.mu.Lock()
		on := st.preferOn
		st.mu.Unlock()
		req := kreq.(*kmsg.FetchRequest)
		if !on || st.c.CurrentNode() != 1 || req.Version < 11 || req.Rack == "" || req.SessionEpoch == 0 {
			return nil, nil, false
		}
		resp := req.ResponseKind().(*kmsg.FetchResponse)
		if req.SessionEpoch > 0 {
			resp.SessionID = req.SessionID
		}
		rt := kmsg.NewFetchResponseTopic()
		rt.Topic = topic
		rt.TopicID = st.topicID
		rp := kmsg.NewFetchResponseTopicPartition()
		rp.Partition = 1
		rp.PreferredReadReplica = 0
		rp.HighWatermark = -1
		rp.RecordBatches = []byte{}
		rt.Partitions = append(rt.Partitions, rp)
		resp.Topics = append(resp.Topics, rt)
		st.x.Count("preferred-replica-answers", 1)
		return resp, nil, true
	})
}

// The scenarios. In the default schedule application steps run before frames,
// so T2/ENV are gated on T1's progress (pauseAt/envAt) to place them mid-stream;
// single deviations then shift them around.
//
//	D-topics     ConsumeTopics from the start; move of t/1 (+append) after the first poll
//	D-rc         read_committed; PollFetches as second poll (pause strip of takeBuffered)
//	D-parts      ConsumePartitions starting mid-batch (t/0@2 inside the committed txn, t/1@6 inside the aborted one)
//	D-split      FetchMaxPartitionBytes=200: two batches per response, many round trips
//	D-early      the other partition moves while its first Fetch request is still queued: NOT_LEADER (KIP-951 hint) stops the session while the first buffered fetch is partially polled
//	D-late       as D-early, first poll 100 ms late: the session stop discards an untouched buffered fetch
//	D-pause0-rc  t/0 paused before the first fetch, resumed after two polls; read_committed
//	D-onesource  both partitions on broker 0 (one buffered fetch holds both); t/1 moves to broker 1
//	D-prefer     broker 1 redirects t/1 to follower broker 0 (PreferredReadReplica), one append to read from the follower
//	D-slow       1.5 s of processing after every poll, MetadataMaxAge 2 s: the periodic metadata refresh migrates t/1 while its fetch is buffered
//	D-move-idle  move of t/1 with no append in the new epoch (fires on the unchanged tree, see meta.json)
var variants = []*variant{
	{name: "D-topics", cycle: []int{1, 3, 0}, order: "T2,ENV,T1", pauseAt: 1, envAt: 1},
	{name: "D-rc", cycle: []int{1, 0, 3}, rc: true, order: "T2,ENV,T1", pauseAt: 1, envAt: 1},
	{name: "D-parts", cycle: []int{3, 1, 0}, starts: map[int32]int64{0: 2, 1: 6}, order: "ENV,T2,T1", pauseAt: 1, envAt: 1},
	{name: "D-split", cycle: []int{1, 3, 0}, partBytes: 200, order: "T2,ENV,T1", pauseAt: 2, envAt: 1},
	{name: "D-early", full2: true, cycle: []int{1, 3, 0}, early: true, order: "ENV,T2,T1", pauseAt: 1},
	{name: "D-late", full2: true, cycle: []int{3, 0, 1}, early: true, order: "ENV,T2,T1", pauseAt: 1, t1Delay: 100 * time.Millisecond},
	{name: "D-pause0-rc", cycle: []int{1, 3, 0}, rc: true, order: "T2,ENV,T1", pauseAt: 0, resumeAt: 2, envAt: 1},
	{name: "D-onesource", full2: true, cycle: []int{1, 3, 0}, oneSource: true, order: "T2,ENV,T1", pauseAt: 1, envAt: 2},
	{name: "D-prefer", cycle: []int{1, 3, 0}, prefer: true, order: "ENV,T2,T1", pauseAt: 1, envAt: 1},
	{name: "D-slow", full2: true, cycle: []int{0, 1, 3}, order: "T2,ENV,T1", pauseAt: 1, envAt: 1, pollGap: 1500 * time.Millisecond, metaAge: 2 * time.Second},
	{name: "D-move-idle", cycle: []int{1, 3, 0}, idleMove: true, order: "T2,ENV,T1", pauseAt: 1, envAt: 1, weight: 0.5},
}

// Plans returns the C04 direct-consumer scenarios (also reused by C14 and C41).
func Plans() []nrun.Plan { return plans }

var plans = func() []nrun.Plan {
	var ps []nrun.Plan
	for _, v := range variants {
		p := nrun.Plan{Scenario: scenario(v), QuickBudget: 1, ThoroughBudget: 2, Weight: v.weight}
		if !v.full2 {
			// Thorough tier: the second deviation is a fault (after any first deviation).
			p.Allow = func(parent explore.Job, point int, label string, cost int) bool {
				return cost < 2 || nrun.IsFault(label)
			}
		}
		ps = append(ps, p)
	}
	return ps
}()
