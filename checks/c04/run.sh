#!/bin/bash
set -eu
cd "$(dirname "$0")/../.."
. bin/env.sh
go test -c -tags synctests,verif -o "$BUILD/c04.test" ./checks/c04
exec "$BUILD/c04.test" -test.run '^TestC04$' -test.timeout 0
