package c04

import (
	"fmt"
	"os"
	"strings"
	"testing"
	"time"

	"verif/checks/c04/cscen"
	"verif/lib/nrun"
)

func TestC04(t *testing.T) {
	quick, thor := 100*time.Second, 20*time.Minute
	// Development knob for a loaded machine: C04_TIME_SCALE=4 multiplies both budgets.
	if s := os.Getenv("C04_TIME_SCALE"); s != "" {
		var f float64
		if _, err := fmt.Sscanf(s, "%g", &f); err == nil && f > 0 {
			quick, thor = time.Duration(float64(quick)*f), time.Duration(float64(thor)*f)
		}
	}
	nrun.Main(t, &nrun.Check{
		ID: "C04", TestName: "TestC04", Plans: append(cscen.Plans(), cscen.GenPlans()...),
		QuickTime: quick, ThorTime: thor,
		// the buffered/unbuffered hook pairing rides on these scenarios but is C14's subject
		Keep:   func(_, key string) bool { return !strings.HasPrefix(key, "hook-") },
		Rule:   "engine N: every order of application calls (T1 PollRecords(1|3)/PollFetches loop, T2 PauseFetchPartitions/ResumeFetchPartitions of t/0, ENV leader move + one append / move while the first fetch is in flight / preferred-read-replica redirect), request/response frame deliveries, timer ticks and injected faults (Fetch: connection kill before/after handling, FETCH_SESSION_ID_NOT_FOUND, INVALID_FETCH_SESSION_EPOCH, NOT_LEADER_FOR_PARTITION, OFFSET_NOT_AVAILABLE, handled-but-empty response, stalled request; Metadata: kill before/after) within k deviations of the default order, for eleven direct-consumer scenarios over a pre-loaded 2-partition log with a committed and an aborted transaction (ConsumeTopics, ConsumePartitions with mid-batch starts, read_committed, small FetchMaxPartitionBytes, shared source, late first poll, pause before the first fetch, slow consumer with periodic metadata refresh, preferred replica, move without append); k=1 quick, k=2 thorough (any pair of deviations for D-early, D-late, D-onesource, D-slow; second deviation restricted to faults for the others); plus the generated family DG: every combination of consumer configuration (default; read_committed + FetchMaxPartitionBytes 200; MaxConcurrentFetches 1; both partitions on one broker; ConsumePartitions mid-batch + small partition bytes + KeepRetryableFetchErrors; thorough also MetadataMaxAge 2 s and one-broker+split+read_committed) x application think time around each poll (none / 700 ms after; thorough: 700 ms after, 700 ms before the next call, 2.5 s) x polling script (quick: all 4 sequences of 2 calls over PollRecords(1), PollFetches; thorough: all 8 of 3 calls plus 3 with PollRecords(3)) x disrupting script (every sequence of at most 2 calls over PauseFetchPartitions/ResumeFetchPartitions(t/0), PauseFetchTopics/ResumeFetchTopics(t), leader move of t/1 + append, leader-epoch bump of t/0, drop of all fetch connections, eviction of the fetch sessions, each bound to a gate after the g-th poll: 409 quick, 673 thorough) on the default schedule (thorough: then every single deviation, time-capped); distinct = distinct terminal outcomes (per-poll record counts per partition, polls needed for completion, polls inside the paused window, error classes) per scenario",
		Assume: []string{"kfake is the broker (D-prefer injects PreferredReadReplica through a kfake control function because kfake never nominates a follower)", "synctests build of xsync (C31 covers the channel mutexes)", "goroutine micro-interleavings inside one event are the Go runtime's", "polls are issued by one thread at a time (T1, then the Final phase), so 'across all polls' is a total order"},
	})
}
