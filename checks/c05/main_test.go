package c05

import (
	"bytes"
	"encoding/binary"
	"encoding/json"
	"fmt"
	"os"
	"os/exec"
	"runtime/debug"
	"sort"
	"strconv"
	"strings"
	"testing"
	"time"

	"verif.local/ev"
)

type unit struct {
	prefix  []sym
	lcpPrev int
}

func lcp(a, b []sym) int {
	n := 0
	for n < len(a) && n < len(b) && a[n] == b[n] {
		n++
	}
	return n
}

// genUnits lists the work units: all enabled prefixes of length unitLen in
// lexicographic order, each with the length of the prefix it shares with its
// predecessor (those steps were observed by the predecessor's executions).
func genUnits(unitLen int, mask uint32) []unit {
	var us []unit
	var prev []sym
	enumerate(newModel(), nil, unitLen, mask, func(h []sym) {
		u := unit{prefix: append([]sym(nil), h...)}
		if prev != nil {
			u.lcpPrev = lcp(prev, h)
		}
		prev = u.prefix
		us = append(us, u)
	})
	return us
}

type found struct {
	Hist    string    `json:"history"`
	Variant string    `json:"consumer_variant"`
	Viol    violation `json:"violation"`
	Length  int       `json:"length"`
}

func better(f, old *found) bool {
	if old == nil || f.Length != old.Length {
		return old == nil || f.Length < old.Length
	}
	// same length: enumeration order (not string order)
	a, _ := parseHist(f.Hist)
	b, _ := parseHist(old.Hist)
	for i := range a {
		if i < len(b) && a[i] != b[i] {
			return a[i] < b[i]
		}
	}
	return f.Variant < old.Variant
}

// childResult is what one worker process reports to the coordinator.
type childResult struct {
	Leaves, Nodes, ViolHist int64
	ExtLeaves               int64 // maximal histories of the extended pass
	St                      *stats
	TimedOut                bool
	Infra                   string
	ByKey                   map[string]*found
	CountKey                map[string]int64
}

func envInt(k string, def int) int {
	if v, err := strconv.Atoi(os.Getenv(k)); err == nil {
		return v
	}
	return def
}

// depths returns the history length bounds of the tier: base is the pass over
// the base alphabet, ext the pass over the extended alphabet (histories with
// at least one of Ar/Br/Az; the others belong to the base pass, so ext <=
// base). C05_DEPTH / C05_DEPTH_EXT: development overrides.
func depths() (base, ext int) {
	base, ext = 6, 6
	if ev.Thorough() {
		base, ext = 8, 7
	}
	base = envInt("C05_DEPTH", base)
	ext = min(envInt("C05_DEPTH_EXT", min(ext, base)), base)
	return
}

type job struct {
	mask  uint32
	need  uint32 // only histories containing one of these symbols (the others belong to another pass)
	depth int
	u     unit
}

func allJobs() []job {
	base, ext := depths()
	var jobs []job
	for _, ps := range []struct {
		mask, need uint32
		d          int
	}{{baseMask, 0, base}, {fullMask, extSyms, ext}} {
		if ps.d <= 0 {
			continue
		}
		for _, u := range genUnits(unitLen(ps.d), ps.mask) {
			jobs = append(jobs, job{ps.mask, ps.need, ps.d, u})
		}
	}
	return jobs
}

func unitLen(d int) int {
	switch {
	case d < 4:
		return 1
	case d >= 7:
		return 4
	}
	return 3
}

// activeVariants is the consumer variant list (C05_VARIANTS=a,b: development override).
func activeVariants() []variant {
	s := os.Getenv("C05_VARIANTS")
	if s == "" {
		return variants
	}
	var out []variant
	for _, n := range strings.Split(s, ",") {
		if v := variantByName(n); v != nil {
			out = append(out, *v)
		}
	}
	return out
}

// runUnits executes units idx, idx+stride, ... sequentially (one bubble at a time).
func runUnits(t *testing.T, jobs []job, idx, stride int, deadline time.Time, states map[uint64]struct{}) *childResult {
	res := &childResult{ByKey: map[string]*found{}, CountKey: map[string]int64{}, St: newStats()}
	vars := activeVariants()
	for i := idx; i < len(jobs) && !res.TimedOut && res.Infra == ""; i += stride {
		j := jobs[i]
		u := j.u
		var prev []sym
		first := true
		m := newModel()
		for _, s := range u.prefix {
			m.apply(s)
		}
		enumerate(m, append([]sym(nil), u.prefix...), j.depth, j.mask, func(h []sym) {
			if res.TimedOut || res.Infra != "" {
				return
			}
			if time.Now().After(deadline) {
				res.TimedOut = true
				return
			}
			checkFrom := lcp(prev, h)
			if first {
				checkFrom = u.lcpPrev
			}
			if j.need != 0 {
				ft := firstOf(h, j.need)
				if ft < 0 {
					return // covered by the base pass
				}
				checkFrom = max(checkFrom, ft) // shorter prefixes are base histories
				res.ExtLeaves++
			}
			first = false
			prev = append(prev[:0], h...)
			viols, infra, _, st := runHistory(t, h, checkFrom, vars, false, func(m *model) {
				states[m.hash()] = struct{}{}
				res.Nodes++
			})
			res.Leaves++
			res.St.add(st)
			if infra != nil {
				res.Infra = fmt.Sprintf("history %q: %v", histString(h), infra)
				return
			}
			// Every prefix is observed by exactly one execution, so each
			// violation belongs to one (prefix, consumer variant) pair.
			if len(viols) > 0 {
				res.ViolHist++
			}
			for i := range viols {
				viol := &viols[i]
				trunc := h[:viol.Step+1]
				f := &found{Hist: histString(trunc), Variant: viol.Variant, Viol: *viol, Length: len(trunc)}
				res.CountKey[viol.Key]++
				if better(f, res.ByKey[viol.Key]) {
					res.ByKey[viol.Key] = f
				}
			}
		})
	}
	return res
}

// childMain is one worker process: GOMAXPROCS=1, every idx-th unit.
func childMain(t *testing.T, spec string) int {
	var idx, n int
	if _, err := fmt.Sscanf(spec, "%d/%d", &idx, &n); err != nil || n <= 0 {
		fmt.Fprintln(os.Stderr, "bad C05_CHILD", spec)
		return 2
	}
	out := os.Getenv("C05_OUT")
	dl, _ := strconv.ParseInt(os.Getenv("C05_DEADLINE"), 10, 64)
	states := map[uint64]struct{}{}
	res := runUnits(t, allJobs(), idx, n, time.Unix(dl, 0), states)
	b, _ := json.Marshal(res)
	if err := os.WriteFile(out+".json", b, 0o644); err != nil {
		fmt.Fprintln(os.Stderr, err)
		return 2
	}
	sb := make([]byte, 0, 8*len(states))
	for k := range states {
		sb = binary.LittleEndian.AppendUint64(sb, k)
	}
	if err := os.WriteFile(out+".states", sb, 0o644); err != nil {
		fmt.Fprintln(os.Stderr, err)
		return 2
	}
	return 0
}

func TestVerifC05(t *testing.T) {
	if os.Getenv("GOGC") == "" {
		debug.SetGCPercent(400)
	}
	if p := os.Getenv("C05_REPLAY"); p != "" {
		os.Exit(replay(t, p))
	}
	if spec := os.Getenv("C05_CHILD"); spec != "" {
		os.Exit(childMain(t, spec))
	}
	r := ev.New("C05", "model_checking")
	d, dExt := depths()
	deadline := ev.Deadline(8*time.Minute, 45*time.Minute)
	vars := activeVariants()

	r.Rule(fmt.Sprintf("every history of exactly d=%d steps (all shorter histories are its prefixes; each distinct prefix is observed once) over the base alphabet "+
		"{A+ A.append, Ac A.commit, Ax A.abort, At A.timeout (virtual clock past A's 5 min transaction timeout: the broker aborts), B+ B.append, Bc B.commit, Bx B.abort, N+ non-transactional append}, "+
		"plus every history of exactly %d steps over the extended alphabet that contains at least one of {Ar/Br register-only: a hand-framed AddPartitionsToTxn v3 with the producer's real current id/epoch puts the partition into a transaction "+
		"that appends nothing (its Ac/Ax/Bc/Bx are hand-framed EndTxn v4, At lets it time out; no P+ while it is open), Az zombie produce: right after At, A's client, unaware of the broker-side abort, produces with its fenced epoch - "+
		"the batch is rejected but Produce v12 has implicitly opened a transaction with the partition registered and no data, which only At ends}, "+
		"on one partition of a fresh 1-broker kfake cluster in its own synctest bubble; commit/abort/timeout are enabled only with an open transaction, an append opens one if none; "+
		"A and B are kgo transactional clients (BeginTransaction/ProduceSync/EndTransaction), N a plain idempotent kgo client, driven sequentially; appends alternate between batches of one and two records. "+
		"After every step one fresh ReadCommitted kgo consumer per variant ({large: FetchMaxBytes=FetchMaxPartitionBytes=1 MiB; part1: FetchMaxPartitionBytes=1 = one batch per response; part170: FetchMaxPartitionBytes=170 = two batches per response; "+
		"req1: FetchMaxBytes=1 = one batch per response cut by the request-level limit} x {default, KeepControlRecords}) "+
		"reads from offset 0 until a poll stays empty for 1s of virtual time, and its output is compared with the reference visibility model. "+
		"In the model a registered-but-empty transaction contributes no data, no aborted range and does not hold back the last stable offset; its end writes a marker. "+
		"distinct_nontrivial = distinct reference-model states observed", d, dExt))
	r.Assume("executions are deterministic for a given history (each history prefix is observed in one execution only)",
		"the reference model (list of appends tagged with producer, transaction number and outcome, plus markers; LSO = first offset of the earliest open transaction) is the specification; after every step it is compared with the broker's log read through a hand-framed read_uncommitted fetch, and consumers are judged only when both agree",
		"a consumer that stayed idle for 1s of virtual time (ten empty 100ms long polls) has read everything the broker will give it; a missing record is only reported after 5 more idle seconds",
		"testing/synctest virtual time: nothing but the At step moves the clock near a transaction timeout (checked: the harness aborts with an infrastructure error otherwise)",
		"after a broker-side timeout the application aborts on the old client and, if it does not recover, restarts the client under the same transactional id (only visibility is judged, not the producer's recovery)")

	workers := ev.Workers()
	// Worker results go to a directory of this run (not $BUILD: the alt-*
	// build directories of scratch-copy runs are removed by whoever cleans
	// up, possibly while another run is still going).
	dir := fmt.Sprintf("%s/build/c05-run-%d", ev.Root(), os.Getpid())
	if err := os.MkdirAll(dir, 0o755); err != nil {
		ev.InfraError("%v", err)
	}
	type child struct {
		cmd    *exec.Cmd
		out    string
		stderr bytes.Buffer
	}
	var children []*child
	for w := 0; w < workers; w++ {
		c := &child{out: fmt.Sprintf("%s/c05-worker-%d-%d", dir, os.Getpid(), w)}
		c.cmd = exec.Command(os.Args[0], "-test.run", "^TestVerifC05$", "-test.timeout", "0")
		c.cmd.Env = append(os.Environ(), "GOMAXPROCS=1", fmt.Sprintf("C05_CHILD=%d/%d", w, workers), "C05_OUT="+c.out,
			fmt.Sprintf("C05_DEADLINE=%d", deadline.Unix()))
		c.cmd.Stderr = &c.stderr
		c.cmd.Stdout = &c.stderr
		if err := c.cmd.Start(); err != nil {
			ev.InfraError("start worker: %v", err)
		}
		children = append(children, c)
	}
	total := &childResult{ByKey: map[string]*found{}, CountKey: map[string]int64{}, St: newStats()}
	var infra string
	for _, c := range children {
		err := c.cmd.Wait()
		b, rerr := os.ReadFile(c.out + ".json")
		sb, _ := os.ReadFile(c.out + ".states")
		os.Remove(c.out + ".json")
		os.Remove(c.out + ".states")
		if err != nil || rerr != nil {
			tail := c.stderr.String()
			if len(tail) > 3000 {
				tail = tail[len(tail)-3000:]
			}
			if infra == "" {
				infra = fmt.Sprintf("worker failed: %v %v\n%s", err, rerr, tail)
			}
			continue
		}
		var res childResult
		if err := json.Unmarshal(b, &res); err != nil {
			infra = "worker result: " + err.Error()
			continue
		}
		total.Leaves += res.Leaves
		total.Nodes += res.Nodes
		total.ViolHist += res.ViolHist
		total.ExtLeaves += res.ExtLeaves
		total.St.add(res.St)
		total.TimedOut = total.TimedOut || res.TimedOut
		if res.Infra != "" && infra == "" {
			infra = res.Infra
		}
		for k, f := range res.ByKey {
			if better(f, total.ByKey[k]) {
				total.ByKey[k] = f
			}
		}
		for k, n := range res.CountKey {
			total.CountKey[k] += n
		}
		for ; len(sb) >= 8; sb = sb[8:] {
			r.DistinctHash(binary.LittleEndian.Uint64(sb))
		}
	}
	os.RemoveAll(dir)
	if infra != "" {
		ev.InfraError("%s", infra)
	}

	st := total.St
	r.Evals(total.Leaves)
	r.States(total.Nodes)
	r.Transitions(st.Steps)
	r.Traces(total.Leaves)
	r.Set("depth_"+ev.Tier(), d)
	r.Set("depth_extended_alphabet_"+ev.Tier(), dExt)
	r.Set("bound_completed", fmt.Sprintf("all histories of length <= %d over the 8-symbol base alphabet %v; all histories of length <= %d over the extended alphabet (+ %v)", d, maskNames(baseMask), dExt, maskNames(extSyms)))
	r.Set("histories_executed_maximal_base_pass", total.Leaves-total.ExtLeaves)
	r.Set("histories_executed_maximal_extended_pass", total.ExtLeaves)
	r.Set("register_only_steps", st.Registered)
	r.Set("zombie_produce_steps", st.Zombie)
	r.Set("aborts_of_registered_but_empty_transactions", st.EmptyAborts)
	r.Set("histories_distinct", total.Nodes)
	r.Set("histories_executed_maximal", total.Leaves)
	r.Set("distinct_model_states", r.NumDistinct())
	r.Set("steps_executed", st.Steps)
	r.Set("steps_observed", st.Observed)
	r.Set("observed_states_without_open_transaction", st.FinalQuiescent)
	names := make([]string, len(vars))
	for i, v := range vars {
		names[i] = fmt.Sprintf("%s(max_bytes=%d,max_partition_bytes=%d,keep_control=%v)", v.Name, v.MaxBytes, v.PartBytes, v.Keep)
	}
	r.Set("consumer_variants", names)
	r.Set("consumer_reads", st.Reads)
	r.Set("consumer_reads_by_variant", st.ReadsByVariant)
	r.Set("records_returned", st.Returned)
	r.Set("control_records_returned", st.Control)
	r.Set("reads_with_aborted_data_below_lso", st.HidAborted)
	r.Set("reads_stopped_by_open_transaction", st.HidOpen)
	r.Set("reads_completed_only_by_confirmation_polling", st.Late)
	r.Set("fetch_responses", st.FetchResponses)
	r.Set("batches_processed_by_consumers", st.BatchesRead)
	r.Set("timeout_recovery_paths", st.Recovery)
	r.Set("violating_histories", total.ViolHist)
	r.Set("worker_processes", workers)
	if total.TimedOut {
		r.NotExhaustive("soft deadline reached before all histories were executed")
	}
	for _, h := range []string{"A+ B+ Ax Bc N+", "A+ At A+ Ac B+", "B+ A+ A+ Bx Ac", "A+ Ax A+ Ac N+", "A+ Ac Ar Ax N+", "A+ Ac A+ At Az At"} {
		r.Sample(map[string]any{"history": h, "note": "one of the enumerated histories (symbols as in rule); observed after every step by every consumer variant"})
	}

	keys := make([]string, 0, len(total.ByKey))
	for k := range total.ByKey {
		keys = append(keys, k)
	}
	sort.Slice(keys, func(i, j int) bool {
		if total.ByKey[keys[i]].Length != total.ByKey[keys[j]].Length {
			return total.ByKey[keys[i]].Length < total.ByKey[keys[j]].Length
		}
		return keys[i] < keys[j]
	})
	for _, k := range keys {
		f := total.ByKey[k]
		r.Violation(k, fmt.Sprintf("shortest failing history (of %d with this key): %q, consumer variant %q\nafter step %d (%s): %s",
			total.CountKey[k], f.Hist, f.Variant, f.Viol.Step, f.Viol.Sym, f.Viol.Detail), f)
	}
	os.Exit(r.Write())
}

// replay re-runs the history of a violation artefact (or a literal history
// given as "hist:A+ B+ Ax" / "hist:A+ B+ Ax|tiny") verbosely, observing every
// step with every variant (or the named one), and prints the verdict.
func replay(t *testing.T, path string) int {
	var f found
	if strings.HasPrefix(path, "hist:") {
		f.Hist = path[5:]
		if i := strings.IndexByte(f.Hist, '|'); i >= 0 {
			f.Hist, f.Variant = f.Hist[:i], f.Hist[i+1:]
		}
	} else {
		b, err := os.ReadFile(path)
		if err != nil {
			fmt.Println("replay:", err)
			return 2
		}
		var art struct {
			Artefact found `json:"artefact"`
		}
		if err := json.Unmarshal(b, &art); err != nil {
			fmt.Println("replay:", err)
			return 2
		}
		f = art.Artefact
	}
	h, err := parseHist(f.Hist)
	if err != nil {
		fmt.Println("replay:", err)
		return 2
	}
	vars := activeVariants()
	if f.Variant != "" && os.Getenv("C05_REPLAY_ALL_VARIANTS") == "" {
		v := variantByName(f.Variant)
		if v == nil {
			fmt.Println("replay: unknown consumer variant", f.Variant)
			return 2
		}
		vars = []variant{*v}
	}
	fmt.Printf("replaying %q with consumer variant(s) %v\n", f.Hist, vars)
	viols, infra, m, _ := runHistory(t, h, 0, vars, true, nil)
	if infra != nil {
		fmt.Println("INFRA-ERROR:", infra)
		return 2
	}
	if m != nil {
		fmt.Print("final ", m.dump())
	}
	for _, viol := range viols {
		fmt.Printf("VIOLATION key=%s variant=%s after step %d (%s)\n", viol.Key, viol.Variant, viol.Step, viol.Sym)
	}
	if len(viols) > 0 {
		return 1
	}
	fmt.Println("held")
	return 0
}
