package c05

import (
	"encoding/binary"
	"errors"
	"fmt"
	"hash/crc32"
	"io"
	"net"

	"github.com/twmb/franz-go/pkg/kbin"
	"github.com/twmb/franz-go/pkg/kmsg"
)

// rawConn is a hand-framed Kafka connection (no kgo logic). It is used only
// to read the partition's complete log (read_uncommitted, control batches
// included) after every step, to make sure that the reference model and the
// broker agree on WHAT was appended before the consumers are judged.
type rawConn struct {
	c    net.Conn
	corr int32
}

var rawClientID = "c05-raw"

func (r *rawConn) do(req kmsg.Request) (kmsg.Response, error) {
	r.corr++
	b := []byte{0, 0, 0, 0}
	b = kbin.AppendInt16(b, req.Key())
	b = kbin.AppendInt16(b, req.GetVersion())
	b = kbin.AppendInt32(b, r.corr)
	b = kbin.AppendNullableString(b, &rawClientID)
	if req.IsFlexible() {
		b = append(b, 0)
	}
	b = req.AppendTo(b)
	binary.BigEndian.PutUint32(b[:4], uint32(len(b)-4))
	if _, err := r.c.Write(b); err != nil {
		return nil, fmt.Errorf("write: %w", err)
	}
	var sz [4]byte
	if _, err := io.ReadFull(r.c, sz[:]); err != nil {
		return nil, fmt.Errorf("read size: %w", err)
	}
	body := make([]byte, binary.BigEndian.Uint32(sz[:]))
	if _, err := io.ReadFull(r.c, body); err != nil {
		return nil, fmt.Errorf("read body: %w", err)
	}
	if len(body) < 4 {
		return nil, errors.New("short response")
	}
	if got := int32(binary.BigEndian.Uint32(body)); got != r.corr {
		return nil, fmt.Errorf("correlation id %d, want %d", got, r.corr)
	}
	resp := req.ResponseKind()
	rd := kbin.Reader{Src: body[4:]}
	if resp.IsFlexible() && resp.Key() != 18 {
		kmsg.SkipTags(&rd)
	}
	if err := resp.ReadFrom(rd.Src); err != nil {
		return nil, fmt.Errorf("parse response key %d: %w", req.Key(), err)
	}
	return resp, nil
}

// register sends AddPartitionsToTxn v3 for the partition (pre-KIP-890 shape):
// the transaction has the partition registered, nothing is appended.
func (r *rawConn) register(txid string, pid int64, epoch int16) error {
	req := kmsg.NewPtrAddPartitionsToTxnRequest()
	req.Version = 3
	req.TransactionalID = txid
	req.ProducerID = pid
	req.ProducerEpoch = epoch
	rt := kmsg.NewAddPartitionsToTxnRequestTopic()
	rt.Topic = topic
	rt.Partitions = []int32{0}
	req.Topics = append(req.Topics, rt)
	kresp, err := r.do(req)
	if err != nil {
		return err
	}
	resp := kresp.(*kmsg.AddPartitionsToTxnResponse)
	if len(resp.Topics) != 1 || len(resp.Topics[0].Partitions) != 1 {
		return errors.New("AddPartitionsToTxn: unexpected response shape")
	}
	if c := resp.Topics[0].Partitions[0].ErrorCode; c != 0 {
		return fmt.Errorf("AddPartitionsToTxn: error code %d", c)
	}
	return nil
}

// endTxn sends EndTxn v4 (no epoch bump: the kgo client of that transactional
// id stays usable).
func (r *rawConn) endTxn(txid string, pid int64, epoch int16, commit bool) error {
	req := kmsg.NewPtrEndTxnRequest()
	req.Version = 4
	req.TransactionalID = txid
	req.ProducerID = pid
	req.ProducerEpoch = epoch
	req.Commit = commit
	kresp, err := r.do(req)
	if err != nil {
		return err
	}
	if c := kresp.(*kmsg.EndTxnResponse).ErrorCode; c != 0 {
		return fmt.Errorf("EndTxn: error code %d", c)
	}
	return nil
}

var crc32c = crc32.MakeTable(crc32.Castagnoli)

// rawRec is one record of the broker's log.
type rawRec struct {
	off     int64
	batch   int64 // first offset of its batch
	pid     int64
	epoch   int16
	txnl    bool
	control bool
	commit  bool
	val     string
	bytes   int // encoded size of its batch
}

// fetch sends one sessionless Fetch v11 for the partition.
func (r *rawConn) fetch(offset int64, maxBytes, partBytes int32, isolation int8) (*kmsg.FetchResponseTopicPartition, error) {
	req := kmsg.NewPtrFetchRequest()
	req.Version = 11
	req.ReplicaID = -1
	req.MaxBytes = maxBytes
	req.IsolationLevel = isolation
	req.SessionEpoch = -1
	rt := kmsg.NewFetchRequestTopic()
	rt.Topic = topic
	rp := kmsg.NewFetchRequestTopicPartition()
	rp.FetchOffset = offset
	rp.CurrentLeaderEpoch = -1
	rp.LogStartOffset = -1
	rp.PartitionMaxBytes = partBytes
	rt.Partitions = append(rt.Partitions, rp)
	req.Topics = append(req.Topics, rt)
	kresp, err := r.do(req)
	if err != nil {
		return nil, err
	}
	resp := kresp.(*kmsg.FetchResponse)
	if resp.ErrorCode != 0 || len(resp.Topics) != 1 || len(resp.Topics[0].Partitions) != 1 {
		return nil, fmt.Errorf("raw fetch: error %d / unexpected shape", resp.ErrorCode)
	}
	p := &resp.Topics[0].Partitions[0]
	if p.ErrorCode != 0 {
		return nil, fmt.Errorf("raw fetch: partition error %d", p.ErrorCode)
	}
	return p, nil
}

// readLog fetches the whole partition (read_uncommitted, one request: the
// logs of this check are tiny) and returns its records and the high watermark.
func (r *rawConn) readLog() ([]rawRec, int64, error) {
	p, err := r.fetch(0, 64<<20, 64<<20, 0)
	if err != nil {
		return nil, 0, err
	}
	out, err := decodeRecords(p.RecordBatches)
	return out, p.HighWatermark, err
}

// explain walks the partition with read_committed fetches of the given size
// (diagnostics for replays: what the broker hands a consumer of that variant).
func (r *rawConn) explain(maxBytes, partBytes int32) string {
	s := ""
	for off, n := int64(0), 0; n < 100; n++ {
		p, err := r.fetch(off, maxBytes, partBytes, 1)
		if err != nil {
			return s + "  " + err.Error() + "\n"
		}
		recs, err := decodeRecords(p.RecordBatches)
		if err != nil {
			return s + "  " + err.Error() + "\n"
		}
		s += fmt.Sprintf("  read_committed fetch offset=%d max_bytes=%d partition_max_bytes=%d -> hwm=%d lso=%d aborted=[", off, maxBytes, partBytes, p.HighWatermark, p.LastStableOffset)
		for _, a := range p.AbortedTransactions {
			s += fmt.Sprintf(" pid%d@%d", a.ProducerID, a.FirstOffset)
		}
		s += " ] records=["
		for _, rr := range recs {
			switch {
			case rr.control && rr.commit:
				s += fmt.Sprintf(" %d:COMMIT(pid%d)", rr.off, rr.pid)
			case rr.control:
				s += fmt.Sprintf(" %d:ABORT(pid%d)", rr.off, rr.pid)
			default:
				s += fmt.Sprintf(" %d:%s(pid%d)", rr.off, rr.val, rr.pid)
			}
		}
		s += " ]\n"
		if len(recs) == 0 {
			break
		}
		off = recs[len(recs)-1].off + 1
	}
	return s
}

func decodeRecords(raw []byte) ([]rawRec, error) {
	var out []rawRec
	for len(raw) > 0 {
		if len(raw) < 12 {
			return nil, fmt.Errorf("raw fetch: trailing %d bytes", len(raw))
		}
		l := int(int32(binary.BigEndian.Uint32(raw[8:12])))
		if l < 49 || 12+l > len(raw) {
			return nil, fmt.Errorf("raw fetch: batch length %d with %d bytes left", l, len(raw)-12)
		}
		var kb kmsg.RecordBatch
		if err := kb.ReadFrom(raw[:12+l]); err != nil {
			return nil, err
		}
		if got := int32(crc32.Checksum(raw[21:12+l], crc32c)); got != kb.CRC {
			return nil, fmt.Errorf("raw fetch: batch at %d: crc mismatch", kb.FirstOffset)
		}
		if kb.Magic != 2 || kb.Attributes&0x7 != 0 {
			return nil, fmt.Errorf("raw fetch: batch at %d: magic %d attrs %#x", kb.FirstOffset, kb.Magic, kb.Attributes)
		}
		rd := kbin.Reader{Src: kb.Records}
		for i := int32(0); i < kb.NumRecords; i++ {
			ln := rd.Varint()
			body := rd.Span(int(ln))
			if !rd.Ok() {
				return nil, fmt.Errorf("raw fetch: batch at %d: short record %d", kb.FirstOffset, i)
			}
			br := kbin.Reader{Src: body}
			br.Int8()
			br.Varlong()
			d := br.Varint()
			k := br.VarintBytes()
			v := br.VarintBytes()
			if !br.Ok() {
				return nil, fmt.Errorf("raw fetch: batch at %d: bad record %d", kb.FirstOffset, i)
			}
			rr := rawRec{off: kb.FirstOffset + int64(d), batch: kb.FirstOffset, pid: kb.ProducerID, epoch: kb.ProducerEpoch,
				txnl: kb.Attributes&0x10 != 0, control: kb.Attributes&0x20 != 0, val: string(v), bytes: 12 + l}
			if rr.control {
				if len(k) < 4 {
					return nil, fmt.Errorf("raw fetch: control record at %d with key %x", rr.off, k)
				}
				rr.commit = binary.BigEndian.Uint16(k[2:]) == 1
			}
			out = append(out, rr)
		}
		raw = raw[12+l:]
	}
	return out, nil
}
