package c05

import (
	"fmt"
	"os"
	"testing"
)

// TestC05Count prints the size of the history space per depth (development
// aid: C05_COUNT=<depth> c05.test -test.run TestC05Count).
func TestC05Count(t *testing.T) {
	d := envInt("C05_COUNT", 0)
	if d == 0 {
		t.Skip("set C05_COUNT")
	}
	for k := 1; k <= d; k++ {
		var n int64
		states := map[uint64]struct{}{}
		enumerate(newModel(), nil, k, func(h []sym) {
			n++
			m := newModel()
			for _, s := range h {
				m.apply(s)
			}
			states[m.hash()] = struct{}{}
		})
		fmt.Fprintf(os.Stdout, "depth %d: histories %d, distinct model states at that depth %d, units(len %d) %d\n", k, n, len(states), unitLen(k), len(genUnits(unitLen(k))))
	}
}
