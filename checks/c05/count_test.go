package c05

import (
	"fmt"
	"os"
	"testing"
)

// TestC05Count prints the size of the history space per depth (development
// aid: C05_COUNT=<depth> c05.test -test.run TestC05Count).
func TestC05Count(t *testing.T) {
	d := envInt("C05_COUNT", 0)
	if d == 0 {
		t.Skip("set C05_COUNT")
	}
	for k := 1; k <= d; k++ {
		var base, ext int64
		enumerate(newModel(), nil, k, fullMask, func(h []sym) {
			if firstOf(h, extSyms) >= 0 {
				ext++
			} else {
				base++
			}
		})
		fmt.Fprintf(os.Stdout, "depth %d: base-alphabet histories %d, extended-alphabet histories (with Ar/Br/Az) %d, units(len %d): base %d, extended %d\n",
			k, base, ext, unitLen(k), len(genUnits(unitLen(k), baseMask)), len(genUnits(unitLen(k), fullMask)))
	}
}
