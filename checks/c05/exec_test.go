package c05

import (
	"context"
	"errors"
	"fmt"
	"os"
	"strings"
	"testing"
	"testing/synctest"
	"time"

	"github.com/twmb/franz-go/pkg/kfake"
	"github.com/twmb/franz-go/pkg/kgo"
)

const (
	topic = "t"

	// Transaction timeouts (virtual time). A's is the one the alphabet can
	// let expire (it must outlast the sequential consumer reads of a whole
	// history: 8 variants x ~1s per observed step); B's (= the broker's
	// transaction.max.timeout.ms, raised for it) never expires by itself.
	timeoutA = 5 * time.Minute
	timeoutB = 2 * time.Hour

	// A consumer is considered to have read everything it is going to read
	// when a poll returned nothing for pollIdle of virtual time (the broker
	// answers an empty long poll after fetchWait, so this is ~10 empty fetch
	// round trips; inside a bubble the clock only advances when every
	// goroutine is blocked).
	pollIdle  = time.Second
	fetchWait = 100 * time.Millisecond
	// Before "a committed record is missing" is reported the consumer is
	// polled for this much longer (the property says "eventually").
	confirmIdle = 5 * time.Second
)

// variant is one configuration of the observing consumer.
type variant struct {
	Name      string `json:"name"`
	MaxBytes  int32  `json:"fetch_max_bytes"`           // kgo.FetchMaxBytes (request level)
	PartBytes int32  `json:"fetch_max_partition_bytes"` // kgo.FetchMaxPartitionBytes
	Keep      bool   `json:"keep_control_records"`
}

const large = 1 << 20

// Batches of this check are 70..90 bytes. kfake returns at least one batch and
// stops before the batch that would exceed a limit: limit 1 => one batch per
// response, 170 => two batches per response, 1 MiB => everything below the
// LSO. "part*" variants split through the partition-level limit, "req1"
// through the request-level limit (kgo clamps the partition limit to it).
var variants = []variant{
	{"large", large, large, false},
	{"large+ctrl", large, large, true},
	{"part1", large, 1, false},
	{"part1+ctrl", large, 1, true},
	{"part170", large, 170, false},
	{"part170+ctrl", large, 170, true},
	{"req1", 1, 1, false},
	{"req1+ctrl", 1, 1, true},
}

func variantByName(n string) *variant {
	for i := range variants {
		if variants[i].Name == n {
			return &variants[i]
		}
	}
	return nil
}

// keySuffix separates the violation classes of consumers whose fetch
// responses are cut by the request-level byte limit from the others (the
// broker code path differs), so that a finding of one kind cannot hide a
// finding of the other kind behind the same key.
func (v *variant) keySuffix() string {
	if v.MaxBytes < large {
		return "@request-max-bytes"
	}
	return ""
}

type violation struct {
	Key     string `json:"key"`
	Class   string `json:"class"`
	Step    int    `json:"step"` // index of the step after which it was observed
	Sym     string `json:"symbol"`
	Variant string `json:"consumer_variant,omitempty"`
	Detail  string `json:"detail"`
}

// stats are per-execution coverage counters.
type stats struct {
	Reads          int64            // consumer reads judged
	ReadsByVariant map[string]int64 //
	Returned       int64            // records returned by consumers
	Control        int64            // control records returned (KeepControlRecords variants)
	HidAborted     int64            // reads in which at least one aborted record lay below the consumer's end
	HidOpen        int64            // reads that stopped at an LSO below the high watermark
	Late           int64            // reads that needed the confirmation polling to become complete
	FetchResponses int64            // fetch responses received by observing consumers
	BatchesRead    int64            // batches processed by observing consumers
	Steps          int64
	Observed       int64            // steps followed by observation
	Recovery       map[string]int64 // how A came back after a broker-side timeout
	FinalQuiescent int64            // observed states with no open transaction
	Registered     int64            // Ar/Br steps executed (partition registered, nothing appended)
	Zombie         int64            // Az steps executed (stale-epoch produce fenced)
	EmptyAborts    int64            // aborts (producer or timeout) of transactions that had the partition registered and no data
}

func newStats() *stats {
	return &stats{ReadsByVariant: map[string]int64{}, Recovery: map[string]int64{}}
}

func (s *stats) add(o *stats) {
	s.Reads += o.Reads
	s.Returned += o.Returned
	s.Control += o.Control
	s.HidAborted += o.HidAborted
	s.HidOpen += o.HidOpen
	s.Late += o.Late
	s.FetchResponses += o.FetchResponses
	s.BatchesRead += o.BatchesRead
	s.Steps += o.Steps
	s.Observed += o.Observed
	s.FinalQuiescent += o.FinalQuiescent
	s.Registered += o.Registered
	s.Zombie += o.Zombie
	s.EmptyAborts += o.EmptyAborts
	for k, v := range o.ReadsByVariant {
		s.ReadsByVariant[k] += v
	}
	for k, v := range o.Recovery {
		s.Recovery[k] += v
	}
}

type harness struct {
	vnet    *kfake.VirtualNetwork
	addr    string
	m       *model
	prod    [3]*kgo.Client
	stale   [2]bool // the broker aborted the client's transaction (timeout); the client does not know yet
	restart [2]bool // the client's epoch was fenced while it was not in a transaction: restart it before its next use
	rawPid  [2]int64
	rawEpoch [2]int16
	opened  [2]time.Time
	pid     [3]int64
	raw     *rawConn
	verbose bool
	vars    []variant
	st      *stats

	viols []violation
	fatal bool // a harness-level violation: the rest of the history cannot be judged
	infra error
	step  int
	sym   sym
}

func (h *harness) logf(format string, a ...any) {
	if h.verbose {
		fmt.Printf(format+"\n", a...)
	}
}

func (h *harness) bad() bool { return h.fatal || h.infra != nil }

// violate reports a harness-level problem (a step failed, or model and broker
// log disagree): the history stops.
func (h *harness) violate(class, _ string, format string, a ...any) {
	if h.bad() {
		return
	}
	h.fatal = true
	h.viols = append(h.viols, violation{Key: class, Class: class, Step: h.step, Sym: symName[h.sym], Detail: fmt.Sprintf(format, a...)})
	h.logf("    VIOLATION %s: %s", class, h.viols[len(h.viols)-1].Detail)
}

// flag reports what one consumer read did wrong; the history goes on (a
// wrong read does not disturb the log) so that the other variants and the
// longer histories are still judged. The expensive context is attached to
// the first violation of a key in this execution only.
func (h *harness) flag(v *variant, class, what string, ctxt func() string) {
	key := class + v.keySuffix()
	for i := range h.viols {
		if h.viols[i].Key == key && !h.verbose {
			ctxt = func() string { return "" }
			break
		}
	}
	h.viols = append(h.viols, violation{Key: key, Class: class, Step: h.step, Sym: symName[h.sym], Variant: v.Name, Detail: what + ctxt()})
	h.logf("    VIOLATION %s (consumer %s): %s", key, v.Name, h.viols[len(h.viols)-1].Detail)
}

func (h *harness) baseOpts(id string) []kgo.Opt {
	opts := []kgo.Opt{
		kgo.SeedBrokers(h.addr),
		kgo.Dialer(h.vnet.DialContext),
		kgo.ClientID(id),
		kgo.MetadataMinAge(100 * time.Millisecond),
		kgo.RetryBackoffFn(func(int) time.Duration { return 10 * time.Millisecond }),
		kgo.DisableClientMetrics(),
	}
	if os.Getenv("C05_KGO_DEBUG") != "" {
		opts = append(opts, kgo.WithLogger(kgo.BasicLogger(os.Stdout, kgo.LogLevelDebug, func() string { return id + " " })))
	}
	return opts
}

func (h *harness) newProducer(p int) *kgo.Client {
	opts := append(h.baseOpts("prod-"+prodName[p]), kgo.DefaultProduceTopic(topic))
	switch p {
	case pA:
		opts = append(opts, kgo.TransactionalID("txn-A"), kgo.TransactionTimeout(timeoutA))
	case pB:
		opts = append(opts, kgo.TransactionalID("txn-B"), kgo.TransactionTimeout(timeoutB))
	}
	cl, err := kgo.NewClient(opts...)
	if err != nil {
		h.infra = fmt.Errorf("NewClient(%s): %w", prodName[p], err)
		return nil
	}
	return cl
}

func (h *harness) recreate(p int, why string) *kgo.Client {
	h.logf("    %s: replacing the client (%s)", prodName[p], why)
	if h.prod[p] != nil {
		h.prod[p].Close()
	}
	h.prod[p] = h.newProducer(p)
	return h.prod[p]
}

func opCtx() (context.Context, context.CancelFunc) {
	return context.WithTimeout(context.Background(), 10*time.Second)
}

// exec performs one step on the real clients and on the model.
func (h *harness) exec(s sym) {
	h.sym = s
	h.step = h.m.step
	a := h.m.apply(s)
	h.st.Steps++
	if a.end && a.kind != kClient && !a.commit {
		h.st.EmptyAborts++
	}
	switch {
	case s == sAt:
		// Nothing but this sleep advances the clock past the timeout: the
		// broker aborts A's transaction and bumps its epoch.
		time.Sleep(time.Until(h.opened[pA].Add(timeoutA + time.Second)))
		if a.kind == kClient {
			h.stale[pA] = true // the client still believes in its transaction
		} else {
			h.restart[pA] = true // the client's epoch is fenced and it has no transaction to abort: the application restarts it
		}
		h.logf("  step %d %s: slept past A's transaction timeout", h.step, symName[s])
	case s == sAr || s == sBr:
		h.register(s, a)
	case s == sAz:
		h.zombie(s, a)
	case a.end && a.kind == kRaw:
		err := h.raw.endTxn(txnID[a.prod], h.rawPid[a.prod], h.rawEpoch[a.prod], a.commit)
		h.logf("  step %d %s: raw EndTxn v4(commit=%v) of the registered-only transaction = %v", h.step, symName[s], a.commit, err)
		if err != nil {
			h.violate("harness:end-transaction-failed", "", "%s raw EndTxn(commit=%v) of a registered-only transaction failed: %v", prodName[a.prod], a.commit, err)
		}
	case a.end:
		cl := h.prod[a.prod]
		ctx, cancel := opCtx()
		how := kgo.TryAbort
		if a.commit {
			how = kgo.TryCommit
		}
		err := cl.EndTransaction(ctx, how)
		cancel()
		h.logf("  step %d %s: EndTransaction(commit=%v) = %v", h.step, symName[s], a.commit, err)
		if err != nil {
			h.violate("harness:end-transaction-failed", "", "%s EndTransaction(commit=%v) of a live transaction failed: %v", prodName[a.prod], a.commit, err)
		}
	default:
		h.append(s, a)
	}
}

var txnID = [2]string{"txn-A", "txn-B"}

// ready returns p's client outside of any transaction, after the recovery an
// application performs when the broker ended the previous transaction behind
// the client's back. path names how it came back ("" = nothing to recover).
func (h *harness) ready(p int) (cl *kgo.Client, path string) {
	if h.prod[p] == nil {
		h.prod[p] = h.newProducer(p)
		return h.prod[p], ""
	}
	cl = h.prod[p]
	if p == pN {
		return cl, ""
	}
	if h.restart[p] {
		h.restart[p], h.stale[p] = false, false
		return h.recreate(p, "its epoch was fenced by the timeout of a registered-only transaction"), "client-restarted-after-empty-timeout"
	}
	if !h.stale[p] {
		return cl, ""
	}
	// The client still believes it is inside the transaction the broker
	// aborted. Do what an application does: abort (twice, the documented
	// retry), and if the client does not come back, restart it under the
	// same transactional id.
	h.stale[p] = false
	path = "abort-ok"
	ctx, cancel := opCtx()
	err := cl.EndTransaction(ctx, kgo.TryAbort)
	cancel()
	h.logf("    %s: EndTransaction(abort) after the broker-side timeout = %v", prodName[p], err)
	if err != nil {
		path = "abort-retry-ok"
		ctx, cancel = opCtx()
		err = cl.EndTransaction(ctx, kgo.TryAbort)
		cancel()
		h.logf("    %s: second EndTransaction(abort) = %v", prodName[p], err)
	}
	if err != nil {
		path = "client-restarted"
		cl = h.recreate(p, err.Error())
	}
	return cl, path
}

// register is Ar/Br: the partition is added to a transaction of the producer
// (its real, current producer id and epoch) and nothing is appended.
func (h *harness) register(s sym, a applied) {
	p := a.prod
	cl, path := h.ready(p)
	if cl == nil {
		return
	}
	if path != "" {
		h.st.Recovery[path]++
	}
	ctx, cancel := opCtx()
	pid, epoch, err := cl.ProducerID(ctx)
	cancel()
	if err != nil && path != "client-restarted" && path != "" {
		// the recovered client's producer id is unusable: restart it
		h.st.Recovery[path]--
		h.st.Recovery["client-restarted"]++
		if cl = h.recreate(p, err.Error()); cl == nil {
			return
		}
		ctx, cancel = opCtx()
		pid, epoch, err = cl.ProducerID(ctx)
		cancel()
	}
	if err != nil {
		h.violate("harness:producer-id-failed", "", "%s ProducerID failed: %v", prodName[p], err)
		return
	}
	h.opened[p] = time.Now()
	if err := h.raw.register(txnID[p], pid, epoch); err != nil {
		h.violate("harness:register-failed", "", "%s raw AddPartitionsToTxn (pid %d epoch %d) failed: %v", prodName[p], pid, epoch, err)
		return
	}
	h.rawPid[p], h.rawEpoch[p] = pid, epoch
	h.st.Registered++
	h.logf("  step %d %s: raw AddPartitionsToTxn v3 (pid %d epoch %d): partition registered, nothing appended", h.step, symName[s], pid, epoch)
}

// zombie is Az: A, unaware that the broker aborted its transaction and bumped
// its epoch, produces once more inside what it believes is its transaction.
// The batch must be fenced; with Produce v12+ the broker has by then opened a
// transaction for A with the partition registered and no data.
func (h *harness) zombie(s sym, _ applied) {
	cl := h.prod[pA]
	h.stale[pA] = false
	h.opened[pA] = time.Now()
	ctx, cancel := opCtx()
	res := cl.ProduceSync(ctx, &kgo.Record{Value: []byte("zombie")})
	cancel()
	for _, r := range res {
		if r.Err == nil {
			h.violate("harness:zombie-produce-accepted", "", "A's produce with the epoch the broker fenced at the transaction timeout was accepted at offset %d", r.Record.Offset)
			return
		}
		h.logf("  step %d %s: stale-epoch produce rejected: %v", h.step, symName[s], r.Err)
	}
	h.restart[pA] = true // whatever the client does next, the application restarts it
	h.st.Zombie++
}

func (h *harness) append(s sym, a applied) {
	p := a.prod
	cl, path := h.ready(p)
	if cl == nil {
		return
	}
	if p != pN && a.begin {
		err := cl.BeginTransaction()
		if err != nil && path != "" && path != "client-restarted" {
			h.logf("    %s: BeginTransaction = %v", prodName[p], err)
			path = "client-restarted"
			if cl = h.recreate(p, err.Error()); cl == nil {
				return
			}
			err = cl.BeginTransaction()
		}
		if err != nil {
			h.violate("harness:begin-transaction-failed", "", "%s BeginTransaction failed: %v", prodName[p], err)
			return
		}
		if path != "" {
			h.st.Recovery[path]++
		}
		h.opened[p] = time.Now()
	}
	recs := make([]*kgo.Record, len(a.vals))
	for i, v := range a.vals {
		recs[i] = &kgo.Record{Value: []byte(v)}
	}
	ctx, cancel := opCtx()
	res := cl.ProduceSync(ctx, recs...)
	cancel()
	for i, r := range res {
		if r.Err != nil {
			h.violate("harness:produce-failed", "", "%s produce of %q failed: %v", prodName[p], a.vals[i], r.Err)
			return
		}
		if r.Record.Offset != a.first+int64(i) {
			h.violate("harness:model-log-mismatch", "", "%s produce of %q landed at offset %d, model says %d", prodName[p], a.vals[i], r.Record.Offset, a.first+int64(i))
			return
		}
	}
	h.logf("  step %d %s: produced %v at offset %d (begin=%v)", h.step, symName[s], a.vals, a.first, a.begin)
}

// checkLog compares the broker's log (raw read_uncommitted fetch) with the
// model: the consumers are only judged when both agree on what was appended.
func (h *harness) checkLog() {
	if h.bad() {
		return
	}
	log, hwm, err := h.raw.readLog()
	if err != nil {
		h.infra = err
		return
	}
	mismatch := func(format string, a ...any) {
		var sb strings.Builder
		for _, r := range log {
			fmt.Fprintf(&sb, "  %3d pid=%d epoch=%d txnl=%v control=%v commit=%v %q\n", r.off, r.pid, r.epoch, r.txnl, r.control, r.commit, r.val)
		}
		h.violate("harness:model-log-mismatch", "", "%s\nbroker log:\n%s%s", fmt.Sprintf(format, a...), sb.String(), h.m.dump())
	}
	if hwm != h.m.hwm || len(log) != len(h.m.log) {
		mismatch("broker log has %d records / hwm %d, model %d / %d", len(log), hwm, len(h.m.log), h.m.hwm)
		return
	}
	for i := range log {
		r, e := &log[i], &h.m.log[i]
		if r.off != e.off || r.control != e.marker || r.txnl != (e.prod != pN) || (e.marker && r.commit != e.commit) || (!e.marker && r.val != e.val) {
			mismatch("offset %d differs (model: %s)", e.off, h.m.describe(e))
			return
		}
		if h.pid[e.prod] == -1 {
			for q := range h.pid {
				if h.pid[q] == r.pid {
					mismatch("producers %s and %s share producer id %d", prodName[q], prodName[e.prod], r.pid)
					return
				}
			}
			h.pid[e.prod] = r.pid
		} else if h.pid[e.prod] != r.pid {
			mismatch("offset %d: producer %s wrote with producer id %d, before with %d", e.off, prodName[e.prod], r.pid, h.pid[e.prod])
			return
		}
	}
	// Virtual-time budget: no transaction may get near its timeout except through At.
	for p, to := range [2]time.Duration{timeoutA, timeoutB} {
		if h.m.open[p] != 0 && time.Since(h.opened[p]) > to-15*time.Second {
			h.infra = fmt.Errorf("virtual time budget exceeded: %s's transaction is open for %v (timeout %v)", prodName[p], time.Since(h.opened[p]), to)
		}
	}
}

type got struct {
	off     int64
	val     string
	control bool
	pid     int64
}

// fetchCounter counts what the observing consumer received.
type fetchCounter struct{ responses, batches int64 }

func (f *fetchCounter) OnBrokerE2E(_ kgo.BrokerMetadata, key int16, e kgo.BrokerE2E) {
	if key == 1 && e.Err() == nil {
		f.responses++
	}
}

func (f *fetchCounter) OnFetchBatchRead(kgo.BrokerMetadata, string, int32, kgo.FetchBatchMetrics) {
	f.batches++
}

// reader is one fresh ReadCommitted consumer positioned at offset 0.
type reader struct {
	cl   *kgo.Client
	recs []got
	errs []string
	fc   fetchCounter
}

func (h *harness) newReader(v variant) *reader {
	r := &reader{}
	opts := append(h.baseOpts("cons-"+v.Name),
		kgo.ConsumePartitions(map[string]map[int32]kgo.Offset{topic: {0: kgo.NewOffset().At(0)}}),
		kgo.FetchIsolationLevel(kgo.ReadCommitted()),
		kgo.FetchMaxBytes(v.MaxBytes),
		kgo.FetchMaxPartitionBytes(v.PartBytes),
		kgo.FetchMaxWait(fetchWait),
		kgo.WithHooks(&r.fc),
	)
	if v.Keep {
		opts = append(opts, kgo.KeepControlRecords())
	}
	cl, err := kgo.NewClient(opts...)
	if err != nil {
		h.infra = fmt.Errorf("NewClient(consumer %s): %w", v.Name, err)
		return nil
	}
	r.cl = cl
	return r
}

// drain polls until a poll stayed empty for `idle` of virtual time.
func (r *reader) drain(idle time.Duration) {
	for polls := 0; polls < 10000; polls++ {
		ctx, cancel := context.WithTimeout(context.Background(), idle)
		fs := r.cl.PollFetches(ctx)
		expired := ctx.Err() != nil
		cancel()
		n := 0
		fs.EachError(func(t string, p int32, err error) {
			if errors.Is(err, context.DeadlineExceeded) || errors.Is(err, context.Canceled) {
				return
			}
			r.errs = append(r.errs, fmt.Sprintf("%s/%d: %v", t, p, err))
		})
		fs.EachRecord(func(rec *kgo.Record) {
			n++
			r.recs = append(r.recs, got{off: rec.Offset, val: string(rec.Value), control: rec.Attrs.IsControl(), pid: rec.ProducerID})
		})
		if n == 0 && expired {
			return
		}
	}
	r.errs = append(r.errs, "consumer did not become idle within 10000 polls")
}

// observe reads the partition with a fresh consumer per variant and judges
// what each returned against the model.
func (h *harness) observe() {
	h.st.Observed++
	if !h.m.anyOpen() {
		h.st.FinalQuiescent++
	}
	for _, v := range h.vars {
		if h.bad() {
			return
		}
		r := h.newReader(v)
		if r == nil {
			return
		}
		r.drain(pollIdle)
		h.judge(v, r)
		r.cl.Close()
		h.st.FetchResponses += r.fc.responses
		h.st.BatchesRead += r.fc.batches
	}
}

func fmtGot(gs []got) string {
	var sb strings.Builder
	for _, g := range gs {
		if g.control {
			fmt.Fprintf(&sb, " %d:<control>", g.off)
		} else {
			fmt.Fprintf(&sb, " %d:%s", g.off, g.val)
		}
	}
	return "[" + strings.TrimSpace(sb.String()) + "]"
}

func (h *harness) judge(v variant, r *reader) {
	m := h.m
	h.st.Reads++
	h.st.ReadsByVariant[v.Name]++
	ctxt := func() string {
		return fmt.Sprintf("\nconsumer %q (FetchMaxBytes=%d FetchMaxPartitionBytes=%d keepControl=%v) returned %s\n%swhat the broker answers to sessionless read_committed fetches of that size (hand-framed, diagnostic only):\n%s",
			v.Name, v.MaxBytes, v.PartBytes, v.Keep, fmtGot(r.recs), m.dump(), h.raw.explain(v.MaxBytes, v.PartBytes))
	}
	bad := func(class, format string, a ...any) {
		h.flag(&v, class, fmt.Sprintf(format, a...), ctxt)
	}
	if len(r.errs) > 0 {
		bad("harness:consumer-error", "consumer reported errors: %v", r.errs)
		return
	}
	// check judges what was returned: one violation per read at most (the first).
	check := func(recs []got) bool {
		last := int64(-1)
		for i, g := range recs {
			if g.off <= last {
				bad("duplicate-or-disorder", "record %d of the read has offset %d after offset %d", i, g.off, last)
				return false
			}
			last = g.off
			e := m.at(g.off)
			if e == nil {
				bad("phantom-record", "returned offset %d which the log does not have (hwm %d)", g.off, m.hwm)
				return false
			}
			if g.control || e.marker {
				if !v.Keep {
					bad("control-visible", "control record at offset %d returned without KeepControlRecords", g.off)
					return false
				}
				if !g.control || !e.marker {
					bad("phantom-record", "offset %d: returned control=%v, log has marker=%v", g.off, g.control, e.marker)
					return false
				}
				continue
			}
			if g.val != e.val {
				bad("phantom-record", "offset %d returned with value %q, log has %q", g.off, g.val, e.val)
				return false
			}
			switch o := m.outcomeOf(e); {
			case o == oAborted || o == oTimedOut:
				bad("aborted-visible", "returned offset %d (%q) of %s's transaction %d which was %s", g.off, g.val, prodName[e.prod], e.txn, outcomeName[o])
				return false
			case o == oOpen:
				bad("open-visible", "returned offset %d (%q) of %s's transaction %d which is still open", g.off, g.val, prodName[e.prod], e.txn)
				return false
			case g.off >= m.lso():
				bad("beyond-lso-visible", "returned offset %d (%q) at or above the last stable offset %d", g.off, g.val, m.lso())
				return false
			}
		}
		return true
	}
	if !check(r.recs) {
		return
	}
	missing := func() *entry {
		have := map[int64]bool{}
		for _, g := range r.recs {
			have[g.off] = true
		}
		for _, e := range m.visible() {
			if !have[e.off] {
				return e
			}
		}
		return nil
	}
	if e := missing(); e != nil {
		// "Eventually": give the consumer more (virtual) time before judging.
		n := len(r.recs)
		r.drain(confirmIdle)
		if len(r.errs) > 0 {
			bad("harness:consumer-error", "consumer reported errors: %v", r.errs)
			return
		}
		if !check(r.recs) {
			return
		}
		if e = missing(); e != nil {
			bad("committed-missing", "offset %d (%q, %s) is committed/non-transactional and below the last stable offset %d but was not returned (polled until idle for %v, then %v more)",
				e.off, e.val, strings.TrimSpace(m.describe(e)), m.lso(), pollIdle, confirmIdle)
			return
		}
		if len(r.recs) > n {
			h.st.Late++
		}
	}
	// coverage
	h.st.Returned += int64(len(r.recs))
	if m.lso() < m.hwm {
		h.st.HidOpen++
	}
	hid := false
	for i := range m.log {
		e := &m.log[i]
		if e.off >= m.lso() {
			break
		}
		if !e.marker && (m.outcomeOf(e) == oAborted || m.outcomeOf(e) == oTimedOut) {
			hid = true
		}
	}
	if hid {
		h.st.HidAborted++
	}
	for _, g := range r.recs {
		if g.control {
			h.st.Control++
		}
	}
	h.logf("    read %-10s -> %s", v.Name, fmtGot(r.recs))
}

// runHistory executes one history on a fresh single-broker kfake cluster
// inside its own synctest bubble. Steps with index >= checkFrom are followed
// by the observation (earlier prefixes were observed by another execution).
func runHistory(t *testing.T, hist []sym, checkFrom int, vars []variant, verbose bool, onState func(m *model)) (viols []violation, infra error, final *model, st *stats) {
	st = newStats()
	synctest.Test(t, func(t *testing.T) {
		var vnet kfake.VirtualNetwork
		c, err := kfake.NewCluster(
			kfake.NumBrokers(1),
			kfake.Ports(9092),
			kfake.SeedTopics(1, topic),
			kfake.ListenFn(vnet.Listen),
			kfake.BrokerConfigs(map[string]string{"transaction.max.timeout.ms": fmt.Sprint(timeoutB.Milliseconds())}),
		)
		if err != nil {
			infra = fmt.Errorf("NewCluster: %w", err)
			return
		}
		defer c.Close()
		addr := c.ListenAddrs()[0]
		conn, err := vnet.DialContext(context.Background(), "tcp", addr)
		if err != nil {
			infra = fmt.Errorf("dial: %w", err)
			return
		}
		defer conn.Close()
		h := &harness{vnet: &vnet, addr: addr, m: newModel(), raw: &rawConn{c: conn}, verbose: verbose, vars: vars, st: st, pid: [3]int64{-1, -1, -1}}
		final = h.m
		defer func() {
			for _, cl := range h.prod {
				if cl != nil {
					cl.Close()
				}
			}
		}()
		for i, s := range hist {
			if !h.m.enabled(s) {
				infra = fmt.Errorf("history %q: step %d (%s) is not enabled", histString(hist), i, symName[s])
				return
			}
			h.exec(s)
			h.checkLog()
			if !h.bad() && i >= checkFrom {
				h.observe()
				if !h.bad() && onState != nil {
					onState(h.m)
				}
				h.checkLog() // also re-checks the virtual-time budget after the reads
			}
			if h.bad() {
				break
			}
		}
		viols, infra = h.viols, h.infra
	})
	return
}
