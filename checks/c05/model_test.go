package c05

import (
	"fmt"
	"hash/fnv"
	"strings"
)

// The alphabet of histories.
type sym uint8

const (
	sAa sym = iota // A.append  (opens a transaction of A if none is open)
	sAc            // A.commit
	sAx            // A.abort
	sAt            // A.timeout (virtual clock past A's transaction timeout: the broker aborts)
	sBa            // B.append
	sBc            // B.commit
	sBx            // B.abort
	sNa            // N.append  (non-transactional idempotent producer)
	// Extended alphabet: transactions that have the partition REGISTERED but
	// appended nothing to it.
	sAr // A.register: raw AddPartitionsToTxn(p0) with A's current producer id/epoch, no append (then Ac/Ax are raw EndTxn v4)
	sBr // B.register
	sAz // A.zombie-produce: after At, A (unaware of the broker-side abort) produces with its stale epoch; the broker fences the batch but has already opened an empty transaction
	nSym
)

var symName = [nSym]string{"A+", "Ac", "Ax", "At", "B+", "Bc", "Bx", "N+", "Ar", "Br", "Az"}

const (
	baseMask = uint32(1)<<sAr - 1
	extSyms  = uint32(1)<<sAr | 1<<sBr | 1<<sAz
	fullMask = uint32(1)<<nSym - 1
)

func maskNames(mask uint32) []string {
	var out []string
	for s := sym(0); s < nSym; s++ {
		if mask&(1<<s) != 0 {
			out = append(out, symName[s])
		}
	}
	return out
}

// firstOf returns the index of the first symbol of h that is in mask, or -1.
func firstOf(h []sym, mask uint32) int {
	for i, s := range h {
		if mask&(1<<s) != 0 {
			return i
		}
	}
	return -1
}

func histString(h []sym) string {
	s := make([]string, len(h))
	for i, x := range h {
		s[i] = symName[x]
	}
	return strings.Join(s, " ")
}

func parseHist(s string) ([]sym, error) {
	var out []sym
next:
	for _, f := range strings.Fields(s) {
		for i, n := range symName {
			if n == f {
				out = append(out, sym(i))
				continue next
			}
		}
		return nil, fmt.Errorf("unknown symbol %q (alphabet %v)", f, symName)
	}
	return out, nil
}

// Producers.
const (
	pA = 0
	pB = 1
	pN = 2
)

var prodName = [3]string{"A", "B", "N"}

type outcome uint8

const (
	oOpen outcome = iota
	oCommitted
	oAborted  // aborted by the producer
	oTimedOut // aborted by the broker (transaction timeout)
)

var outcomeName = [...]string{"open", "committed", "aborted", "timed-out(aborted)"}

// entry is one offset of the reference log: a data record or a transaction marker.
type entry struct {
	off    int64
	prod   int8
	txn    int16 // 1-based transaction number of the producer (0: non-transactional)
	marker bool
	commit bool   // markers: COMMIT (true) or ABORT
	val    string // data records: the value produced
	batch  int    // data records: index of the append that wrote it
}

// model is the boring reference: the list of appends tagged with producer,
// transaction number and outcome, plus the markers.
type model struct {
	log      []entry
	hwm      int64
	open     [2]int16 // number of the open transaction of A/B, 0 = none
	first    [2]int64 // first offset of that open transaction, -1: it has the partition registered but no data
	kind     [2]uint8 // how the open transaction came about
	ntxn     [2]int16
	outcomes [2][]outcome // per producer, index txn-1
	staleA   bool         // the broker aborted A's client-driven transaction (At) and the client has not been used since
	appends  int
	step     int
}

// Kinds of open transactions.
const (
	kClient uint8 = iota // begun by the kgo client with an append
	kRaw                 // Ar/Br: registered by a raw AddPartitionsToTxn, no data; ended by a raw EndTxn
	kZombie              // Az: opened broker-side by A's fenced stale-epoch produce, no data; only At ends it
)

func newModel() *model { return &model{} }

func (m *model) clone() *model {
	c := *m
	c.log = append([]entry(nil), m.log...)
	for p := range c.outcomes {
		c.outcomes[p] = append([]outcome(nil), m.outcomes[p]...)
	}
	return &c
}

func (m *model) enabled(s sym) bool {
	switch s {
	case sAc, sAx:
		return m.open[pA] != 0 && m.kind[pA] != kZombie
	case sAt:
		return m.open[pA] != 0
	case sBc, sBx:
		return m.open[pB] != 0
	case sAa: // (always enabled over the base alphabet)
		return m.open[pA] == 0 || m.kind[pA] == kClient
	case sBa:
		return m.open[pB] == 0 || m.kind[pB] == kClient
	case sAr:
		return m.open[pA] == 0
	case sBr:
		return m.open[pB] == 0
	case sAz:
		return m.staleA && m.open[pA] == 0
	}
	return true
}

// applied is what a step does to the log according to the model.
type applied struct {
	prod   int
	begin  bool     // an append that opens a transaction
	vals   []string // appends: values of the records of the one batch
	first  int64    // appends: offset of the first record; ends: offset of the marker
	end    bool
	commit bool
	kind   uint8 // kind of the transaction the step opened / appended to / ended
	wasStale bool // A+/Ar: A's client still believes in the transaction the broker aborted
}

// apply executes one enabled step on the model.
func (m *model) apply(s sym) applied {
	var a applied
	switch s {
	case sAa, sBa, sNa:
		p := map[sym]int{sAa: pA, sBa: pB, sNa: pN}[s]
		a.prod = p
		a.first = m.hwm
		var txn int16
		if p != pN {
			if m.open[p] == 0 {
				m.ntxn[p]++
				m.open[p] = m.ntxn[p]
				m.first[p] = m.hwm
				m.kind[p] = kClient
				m.outcomes[p] = append(m.outcomes[p], oOpen)
				a.begin = true
			}
			txn = m.open[p]
			if p == pA {
				a.wasStale, m.staleA = m.staleA, false
			}
		}
		n := 1 + m.appends%2 // batches of one and two records alternate
		for i := 0; i < n; i++ {
			v := fmt.Sprintf("%s%d@%d", prodName[p], txn, m.hwm)
			a.vals = append(a.vals, v)
			m.log = append(m.log, entry{off: m.hwm, prod: int8(p), txn: txn, val: v, batch: m.appends})
			m.hwm++
		}
		m.appends++
	case sAc, sAx, sAt, sBc, sBx:
		p := pA
		if s == sBc || s == sBx {
			p = pB
		}
		o := map[sym]outcome{sAc: oCommitted, sBc: oCommitted, sAx: oAborted, sBx: oAborted, sAt: oTimedOut}[s]
		a.prod, a.end, a.commit, a.first, a.kind = p, true, o == oCommitted, m.hwm, m.kind[p]
		if s == sAt {
			m.staleA = m.kind[p] == kClient
		}
		m.outcomes[p][m.open[p]-1] = o
		m.log = append(m.log, entry{off: m.hwm, prod: int8(p), txn: m.open[p], marker: true, commit: o == oCommitted})
		m.hwm++
		m.open[p] = 0
	case sAr, sBr, sAz:
		// A transaction that has the partition registered and no data: it
		// contributes no record and no aborted range and does not hold back
		// the last stable offset; its end writes a marker like any other.
		p := pA
		if s == sBr {
			p = pB
		}
		a.prod, a.begin, a.kind, a.first = p, true, kRaw, m.hwm
		if s == sAz {
			a.kind = kZombie
		}
		if p == pA {
			a.wasStale, m.staleA = m.staleA, false
		}
		m.ntxn[p]++
		m.open[p] = m.ntxn[p]
		m.first[p] = -1
		m.kind[p] = a.kind
		m.outcomes[p] = append(m.outcomes[p], oOpen)
	}
	m.step++
	return a
}

// lso is the last stable offset: the first offset of the earliest open
// transaction, or the high watermark.
func (m *model) lso() int64 {
	l := m.hwm
	for p := range m.open {
		if m.open[p] != 0 && m.first[p] >= 0 && m.first[p] < l {
			l = m.first[p]
		}
	}
	return l
}

func (m *model) outcomeOf(e *entry) outcome {
	if e.prod == pN {
		return oCommitted
	}
	return m.outcomes[e.prod][e.txn-1]
}

// visible is what a read_committed consumer reading from offset 0 must
// return: committed and non-transactional data below the last stable offset.
func (m *model) visible() []*entry {
	var out []*entry
	lso := m.lso()
	for i := range m.log {
		e := &m.log[i]
		if e.marker || e.off >= lso {
			continue
		}
		if e.prod == pN || m.outcomeOf(e) == oCommitted {
			out = append(out, e)
		}
	}
	return out
}

func (m *model) at(off int64) *entry {
	if off < 0 || off >= int64(len(m.log)) {
		return nil
	}
	return &m.log[off] // offsets are dense from 0
}

func (m *model) anyOpen() bool { return m.open[pA] != 0 || m.open[pB] != 0 }

// hash identifies the model state (the log's structure and the open transactions).
func (m *model) hash() uint64 {
	h := fnv.New64a()
	var b []byte
	for i := range m.log {
		e := &m.log[i]
		c := byte(e.prod)
		if e.marker {
			c |= 0x10
			if e.commit {
				c |= 0x20
			}
		} else {
			c |= byte(m.outcomeOf(e)) << 6
		}
		b = append(b, c, byte(e.txn))
	}
	b = append(b, 0xff, byte(m.open[pA]), byte(m.open[pB]))
	if m.open[pA] != 0 {
		b = append(b, m.kind[pA])
	}
	if m.open[pB] != 0 {
		b = append(b, 0x80|m.kind[pB])
	}
	if m.staleA {
		b = append(b, 0xfe)
	}
	h.Write(b)
	return h.Sum64()
}

func (m *model) describe(e *entry) string {
	if e.marker {
		k := "ABORT"
		if e.commit {
			k = "COMMIT"
		}
		return fmt.Sprintf("%3d  %s marker of %s txn %d", e.off, k, prodName[e.prod], e.txn)
	}
	if e.prod == pN {
		return fmt.Sprintf("%3d  data %-8q non-transactional", e.off, e.val)
	}
	return fmt.Sprintf("%3d  data %-8q %s txn %d (%s)", e.off, e.val, prodName[e.prod], e.txn, outcomeName[m.outcomeOf(e)])
}

func (m *model) dump() string {
	var sb strings.Builder
	kinds := [...]string{"", "(registered only, raw)", "(registered only, zombie produce)"}
	fmt.Fprintf(&sb, "model: hwm=%d lso=%d openA=%d%s openB=%d%s\n", m.hwm, m.lso(), m.open[pA], kinds[m.kind[pA]*min(uint8(m.open[pA]), 1)], m.open[pB], kinds[m.kind[pB]*min(uint8(m.open[pB]), 1)])
	for i := range m.log {
		fmt.Fprintf(&sb, "  %s\n", m.describe(&m.log[i]))
	}
	return sb.String()
}

// enumerate calls leaf for every enabled history of exactly `depth` steps
// extending hist (m = model after hist) over the symbols in mask, in
// lexicographic order.
func enumerate(m *model, hist []sym, depth int, mask uint32, leaf func(h []sym)) {
	if len(hist) == depth {
		leaf(hist)
		return
	}
	for s := sym(0); s < nSym; s++ {
		if mask&(1<<s) == 0 || !m.enabled(s) {
			continue
		}
		c := m.clone()
		c.apply(s)
		enumerate(c, append(hist, s), depth, mask, leaf)
	}
}
