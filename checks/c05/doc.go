// Package c05 is the check for property C05 "read_committed never exposes
// aborted or open transactions". Every history of transactional and plain
// producers on one partition is executed on the real kgo clients and a real
// kfake cluster inside its own testing/synctest bubble; after every step fresh
// ReadCommitted kgo consumers read the partition from offset 0 and what they
// return is compared with a reference visibility model. Everything lives in
// _test.go files because of the synctest bubbles; run.sh compiles the package
// with `go test -c` and runs TestVerifC05.
package c05
