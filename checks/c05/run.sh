#!/bin/bash
# C05: read_committed never exposes aborted or open transactions (bounded
# exhaustive exploration of transaction histories on the real kgo clients and
# kfake, each history in its own synctest bubble).
#   run.sh                           run the tier in $VERIF_TIER
#   run.sh --replay <artefact.json>  re-run one violation artefact verbosely
#   run.sh --replay 'hist:A+ B+ Ax Bc'        re-run a literal history (all consumer variants)
#   run.sh --replay 'hist:A+ B+ Ax Bc|tiny'   ... with one consumer variant
set -eu
cd "$(dirname "$0")/../.."
. bin/env.sh
if [ "${1:-}" = "--replay" ]; then
  export C05_REPLAY="$2"
  export VERIF_REPLAY=1
fi
go test -c -vet=off -tags synctests,verif -o "$BUILD/c05.test" ./checks/c05
exec "$BUILD/c05.test" -test.run '^TestVerifC05$' -test.timeout 0
