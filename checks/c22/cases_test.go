package c22

import (
	"encoding/binary"
	"encoding/hex"
	"fmt"
	"time"

	"github.com/twmb/franz-go/pkg/kmsg"
	"verif/checks/c21/sbroker"
)

// Timeline constants (virtual time, microseconds).
const (
	usMs        = int64(1000)
	tFirstChunk = 100 * usMs // delay of the first chunk after its gate opens
	tNextGate   = 50 * usMs  // delay of a chunk whose gate opens later
	tResume     = 100 * usMs // pause of a "resume" cut
	tClose      = 50 * usMs  // delay of a close after the last bytes
	tLate       = 150 * usMs // issue time of the last request in mode "late"
	tAfter      = 400 * usMs // issue time of the last request in mode "after"
	throttleMs  = 300

	tdeathThrottleMs = 60000 // "large" throttle of the tdeath family: far above every configured timeout

	overhead       = time.Second // kgo.RequestTimeoutOverhead: read and write timeout of a Metadata request
	defaultMaxRead = int32(1024) // kgo.BrokerMaxReadBytes (the smallest value the client accepts)
	bigMaxRead     = int32(1 << 20)

	verPlain = int16(8)  // Metadata v8: response header v0 (no tag buffer)
	verFlex  = int16(12) // Metadata v12: flexible, response header v1 (tag buffer)
)

// stepSpec is one step of the script of connection 1 (see sbroker.Step).
type stepSpec struct {
	Need    int    `json:"need"`
	DelayUs int64  `json:"delay_us"`
	Hex     string `json:"send_hex,omitempty"`
	Close   bool   `json:"close,omitempty"`
}

// Case is one enumerated execution: n concurrent requests, their issue times,
// an optional cancellation, and the byte stream the broker replies with.
type Case struct {
	Fam      string     `json:"family"`
	Desc     string     `json:"desc"`
	N        int        `json:"n"`
	Key      int16      `json:"request_key"` // kmsg key of the n requests (3 = Metadata in every family but the keyed ones)
	Ver      int16      `json:"request_version"`
	MaxRead  int32      `json:"broker_max_read_bytes"`
	Mode     string     `json:"issue_mode"`
	IssueUs  []int64    `json:"issue_us"`
	Cancel   int        `json:"cancel"`    // request index, -1 = none
	CancelUs int64      `json:"cancel_us"` // -1: the context is cancelled before the call
	// ExtraThrottleMs is the sum of the ThrottleMillis of all scripted
	// responses beyond the 300ms per request that bound() already allows:
	// while the connection lives, the client legitimately sleeps them out.
	ExtraThrottleMs int64      `json:"extra_throttle_ms,omitempty"`
	Steps           []stepSpec `json:"steps"`
}

func (c *Case) script() []sbroker.Step {
	out := make([]sbroker.Step, len(c.Steps))
	for i, s := range c.Steps {
		b, _ := hex.DecodeString(s.Hex)
		out[i] = sbroker.Step{Need: s.Need, Delay: time.Duration(s.DelayUs) * time.Microsecond, Send: b, Close: s.Close}
	}
	return out
}

// marker of the frame at position pos of connection 1.
func markerOf(pos int) int32 { return int32(1000 + pos) }

// honestMarker of the answer to slot `slot` of connection conn >= 2.
func honestMarker(conn, slot int) int32 { return int32(5000 + 100*conn + slot) }

// metadataFrame builds a well-formed Metadata response frame of version ver
// carrying correlation id corr and an identity (ControllerID = marker,
// ClusterID = "m<marker>").
func metadataFrame(ver int16, corr int32, marker int32, throttle int32) []byte {
	return respFrame(3, ver, corr, marker, throttle)
}

// A flavour is a request kind: key and the version the broker advertises as
// its maximum for it (all chosen at or below kmsg's and the latest stable
// maximum, so that is the version the client writes).
type flavour struct{ Key, Ver int16 }

func (f flavour) String() string { return fmt.Sprintf("%s v%d", kmsg.NameForKey(f.Key), f.Ver) }

// keyedFlavours: ApiVersions issued on an established connection (its
// response never has a flexible header, v3+ bodies are flexible, and a body
// whose second byte is 35 is re-read as v0), Produce and Fetch (dedicated
// connections), the SASL keys issued as plain requests, JoinGroup (group
// connection); a non-flexible and a flexible version of each where both exist.
var keyedFlavours = []flavour{
	{18, 0}, {18, 3},
	{0, 8}, {0, 11},
	{1, 11}, {1, 13},
	{17, 1},
	{36, 1}, {36, 2},
	{11, 5}, {11, 7},
}

// respFor builds a well-formed response of the given kind carrying an
// identity: Metadata ControllerID/ClusterID, ApiVersions one ApiKeys entry
// {18,0,marker}, Produce a topic "m<marker>", Fetch SessionID, SASLHandshake
// one mechanism "m<marker>", SASLAuthenticate auth bytes "m<marker>",
// JoinGroup MemberID "m<marker>".
func respFor(key, ver int16, marker, throttle int32) kmsg.Response {
	name := fmt.Sprintf("m%d", marker)
	switch key {
	case 3:
		resp := kmsg.NewPtrMetadataResponse()
		resp.Version = ver
		resp.ThrottleMillis = throttle
		resp.ClusterID = &name
		resp.ControllerID = marker
		b := kmsg.NewMetadataResponseBroker()
		b.NodeID, b.Host, b.Port = 1, "localhost", 9092
		resp.Brokers = append(resp.Brokers, b)
		return resp
	case 18:
		resp := kmsg.NewPtrApiVersionsResponse()
		resp.Version = ver
		ak := kmsg.NewApiVersionsResponseApiKey()
		ak.ApiKey, ak.MinVersion, ak.MaxVersion = 18, 0, int16(marker)
		resp.ApiKeys = append(resp.ApiKeys, ak)
		return resp
	case 0:
		resp := kmsg.NewPtrProduceResponse()
		resp.Version = ver
		t := kmsg.NewProduceResponseTopic()
		t.Topic = name
		resp.Topics = append(resp.Topics, t)
		return resp
	case 1:
		resp := kmsg.NewPtrFetchResponse()
		resp.Version = ver
		resp.SessionID = marker
		return resp
	case 17:
		resp := kmsg.NewPtrSASLHandshakeResponse()
		resp.Version = ver
		resp.SupportedMechanisms = []string{name}
		return resp
	case 36:
		resp := kmsg.NewPtrSASLAuthenticateResponse()
		resp.Version = ver
		resp.SASLAuthBytes = []byte(name)
		return resp
	case 11:
		resp := kmsg.NewPtrJoinGroupResponse()
		resp.Version = ver
		resp.MemberID = name
		return resp
	}
	panic(fmt.Sprintf("c22: no response builder for key %d", key))
}

// markerFrom reads the identity back from a decoded response.
func markerFrom(resp kmsg.Response) (int32, bool) {
	name := ""
	switch r := resp.(type) {
	case *kmsg.MetadataResponse:
		return r.ControllerID, true
	case *kmsg.ApiVersionsResponse:
		if len(r.ApiKeys) == 1 {
			return int32(r.ApiKeys[0].MaxVersion), true
		}
		return -1, true
	case *kmsg.FetchResponse:
		return r.SessionID, true
	case *kmsg.ProduceResponse:
		if len(r.Topics) == 1 {
			name = r.Topics[0].Topic
		}
	case *kmsg.SASLHandshakeResponse:
		if len(r.SupportedMechanisms) == 1 {
			name = r.SupportedMechanisms[0]
		}
	case *kmsg.SASLAuthenticateResponse:
		name = string(r.SASLAuthBytes)
	case *kmsg.JoinGroupResponse:
		name = r.MemberID
	default:
		return 0, false
	}
	m := int32(-1)
	fmt.Sscanf(name, "m%d", &m)
	return m, true
}

// reqFor builds request i of a case; timeouts carried in the request are
// zeroed so that the read timeout is RequestTimeoutOverhead for every kind.
func reqFor(key int16, i int) kmsg.Request {
	switch key {
	case 3:
		req := kmsg.NewPtrMetadataRequest()
		name := fmt.Sprintf("r%d", i)
		rt := kmsg.NewMetadataRequestTopic()
		rt.Topic = &name
		req.Topics = append(req.Topics, rt)
		return req
	case 0:
		req := kmsg.NewPtrProduceRequest()
		req.TimeoutMillis = 0
		return req
	case 1:
		req := kmsg.NewPtrFetchRequest()
		req.MaxWaitMillis = 0
		return req
	case 11:
		req := kmsg.NewPtrJoinGroupRequest()
		req.RebalanceTimeoutMillis = 0
		return req
	}
	return kmsg.RequestForKey(key)
}

func respFrame(key, ver int16, corr int32, marker int32, throttle int32) []byte {
	return sbroker.ResponseFrame(respFor(key, ver, marker, throttle), corr)
}

// corrOfSlot: the ApiVersions handshake uses correlation id 0, the requests
// that follow on the connection 1, 2, ...
func corrOfSlot(slot int) int32 { return int32(slot + 1) }

func issueTimes(n int, mode string) []int64 {
	t := make([]int64, n)
	switch mode {
	case "simul":
	case "stagger", "late", "after", "late2":
		for i := range t {
			t[i] = int64(i) * usMs
		}
		if mode == "late" {
			t[n-1] = tLate
		} else if mode == "after" {
			t[n-1] = tAfter
		} else if mode == "late2" && n >= 2 { // the last two requests, 1ms apart
			t[n-2], t[n-1] = tLate, tLate+usMs
		}
	}
	return t
}

// earlyCount is the number of requests issued before the first chunk.
func earlyCount(n int, mode string) int {
	switch mode {
	case "late", "after":
		return n - 1
	case "late2":
		return max(n-2, 0)
	}
	return n
}

// gates: in the modes simul/stagger every chunk waits for all n requests; in
// late/after (late2) the chunks of the last (two) request(s) wait for all n
// requests, the others for the early ones.
func gateOf(n int, mode string, pos int) int {
	if e := earlyCount(n, mode); pos < e {
		return e
	}
	return n
}

const (
	endIdle    = "idle"    // nothing after the stream; connection stays open
	endClose   = "close"   // connection closed 50ms after the last bytes
	endSilence = "silence" // (truncation) nothing more is ever sent
	endResume  = "resume"  // (truncation) the rest follows after a pause
)

// buildSteps lays chunks (one per frame position, possibly corrupted) on the
// timeline. cutPos/cutOff: the stream is interrupted inside chunk cutPos
// after cutOff bytes (cutPos<0: no interruption) and then ends per `end`.
func buildSteps(n int, mode string, chunks [][]byte, cutPos, cutOff int, end string) []stepSpec {
	var steps []stepSpec
	lastGate := -1
	add := func(gate int, b []byte) {
		d := int64(0)
		if gate != lastGate {
			d = tNextGate
			if lastGate == -1 {
				d = tFirstChunk
			}
			lastGate = gate
		}
		if len(steps) > 0 && d == 0 && !steps[len(steps)-1].Close {
			// same instant: one write
			raw, _ := hex.DecodeString(steps[len(steps)-1].Hex)
			steps[len(steps)-1].Hex = hex.EncodeToString(append(raw, b...))
			return
		}
		steps = append(steps, stepSpec{Need: gate, DelayUs: d, Hex: hex.EncodeToString(b)})
	}
	for pos, ch := range chunks {
		gate := gateOf(n, mode, pos)
		if pos != cutPos {
			add(gate, ch)
			continue
		}
		add(gate, ch[:cutOff])
		switch end {
		case endClose:
			steps = append(steps, stepSpec{Need: gate, DelayUs: tClose, Close: true})
			return steps
		case endSilence:
			return steps
		case endResume:
			steps = append(steps, stepSpec{Need: gate, DelayUs: tResume, Hex: hex.EncodeToString(ch[cutOff:])})
		}
	}
	if end == endClose {
		steps = append(steps, stepSpec{Need: lastGate, DelayUs: tClose, Close: true})
	}
	return steps
}

func baseFrames(n int, ver int16, throttle int32) [][]byte {
	fs := make([][]byte, n)
	for pos := range fs {
		fs[pos] = metadataFrame(ver, corrOfSlot(pos), markerOf(pos), throttle)
	}
	return fs
}

func setSize(frame []byte, v int32) []byte {
	out := append([]byte(nil), frame...)
	binary.BigEndian.PutUint32(out, uint32(v))
	return out
}

type limits struct {
	maxN        int
	corrMaxN    int // the corr family (well-formed frames, reassigned correlation ids) goes one request deeper
	thorough    bool
	prefix2Full bool
}

func tierLimits(thorough bool) limits {
	if thorough {
		return limits{maxN: 4, corrMaxN: 4, thorough: true, prefix2Full: true}
	}
	return limits{maxN: 3, corrMaxN: 3, thorough: false}
}

var bothVers = []int16{verPlain, verFlex}

// enumerate calls yield for every case of the tier, in a fixed order.
func enumerate(l limits, yield func(c *Case)) {
	mk := func(fam, desc string, n int, ver int16, mode string, steps []stepSpec) *Case {
		return &Case{Fam: fam, Desc: desc, N: n, Key: 3, Ver: ver, MaxRead: defaultMaxRead, Mode: mode, IssueUs: issueTimes(n, mode),
			Cancel: -1, Steps: steps}
	}
	defer enumerateKeyed(l, yield)
	allModes := []string{"simul", "stagger", "late", "after"}

	// ---- family "corr": every frame well-formed; the correlation id of the
	// frame at position k is drawn from {c_0..c_{n-1}, c_{n-1}+1, 0, -1, 2^31-1}
	// (in order, swapped, duplicated, wrong).
	for n := 1; n <= l.corrMaxN; n++ {
		var alphabet []int32
		for s := 0; s < n; s++ {
			alphabet = append(alphabet, corrOfSlot(s))
		}
		// corrOfSlot(0)-1 == 0 is the handshake's id
		alphabet = append(alphabet, corrOfSlot(n-1)+1, 0, -1, 0x7fffffff)
		assign := make([]int32, n)
		var rec func(pos int, f func())
		rec = func(pos int, f func()) {
			if pos == n {
				f()
				return
			}
			for _, a := range alphabet {
				assign[pos] = a
				rec(pos+1, f)
			}
		}
		for _, ver := range bothVers {
			for _, mode := range allModes {
				for _, end := range []string{endIdle, endClose} {
					rec(0, func() {
						chunks := make([][]byte, n)
						for pos := range chunks {
							chunks[pos] = metadataFrame(ver, assign[pos], markerOf(pos), 0)
						}
						yield(mk("corr", fmt.Sprintf("correlation ids %v, then %s", assign, end), n, ver, mode,
							buildSteps(n, mode, chunks, -1, 0, end)))
					})
				}
			}
		}
	}

	// ---- family "trunc": the stream stops inside frame k after o bytes
	// (every k, every o), then close / silence / resume after a pause.
	for n := 1; n <= l.maxN; n++ {
		for _, ver := range bothVers {
			fs := baseFrames(n, ver, 0)
			for _, mode := range allModes {
				for k := 0; k < n; k++ {
					for o := 0; o < len(fs[k]); o++ {
						for _, end := range []string{endClose, endSilence, endResume} {
							yield(mk("trunc", fmt.Sprintf("frame %d cut after %d of %d bytes, then %s", k, o, len(fs[k]), end), n, ver, mode,
								buildSteps(n, mode, fs, k, o, end)))
						}
					}
				}
			}
		}
	}

	// ---- family "size": the size field of frame k is replaced (bytes after
	// it unchanged), or replaced and the payload zero-padded to match.
	for n := 1; n <= l.maxN; n++ {
		for _, ver := range bothVers {
			for _, mode := range []string{"simul", "stagger"} {
				for k := 0; k < n; k++ {
					fs := baseFrames(n, ver, 0)
					exact := int32(len(fs[k]) - 4)
					type variant struct {
						name  string
						frame []byte
					}
					var vs []variant
					for _, v := range []int32{-1, -2147483648, 0, 1, 3, 4, 5, exact - 1, exact, exact + 1, defaultMaxRead, defaultMaxRead + 1, 1<<31 - 1, 0x48545450, 0x15030100} {
						vs = append(vs, variant{fmt.Sprintf("size=%d (exact %d)", v, exact), setSize(fs[k], v)})
					}
					for _, v := range []int32{exact + 1, defaultMaxRead, defaultMaxRead + 1} {
						padded := append(setSize(fs[k], v), make([]byte, int(v-exact))...)
						vs = append(vs, variant{fmt.Sprintf("size=%d with the payload zero-padded to it (exact %d)", v, exact), padded})
					}
					for _, v := range vs {
						for _, end := range []string{endIdle, endClose} {
							chunks := append([][]byte(nil), fs...)
							chunks[k] = v.frame
							yield(mk("size", fmt.Sprintf("frame %d: %s, then %s", k, v.name, end), n, ver, mode,
								buildSteps(n, mode, chunks, -1, 0, end)))
						}
					}
				}
			}
		}
	}

	// ---- family "prefix": garbage bytes before frame k (single request:
	// every prefix of <= 2 bytes; quick: <= 1 byte and a structured subset).
	{
		var prefixes [][]byte
		prefixes = append(prefixes, []byte{})
		for a := 0; a < 256; a++ {
			prefixes = append(prefixes, []byte{byte(a)})
		}
		if l.prefix2Full {
			for a := 0; a < 256; a++ {
				for b := 0; b < 256; b++ {
					prefixes = append(prefixes, []byte{byte(a), byte(b)})
				}
			}
		} else {
			for _, a := range []byte{0x00, 0x01, 0x03, 0x04, 0x0f, 0x10, 0x7f, 0x80, 0xff} {
				for b := 0; b < 256; b++ {
					prefixes = append(prefixes, []byte{a, byte(b)})
				}
			}
		}
		for _, ver := range bothVers {
			for _, maxRead := range []int32{defaultMaxRead, bigMaxRead} {
				fs := baseFrames(1, ver, 0)
				for _, p := range prefixes {
					for _, end := range []string{endClose, endIdle} {
						c := mk("prefix", fmt.Sprintf("garbage prefix %x before the frame, then %s", p, end), 1, ver, "simul",
							buildSteps(1, "simul", [][]byte{append(append([]byte(nil), p...), fs[0]...)}, -1, 0, end))
						c.MaxRead = maxRead
						yield(c)
					}
				}
			}
		}
		// two requests: every <= 1-byte prefix (thorough: <= 2-byte, issued
		// at once) before the second frame
		if l.maxN >= 2 {
			for _, ver := range bothVers {
				fs := baseFrames(2, ver, 0)
				ps := prefixes[:257]
				if l.prefix2Full {
					ps = prefixes
				}
				for _, p := range ps {
					for _, mode := range []string{"simul", "late"} {
						if len(p) == 2 && mode != "simul" {
							continue
						}
						for _, end := range []string{endClose, endIdle} {
							chunks := [][]byte{fs[0], append(append([]byte(nil), p...), fs[1]...)}
							yield(mk("prefix", fmt.Sprintf("garbage prefix %x before frame 1, then %s", p, end), 2, ver, mode,
								buildSteps(2, mode, chunks, -1, 0, end)))
						}
					}
				}
			}
		}
	}

	// ---- family "tags": hostile response header tag buffers (flexible only).
	{
		tagBufs := [][]byte{
			{0x01, 0x00, 0x00},             // one tag, key 0, empty
			{0x01, 0x05, 0x02, 0xaa, 0xbb}, // one tag, key 5, 2 bytes
			{0x02, 0x00, 0x00, 0x01, 0x00}, // two empty tags
			{0x01, 0x00, 0x7f},             // tag longer than the frame
			{0x02, 0x00, 0x00},             // second tag missing
			{0x80},                         // truncated uvarint
			{0xff, 0xff, 0xff, 0xff, 0xff}, // over-long uvarint
			{0x7f},                         // 127 tags, none present
			{0xff, 0x7f},                   // 16383 tags, none present
			{0xff, 0xff, 0x3f},             // ~1M tags, none present
		}
		for n := 1; n <= l.maxN; n++ {
			for _, mode := range []string{"simul", "stagger"} {
				for k := 0; k < n; k++ {
					for ti, tb := range tagBufs {
						for _, keepBody := range []bool{true, false} {
							fs := baseFrames(n, verFlex, 0)
							f := fs[k]
							// f = size(4) corr(4) 0x00 body
							nf := append([]byte(nil), f[:8]...)
							nf = append(nf, tb...)
							if keepBody {
								nf = append(nf, f[9:]...)
							}
							nf = setSize(nf, int32(len(nf)-4))
							chunks := append([][]byte(nil), fs...)
							chunks[k] = nf
							for _, end := range []string{endIdle, endClose} {
								yield(mk("tags", fmt.Sprintf("frame %d: header tag buffer #%d %x (body kept=%v), then %s", k, ti, tb, keepBody, end), n, verFlex, mode,
									buildSteps(n, mode, chunks, -1, 0, end)))
							}
						}
					}
				}
			}
		}
	}

	// ---- family "throttle": every frame carries ThrottleMillis > 0; requests
	// issued later on the connection must still complete.
	for n := 1; n <= l.maxN; n++ {
		for _, ver := range bothVers {
			for _, mode := range allModes {
				for _, end := range []string{endIdle, endClose} {
					yield(mk("throttle", fmt.Sprintf("every response has ThrottleMillis=%d, then %s", throttleMs, end), n, ver, mode,
						buildSteps(n, mode, baseFrames(n, ver, throttleMs), -1, 0, end)))
				}
			}
		}
	}

	// ---- family "tdeath": throttles and connection death. Script alphabet
	// per pipelined request, in slot order: R respond, T respond with
	// ThrottleMillis=60s, W withhold the response; plus close-connection
	// before any slot's step or after the last (or never). Every word over
	// {R,T,W}^n with every close position (the steps after a close cannot be
	// observed, so a close before slot c is enumerated with words of length
	// c). A request issued after a T response sleeps the throttle out before
	// it is written; if the connection dies meanwhile (close seen as EOF by a
	// withheld request, or that request's read timeout) it must not keep
	// sleeping.
	for n := 2; n <= l.maxN+1; n++ {
		for _, ver := range bothVers {
			for _, mode := range []string{"simul", "stagger", "late", "late2", "after"} {
				if mode == "late2" && n < 3 {
					continue
				}
				for closeAt := -1; closeAt <= n; closeAt++ {
					wl := n
					if closeAt >= 0 {
						wl = closeAt
					}
					word := make([]byte, wl)
					var rec func(pos int)
					rec = func(pos int) {
						if pos < wl {
							for _, a := range []byte("RTW") {
								word[pos] = a
								rec(pos + 1)
							}
							return
						}
						var steps []stepSpec
						var extra int64
						lastGate := -1
						place := func(gate int, isClose bool, b []byte) {
							d := 20 * usMs
							switch {
							case lastGate == -1:
								d = tFirstChunk
							case isClose:
								d = 100 * usMs
							case gate != lastGate:
								d = tNextGate
							}
							if isClose {
								if lastGate >= 0 {
									gate = lastGate
								}
							}
							lastGate = gate
							steps = append(steps, stepSpec{Need: gate, DelayUs: d, Hex: hex.EncodeToString(b), Close: isClose})
						}
						for slot := 0; slot <= wl; slot++ {
							if slot == closeAt {
								place(gateOf(n, mode, min(slot, n-1)), true, nil)
								break
							}
							if slot == wl {
								break
							}
							switch word[slot] {
							case 'R':
								place(gateOf(n, mode, slot), false, metadataFrame(ver, corrOfSlot(slot), markerOf(slot), 0))
							case 'T':
								extra += tdeathThrottleMs
								place(gateOf(n, mode, slot), false, metadataFrame(ver, corrOfSlot(slot), markerOf(slot), tdeathThrottleMs))
							}
						}
						desc := fmt.Sprintf("script %q (R respond, T respond with ThrottleMillis=%d, W withhold)", word, tdeathThrottleMs)
						if closeAt >= 0 {
							desc += fmt.Sprintf(", then close-connection (before slot %d's step)", closeAt)
						}
						c := mk("tdeath", desc, n, ver, mode, steps)
						c.ExtraThrottleMs = extra
						yield(c)
					}
					rec(0)
				}
			}
		}
	}

	// ---- family "cancel": request i's context is cancelled at a chosen
	// moment while the stream is whole or interrupted.
	for n := 1; n <= l.maxN; n++ {
		for _, ver := range bothVers {
			fs := baseFrames(n, ver, 0)
			type stream struct {
				desc  string
				steps func(mode string) []stepSpec
			}
			var streams []stream
			streams = append(streams, stream{"whole stream", func(mode string) []stepSpec { return buildSteps(n, mode, fs, -1, 0, endIdle) }})
			for k := 0; k < n; k++ {
				for o := 0; o < len(fs[k]); o++ {
					for _, end := range []string{endSilence, endResume, endClose} {
						streams = append(streams, stream{fmt.Sprintf("frame %d cut after %d bytes then %s", k, o, end),
							func(mode string) []stepSpec { return buildSteps(n, mode, fs, k, o, end) }})
					}
				}
			}
			for _, mode := range []string{"simul", "stagger", "late"} {
				issue := issueTimes(n, mode)
				for _, st := range streams {
					steps := st.steps(mode)
					for i := 0; i < n; i++ {
						for _, at := range []int64{-1, issue[i], 50 * usMs, 150 * usMs, 250 * usMs, 600 * usMs} {
							c := mk("cancel", fmt.Sprintf("%s; request %d cancelled at %dus", st.desc, i, at), n, ver, mode, steps)
							c.Cancel, c.CancelUs = i, at
							yield(c)
						}
					}
				}
			}
		}
	}
}

// enumerateKeyed makes the request KEY a dimension of the hostile-reply
// families: ApiVersions on an established connection, Produce, Fetch, the SASL
// keys, JoinGroup (keyedFlavours), each with well-formed frames of its own
// response type. Requests are issued at distinct instants (stagger/late/after)
// so that the arrival time identifies which request sits in which slot.
//   - short: (all flavours, Metadata included) frame k is correctly framed but
//     its payload is only the first L bytes of the valid payload, for every
//     L = 0 .. header + 8 (so: shorter than a correlation id, exactly the
//     correlation id, 1, 2, ... body bytes), and payloads whose body is an
//     error-35 (UNSUPPORTED_VERSION) stub, which ApiVersions re-reads as v0;
//   - keyed-corr, keyed-trunc (cut at every byte), keyed-size, keyed-prefix
//     (<= 1 byte), keyed-tags (flexible response headers): the existing
//     corruption classes on the other keys' frames.
func enumerateKeyed(l limits, yield func(c *Case)) {
	maxN := 2
	if l.thorough {
		maxN = 3
	}
	modes := []string{"stagger", "late", "after"}
	mk := func(fam, desc string, n int, f flavour, mode string, steps []stepSpec) *Case {
		return &Case{Fam: fam, Desc: f.String() + ": " + desc, N: n, Key: f.Key, Ver: f.Ver, MaxRead: defaultMaxRead, Mode: mode, IssueUs: issueTimes(n, mode),
			Cancel: -1, Steps: steps}
	}
	frames := func(n int, f flavour) [][]byte {
		fs := make([][]byte, n)
		for pos := range fs {
			fs[pos] = respFrame(f.Key, f.Ver, corrOfSlot(pos), markerOf(pos), 0)
		}
		return fs
	}
	flexHeader := func(f flavour) bool {
		r := kmsg.ResponseForKey(f.Key)
		r.SetVersion(f.Ver)
		return r.IsFlexible() && f.Key != 18
	}

	// ---- short
	all := append([]flavour{{3, verPlain}, {3, verFlex}}, keyedFlavours...)
	stubs := [][]byte{
		{0x00, 0x23},
		{0x00, 0x23, 0x00},
		{0x00, 0x23, 0x00, 0x00, 0x00, 0x00},                                     // v0 ApiVersions body: error 35, no keys
		{0x00, 0x23, 0x00, 0x00, 0x00, 0x01, 0x00, 0x12, 0x00, 0x00, 0x00, 0x03}, // v0 body: error 35, ApiVersions [0,3]
		{0x23},
		{0xff, 0x23, 0xff},
	}
	for _, f := range all {
		hdr := 4
		if flexHeader(f) {
			hdr = 5
		}
		for n := 1; n <= maxN; n++ {
			fs := frames(n, f)
			for k := 0; k < n; k++ {
				payload := fs[k][4:]
				type variant struct {
					desc    string
					payload []byte
				}
				var vs []variant
				for L := 0; L <= min(len(payload), hdr+8); L++ {
					vs = append(vs, variant{fmt.Sprintf("payload is the first %d bytes of the valid %d (response header %d bytes)", L, len(payload), hdr), payload[:L]})
				}
				for _, s := range stubs {
					vs = append(vs, variant{fmt.Sprintf("payload is the response header followed by body %x", s), append(append([]byte(nil), payload[:hdr]...), s...)})
				}
				for _, v := range vs {
					nf := make([]byte, 4, 4+len(v.payload))
					binary.BigEndian.PutUint32(nf, uint32(len(v.payload)))
					nf = append(nf, v.payload...)
					chunks := append([][]byte(nil), fs...)
					chunks[k] = nf
					for _, mode := range modes[:2] {
						if n == 1 && mode != "stagger" {
							continue
						}
						for _, end := range []string{endIdle, endClose} {
							yield(mk("short", fmt.Sprintf("frame %d: %s, then %s", k, v.desc, end), n, f, mode, buildSteps(n, mode, chunks, -1, 0, end)))
						}
					}
				}
			}
		}
	}

	for _, f := range keyedFlavours {
		// ---- keyed-corr
		for n := 1; n <= maxN; n++ {
			var alphabet []int32
			for s := 0; s < n; s++ {
				alphabet = append(alphabet, corrOfSlot(s))
			}
			alphabet = append(alphabet, corrOfSlot(n-1)+1, 0, -1, 0x7fffffff)
			assign := make([]int32, n)
			var rec func(pos int, fn func())
			rec = func(pos int, fn func()) {
				if pos == n {
					fn()
					return
				}
				for _, a := range alphabet {
					assign[pos] = a
					rec(pos+1, fn)
				}
			}
			for _, mode := range modes {
				for _, end := range []string{endIdle, endClose} {
					rec(0, func() {
						chunks := make([][]byte, n)
						for pos := range chunks {
							chunks[pos] = respFrame(f.Key, f.Ver, assign[pos], markerOf(pos), 0)
						}
						yield(mk("keyed-corr", fmt.Sprintf("correlation ids %v, then %s", assign, end), n, f, mode, buildSteps(n, mode, chunks, -1, 0, end)))
					})
				}
			}
		}
		// ---- keyed-trunc
		for n := 1; n <= maxN; n++ {
			fs := frames(n, f)
			for _, mode := range modes {
				for k := 0; k < n; k++ {
					for o := 0; o < len(fs[k]); o++ {
						for _, end := range []string{endClose, endSilence, endResume} {
							yield(mk("keyed-trunc", fmt.Sprintf("frame %d cut after %d of %d bytes, then %s", k, o, len(fs[k]), end), n, f, mode,
								buildSteps(n, mode, fs, k, o, end)))
						}
					}
				}
			}
		}
		// ---- keyed-size
		for n := 1; n <= 2; n++ {
			for _, mode := range modes[:2] {
				for k := 0; k < n; k++ {
					fs := frames(n, f)
					exact := int32(len(fs[k]) - 4)
					type variant struct {
						name  string
						frame []byte
					}
					var vs []variant
					for _, v := range []int32{-1, -2147483648, 0, 1, 3, 4, 5, 6, 7, exact - 1, exact + 1, defaultMaxRead, defaultMaxRead + 1, 1<<31 - 1} {
						vs = append(vs, variant{fmt.Sprintf("size=%d (exact %d)", v, exact), setSize(fs[k], v)})
					}
					for _, v := range []int32{exact + 1, defaultMaxRead, defaultMaxRead + 1} {
						vs = append(vs, variant{fmt.Sprintf("size=%d with the payload zero-padded to it (exact %d)", v, exact), append(setSize(fs[k], v), make([]byte, int(v-exact))...)})
					}
					for _, v := range vs {
						for _, end := range []string{endIdle, endClose} {
							chunks := append([][]byte(nil), fs...)
							chunks[k] = v.frame
							yield(mk("keyed-size", fmt.Sprintf("frame %d: %s, then %s", k, v.name, end), n, f, mode, buildSteps(n, mode, chunks, -1, 0, end)))
						}
					}
				}
			}
		}
		// ---- keyed-prefix
		{
			fs := frames(1, f)
			for a := -1; a < 256; a++ {
				var p []byte
				if a >= 0 {
					p = []byte{byte(a)}
				}
				for _, end := range []string{endClose, endIdle} {
					yield(mk("keyed-prefix", fmt.Sprintf("garbage prefix %x before the frame, then %s", p, end), 1, f, "stagger",
						buildSteps(1, "stagger", [][]byte{append(append([]byte(nil), p...), fs[0]...)}, -1, 0, end)))
				}
			}
		}
		// ---- keyed-tags
		if flexHeader(f) {
			tagBufs := [][]byte{{0x01, 0x00, 0x00}, {0x01, 0x05, 0x02, 0xaa, 0xbb}, {0x01, 0x00, 0x7f}, {0x02, 0x00, 0x00}, {0x80}, {0xff, 0xff, 0xff, 0xff, 0xff}, {0x7f}, {0xff, 0x7f}}
			for n := 1; n <= 2; n++ {
				for k := 0; k < n; k++ {
					for ti, tb := range tagBufs {
						for _, keepBody := range []bool{true, false} {
							fs := frames(n, f)
							nf := append([]byte(nil), fs[k][:8]...)
							nf = append(nf, tb...)
							if keepBody {
								nf = append(nf, fs[k][9:]...)
							}
							nf = setSize(nf, int32(len(nf)-4))
							chunks := append([][]byte(nil), fs...)
							chunks[k] = nf
							for _, end := range []string{endIdle, endClose} {
								yield(mk("keyed-tags", fmt.Sprintf("frame %d: header tag buffer #%d %x (body kept=%v), then %s", k, ti, tb, keepBody, end), n, f, "stagger",
									buildSteps(n, "stagger", chunks, -1, 0, end)))
							}
						}
					}
				}
			}
		}
	}
}
