// Package c22 is the check for property C22 "Responses are matched to their
// requests; hostile bytes are safe". Everything lives in _test.go files
// because every enumerated case runs the real kgo client against a scripted
// broker (verif/checks/c21/sbroker) inside its own testing/synctest bubble
// (virtual clock: request timeouts cost nothing); run.sh compiles the package
// with `go test -c -tags synctests,verif` and runs TestVerifC22.
package c22
