#!/bin/bash
# C22: responses are matched to their requests; hostile bytes are safe
# (scripted broker, enumerated reply byte streams x request interleavings x
# cancellation, each case in a synctest bubble).
#   run.sh                      run the tier in $VERIF_TIER
#   run.sh --replay <artefact>  re-run one violation artefact (or a literal case JSON) verbosely
set -eu
cd "$(dirname "$0")/../.."
. bin/env.sh
if [ "${1:-}" = "--replay" ]; then
  case "$2" in
    \{*) export C22_REPLAY="$2" ;;
    *) export C22_REPLAY="$(readlink -f "$2")" ;;
  esac
  export VERIF_REPLAY=1
fi
go test -c -vet=off -tags synctests,verif -o "$BUILD/c22.test" ./checks/c22 || { echo "INFRA-ERROR: build failed" >&2; exit 2; }
exec "$BUILD/c22.test" -test.run '^TestVerifC22$' -test.timeout 0
